--------------------------- MODULE BMSimLifeTrace ---------------------------
(***************************************************************************)
(* Judges goroutine counts sampled from the REAL process (C17).            *)
(*  {"ev":"series","kind":k,"g0":G0,"bound":C}  a series of calls of kind  *)
(*      k starts; G0 goroutines were alive before the first call           *)
(*  {"ev":"sample","n":n,"g":G}   after n calls have returned (and a grace *)
(*      period) G goroutines are alive                                     *)
(* The property: G - G0 <= C for every n, with C independent of n.         *)
(***************************************************************************)
EXTENDS Integers, Sequences, TLC, Json, IOUtils
Trace == ndJsonDeserialize(IOEnv.TRACE)
VARIABLES l, err, g0, bound
tvars == <<l, err, g0, bound>>
TSeries == /\ l <= Len(Trace) /\ Trace[l].ev = "series" /\ l' = l + 1
           /\ g0' = Trace[l].g0 /\ bound' = Trace[l].bound /\ err' = ""
TSample == /\ l <= Len(Trace) /\ Trace[l].ev = "sample" /\ l' = l + 1 /\ UNCHANGED <<g0, bound>>
           /\ IF err # "" THEN UNCHANGED err
              ELSE LET bad == Trace[l].g - g0 > bound
                   IN  /\ err' = IF bad THEN "goroutines-grow-with-the-number-of-calls" ELSE ""
                       /\ bad => PrintT(<<"REJECT", l, "goroutines-grow-with-the-number-of-calls">>)
TraceInit == l = 1 /\ err = "" /\ g0 = 0 /\ bound = 0
TraceNext == TSeries \/ TSample
TraceSpec == TraceInit /\ [][TraceNext]_tvars
TraceAccepted == TLCGet("stats").diameter - 1 = Len(Trace)
=============================================================================
