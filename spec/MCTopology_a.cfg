SPECIFICATION Spec
CONSTANTS
 Catalogue <- Cat3
 MaxIn = 2
 MaxOut = 1
 MaxProc = 1
INVARIANT WellFormed
PROPERTY AbsSpec
CHECK_DEADLOCK FALSE
