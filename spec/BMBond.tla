------------------------------- MODULE BMBond -------------------------------
(***************************************************************************)
(* Property-level model of ONE bond (C04): a producer writes a sequence of *)
(* values to a handshaked output; every consumer bonded to it must receive *)
(* exactly that sequence.                                                  *)
(*                                                                         *)
(* State:  issued  - values the producer has put on the bond so far        *)
(*         pret    - how many sends the producer has retired (its pc moved *)
(*                   past the I/O instruction)                             *)
(*         cret[c] - how many receives consumer c has retired              *)
(*                                                                         *)
(* Events: Issue(v)      the producer starts sending v                     *)
(*         CRetire(c, v) consumer c completes a receive, capturing v       *)
(*         PRetire       the producer completes the current send           *)
(*                                                                         *)
(* The property, as enabling conditions:                                   *)
(*   CRetire(c, v) only if v is exactly the next value c has not yet had   *)
(*                 (no loss, no duplicate, no reordering, not early);      *)
(*   PRetire       only if every consumer already holds the current value  *)
(*                 (the producer does not proceed before the transfer).    *)
(* AtMostOneAhead and PrefixOrder then hold in every reachable state.      *)
(*                                                                         *)
(* Both the implementation-level models (BMBondSim, BMBondHdl) and the     *)
(* trace specification that judges the REAL simulator / REAL Verilog use   *)
(* the same operator Judge below, so there is one definition of the        *)
(* property.                                                               *)
(***************************************************************************)
EXTENDS Integers, Sequences, FiniteSets, TLC

CONSTANTS NCons,     \* number of consumers
          MaxSend    \* bound on the number of values (exploration only)

VARIABLES issued, pret, cret
bvars == <<issued, pret, cret>>

Cons == 1 .. NCons

BInit == issued = <<>> /\ pret = 0 /\ cret = [c \in Cons |-> 0]

Issue(v) ==
  /\ pret = Len(issued) /\ Len(issued) < MaxSend
  /\ issued' = Append(issued, v)
  /\ UNCHANGED <<pret, cret>>

CRetire(c, v) ==
  /\ cret[c] < Len(issued) /\ v = issued[cret[c] + 1]
  /\ cret' = [cret EXCEPT ![c] = @ + 1]
  /\ UNCHANGED <<issued, pret>>

PRetire ==
  /\ pret < Len(issued) /\ \A c \in Cons : cret[c] > pret
  /\ pret' = pret + 1
  /\ UNCHANGED <<issued, cret>>

BNext == (\E c \in Cons : CRetire(c, issued[cret[c] + 1])) \/ PRetire \/ Issue(Len(issued) + 1)
BSpec == BInit /\ [][BNext]_bvars

AtMostOneAhead == \A c \in Cons : Len(issued) - cret[c] \in {0, 1}
ProducerBehind == pret <= Len(issued) /\ Len(issued) - pret <= 1
NoEarlyProducer == \A c \in Cons : cret[c] >= pret
TypeOK == pret \in 0 .. MaxSend /\ cret \in [Cons -> 0 .. MaxSend]

-----------------------------------------------------------------------------
(***************************************************************************)
(* Judge: apply what happened in one tick / clock of an implementation to  *)
(* the abstract state.  Within one tick the events are taken in the most   *)
(* permissive order (issues, then consumer retires, then producer retire). *)
(*   st     = [issued, pret, cret]                                         *)
(*   iss    = sequence of values issued in this tick (0 or 1 element)      *)
(*   crs    = sequence of [c, v] consumer retires of this tick             *)
(*   pr     = TRUE iff the producer retired a send in this tick            *)
(* Result: [issued, pret, cret, err] ; err = "" iff the tick was legal.    *)
(***************************************************************************)
RECURSIVE ApplyCR(_, _, _)
ApplyCR(st, crs, i) ==
  IF i > Len(crs) \/ st.err # "" THEN st
  ELSE LET c == crs[i].c
           v == crs[i].v
           n == st.cret[c]
           e == IF n >= Len(st.issued)
                THEN (IF n > 0 /\ st.issued[n] = v THEN "dup" ELSE "phantom")
                ELSE IF st.issued[n + 1] = v THEN ""
                ELSE IF \E j \in n + 2 .. Len(st.issued) : st.issued[j] = v THEN "skip"
                ELSE IF \E j \in 1 .. n : st.issued[j] = v THEN "dup"
                ELSE "wrong-value"
       IN  ApplyCR([st EXCEPT !.cret[c] = n + 1, !.err = e], crs, i + 1)

Judge(st0, iss, crs, pr) ==
  LET s1 == IF Len(iss) = 0 THEN [st0 EXCEPT !.err = ""]
            ELSE [st0 EXCEPT !.issued = Append(st0.issued, iss[1]),
                             !.err = IF st0.pret # Len(st0.issued) THEN "overlap" ELSE ""]
      s2 == ApplyCR(s1, crs, 1)
      s3 == IF ~pr \/ s2.err # "" THEN s2
            ELSE [s2 EXCEPT !.pret = s2.pret + 1,
                            !.err = IF s2.pret >= Len(s2.issued) THEN "phantom-retire"
                                    ELSE IF \E c \in DOMAIN s2.cret : s2.cret[c] <= s2.pret THEN "loss"
                                    ELSE ""]
  IN  s3
=============================================================================
