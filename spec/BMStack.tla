------------------------------ MODULE BMStack ------------------------------
(***************************************************************************)
(* C13 — generated stacks and queues (pkg/bmstack/stackfile.go).           *)
(*                                                                         *)
(* Two levels in one module, related by the refinement mapping Store:      *)
(*                                                                         *)
(* IMPLEMENTATION level: the registers of the generated module — memory,   *)
(* sp, readsp, writesp, sendSM, recvSM, the ack registers and the read     *)
(* data registers — and its input lines (write/read requests and write     *)
(* data).  Action Clock is a register-exact transcription of the template's *)
(* always block (non-blocking assignments: every right-hand side reads the *)
(* pre-state), with the register widths bits(Depth+1), bits(#senders),     *)
(* bits(#receivers) and truncation.  After the edge the environment moves: *)
(* every agent follows the handshake protocol (raise a request only when   *)
(* its ack is low, hold request and data until acknowledged, then drop)    *)
(* but is otherwise free, so every environment strategy is explored.       *)
(*                                                                         *)
(* PROPERTY level: the abstract sequence Store (the live slice of memory)  *)
(* and the statements of C13 as invariants / action properties:            *)
(*   a rising write ack appends that sender's data exactly once;           *)
(*   a rising read ack returns and removes the element the discipline      *)
(*   prescribes; nothing is accepted when full or returned when empty;     *)
(*   empty/full reflect the number of stored elements; at most one         *)
(*   transfer per clock; acks fall only after the request fell; a          *)
(*   continuously requesting agent is acknowledged within a bounded number *)
(*   of clocks once space/data is available.                               *)
(***************************************************************************)
EXTENDS Integers, Sequences, FiniteSets, TLC

CONSTANTS Kind,     \* "LIFO" or "FIFO"
          Depth, NS, NR,
          DMax,     \* data values 0 .. DMax
          WaitBound,\* bound of the bounded-response property (clocks)
          Prompt    \* TRUE: an acknowledged agent drops its request at once ("the other agents
                    \* complete their own handshakes", the proviso of the bounded-response property)

VARIABLES mem, sp, readsp, writesp, sendSM, recvSM, sAck, rAck, rData,   \* registers
          sWrite, sData, rRead,                                          \* input lines
          sWait, rWait                                                   \* clocks an eligible request has waited

regs   == <<mem, sp, readsp, writesp, sendSM, recvSM, sAck, rAck, rData>>
inputs == <<sWrite, sData, rRead>>
vars   == <<regs, inputs, sWait, rWait>>

Senders   == 0 .. NS - 1
Receivers == 0 .. NR - 1
Data      == 0 .. DMax

Pow2(n) == 2 ^ n
\* bmstack.NeededBits
NeededBits(n) == IF n <= 0 THEN 0 ELSE CHOOSE b \in 1 .. 16 : Pow2(b) >= n /\ \A c \in 1 .. b - 1 : Pow2(c) < n
SpBits == NeededBits(Depth + 1)
Trunc(v, bits) == v % Pow2(bits)

empty == sp = 0
full  == sp = Depth
readneed  == \E r \in Receivers : rRead[r]
writeneed == \E s \in Senders : sWrite[s]

Init ==
  /\ mem = [i \in 0 .. Depth - 1 |-> 0] /\ sp = 0 /\ readsp = 0 /\ writesp = 0
  /\ sendSM = 0 /\ recvSM = 0
  /\ sAck = [s \in Senders |-> FALSE] /\ rAck = [r \in Receivers |-> FALSE]
  /\ rData = [r \in Receivers |-> 0]
  /\ sWrite = [s \in Senders |-> FALSE] /\ sData = [s \in Senders |-> 0] /\ rRead = [r \in Receivers |-> FALSE]
  /\ sWait = [s \in Senders |-> 0] /\ rWait = [r \in Receivers |-> 0]

(***************************************************************************)
(* The clock edge, as the template computes it.                            *)
(***************************************************************************)
doRead  == readneed /\ ~empty
doWrite == ~doRead /\ writeneed /\ ~full
\* the receiver / sender served by the case statement (none when the state machine register holds
\* a value without a case arm)
rSel == IF recvSM \in Receivers THEN recvSM ELSE -1
sSel == IF sendSM \in Senders THEN sendSM ELSE -1
rXfer == doRead  /\ rSel # -1 /\ rRead[rSel]  /\ ~rAck[rSel]
sXfer == doWrite /\ sSel # -1 /\ sWrite[sSel] /\ ~sAck[sSel]

ClockRegs ==
  /\ recvSM' = IF doRead /\ rSel # -1 THEN (IF rSel < NR - 1 THEN rSel + 1 ELSE 0) ELSE recvSM
  /\ sendSM' = IF doWrite /\ sSel # -1 THEN (IF sSel < NS - 1 THEN sSel + 1 ELSE 0) ELSE sendSM
  /\ IF Kind = "LIFO"
     THEN /\ rData' = IF rXfer THEN [rData EXCEPT ![rSel] = mem[sp - 1]] ELSE rData
          /\ mem' = IF sXfer THEN [mem EXCEPT ![sp] = sData[sSel]] ELSE mem
          /\ sp' = IF rXfer THEN Trunc(sp - 1, SpBits) ELSE IF sXfer THEN Trunc(sp + 1, SpBits) ELSE sp
          /\ UNCHANGED <<readsp, writesp>>
     ELSE /\ rData' = IF rXfer THEN [rData EXCEPT ![rSel] = mem[readsp]] ELSE rData
          /\ mem' = IF sXfer THEN [mem EXCEPT ![writesp] = sData[sSel]] ELSE mem
          /\ readsp' = IF rXfer THEN (IF readsp = Depth - 1 THEN 0 ELSE Trunc(readsp + 1, SpBits)) ELSE readsp
          /\ writesp' = IF sXfer THEN (IF writesp = Depth - 1 THEN 0 ELSE Trunc(writesp + 1, SpBits)) ELSE writesp
          /\ sp' = IF rXfer
                   THEN (IF readsp = Depth - 1 THEN writesp
                         ELSE IF writesp < readsp + 1 THEN Trunc(Depth - readsp - 1 + writesp, SpBits)
                         ELSE Trunc(writesp - readsp - 1, SpBits))
                   ELSE IF sXfer
                   THEN (IF writesp = Depth - 1 THEN Trunc(Depth - readsp, SpBits)
                         ELSE IF writesp + 1 > readsp THEN Trunc(writesp - readsp + 1, SpBits)
                         ELSE Trunc(Depth - readsp + writesp + 1, SpBits))
                   ELSE sp
  \* read ack process / write ack process
  /\ rAck' = [r \in Receivers |->
                IF rRead[r] /\ ~rAck[r] /\ recvSM = r /\ ~empty THEN TRUE
                ELSE IF ~rRead[r] THEN FALSE ELSE rAck[r]]
  /\ sAck' = [s \in Senders |->
                IF ~doRead /\ sWrite[s] /\ ~sAck[s] /\ sendSM = s /\ ~full THEN TRUE
                ELSE IF ~sWrite[s] THEN FALSE ELSE sAck[s]]

(***************************************************************************)
(* The environment, after the edge: protocol-abiding agents.               *)
(***************************************************************************)
EnvMove ==
  /\ sWrite' \in [Senders -> BOOLEAN] /\ sData' \in [Senders -> Data] /\ rRead' \in [Receivers -> BOOLEAN]
  /\ \A s \in Senders :
       /\ (sWrite[s] /\ ~sAck'[s]) => (sWrite'[s] /\ sData'[s] = sData[s])   \* hold until acknowledged
       /\ (sWrite[s] /\ sAck'[s]) => sData'[s] = sData[s] \/ ~sWrite'[s]      \* may hold or drop; data stable
       /\ (Prompt /\ sWrite[s] /\ sAck'[s]) => ~sWrite'[s]
       /\ (~sWrite[s] /\ sAck'[s]) => ~sWrite'[s]                             \* raise only when ack is low
       /\ ~sWrite'[s] => sData'[s] = 0                                        \* (idle data line is 0: fewer states)
  /\ \A r \in Receivers :
       /\ (rRead[r] /\ ~rAck'[r]) => rRead'[r]
       /\ (~rRead[r] /\ rAck'[r]) => ~rRead'[r]
       /\ (Prompt /\ rRead[r] /\ rAck'[r]) => ~rRead'[r]

\* waiting counters for the bounded-response property: a request that is eligible (space/data
\* available at the edge) and not acknowledged by the edge has waited one more clock
Sat(n) == IF n > WaitBound + 1 THEN WaitBound + 1 ELSE n     \* saturating: keeps the state space finite
Waits ==
  /\ sWait' = [s \in Senders |-> IF Prompt /\ sWrite[s] /\ ~sAck[s] /\ ~sAck'[s] /\ ~full THEN Sat(sWait[s] + 1) ELSE 0]
  /\ rWait' = [r \in Receivers |-> IF Prompt /\ rRead[r] /\ ~rAck[r] /\ ~rAck'[r] /\ ~empty THEN Sat(rWait[r] + 1) ELSE 0]

Clock == ClockRegs /\ EnvMove /\ Waits
Next == Clock
Spec == Init /\ [][Next]_vars

-----------------------------------------------------------------------------
(***************************************************************************)
(* Refinement mapping and the property.                                    *)
(***************************************************************************)
\* the stored sequence, oldest first (LIFO: bottom first)
Store ==
  IF Kind = "LIFO" THEN [i \in 1 .. sp |-> mem[i - 1]]
  ELSE [i \in 1 .. sp |-> mem[(readsp + i - 1) % Depth]]

TypeOK ==
  /\ sp \in 0 .. Depth /\ readsp \in 0 .. Depth - 1 /\ writesp \in 0 .. Depth - 1
  /\ sendSM \in Senders /\ recvSM \in Receivers
  /\ (Kind = "FIFO" /\ sp < Depth) => (writesp - readsp) % Depth = sp
  /\ (Kind = "FIFO" /\ sp = Depth) => writesp = readsp

\* what each clock does to the abstract sequence, stated on acks (the interface), not on the
\* implementation's internal transfer signals
RiseS == {s \in Senders : ~sAck[s] /\ sAck'[s]}
RiseR == {r \in Receivers : ~rAck[r] /\ rAck'[r]}

StepProperty ==
  /\ Cardinality(RiseS) + Cardinality(RiseR) <= 1                       \* one transfer per clock
  /\ \A s \in RiseS : /\ sWrite[s] /\ Len(Store) < Depth                \* requested, not full
                      /\ Store' = Append(Store, sData[s])               \* stored exactly once
  /\ \A r \in RiseR : /\ rRead[r] /\ Len(Store) > 0                     \* requested, not empty
                      /\ IF Kind = "LIFO"
                         THEN rData'[r] = Store[Len(Store)] /\ Store' = SubSeq(Store, 1, Len(Store) - 1)
                         ELSE rData'[r] = Store[1] /\ Store' = SubSeq(Store, 2, Len(Store))
  /\ (RiseS = {} /\ RiseR = {}) => Store' = Store                       \* nothing else changes it
  /\ \A s \in Senders : (sAck[s] /\ ~sAck'[s]) => ~sWrite[s]            \* acks fall only after the request fell
  /\ \A r \in Receivers : (rAck[r] /\ ~rAck'[r]) => ~rRead[r]
  /\ \A r \in Receivers : r \notin RiseR => rData'[r] = rData[r]        \* returned data is stable

StepOK == [][StepProperty]_vars

FlagsOK == (empty <=> Len(Store) = 0) /\ (full <=> Len(Store) = Depth)

\* bounded response (safety form): an eligible request never waits more than WaitBound clocks
BoundedResponse == (\A s \in Senders : sWait[s] <= WaitBound) /\ (\A r \in Receivers : rWait[r] <= WaitBound)
=============================================================================
