SPECIFICATION Spec
POSTCONDITION AllRuns
CHECK_DEADLOCK FALSE
