------------------------------- MODULE NumLit -------------------------------
(***************************************************************************)
(* C08, part 2: what a numeric literal DENOTES and what the printers must  *)
(* print, for the integer-like notations of pkg/bmnumbers:                 *)
(*   "dec"  123        "0u" 0u123      "0d" 0d123        (64-bit unsigned) *)
(*   "0uS"  0u<n>123   "0dS" 0d<n>123                    (n-bit unsigned)  *)
(*   "0b"   0b101      "0bS" 0b<n>101                    (bin)             *)
(*   "0x"   0x1f       "0xS" 0x<n>1f                     (hex)             *)
(* A literal is [nt, size, digits] with digits most significant first in   *)
(* the notation's base.  Den gives [ok, value, width, type]; the printers  *)
(* (ExportBinary, ExportBinaryNBits, ExportVerilogBinary, ExportString)    *)
(* are functions of the denotation.  TLC checks the laws on this           *)
(* specification (WidthLaw, RoundTrip) for every row of the bounded domain *)
(* and writes the table that the harness replays on the real library.      *)
(***************************************************************************)
EXTENDS Integers, Sequences, FiniteSets, TLC, Json, IOUtils, SequencesExt

CONSTANTS MaxBinLen, MaxHexLen, Sizes     \* bounds of the enumerated domain

VARIABLE row

Pow2(n) == 2 ^ n
Base(nt) == IF nt \in {"0b", "0bS"} THEN 2 ELSE IF nt \in {"0x", "0xS"} THEN 16 ELSE 10

RECURSIVE Val(_, _)
Val(ds, base) == IF Len(ds) = 0 THEN 0 ELSE Val(SubSeq(ds, 1, Len(ds) - 1), base) * base + ds[Len(ds)]

Bad == [ok |-> FALSE, value |-> 0, width |-> 0, type |-> ""]
Good(v, w, t) == [ok |-> TRUE, value |-> v, width |-> w, type |-> t]

Den(lit) ==
  LET v == Val(lit.digits, Base(lit.nt))
      n == Len(lit.digits)
      s == lit.size
  IN  CASE lit.nt \in {"dec", "0u", "0d"} -> Good(v, 64, "unsigned")
        [] lit.nt \in {"0uS", "0dS"} -> IF s >= 1 /\ s <= 64 /\ v < Pow2(s) THEN Good(v, s, "unsigned") ELSE Bad
        [] lit.nt = "0b"  -> Good(v, n, "bin")
        [] lit.nt = "0bS" -> IF n <= s THEN Good(v, s, "bin") ELSE Bad
        [] lit.nt = "0x"  -> Good(v, 8 * ((n + 1) \div 2), "hex")
        [] lit.nt = "0xS" -> IF s % 8 = 0 /\ 8 * ((n + 1) \div 2) <= s THEN Good(v, s, "hex") ELSE Bad

\* ---- printers -------------------------------------------------------------------------------
RECURSIVE Digits(_, _)
Digits(v, base) == IF v < base THEN <<v>> ELSE Digits(v \div base, base) \o <<v % base>>
MinBin(v) == Digits(v, 2)                                   \* ExportBinary(false)
ToBits(v, w) == [i \in 1 .. w |-> (v \div Pow2(w - i)) % 2]
BinN(v, n) == IF Len(MinBin(v)) <= n THEN [ok |-> TRUE, bits |-> ToBits(v, n)] ELSE [ok |-> FALSE, bits |-> <<>>]
\* ExportString, as the literal it prints
Str(d) ==
  CASE d.type = "unsigned" -> [nt |-> "dec", size |-> 0, digits |-> Digits(d.value, 10)]
    [] d.type = "bin" -> [nt |-> "0bS", size |-> d.width, digits |-> MinBin(d.value)]
    [] d.type = "hex" -> [nt |-> "0xS", size |-> d.width, digits |-> Digits(d.value, 16)]

\* ---- the bounded domain ---------------------------------------------------------------------
RECURSIVE Seqs(_, _)
Seqs(S, n) == IF n = 0 THEN {<<>>} ELSE {<<x>> \o t : x \in S, t \in Seqs(S, n - 1)}
SeqsUpTo(S, n) == UNION {Seqs(S, k) : k \in 1 .. n}

DecDigits == SeqsUpTo({0, 1, 9}, 3) \cup {<<2, 5, 5>>, <<2, 5, 6>>, <<6, 5, 5, 3, 5>>, <<6, 5, 5, 3, 6>>,
                                           <<1, 0, 7, 3, 7, 4, 1, 8, 2, 3>>}
BinDigits == SeqsUpTo({0, 1}, MaxBinLen)
HexDigits == SeqsUpTo({0, 1, 9, 10, 15}, MaxHexLen)

Lits ==
  {[nt |-> nt, size |-> 0, digits |-> d] : nt \in {"dec", "0u", "0d"}, d \in DecDigits} \cup
  {[nt |-> nt, size |-> s, digits |-> d] : nt \in {"0uS", "0dS"}, s \in Sizes, d \in DecDigits} \cup
  {[nt |-> "0b", size |-> 0, digits |-> d] : d \in BinDigits} \cup
  {[nt |-> "0bS", size |-> s, digits |-> d] : s \in Sizes, d \in BinDigits} \cup
  {[nt |-> "0x", size |-> 0, digits |-> d] : d \in HexDigits} \cup
  {[nt |-> "0xS", size |-> s, digits |-> d] : s \in Sizes, d \in HexDigits}

\* widths asked of ExportBinaryNBits (TLC integers are 32 bit: nothing above 30)
NSet(d) == {n \in {1, Len(MinBin(d.value)), d.width, d.width + 3, 24} : n <= 30}

RowOf(lit) ==
  LET d == Den(lit)
  IN  IF ~d.ok THEN [lit |-> lit, den |-> d]
      ELSE [lit |-> lit, den |-> d, minbin |-> MinBin(d.value),
            nbits |-> [n \in NSet(d) |-> BinN(d.value, n)],
            verilog |-> IF d.width <= 30 THEN ToBits(d.value, d.width) ELSE <<>>,
            str |-> Str(d)]
Rows == {RowOf(l) : l \in Lits}

Init == row \in Rows
Next == UNCHANGED row
Spec == Init /\ [][Next]_row

\* ---- laws, on the specification -------------------------------------------------------------
\* the binary exports have exactly the stated width
WidthLaw == row.den.ok =>
              /\ \A n \in DOMAIN row.nbits : row.nbits[n].ok => Len(row.nbits[n].bits) = n
              /\ (row.den.width \in DOMAIN row.nbits => row.nbits[row.den.width].ok)   \* a value fits its own width
\* printing then parsing returns the same bits and type (and the width where the text states it)
RoundTrip == row.den.ok =>
               LET back == Den(row.str)
               IN  /\ back.ok /\ back.value = row.den.value /\ back.type = row.den.type
                   /\ (row.den.type # "unsigned" => back.width = row.den.width)

\* ndJsonSerialize cannot print functions with integer domain as objects with the right keys, so
\* nbits is exported as a sequence of [n, ok, bits]
Export(r) ==
  IF ~r.den.ok THEN r
  ELSE [lit |-> r.lit, den |-> r.den, minbin |-> r.minbin, verilog |-> r.verilog, str |-> r.str,
        nbits |-> SetToSeq({[n |-> n, ok |-> r.nbits[n].ok, bits |-> r.nbits[n].bits] : n \in DOMAIN r.nbits})]
ASSUME ndJsonSerialize(IOEnv.ROWS, SetToSeq({Export(r) : r \in Rows}))

\* ---- widths beyond TLC's integers ---------------------------------------------------------------
\* The same laws on numbers written as bit sequences (most significant first): a sized literal is
\* accepted iff its significant bits fit the stated width, the width is the stated one and the binary
\* exports are the bits padded to it.  The harness writes the digits of each row in the notation's
\* base with arbitrary-precision arithmetic.
WideSizes == {31, 32, 33, 40, 48, 56, 63, 64}
Ones(n) == [i \in 1 .. n |-> 1]
Zeros(n) == [i \in 1 .. n |-> 0]
RECURSIVE Strip(_)
Strip(b) == IF Len(b) <= 1 \/ b[1] = 1 THEN b ELSE Strip(Tail(b))
\* the values 2^s - 1, 2^(s-1), 2^(s-1) + 1, 1 (fit) and 2^s, 2^s + 1, 2^(s+1) - 1 (do not fit)
WideBits(sz) == {Ones(sz), <<1>> \o Zeros(sz - 1), <<1>> \o Zeros(sz - 2) \o <<1>>, <<1>>,
                 <<1>> \o Zeros(sz), <<1>> \o Zeros(sz - 1) \o <<1>>, Ones(sz + 1)}
WideDen(nt, sz, b) ==
  LET sig == Len(Strip(b))
  IN  CASE nt \in {"0uS", "0dS"} -> [ok |-> sig <= sz, width |-> sz, type |-> "unsigned"]
        [] nt = "0bS" -> [ok |-> Len(b) <= sz, width |-> sz, type |-> "bin"]
        [] nt = "0xS" -> [ok |-> sz % 8 = 0 /\ 8 * ((((Len(b) + 3) \div 4) + 1) \div 2) <= sz, width |-> sz, type |-> "hex"]
WideRow(nt, sz, b) == [nt |-> nt, size |-> sz, bits |-> b, den |-> WideDen(nt, sz, b),
                       padded |-> IF Len(Strip(b)) <= sz THEN Zeros(sz - Len(Strip(b))) \o Strip(b) ELSE <<>>]
WideRows == UNION {{WideRow(nt, sz, b) : nt \in {"0uS", "0dS", "0bS", "0xS"}, b \in WideBits(sz)} : sz \in WideSizes}
\* a value that fits is exported on exactly the stated number of bits
WideWidthLaw == \A w \in WideRows : (w.den.ok /\ w.nt # "0xS") => Len(w.padded) = w.size
ASSUME WideWidthLaw

\* ---- strings that are not literals -----------------------------------------------------------
\* Spellings of other languages that no notation of the library claims: every entry point that reads a
\* number (the importer, and the assembler's Process_number, which must agree with it on every literal)
\* refuses them.
NotLiterals == {"0o17", "1_000", "0B101", "0b", "0x", "1e3", "--1", "0u<8>", "0b<4>2"}
ASSUME ndJsonSerialize(IOEnv.NOTLITS, SetToSeq({[text |-> t] : t \in NotLiterals}))

\* ---- the linear quantiser ---------------------------------------------------------------------
\* 0lq<s.t>x with range t = [-Max, Max) cut into 2^s bands: x denotes the number of its band as an
\* s-bit two's complement pattern (band k covers k * Max / 2^(s-1)).  Rows [size, band, bits]; the
\* harness writes x for Max = 8.
LQSizes == {2, 3, 7, 8, 9, 15, 16, 17, 24}
LQBands(sz) == {0, 1, -1, Pow2(sz - 1) - 1, -(Pow2(sz - 1) - 1), Pow2(sz - 2), -Pow2(sz - 2), 3 % Pow2(sz - 1), -(3 % Pow2(sz - 1))}
TwoC(k, sz) == ToBits(IF k >= 0 THEN k ELSE Pow2(sz) + k, sz)
LQRows == UNION {{[size |-> sz, band |-> k, bits |-> TwoC(k, sz)] : k \in LQBands(sz)} : sz \in LQSizes}
ASSUME \A q \in LQRows : Len(q.bits) = q.size
ASSUME ndJsonSerialize(IOEnv.LQROWS, SetToSeq(LQRows))
ASSUME ndJsonSerialize(IOEnv.WIDEROWS, SetToSeq(WideRows))
=============================================================================
