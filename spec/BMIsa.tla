------------------------------- MODULE BMIsa -------------------------------
(***************************************************************************)
(* The BondMachine instruction set, encoding half (C03, used by C01/C16).  *)
(*                                                                         *)
(* An architecture is a record                                             *)
(*   [rsize, R, N, M, L, O, ops, ws, mode]                                 *)
(* (register size, register-index bits, inputs, outputs, RAM address bits, *)
(* ROM address bits, the opcode list in the order of the Op slice, and the *)
(* WordSize override, 0 = automatic).  Every opcode has a FORMAT: the list *)
(* of its operand field kinds.  The encoding is the one conproc.go /       *)
(* arch.go / op_*.go implement: opcode index on OpBits bits, then every    *)
(* field on its width, most significant bit first, then zero padding up to *)
(* MaxWord.                                                                *)
(*                                                                         *)
(* The property (C03) as theorems about Encode, checked by TLC over the    *)
(* bounded domain Rows:                                                    *)
(*   FixedWidth  Len(Encode(a, op, xs)) = MaxWord(a)                       *)
(*   Lossless    Decode(a, Encode(a, op, xs)) = <<op, xs>>                 *)
(*   RangeCheck  Encode is defined exactly for operands that fit           *)
(* and the table of expected results is replayed row by row on the real    *)
(* Arch.Assembler / Machine.Disassembler.                                  *)
(***************************************************************************)
EXTENDS Integers, Sequences, FiniteSets, TLC

Pow2(n) == 2 ^ n

\* conproc.go: Opcodes_bits / Inputs_bits / Outputs_bits: least b >= 1 with 2^b >= n
BitsFor(n) == CHOOSE b \in 1 .. 16 : Pow2(b) >= n /\ \A c \in 1 .. b - 1 : Pow2(c) < n

\* An architecture record carries its derived widths (computed once by MkArch below):
\*   opbits = BitsFor(number of opcodes), inbits = BitsFor(N), outbits = BitsFor(M), mw = MaxWord
OpBits(a)  == a.opbits
InBits(a)  == a.inbits
OutBits(a) == a.outbits

(***************************************************************************)
(* Format table.  Field kinds: "reg" register index, "in" input index,     *)
(* "out" output index, "rom" ROM address, "ram" RAM address, "imm"         *)
(* register-sized immediate.  Opcodes that address shared objects or video *)
(* memory take their field widths from the shared-object constraints and   *)
(* are outside this table (hit k2r lfsr82r q2r r2q r2t r2u t2r u2r wrd wwr *)
(* r2v r2vri tsp).                                                         *)
(***************************************************************************)
F0   == <<>>
FR   == <<"reg">>
FRR  == <<"reg", "reg">>
FRI  == <<"reg", "in">>
FRO  == <<"reg", "out">>
FO   == <<"rom">>
FL   == <<"ram">>
FRRom == <<"reg", "rom">>
FRRam == <<"reg", "ram">>

Fmt ==
  [o \in {"clc", "cset", "dpc", "hlt", "je", "nop", "r2s", "s2r"} |-> F0] @@
  [o \in {"addi", "chw", "cil", "cilc", "cir", "cirn", "clr", "dec", "expf", "inc", "incc",
          "jcmpria", "jcmprio", "jri", "jria", "jrio"} |-> FR] @@
  [o \in {"adc", "add", "addf", "addf16", "addp", "and", "chc", "cmpr", "cmprlt", "cpy", "div",
          "divf", "divf16", "divp", "mod", "mulc", "mult", "multf", "multf16", "multp", "nand",
          "nor", "not", "or", "r2mri", "ro2rri", "m2rri", "rsc", "sbc", "sub", "xnor", "xor"} |-> FRR] @@
  [o \in {"i2r", "i2rw", "sic", "sicv3"} |-> FRI] @@
  [o \in {"cmpv"} |-> <<"in">>] @@
  [o \in {"sicv2"} |-> <<"reg", "in", "in">>] @@
  [o \in {"r2o", "r2owa", "r2owaa"} |-> FRO] @@
  \* "loc": a program location whose width depends on the execution mode (ha: ROM address bits,
  \* vn: RAM address bits, hy: the larger of the two), as coded in op_j.go and its siblings
  [o \in {"j", "jcmpl", "jcmpo", "jo", "saj", "ja", "jcmpa"} |-> <<"loc">>] @@
  [o \in {"jc"} |-> FO] @@
  [o \in {"jgt0f", "jz", "ro2r"} |-> FRRom] @@
  [o \in {"m2r", "r2m"} |-> FRRam] @@
  [o \in {"rset"} |-> <<"reg", "imm">>] @@
  \* the dynamically named family rsets<k>: a register and an immediate of exactly k bits
  [o \in {"rsets" \o ToString(k) : k \in 1 .. 32} |->
     <<"reg", "imm" \o ToString(CHOOSE k \in 1 .. 32 : o = "rsets" \o ToString(k))>>]

KnownOps == DOMAIN Fmt
ImmK == [kind \in {"imm" \o ToString(k) : k \in 1 .. 32} |-> CHOOSE k \in 1 .. 32 : kind = "imm" \o ToString(k)]

LocBits(a) == IF a.mode = "ha" THEN a.O ELSE IF a.mode = "vn" THEN a.L ELSE (IF a.O > a.L THEN a.O ELSE a.L)

Width(a, kind) ==
  CASE kind = "reg" -> a.R
    [] kind = "in"  -> InBits(a)
    [] kind = "out" -> OutBits(a)
    [] kind = "rom" -> a.O
    [] kind = "ram" -> a.L
    [] kind = "imm" -> a.rsize
    [] kind = "loc" -> LocBits(a)
    [] OTHER -> ImmK[kind]

\* an operand fits iff it is below Limit
Limit(a, kind) ==
  CASE kind = "reg" -> Pow2(a.R)
    [] kind = "in"  -> a.N
    [] kind = "out" -> a.M
    [] kind = "rom" -> Pow2(a.O)
    [] kind = "ram" -> Pow2(a.L)
    [] kind = "imm" -> Pow2(a.rsize)
    [] kind = "loc" -> Pow2(LocBits(a))
    [] OTHER -> Pow2(ImmK[kind])

RECURSIVE SumW(_, _, _)
SumW(a, f, i) == IF i > Len(f) THEN 0 ELSE Width(a, f[i]) + SumW(a, f, i + 1)

\* jo / jcmpo jump to ROM locations and are coded for the ha and hy modes only; ja / jcmpa jump to
\* RAM locations and are coded for vn and hy only.  In the other mode their declared length is 0
\* (Op_get_instruction_len falls through): they are not instructions of such an architecture.
ModeOK(a, op) ==
  /\ (op \in {"jo", "jcmpo"} => a.mode \in {"ha", "hy"})
  /\ (op \in {"ja", "jcmpa"} => a.mode \in {"vn", "hy"})

InstrLen(a, op) == IF ModeOK(a, op) THEN OpBits(a) + SumW(a, Fmt[op], 1) ELSE 0

RECURSIVE MaxLen(_, _)
MaxLen(a, i) == IF i > Len(a.ops) THEN 1
                ELSE LET r == MaxLen(a, i + 1) n == InstrLen(a, a.ops[i]) IN IF n > r THEN n ELSE r

MaxWord(a) == a.mw

\* base = [rsize, R, N, M, L, O, ops, mode]; extra = 0 for the automatic word size, otherwise the
\* WordSize override is MaxLen + extra
MkArch(base, extra) ==
  LET a1 == base @@ [opbits |-> BitsFor(Len(base.ops)), inbits |-> BitsFor(base.N), outbits |-> BitsFor(base.M)]
      ml == MaxLen(a1, 1)
  IN  a1 @@ [ws |-> IF extra = 0 THEN 0 ELSE ml + extra, mw |-> ml + extra, natural |-> ml]

\* value v on w bits, most significant first (w >= number of significant bits)
ToBits(v, w) == [i \in 1 .. w |-> (v \div Pow2(w - i)) % 2]
RECURSIVE FromBits(_)
FromBits(b) == IF Len(b) = 0 THEN 0 ELSE 2 * FromBits(SubSeq(b, 1, Len(b) - 1)) + b[Len(b)]

OpIndex(a, op) == CHOOSE i \in 1 .. Len(a.ops) : a.ops[i] = op

InRange(a, op, xs) == \A i \in 1 .. Len(xs) : xs[i] >= 0 /\ xs[i] < Limit(a, Fmt[op][i])

RECURSIVE Fields(_, _, _, _)
Fields(a, f, xs, i) == IF i > Len(f) THEN <<>> ELSE ToBits(xs[i], Width(a, f[i])) \o Fields(a, f, xs, i + 1)

\* defined (a bit sequence) only when InRange; the caller tests InRange first
Encode(a, op, xs) ==
  LET body == ToBits(OpIndex(a, op) - 1, OpBits(a)) \o Fields(a, Fmt[op], xs, 1)
  IN  body \o [i \in 1 .. MaxWord(a) - Len(body) |-> 0]

RECURSIVE DecFields(_, _, _, _, _)
DecFields(a, f, w, pos, i) ==
  IF i > Len(f) THEN <<>>
  ELSE <<FromBits(SubSeq(w, pos, pos + Width(a, f[i]) - 1))>> \o DecFields(a, f, w, pos + Width(a, f[i]), i + 1)

Decode(a, w) ==
  LET op == a.ops[FromBits(SubSeq(w, 1, OpBits(a))) + 1]
  IN  <<op, DecFields(a, Fmt[op], w, OpBits(a) + 1, 1)>>

\* an architecture whose word can hold every instruction of its opcode list
ArchOK(a) == /\ \A i \in 1 .. Len(a.ops) : a.ops[i] \in KnownOps
             /\ MaxWord(a) >= a.natural
=============================================================================
