--------------------------- MODULE BMTopologyAbs ---------------------------
(***************************************************************************)
(* Property-level model of a BondMachine's topology (C10, C11).            *)
(*                                                                         *)
(* The state is what the property talks about: how many external inputs   *)
(* and outputs exist, which processors exist (and the port counts of their *)
(* domains) and a set of BONDS between NAMED endpoints.  Nothing here      *)
(* knows about index arrays, link slots or their order.                    *)
(*                                                                         *)
(* An endpoint is a record [mt, res, ext] (the same triple the code calls  *)
(* Bond): mt = 0 external input iK, 1 external output oK, 2 processor      *)
(* input pXiY, 3 processor output pXoY.  A bond is <<source, sink>>.       *)
(***************************************************************************)
EXTENDS Integers, Sequences, FiniteSets, TLC

VARIABLES anin,    \* number of external inputs
          anout,   \* number of external outputs
          aprocs,  \* sequence of domain ids (0-based), one per processor
          adoms,   \* sequence of [n, m]: inputs/outputs of each domain
          bonds    \* set of <<source endpoint, sink endpoint>>

avars == <<anin, anout, aprocs, adoms, bonds>>

B(mt, res, ext) == [mt |-> mt, res |-> res, ext |-> ext]

NameStr(b) ==
  CASE b.mt = 0 -> "i" \o ToString(b.res)
    [] b.mt = 1 -> "o" \o ToString(b.res)
    [] b.mt = 2 -> "p" \o ToString(b.res) \o "i" \o ToString(b.ext)
    [] b.mt = 3 -> "p" \o ToString(b.res) \o "o" \o ToString(b.ext)

\* Endpoints that exist in a machine with the given shape.
SinksOf(nout, procs, doms) ==
  {B(1, k, 0) : k \in 0 .. nout - 1} \cup
  UNION {{B(2, p, x) : x \in 0 .. doms[procs[p + 1] + 1].n - 1} : p \in 0 .. Len(procs) - 1}

SourcesOf(nin, procs, doms) ==
  {B(0, k, 0) : k \in 0 .. nin - 1} \cup
  UNION {{B(3, p, x) : x \in 0 .. doms[procs[p + 1] + 1].m - 1} : p \in 0 .. Len(procs) - 1}

Sinks   == SinksOf(anout, aprocs, adoms)
Sources == SourcesOf(anin, aprocs, adoms)

\* The well-formedness the property asks for, on names.
AbsWF ==
  /\ bonds \subseteq Sources \X Sinks
  /\ \A b1, b2 \in bonds : b1[2] = b2[2] => b1 = b2      \* one driver per sink

AInit ==
  /\ anin = 0 /\ anout = 0 /\ aprocs = <<>> /\ bonds = {}
  /\ adoms \in {<<>>}   \* overridden by the instantiating module's initial catalogue

(***************************************************************************)
(* Edits, on names.  Every edit says exactly which bonds it addresses; all *)
(* others keep joining the same two named endpoints, modulo the documented *)
(* renumbering of external ports above a deleted one.                      *)
(***************************************************************************)
AAddInput ==
  /\ anin' = anin + 1
  /\ UNCHANGED <<anout, aprocs, adoms, bonds>>

RenIn(e, k)  == IF e.mt = 0 /\ e.res > k THEN B(0, e.res - 1, 0) ELSE e
RenOut(e, k) == IF e.mt = 1 /\ e.res > k THEN B(1, e.res - 1, 0) ELSE e

ADelInput(k) ==
  IF k < anin
  THEN /\ anin' = anin - 1
       /\ bonds' = {<<RenIn(b[1], k), b[2]>> : b \in {c \in bonds : c[1] # B(0, k, 0)}}
       /\ UNCHANGED <<anout, aprocs, adoms>>
  ELSE UNCHANGED avars                      \* rejected with an error

AAddOutput ==
  /\ anout' = anout + 1
  /\ UNCHANGED <<anin, aprocs, adoms, bonds>>

ADelOutput(k) ==
  IF k < anout
  THEN /\ anout' = anout - 1
       /\ bonds' = {<<b[1], RenOut(b[2], k)>> : b \in {c \in bonds : c[2] # B(1, k, 0)}}
       /\ UNCHANGED <<anin, aprocs, adoms>>
  ELSE UNCHANGED avars

AAddProc(d) ==
  IF d < Len(adoms)
  THEN /\ aprocs' = Append(aprocs, d)
       /\ UNCHANGED <<anin, anout, adoms, bonds>>
  ELSE UNCHANGED avars

\* e0, e1 are endpoint NAMES (strings) in either order; unknown names are a no-op;
\* an already driven sink is re-driven (the old bond to that sink is the one addressed).
AAddBond(e0, e1) ==
  LET cand == {c \in Sources \X Sinks :
                 \/ NameStr(c[2]) = e0 /\ NameStr(c[1]) = e1
                 \/ NameStr(c[2]) = e1 /\ NameStr(c[1]) = e0}
  IN  IF cand = {}
      THEN UNCHANGED avars
      ELSE LET c == CHOOSE c \in cand : TRUE
           IN  /\ bonds' = {b \in bonds : b[2] # c[2]} \cup {c}
               /\ UNCHANGED <<anin, anout, aprocs, adoms>>

\* Removing the bond that drives the sink named d (no-op when there is none).
ADelBond(d) ==
  /\ bonds' = {b \in bonds : b[2] # d}
  /\ UNCHANGED <<anin, anout, aprocs, adoms>>

\* Attach a benchmark core: a new 2-input/1-output processor fed by the two named sources,
\* whose output drives a new external output.
AAttachBC(e0, e1) ==
  LET s0 == {s \in Sources : NameStr(s) = e0}
      s1 == {s \in Sources : NameStr(s) = e1}
  IN  IF s0 = {} \/ s1 = {}
      THEN UNCHANGED avars
      ELSE LET p == Len(aprocs)
               a == CHOOSE s \in s0 : TRUE
               b == CHOOSE s \in s1 : TRUE
           IN  /\ adoms' = Append(adoms, [n |-> 2, m |-> 1])
               /\ aprocs' = Append(aprocs, Len(adoms))
               /\ anout' = anout + 1
               /\ anin' = anin
               /\ bonds' = bonds \cup {<<a, B(2, p, 0)>>, <<b, B(2, p, 1)>>, <<B(3, p, 0), B(1, anout, 0)>>}

\* Persisting and reloading a machine is a stuttering step (C11).
ASaveLoad == UNCHANGED avars

ANext(Names) ==
  \/ AAddInput \/ AAddOutput
  \/ \E k \in 0 .. anin  : ADelInput(k)
  \/ \E k \in 0 .. anout : ADelOutput(k)
  \/ \E d \in 0 .. Len(adoms) : AAddProc(d)
  \/ \E e0, e1 \in Names : AAddBond(e0, e1) \/ AAttachBC(e0, e1)
  \/ \E d \in Sinks : ADelBond(d)
  \/ ASaveLoad
=============================================================================
