SPECIFICATION Spec
CONSTANT MaxRules = 3
INVARIANT TypeOK
CHECK_DEADLOCK FALSE
