------------------------------- MODULE GoChan -------------------------------
(***************************************************************************)
(* C12 — two goroutines joined by an unbuffered Go channel.                 *)
(*   main:    for { x++ ; c <- E(x) ; IOWrite(o0, x) }                      *)
(*   worker:  for { v = <-c ; IOWrite(o1, v + wadd) }                       *)
(* A send and a receive complete together (rendezvous); neither side gets   *)
(* past its channel operation alone.  The specification is operational:     *)
(* TLC explores every interleaving of the two goroutines and checks that    *)
(* the worker's output stream is, element by element, the stream of values  *)
(* main sent (nothing lost, duplicated or reordered), and that main's k-th  *)
(* output is never written before the k-th transfer.  The closed forms are  *)
(* exported as rows; the harness prints each row as Go source, compiles it  *)
(* with the real bondgo, runs the emitted machine and compares the streams. *)
(***************************************************************************)
EXTENDS Integers, Sequences, FiniteSets, TLC, Json, IOUtils, SequencesExt

Mod == 256
N == 4                                       \* transfers explored
Exprs == {"x", "x+x", "x+5"}
WAdds == {0, 1}
E(e, x) == CASE e = "x" -> x [] e = "x+x" -> (x + x) % Mod [] e = "x+5" -> (x + 5) % Mod

VARIABLES expr, wadd, mpc, wpc, x, v, mout, wout, transfers
vars == <<expr, wadd, mpc, wpc, x, v, mout, wout, transfers>>

Init == /\ expr \in Exprs /\ wadd \in WAdds
        /\ mpc = "inc" /\ wpc = "recv" /\ x = 0 /\ v = 0 /\ mout = <<>> /\ wout = <<>> /\ transfers = 0

MainInc == mpc = "inc" /\ transfers < N /\ x' = (x + 1) % Mod /\ mpc' = "send"
           /\ UNCHANGED <<expr, wadd, wpc, v, mout, wout, transfers>>
\* the channel operation: both sides are at it, the value passes, both go on
Rendezvous == /\ mpc = "send" /\ wpc = "recv"
              /\ v' = E(expr, x) /\ mpc' = "write" /\ wpc' = "write" /\ transfers' = transfers + 1
              /\ UNCHANGED <<expr, wadd, x, mout, wout>>
MainWrite == mpc = "write" /\ mout' = Append(mout, x) /\ mpc' = "inc"
             /\ UNCHANGED <<expr, wadd, wpc, x, v, wout, transfers>>
WorkerWrite == wpc = "write" /\ wout' = Append(wout, (v + wadd) % Mod) /\ wpc' = "recv"
               /\ UNCHANGED <<expr, wadd, mpc, x, v, mout, transfers>>
Next == MainInc \/ Rendezvous \/ MainWrite \/ WorkerWrite
Spec == Init /\ [][Next]_vars

\* closed forms
MainStream(n) == [k \in 1 .. n |-> k % Mod]
WorkerStream(e, a, n) == [k \in 1 .. n |-> (E(e, k % Mod) + a) % Mod]
NothingLostOrInvented == /\ wout = WorkerStream(expr, wadd, Len(wout))
                         /\ mout = MainStream(Len(mout))
\* neither side runs ahead of the channel
InStep == /\ Len(mout) <= transfers /\ Len(wout) <= transfers
          /\ transfers <= Len(mout) + 1 /\ transfers <= Len(wout) + 1

Rows == {[expr |-> e, wadd |-> a, main |-> MainStream(N), worker |-> WorkerStream(e, a, N)] : e \in Exprs, a \in WAdds}
ASSUME ndJsonSerialize(IOEnv.ROWS, SetToSeq(Rows))
=============================================================================
