------------------------------- MODULE BasmSem -------------------------------
(***************************************************************************)
(* C05 — what a BASM source program MEANS (reference semantics over the    *)
(* SOURCE text, not over the assembled machine).                           *)
(*                                                                         *)
(* A source has NCP (1 or 2) connecting processors, each with one .romtext *)
(* section of Len0 lines [op, a, b, t, nt] with synchronous I/O:           *)
(*   clr/inc/dec rA          add rA, rB        cpy|mov rA, rB              *)
(*   rset|mov rA, literal    (the literal is value b printed in notation   *)
(*                            nt: dec, 0x, 0b, 0d, 0u)                     *)
(*   mov oA, rB  (send rB on output A)     mov rA, i0  (receive)           *)
(*   j L   jz rA, L          (t = index of the line that carries label L)  *)
(*   nop     twice           (a macro of zero parameters: inc r1 ; inc r1)  *)
(*   asend oA, rB            `X: iomode:async` / `mov oA, rB`: a send whose   *)
(*                            label line carries metadata for THAT line: the  *)
(*                            value is put on the port without a handshake,   *)
(*                            nobody is obliged to take it and nothing is     *)
(*                            observed; the lines after it are synchronous     *)
(*                            again                                           *)
(*   ldk rA, rB, k           two source lines: mov rB, rom:d<k> (the ROM    *)
(*                            address of data word k) ; mov rA, rom:[rB]    *)
(*                            (the ROM word at that address)                *)
(* and an entry directive naming the label of line `entry`, written before *)
(* line epos (before or after that line's own label).                      *)
(* Every label operand denotes the line that follows the label; execution  *)
(* starts at the declared entry; a pseudo-instruction has the effect its    *)
(* source form states; a literal loads the value it denotes; registers     *)
(* wrap around at the register size.  The section's iomode (sync) prevails *)
(* over the machine-wide default gio written in the bmdef line.            *)
(* Every processor has a ROM data section of NData one-byte words          *)
(* d0, d1, ... (values `data`, written in hexadecimal); it is placed in    *)
(* the ROM right after the processor's code, so the address of d<k> is the  *)
(* number of instructions of the section (after macro expansion) plus k.   *)
(* With WideData a variable d<k> is declared with a list of values,        *)
(* possibly repeated (`d<k> 3:db a, b` lays out a, b, a, b, a, b); the     *)
(* variables follow one another in the ROM and an ldk line carries the     *)
(* offset of the word it reads inside its variable: mov rB, rom:d<k> ;     *)
(* inc rB (offset times) ; mov rA, rom:[rB].                               *)
(* With sharecode both processors are defined on the same code section     *)
(* and each has its own data section.                                      *)
(*                                                                         *)
(* Wiring (ioatt): processor 0 reads the external input on i0.  With one   *)
(* processor its outputs o0..o(NOut-1) are the external outputs.  With two, *)
(* o0 of processor 0 is external output 0, o1 of processor 0 is bonded to  *)
(* i0 of processor 1, and o0, o1 of processor 1 are external outputs 1, 2. *)
(* A synchronous send completes when the consumer has taken the value, a   *)
(* receive when a value is offered: the bond is a rendezvous.  The         *)
(* observable is the sequence of values on each external output, which is  *)
(* the same for every schedule (a Kahn network).                           *)
(*                                                                         *)
(* A behaviour first BUILDS the programs (phase "build"), then RUNS them   *)
(* for at most Budget rounds (phase "run"), consuming the external input   *)
(* stream 1, 2, 3, ...  TLC -simulate produces programs with their         *)
(* expected output streams; the harness prints each as .basm text, runs    *)
(* the real assembler and the real simulator and compares the streams.     *)
(*                                                                         *)
(* Two interpreters run side by side on the same program: ref, the meaning *)
(* of the source, and asc, the meaning AS CODED in the pinned tree, which  *)
(* differs in the documented deviations (AsCoded...): only ref decides;    *)
(* asc tells a known finding from a new one.                               *)
(***************************************************************************)
EXTENDS Integers, Sequences, FiniteSets, TLC

CONSTANTS RSize, Len0, Budget, NOut, NCP, NData, EntryAnywhere, DirectiveAnywhere, MacroHeavy, SmallMovOnly,
          WithAsync, \* TRUE: programs may contain sends annotated `<label>: iomode:async` (the annotation is for that line only)
          WideData   \* TRUE: a data variable may hold several words (`d db a, b`) and repetitions (`d 3:db a, b`)

ASSUME NCP \in {1, 2} /\ (NCP = 2 => NOut = 2)

Mod == 2 ^ RSize
Regs == 0 .. 3
CPs == 0 .. NCP - 1
\* boundary values, and values whose binary / hexadecimal forms have digit counts that are not
\* multiples of 8 / 2
Lits == {0, 1, 2, 5, Mod - 1, Mod \div 2 + 3, Mod \div 64 + 1, Mod \div 8 + Mod \div 16 + 1}
Notations == {"dec", "0x", "0b", "0d", "0u"}

VARIABLES phase, progs, entry, epos, lbd, gio, attfirst, data, sharecode, ref, asc, steps, lastio
vars == <<phase, progs, entry, epos, lbd, gio, attfirst, data, sharecode, ref, asc, steps, lastio>>
shape == <<entry, epos, lbd, gio, attfirst, data, sharecode>>

L(op, a, b, t, nt) == [op |-> op, a |-> a, b |-> b, t |-> t, nt |-> nt]

\* lines that may be appended to a program; I/O lines of one processor are kept at least three
\* lines apart (the synchronous handshake of the pinned tree needs the spacing, see the known
\* findings of C04)
Unary  == {L(o, a, 0, 0, "") : o \in {"clr", "inc", "dec"}, a \in Regs}
Binary == {L(o, a, b, 0, "") : o \in {"add", "cpy", "movrr"}, a \in Regs, b \in Regs}
\* SmallMovOnly: every literal is loaded with `mov` and is below 32 (the assembler may then choose a
\* short load instruction that is narrower than the program's jumps)
Loads  == IF SmallMovOnly
          THEN {L("movri", a, b, 0, nt) : a \in Regs, b \in {0, 1, 2, 5, 21, 30}, nt \in {"dec", "0x"}}
          ELSE {L(o, a, b, 0, nt) : o \in {"rset", "movri"}, a \in Regs, b \in Lits, nt \in Notations}
Other  == {L("nop", 0, 0, 0, ""), L("twice", 0, 0, 0, "")}
Plain  == Unary \cup Binary \cup Loads \cup Other
Jumps == {L("j", 0, 0, t, "") : t \in 0 .. Len0 - 1} \cup {L("jz", a, 0, t, "") : a \in Regs, t \in 0 .. Len0 - 1}
Sends == {L("send", o, b, 0, "") : o \in 0 .. NOut - 1, b \in Regs}
Recvs == {L("recv", a, 0, 0, "") : a \in Regs}
Asends == {L("asend", o, b, 0, "") : o \in 0 .. NOut - 1, b \in Regs}
DataSeq == <<0, 1, 5, 33, 128, 255>>
\* the data variables of processor c for seed d (a few assignments stand for all): the declared values
\* and the repetition count; the shapes do not depend on the processor (shared code reads both)
NVals(d, k) == IF WideData THEN <<1, 2, 2, 3>>[((d + k) % 4) + 1] ELSE 1
NRep(d, k)  == IF WideData THEN <<1, 1, 3, 2>>[((d + k) % 4) + 1] ELSE 1
DataOf(d) == [c \in CPs |-> [k \in 0 .. NData - 1 |->
                [vals |-> [j \in 1 .. NVals(d, k) |-> DataSeq[((d + 2 * c + k + 3 * (j - 1)) % 6) + 1]], rep |-> NRep(d, k)]]]
\* the ROM words of a variable, in order
Layout(dv) == [i \in 1 .. Len(dv.vals) * dv.rep |-> dv.vals[((i - 1) % Len(dv.vals)) + 1]]
Offs == <<"", "1", "2", "3", "4", "5">>            \* the offset of an ldk line is carried in its nt field
OffOf(nt) == CHOOSE o \in 0 .. 5 : Offs[o + 1] = nt

M0 == [pc |-> 0, regs |-> [r \in Regs |-> 0], nin |-> 0]
I0 == [cps |-> [c \in CPs |-> M0], outs |-> <<>>]

Init ==
  /\ phase = "build" /\ progs = <<<<>>>>
  /\ entry \in (IF EntryAnywhere THEN 0 .. Len0 - 1 ELSE {0})
  /\ epos \in (IF DirectiveAnywhere THEN 0 .. Len0 - 1 ELSE {0})     \* the entry directive is written before line epos
  /\ lbd \in (IF DirectiveAnywhere THEN BOOLEAN ELSE {FALSE})         \* the label of line epos is written BEFORE the directive
  /\ gio \in {"none", "sync", "async"}                                \* machine-wide default iomode in the bmdef line
  /\ attfirst \in BOOLEAN                                             \* which end of an ioatt pair is written first
  /\ data \in {DataOf(d) : d \in 0 .. 3}                              \* the ROM data words of each processor
  \* both processors run ONE code section, each with its own data section; the second one's data
  \* words are preceded by a padding word, so the same symbol has a different address on each
  /\ sharecode \in (IF NCP = 2 /\ NData > 0 THEN BOOLEAN ELSE {FALSE})
  /\ ref = I0 /\ asc = I0 /\ steps = 0 /\ lastio = -10

Cur == progs[Len(progs)]
Add(l, io) ==
  /\ phase = "build" /\ Len(Cur) < Len0 - 1
  /\ progs' = [progs EXCEPT ![Len(progs)] = Append(@, l)] /\ lastio' = (IF io THEN Len(Cur) ELSE lastio)
  /\ UNCHANGED <<phase, shape, ref, asc, steps>>
IoOK == Len(Cur) - lastio >= 3
BuildPlain == \E l \in Plain : Add(l, FALSE)
BuildUnary == \E l \in Unary : Add(l, FALSE)
BuildBinary == \E l \in Binary : Add(l, FALSE)
BuildLoad == \E l \in Loads : Add(l, FALSE)
BuildOther == \E l \in Other : Add(l, FALSE)
BuildMacro == Add(L("twice", 0, 0, 0, ""), FALSE)
BuildJump == \E l \in Jumps : Add(l, FALSE)
BuildSend == \E l \in Sends : Add(l, TRUE)
BuildRecv == \E l \in Recvs : Add(l, TRUE)
BuildAsend == \E l \in Asends : Add(l, FALSE)
DataLines == {L("ldk", a, b, k, Offs[o + 1]) : a \in Regs, b \in Regs, k \in 0 .. NData - 1, o \in 0 .. 5}
BuildData == \E l \in DataLines : OffOf(l.nt) < Len(Layout(data[0][l.t])) /\ Add(l, FALSE)

\* the last line is an unconditional jump: a program never runs off its end
Close ==
  /\ phase = "build" /\ Len(Cur) = Len0 - 1
  /\ \E t \in 0 .. Len0 - 1 : progs' = [progs EXCEPT ![Len(progs)] = Append(@, L("j", 0, 0, t, ""))]
  /\ UNCHANGED <<phase, shape, ref, asc, steps, lastio>>

NextCP ==
  /\ phase = "build" /\ Len(Cur) = Len0 /\ Len(progs) < NCP
  /\ progs' = Append(progs, IF sharecode THEN progs[1] ELSE <<>>) /\ lastio' = -10
  /\ UNCHANGED <<phase, shape, ref, asc, steps>>

\* ---- deviations of the pinned tree (known findings of C05) ------------------------------------
\* the entry directive is parsed, checked and removed, and its position recorded in the section's
\* metadata, but nothing reads it: the processor starts at the first line of the section
AsCodedEntry == 0

Start ==
  /\ phase = "build" /\ Len(Cur) = Len0 /\ Len(progs) = NCP
  /\ phase' = "run"
  /\ ref' = [ref EXCEPT !.cps = [c \in CPs |-> [M0 EXCEPT !.pc = entry]]]
  /\ asc' = [asc EXCEPT !.cps = [c \in CPs |-> [M0 EXCEPT !.pc = AsCodedEntry]]]
  /\ UNCHANGED <<progs, shape, steps, lastio>>

\* ---- the interpreter ----------------------------------------------------------------------------
Line(c, m) == progs[c + 1][m.pc + 1]
IsLinkSend(c, l) == NCP = 2 /\ c = 0 /\ l.op = "send" /\ l.a = 1
IsLinkRecv(c, l) == NCP = 2 /\ c = 1 /\ l.op = "recv"
ExtPort(c, o) == IF NCP = 1 THEN o ELSE IF c = 0 THEN 0 ELSE 1 + o
\* ROM words taken by the code of processor c: a macro call is two instructions, an ldk two plus its offset
RECURSIVE Words(_, _)
Words(p, i) == IF i > Len(p) THEN 0
               ELSE (IF p[i].op = "twice" THEN 2 ELSE IF p[i].op = "ldk" THEN 2 + OffOf(p[i].nt) ELSE 1) + Words(p, i + 1)
RECURSIVE Before(_, _)
Before(c, k) == IF k = 0 THEN 0 ELSE Len(Layout(data[c][k - 1])) + Before(c, k - 1)
DataAddr(c, k) == (Words(progs[c + 1], 1) + Before(c, k) + (IF sharecode /\ c = 1 THEN 1 ELSE 0)) % Mod

\* one line executed by processor state m; inval is the value a receive obtains
Step(c, m, inval) ==
  LET l == Line(c, m)
      regs == m.regs
  IN  [regs |-> CASE l.op = "clr" -> [regs EXCEPT ![l.a] = 0]
                  [] l.op = "inc" -> [regs EXCEPT ![l.a] = (@ + 1) % Mod]
                  [] l.op = "dec" -> [regs EXCEPT ![l.a] = (@ + Mod - 1) % Mod]
                  [] l.op = "add" -> [regs EXCEPT ![l.a] = (@ + regs[l.b]) % Mod]
                  [] l.op \in {"cpy", "movrr"} -> [regs EXCEPT ![l.a] = regs[l.b]]
                  [] l.op \in {"rset", "movri"} -> [regs EXCEPT ![l.a] = l.b]
                  [] l.op = "twice" -> [regs EXCEPT ![1] = (@ + 2) % Mod]
                  [] l.op = "recv" -> [regs EXCEPT ![l.a] = inval]
                  [] l.op = "ldk" -> [[regs EXCEPT ![l.b] = (DataAddr(c, l.t) + OffOf(l.nt)) % Mod] EXCEPT ![l.a] = Layout(data[c][l.t])[OffOf(l.nt) + 1]]
                  [] OTHER -> regs,
       nin  |-> IF l.op = "recv" /\ ~IsLinkRecv(c, l) THEN m.nin + 1 ELSE m.nin,
       pc   |-> CASE l.op = "j" -> l.t
                  [] l.op = "jz" -> (IF regs[l.a] = 0 THEN l.t ELSE m.pc + 1)
                  [] OTHER -> m.pc + 1]

\* one round: every processor that is not blocked on the bond executes one line; the two ends of
\* the bond execute together when both are there
Round(s) ==
  LET l(c) == Line(c, s.cps[c])
      meet == NCP = 2 /\ IsLinkSend(0, l(0)) /\ IsLinkRecv(1, l(1))
      blocked(c) == ~meet /\ (IsLinkSend(c, l(c)) \/ IsLinkRecv(c, l(c)))
      inval(c) == IF IsLinkRecv(c, l(c)) THEN s.cps[0].regs[l(0).b] ELSE (s.cps[c].nin + 1) % Mod
      ext(c) == IF ~blocked(c) /\ l(c).op = "send" /\ ~IsLinkSend(c, l(c))
                THEN <<<<ExtPort(c, l(c).a), s.cps[c].regs[l(c).b]>>>> ELSE <<>>
  IN  [cps  |-> [c \in CPs |-> IF blocked(c) THEN s.cps[c] ELSE Step(c, s.cps[c], inval(c))],
       outs |-> IF NCP = 1 THEN s.outs \o ext(0) ELSE s.outs \o ext(0) \o ext(1)]

Exec ==
  /\ phase = "run" /\ steps < Budget
  /\ steps' = steps + 1
  /\ ref' = Round(ref) /\ asc' = Round(asc)
  /\ UNCHANGED <<phase, progs, shape, lastio>>

\* TLC -simulate chooses uniformly among the sub-actions it can split Next into (it splits a
\* top-level \E over a constant set, but not below an IF): the outer choice w draws the KIND of the
\* next line with fixed odds, whatever the number of lines of each kind
Next == \E w \in 1 .. 10 :
          IF phase = "build" /\ Len(Cur) < Len0 - 1
          THEN (IF w = 1 THEN BuildUnary
                ELSE IF w = 2 THEN BuildBinary
                ELSE IF w = 3 THEN BuildLoad
                ELSE IF w = 4 THEN (IF MacroHeavy THEN BuildMacro ELSE BuildOther)
                ELSE IF w = 5 THEN BuildJump
                ELSE IF w <= 7 THEN (IF IoOK THEN BuildSend ELSE BuildLoad)
                ELSE IF w = 8 THEN (IF IoOK THEN BuildRecv ELSE BuildJump)
                ELSE IF w = 9 THEN (IF NData > 0 THEN BuildData ELSE BuildUnary)
                ELSE (IF WithAsync THEN BuildAsend ELSE BuildPlain))
          ELSE (w = 1 /\ (Close \/ NextCP \/ Start \/ Exec))
Spec == Init /\ [][Next]_vars

TypeOK == /\ \A c \in CPs : \A r \in Regs : ref.cps[c].regs[r] \in 0 .. Mod - 1
          /\ \A c \in CPs : ref.cps[c].pc \in 0 .. Len0 - 1 /\ asc.cps[c].pc \in 0 .. Len0 - 1
=============================================================================
