------------------------------- MODULE BasmSem -------------------------------
(***************************************************************************)
(* C05 — what a BASM source program MEANS (reference semantics over the    *)
(* SOURCE text, not over the assembled machine).                           *)
(*                                                                         *)
(* A program is a sequence of source lines [op, a, b, t, nt] of one        *)
(* .romtext section of one processor with synchronous I/O:                 *)
(*   clr/inc/dec rA          add rA, rB        cpy|mov rA, rB              *)
(*   rset|mov rA, literal    (the literal is value b printed in notation   *)
(*                            nt: dec, 0x, 0b, 0d, 0u)                     *)
(*   mov oA, rB  (send rB on external output A)   mov rA, iB (receive)     *)
(*   j L   jz rA, L          (t = index of the line that carries label L)  *)
(*   nop     twice           (a macro of zero parameters: inc r1 ; inc r1)  *)
(* and an entry directive naming the label of line `entry`.                *)
(* Every label operand denotes the line that follows the label; execution  *)
(* starts at the declared entry; a pseudo-instruction has the effect its    *)
(* source form states; a literal loads the value it denotes; registers     *)
(* wrap around at the register size.  The observable is the sequence of    *)
(* values sent on each external output.                                    *)
(*                                                                         *)
(* A behaviour first BUILDS a random program (phase "build"), then RUNS it *)
(* for at most Budget steps (phase "run"), consuming the external input     *)
(* stream 1, 2, 3, ...  TLC -simulate produces programs with their         *)
(* expected output streams; the harness prints each as .basm text, runs    *)
(* the real assembler and the real simulator and compares the streams.     *)
(***************************************************************************)
EXTENDS Integers, Sequences, FiniteSets, TLC

CONSTANTS RSize, Len0, Budget, NOut, EntryAnywhere

Mod == 2 ^ RSize
Regs == 0 .. 3
Lits == {0, 1, 2, 5, Mod - 1, Mod \div 2 + 3}
Notations == {"dec", "0x", "0b", "0d", "0u"}

VARIABLES phase, prog, entry, pc, regs, outs, nin, steps, lastio
vars == <<phase, prog, entry, pc, regs, outs, nin, steps, lastio>>

L(op, a, b, t, nt) == [op |-> op, a |-> a, b |-> b, t |-> t, nt |-> nt]

\* lines that may be appended at position i (0-based) of a program of Len0 lines; I/O lines on
\* the same port are kept at least three lines apart (the synchronous handshake of the pinned
\* tree needs the spacing, see the known findings of C04)
Plain ==
  {L(o, a, 0, 0, "") : o \in {"clr", "inc", "dec"}, a \in Regs} \cup
  {L(o, a, b, 0, "") : o \in {"add", "cpy", "movrr"}, a \in Regs, b \in Regs} \cup
  {L(o, a, b, 0, nt) : o \in {"rset", "movri"}, a \in Regs, b \in Lits, nt \in Notations} \cup
  {L("nop", 0, 0, 0, ""), L("twice", 0, 0, 0, "")}
Jumps == {L("j", 0, 0, t, "") : t \in 0 .. Len0 - 1} \cup {L("jz", a, 0, t, "") : a \in Regs, t \in 0 .. Len0 - 1}
Sends == {L("send", o, b, 0, "") : o \in 0 .. NOut - 1, b \in Regs}
Recvs == {L("recv", a, 0, 0, "") : a \in Regs}

Init ==
  /\ phase = "build" /\ prog = <<>> /\ entry \in (IF EntryAnywhere THEN 0 .. Len0 - 1 ELSE {0})
  /\ pc = 0 /\ regs = [r \in Regs |-> 0] /\ outs = <<>> /\ nin = 0 /\ steps = 0 /\ lastio = -10

Build ==
  /\ phase = "build" /\ Len(prog) < Len0
  /\ \E w \in 1 .. 6 :
       LET i == Len(prog)
           ioOK == i - lastio >= 3
       IN  \/ w \in {1, 2, 3} /\ \E l \in Plain : prog' = Append(prog, l) /\ lastio' = lastio
           \/ w = 4 /\ \E l \in Jumps : prog' = Append(prog, l) /\ lastio' = lastio
           \/ w = 5 /\ ioOK /\ \E l \in Sends : prog' = Append(prog, l) /\ lastio' = i
           \/ w = 6 /\ ioOK /\ \E l \in Recvs : prog' = Append(prog, l) /\ lastio' = i
  /\ UNCHANGED <<phase, entry, pc, regs, outs, nin, steps>>

Start ==
  /\ phase = "build" /\ Len(prog) = Len0
  /\ phase' = "run" /\ pc' = entry
  /\ UNCHANGED <<prog, entry, regs, outs, nin, steps, lastio>>

\* one source line executed
Exec ==
  /\ phase = "run" /\ steps < Budget /\ pc < Len0
  /\ steps' = steps + 1
  /\ LET l == prog[pc + 1]
     IN  /\ regs' = CASE l.op = "clr" -> [regs EXCEPT ![l.a] = 0]
                      [] l.op = "inc" -> [regs EXCEPT ![l.a] = (@ + 1) % Mod]
                      [] l.op = "dec" -> [regs EXCEPT ![l.a] = (@ + Mod - 1) % Mod]
                      [] l.op = "add" -> [regs EXCEPT ![l.a] = (@ + regs[l.b]) % Mod]
                      [] l.op \in {"cpy", "movrr"} -> [regs EXCEPT ![l.a] = regs[l.b]]
                      [] l.op \in {"rset", "movri"} -> [regs EXCEPT ![l.a] = l.b]
                      [] l.op = "twice" -> [regs EXCEPT ![1] = (@ + 2) % Mod]
                      [] l.op = "recv" -> [regs EXCEPT ![l.a] = (nin + 1) % Mod]
                      [] OTHER -> regs
         /\ nin' = IF l.op = "recv" THEN nin + 1 ELSE nin
         /\ outs' = IF l.op = "send" THEN Append(outs, <<l.a, regs[l.b]>>) ELSE outs
         /\ pc' = CASE l.op = "j" -> l.t
                    [] l.op = "jz" -> (IF regs[l.a] = 0 THEN l.t ELSE pc + 1)
                    [] OTHER -> pc + 1
  /\ UNCHANGED <<phase, prog, entry, lastio>>

Next == Build \/ Start \/ Exec
Spec == Init /\ [][Next]_vars
TypeOK == \A r \in Regs : regs[r] \in 0 .. Mod - 1
=============================================================================
