------------------------------- MODULE BasmSem -------------------------------
(***************************************************************************)
(* C05 — what a BASM source program MEANS (reference semantics over the    *)
(* SOURCE text, not over the assembled machine).                           *)
(*                                                                         *)
(* A program is a sequence of source lines [op, a, b, t, nt] of one        *)
(* .romtext section of one processor with synchronous I/O:                 *)
(*   clr/inc/dec rA          add rA, rB        cpy|mov rA, rB              *)
(*   rset|mov rA, literal    (the literal is value b printed in notation   *)
(*                            nt: dec, 0x, 0b, 0d, 0u)                     *)
(*   mov oA, rB  (send rB on external output A)   mov rA, iB (receive)     *)
(*   j L   jz rA, L          (t = index of the line that carries label L)  *)
(*   nop     twice           (a macro of zero parameters: inc r1 ; inc r1)  *)
(* and an entry directive naming the label of line `entry`.                *)
(* Every label operand denotes the line that follows the label; execution  *)
(* starts at the declared entry; a pseudo-instruction has the effect its    *)
(* source form states; a literal loads the value it denotes; registers     *)
(* wrap around at the register size.  The observable is the sequence of    *)
(* values sent on each external output.                                    *)
(*                                                                         *)
(* A behaviour first BUILDS a random program (phase "build"), then RUNS it *)
(* for at most Budget steps (phase "run"), consuming the external input     *)
(* stream 1, 2, 3, ...  TLC -simulate produces programs with their         *)
(* expected output streams; the harness prints each as .basm text, runs    *)
(* the real assembler and the real simulator and compares the streams.     *)
(*                                                                         *)
(* Two interpreters run side by side on the same program: ref, the meaning *)
(* of the source, and asc, the meaning AS CODED in the pinned tree, which  *)
(* differs in the documented deviations (Deviation...): only ref decides;  *)
(* asc tells a known finding from a new one.                               *)
(***************************************************************************)
EXTENDS Integers, Sequences, FiniteSets, TLC

CONSTANTS RSize, Len0, Budget, NOut, EntryAnywhere, DirectiveAnywhere, MacroHeavy

Mod == 2 ^ RSize
Regs == 0 .. 3
Lits == {0, 1, 2, 5, Mod - 1, Mod \div 2 + 3}
Notations == {"dec", "0x", "0b", "0d", "0u"}

VARIABLES phase, prog, entry, epos, lbd, ref, asc, steps, lastio
vars == <<phase, prog, entry, epos, lbd, ref, asc, steps, lastio>>

L(op, a, b, t, nt) == [op |-> op, a |-> a, b |-> b, t |-> t, nt |-> nt]

\* lines that may be appended at position i (0-based) of a program of Len0 lines; I/O lines on
\* the same port are kept at least three lines apart (the synchronous handshake of the pinned
\* tree needs the spacing, see the known findings of C04)
Plain ==
  {L(o, a, 0, 0, "") : o \in {"clr", "inc", "dec"}, a \in Regs} \cup
  {L(o, a, b, 0, "") : o \in {"add", "cpy", "movrr"}, a \in Regs, b \in Regs} \cup
  {L(o, a, b, 0, nt) : o \in {"rset", "movri"}, a \in Regs, b \in Lits, nt \in Notations} \cup
  {L("nop", 0, 0, 0, ""), L("twice", 0, 0, 0, "")}
Jumps == {L("j", 0, 0, t, "") : t \in 0 .. Len0 - 1} \cup {L("jz", a, 0, t, "") : a \in Regs, t \in 0 .. Len0 - 1}
Sends == {L("send", o, b, 0, "") : o \in 0 .. NOut - 1, b \in Regs}
Recvs == {L("recv", a, 0, 0, "") : a \in Regs}

M0 == [pc |-> 0, regs |-> [r \in Regs |-> 0], outs |-> <<>>, nin |-> 0]

Init ==
  /\ phase = "build" /\ prog = <<>> /\ entry \in (IF EntryAnywhere THEN 0 .. Len0 - 1 ELSE {0})
  /\ epos \in (IF DirectiveAnywhere THEN 0 .. Len0 - 1 ELSE {0})     \* the entry directive is written before line epos
  /\ lbd \in (IF DirectiveAnywhere THEN BOOLEAN ELSE {FALSE})         \* the label of line epos is written BEFORE the directive
  /\ ref = M0 /\ asc = M0 /\ steps = 0 /\ lastio = -10

Add(l, io) ==
  /\ phase = "build" /\ Len(prog) < Len0 - 1
  /\ prog' = Append(prog, l) /\ lastio' = (IF io THEN Len(prog) ELSE lastio)
  /\ UNCHANGED <<phase, entry, epos, lbd, ref, asc, steps>>
IoOK == Len(prog) - lastio >= 3
BuildPlain == \E l \in Plain : Add(l, FALSE)
BuildMacro == Add(L("twice", 0, 0, 0, ""), FALSE)
BuildJump == \E l \in Jumps : Add(l, FALSE)
BuildSend == \E l \in Sends : Add(l, TRUE)
BuildRecv == \E l \in Recvs : Add(l, TRUE)
\* TLC -simulate chooses uniformly among the sub-actions it can split Next into (it splits a
\* top-level \E over a constant set, but not below an IF): the outer choice w draws the KIND of the
\* next line with fixed odds, whatever the number of lines of each kind
Build ==
  \E w \in 1 .. 8 :
    IF w <= 2 THEN BuildPlain
    ELSE IF w = 3 THEN (IF MacroHeavy THEN BuildMacro ELSE BuildPlain)
    ELSE IF w = 4 THEN BuildJump
    ELSE IF w <= 6 THEN (IF IoOK THEN BuildSend ELSE BuildPlain)
    ELSE IF w = 7 THEN (IF IoOK THEN BuildRecv ELSE BuildJump)
    ELSE BuildPlain

\* the last line is an unconditional jump: a program never runs off its end
Close ==
  /\ phase = "build" /\ Len(prog) = Len0 - 1
  /\ \E t \in 0 .. Len0 - 1 : prog' = Append(prog, L("j", 0, 0, t, ""))
  /\ UNCHANGED <<phase, entry, epos, lbd, ref, asc, steps, lastio>>

\* ---- deviations of the pinned tree (known findings of C05) ------------------------------------
\* the entry directive is parsed, checked and removed, and its position recorded in the section's
\* metadata, but nothing reads it: the processor starts at the first line of the section
AsCodedEntry == 0

Start ==
  /\ phase = "build" /\ Len(prog) = Len0
  /\ phase' = "run" /\ ref' = [ref EXCEPT !.pc = entry] /\ asc' = [asc EXCEPT !.pc = AsCodedEntry]
  /\ UNCHANGED <<prog, entry, epos, lbd, steps, lastio>>

\* one source line executed by an interpreter state m
Step(m) ==
  LET l == prog[m.pc + 1]
      regs == m.regs
  IN  [regs |-> CASE l.op = "clr" -> [regs EXCEPT ![l.a] = 0]
                  [] l.op = "inc" -> [regs EXCEPT ![l.a] = (@ + 1) % Mod]
                  [] l.op = "dec" -> [regs EXCEPT ![l.a] = (@ + Mod - 1) % Mod]
                  [] l.op = "add" -> [regs EXCEPT ![l.a] = (@ + regs[l.b]) % Mod]
                  [] l.op \in {"cpy", "movrr"} -> [regs EXCEPT ![l.a] = regs[l.b]]
                  [] l.op \in {"rset", "movri"} -> [regs EXCEPT ![l.a] = l.b]
                  [] l.op = "twice" -> [regs EXCEPT ![1] = (@ + 2) % Mod]
                  [] l.op = "recv" -> [regs EXCEPT ![l.a] = (m.nin + 1) % Mod]
                  [] OTHER -> regs,
       nin  |-> IF l.op = "recv" THEN m.nin + 1 ELSE m.nin,
       outs |-> IF l.op = "send" THEN Append(m.outs, <<l.a, regs[l.b]>>) ELSE m.outs,
       pc   |-> CASE l.op = "j" -> l.t
                  [] l.op = "jz" -> (IF regs[l.a] = 0 THEN l.t ELSE m.pc + 1)
                  [] OTHER -> m.pc + 1]

Exec ==
  /\ phase = "run" /\ steps < Budget
  /\ steps' = steps + 1
  /\ ref' = Step(ref) /\ asc' = Step(asc)
  /\ UNCHANGED <<phase, prog, entry, epos, lbd, lastio>>

Next == \E w \in 1 .. 8 :
          IF phase = "build" /\ Len(prog) < Len0 - 1
          THEN (IF w <= 2 THEN BuildPlain
                ELSE IF w = 3 THEN (IF MacroHeavy THEN BuildMacro ELSE BuildPlain)
                ELSE IF w = 4 THEN BuildJump
                ELSE IF w <= 6 THEN (IF IoOK THEN BuildSend ELSE BuildPlain)
                ELSE IF w = 7 THEN (IF IoOK THEN BuildRecv ELSE BuildJump)
                ELSE BuildPlain)
          ELSE (w = 1 /\ (Close \/ Start \/ Exec))
Spec == Init /\ [][Next]_vars
TypeOK == /\ \A r \in Regs : ref.regs[r] \in 0 .. Mod - 1
          /\ ref.pc \in 0 .. Len0 - 1 /\ asc.pc \in 0 .. Len0 - 1
=============================================================================
