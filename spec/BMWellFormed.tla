---------------------------- MODULE BMWellFormed ----------------------------
(***************************************************************************)
(* C16 — every machine a front-end emits is well formed.                   *)
(*                                                                         *)
(* The log (NDJSON, path in the environment variable MACHINES) has one     *)
(* line per machine emitted by a real front-end:                           *)
(*   [id, bmrsize, doms, nprocs, nbonds, nso, ncons, want]                   *)
(* want: what the source demands: processors, bonds, ROM size, shared      *)
(* objects, and per processor the registers / inputs / outputs its code    *)
(* mentions (minregs, minins, minouts; empty: no demand).                  *)
(* nbonds: bonded sinks; nso[p] / ncons[p]: shared objects processor p is  *)
(* linked to / named by its domain's constraint string                     *)
(* doms[d] = [rsize, R, N, M, L, O, mode, ws, ops, prog, data] read from   *)
(* the emitted object: ops is the opcode list as [name, rank] (rank = the  *)
(* position of the name in the sorted set of the list's names: the order   *)
(* on names is data), prog and data are the ROM words as bit sequences.    *)
(*                                                                         *)
(* WhyNot(m) is the first reason for which a machine is not well formed,   *)
(* "" when it is.  The instruction formats are those of BMIsa (C03): every *)
(* ROM word is decoded with the specification's own field table.           *)
(* One behaviour walks through the log and judges every line; a line that  *)
(* is not well formed is printed as <<"REJECT", line, reason>>.            *)
(***************************************************************************)
EXTENDS BMIsa, Json, IOUtils

Log == ndJsonDeserialize(IOEnv.MACHINES)

VARIABLE l

ArchOf(d) ==
  LET base == [rsize |-> d.rsize, R |-> d.R, N |-> d.N, M |-> d.M, L |-> d.L, O |-> d.O,
               ops |-> [i \in 1 .. Len(d.ops) |-> d.ops[i].name], mode |-> d.mode]
      nat == MkArch(base, 0)
  IN  IF d.ws = 0 THEN nat ELSE MkArch(base, d.ws - nat.natural)

Known(d) == \A i \in 1 .. Len(d.ops) : d.ops[i].name \in KnownOps

\* the operand fields of word w, format f, from bit position pos: every input / output index is
\* below the number of inputs / outputs (the other kinds are exactly as wide as their range, and
\* may be wider than TLC's integers)
RECURSIVE FieldsOK(_, _, _, _, _)
FieldsOK(a, f, w, pos, i) ==
  IF i > Len(f) THEN TRUE
  ELSE LET wd == Width(a, f[i])
       IN  /\ (f[i] \in {"in", "out"} => FromBits(SubSeq(w, pos, pos + wd - 1)) < Limit(a, f[i]))
           /\ FieldsOK(a, f, w, pos + wd, i + 1)

\* the word decodes to an opcode of the processor with every operand in range, and the bits
\* after the last field are zero
WordWhyNot(a, w) ==
  LET idx == FromBits(SubSeq(w, 1, OpBits(a)))
  IN  IF idx >= Len(a.ops) THEN "word:opcode-index-out-of-range"
      ELSE LET op == a.ops[idx + 1]
               used == InstrLen(a, op)
           IN  IF ~FieldsOK(a, Fmt[op], w, OpBits(a) + 1, 1) THEN "word:operand-out-of-range:" \o op
               ELSE IF \E i \in used + 1 .. Len(w) : w[i] # 0 THEN "word:padding-not-zero"
               ELSE ""

DomWhyNot(bmrsize, d) ==
  LET a == ArchOf(d)
      bad == {i \in 1 .. Len(d.prog) : WordWhyNot(a, d.prog[i]) # ""}
  IN
  CASE d.rsize # bmrsize -> "register-size-differs-from-machine"
    [] d.R < 1 \/ d.O < 1 -> "degenerate-architecture"
    [] \E i \in 1 .. Len(d.ops) - 1 : d.ops[i].rank >= d.ops[i + 1].rank -> "opcodes-unsorted-or-duplicated"
    [] Len(d.ops) = 0 -> "no-opcodes"
    [] Len(d.prog) = 0 -> "no-program"
    [] Len(d.prog) + Len(d.data) > Pow2(d.O) -> "rom-too-small-for-code-and-data"
    [] ~Known(d) -> ""                        \* formats outside the table: the generic checks only
    [] d.ws # 0 /\ d.ws < a.natural -> "word-size-override-too-small"
    [] \E i \in 1 .. Len(d.prog) : Len(d.prog[i]) # MaxWord(a) -> "rom-word-width"
    [] \E i \in 1 .. Len(d.data) : Len(d.data[i]) # MaxWord(a) -> "rom-data-word-width"
    [] bad # {} -> WordWhyNot(a, d.prog[CHOOSE i \in bad : \A j \in bad : i <= j])
    [] OTHER -> ""

RECURSIVE FirstDom(_, _)
FirstDom(m, i) == IF i > Len(m.doms) THEN ""
                  ELSE LET y == DomWhyNot(m.bmrsize, m.doms[i]) IN IF y # "" THEN y ELSE FirstDom(m, i + 1)

\* what the source demands of the machine (0 / -1: no demand)
\* every processor is linked to as many shared objects as its domain's constraint string names
SoWhyNot(m) == IF \E p \in 1 .. Len(m.nso) : m.nso[p] # m.ncons[p] THEN "shared-object-links-differ-from-the-processor's-constraints" ELSE ""
WantWhyNot(m) ==
  CASE m.want.nprocs >= 0 /\ m.want.nprocs # m.nprocs -> "processors-differ-from-source"
    [] m.want.nbonds >= 0 /\ m.want.nbonds # m.nbonds -> "bonds-differ-from-source"
    [] m.want.nso >= 0 /\ \E p \in 1 .. Len(m.nso) : m.nso[p] # m.want.nso -> "shared-object-links-differ-from-source"
    [] m.want.minrom > 0 /\ \E i \in 1 .. Len(m.doms) : Pow2(m.doms[i].O) < m.want.minrom -> "rom-smaller-than-source"
    \* the registers and ports the code of processor i mentions (ROM and RAM code alike) exist
    [] \E i \in 1 .. Len(m.want.minregs) : i <= Len(m.doms) /\ Pow2(m.doms[i].R) < m.want.minregs[i] -> "registers-fewer-than-the-source-mentions"
    [] \E i \in 1 .. Len(m.want.minins) : i <= Len(m.doms) /\ m.doms[i].N < m.want.minins[i] -> "inputs-fewer-than-the-source-mentions"
    [] \E i \in 1 .. Len(m.want.minouts) : i <= Len(m.doms) /\ m.doms[i].M < m.want.minouts[i] -> "outputs-fewer-than-the-source-mentions"
    [] OTHER -> ""

WhyNot(m) == LET y == FirstDom(m, 1) IN IF y # "" THEN y ELSE IF SoWhyNot(m) # "" THEN SoWhyNot(m) ELSE WantWhyNot(m)

Init == l = 1
Judge ==
  /\ l <= Len(Log)
  /\ LET y == WhyNot(Log[l]) IN (y # "" => PrintT(<<"REJECT", l, y>>))
  /\ l' = l + 1
Spec == Init /\ [][Judge]_l
AllJudged == TLCGet("stats").diameter - 1 = Len(Log)
=============================================================================
