SPECIFICATION TraceSpec
CONSTANTS
 NCons = 1
 MaxSend = 1
INVARIANT TraceInv
POSTCONDITION TraceAccepted
CHECK_DEADLOCK FALSE
