---------------------------- MODULE BuildFnTrace ----------------------------
(***************************************************************************)
(* C07 — trace validation of the real tools against "a build step is a     *)
(* function".  The trace (NDJSON, environment variable TRACE) has one line *)
(* per run of a real tool in a fresh process:                              *)
(*     [tool, input, env, digest]                                          *)
(* fn is the function observed so far: (tool, input) -> digest.  A run     *)
(* whose digest differs from fn's value for the same tool and input is     *)
(* printed as <<"REJECT", line, "differs-from-earlier-run">>.              *)
(***************************************************************************)
EXTENDS Integers, Sequences, FiniteSets, TLC, Json, IOUtils

Trace == ndJsonDeserialize(IOEnv.TRACE)

VARIABLES l, fn
Init == l = 1 /\ fn = <<>>
Key(e) == <<e.tool, e.input>>
Run ==
  /\ l <= Len(Trace)
  /\ LET e == Trace[l]
     IN  IF Key(e) \in DOMAIN fn
         THEN /\ (fn[Key(e)] # e.digest => PrintT(<<"REJECT", l, "differs-from-earlier-run">>))
              /\ UNCHANGED fn
         ELSE fn' = (Key(e) :> e.digest) @@ fn
  /\ l' = l + 1
Spec == Init /\ [][Run]_<<l, fn>>
AllRuns == TLCGet("stats").diameter - 1 = Len(Trace)
=============================================================================
