SPECIFICATION Spec
CONSTANTS
 RSizes = {4, 8, 16}
 Rs = {1, 2, 3}
 NMs <- NMt
 Ls = {0, 1, 3}
 Os = {1, 2, 4}
 ModeLs = {0, 1, 2, 4}
 Extras = {0, 1, 3}
INVARIANT FixedWidth
INVARIANT Lossless
INVARIANT RangeCheck
CHECK_DEADLOCK FALSE
