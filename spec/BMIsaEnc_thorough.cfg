SPECIFICATION Spec
CONSTANTS
 RSizes = {8, 16}
 Rs = {1, 2}
 NMs <- NMq
 Ls = {0, 2}
 Os = {1, 3}
 ModeLs = {0, 2}
 Extras = {0, 3}
INVARIANT FixedWidth
INVARIANT Lossless
INVARIANT RangeCheck
CHECK_DEADLOCK FALSE
