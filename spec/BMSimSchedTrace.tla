-------------------------- MODULE BMSimSchedTrace --------------------------
(***************************************************************************)
(* Trace validation of REAL simulator executions (events recorded by the   *)
(* verif hooks of pkg/bondmachine, ordered by a sequence number taken      *)
(* under one lock) against the per-tick barrier BMSimBarrier, for several  *)
(* simulations running concurrently in one process, plus the determinism   *)
(* statement of C09 on the recorded per-tick state digests.                *)
(*  {"ev":"run","np":[n1,n2,..],"t0":[..]}  a new process-wide run with    *)
(*       these simulations; t0 = tick each starts from (a forked VM         *)
(*       continues its parent's tick count)                                 *)
(*  {"ev":"call","d":x,"ref":y}  result of a single-shot simulation call    *)
(*       run concurrently with others (d) and alone (ref)                   *)
(*  {"ev":"pre"|"post","sim":s}                                            *)
(*  {"ev":"start"|"end"|"got","sim":s,"p":p}                               *)
(*  {"ev":"digest","sim":s,"tick":t,"d":x,"ref":y}  state digest after tick *)
(*       t of this run (d) and of the same simulation run alone (ref)      *)
(***************************************************************************)
EXTENDS Integers, Sequences, FiniteSets, TLC, Json, IOUtils

Trace == ndJsonDeserialize(IOEnv.TRACE)
VARIABLES l, err, np, phase, started, ended, got, tick
tvars == <<l, err, np, phase, started, ended, got, tick>>

Judge(e) ==
  LET s == e.sim
  IN  CASE e.ev = "pre"   -> IF phase[s] = "idle" THEN "" ELSE "barrier:pre-inside-compute-phase"
        [] e.ev = "start" -> IF phase[s] # "compute" THEN "barrier:worker-steps-outside-compute-phase"
                             ELSE IF e.p \in started[s] THEN "barrier:processor-stepped-twice-in-a-tick" ELSE ""
        [] e.ev = "end"   -> IF e.p \in started[s] /\ e.p \notin ended[s] THEN "" ELSE "barrier:end-without-start"
        [] e.ev = "got"   -> IF e.p \in ended[s] /\ e.p \notin got[s] THEN "" ELSE "barrier:result-before-step-finished"
        [] e.ev = "post"  -> IF phase[s] = "compute" /\ got[s] = 0 .. np[s] - 1 THEN "" ELSE "barrier:post-move-before-all-results"
        [] e.ev = "digest" -> IF e.tick # tick[s] THEN "digest-tick"
                              ELSE IF e.d # e.ref THEN "state-differs-from-simulation-run-alone" ELSE ""

TRun ==
  /\ l <= Len(Trace) /\ Trace[l].ev = "run" /\ l' = l + 1
  /\ np' = Trace[l].np /\ err' = ""
  /\ phase' = [s \in DOMAIN Trace[l].np |-> "idle"]
  /\ started' = [s \in DOMAIN Trace[l].np |-> {}] /\ ended' = [s \in DOMAIN Trace[l].np |-> {}]
  /\ got' = [s \in DOMAIN Trace[l].np |-> {}] /\ tick' = [s \in DOMAIN Trace[l].np |-> Trace[l].t0[s]]

TCall ==
  /\ l <= Len(Trace) /\ Trace[l].ev = "call" /\ l' = l + 1
  /\ UNCHANGED <<err, np, phase, started, ended, got, tick>>
  /\ (Trace[l].d # Trace[l].ref) => PrintT(<<"REJECT", l, "result-differs-from-the-call-run-alone">>)

TEvent ==
  /\ l <= Len(Trace) /\ Trace[l].ev \notin {"run", "call"} /\ l' = l + 1 /\ UNCHANGED np
  /\ IF err # "" THEN UNCHANGED <<err, phase, started, ended, got, tick>>
     ELSE LET e == Trace[l]
              s == e.sim
              j == Judge(e)
          IN  /\ err' = j
              /\ (j # "") => PrintT(<<"REJECT", l, j>>)
              /\ phase' = IF e.ev = "pre" THEN [phase EXCEPT ![s] = "compute"]
                          ELSE IF e.ev = "post" THEN [phase EXCEPT ![s] = "idle"] ELSE phase
              /\ started' = IF e.ev = "pre" THEN [started EXCEPT ![s] = {}]
                            ELSE IF e.ev = "start" THEN [started EXCEPT ![s] = @ \cup {e.p}] ELSE started
              /\ ended' = IF e.ev = "pre" THEN [ended EXCEPT ![s] = {}]
                          ELSE IF e.ev = "end" THEN [ended EXCEPT ![s] = @ \cup {e.p}] ELSE ended
              /\ got' = IF e.ev = "pre" THEN [got EXCEPT ![s] = {}]
                        ELSE IF e.ev = "got" THEN [got EXCEPT ![s] = @ \cup {e.p}] ELSE got
              /\ tick' = IF e.ev = "post" THEN [tick EXCEPT ![s] = @ + 1] ELSE tick

TraceInit == l = 1 /\ err = "" /\ np = <<>> /\ phase = <<>> /\ started = <<>> /\ ended = <<>> /\ got = <<>> /\ tick = <<>>
TraceNext == TRun \/ TEvent \/ TCall
TraceSpec == TraceInit /\ [][TraceNext]_tvars
TraceAccepted == TLCGet("stats").diameter - 1 = Len(Trace)
=============================================================================
