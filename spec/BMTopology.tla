----------------------------- MODULE BMTopology -----------------------------
(***************************************************************************)
(* Implementation-level model of the topology edit API of                  *)
(* pkg/bondmachine/bondmachine.go (Add_input, Del_input, Add_output,       *)
(* Del_output, Add_processor, Add_bond, Del_bond, Attach_benchmark_core).  *)
(*                                                                         *)
(* Variables are the fields of the Go struct: Inputs, Outputs, Processors, *)
(* Domains (only N and M matter here), Internal_inputs, Internal_outputs   *)
(* (sequences of Bond triples) and Links (one slot per internal input,     *)
(* -1 or the 0-based index of an internal output).  Each action is a       *)
(* transcription of the Go method, including the keeppos/shift loops.      *)
(*                                                                         *)
(* TLC checks that this model refines BMTopologyAbs (bonds between names)  *)
(* and keeps WellFormed; the harness replays every transition of the       *)
(* reachable graph on the real Bondmachine object.                         *)
(***************************************************************************)
EXTENDS Integers, Sequences, FiniteSets, TLC

CONSTANTS Catalogue,   \* initial Domains: sequence of [n, m]
          MaxIn, MaxOut, MaxProc

VARIABLES nin, nout, procs, doms, ii, io, links

vars == <<nin, nout, procs, doms, ii, io, links>>

B(mt, res, ext) == [mt |-> mt, res |-> res, ext |-> ext]

\* bonds between named endpoints, as the code's List_bonds() derives them
AbsBonds == {<<io[links[i] + 1], ii[i]>> : i \in {j \in DOMAIN links : links[j] # -1}}

Abs == INSTANCE BMTopologyAbs WITH anin <- nin, anout <- nout, aprocs <- procs,
                                   adoms <- doms, bonds <- AbsBonds
NameStr(b) == Abs!NameStr(b)

SeqToSet(s) == {s[i] : i \in DOMAIN s}
NoDup(s) == \A i, j \in DOMAIN s : s[i] = s[j] => i = j

WellFormed ==
  /\ Len(links) = Len(ii)                                        \* one link slot per internal input
  /\ \A i \in DOMAIN links : links[i] \in -1 .. Len(io) - 1      \* every link points at an existing output
  /\ SeqToSet(ii) = Abs!Sinks   /\ NoDup(ii)                     \* endpoint lists match ports
  /\ SeqToSet(io) = Abs!Sources /\ NoDup(io)
  /\ Abs!AbsWF

Init ==
  /\ nin = 0 /\ nout = 0 /\ procs = <<>> /\ doms = Catalogue
  /\ ii = <<>> /\ io = <<>> /\ links = <<>>

------------------------------------------------------------------------------
AddInput ==
  /\ nin < MaxIn
  /\ io' = Append(io, B(0, nin, 0))
  /\ nin' = nin + 1
  /\ UNCHANGED <<nout, procs, doms, ii, links>>

\* Filter a sequence keeping order.
Filter(s, Keep(_)) == SelectSeq(s, Keep)

DelInput(k) ==
  /\ k <= nin
  /\ IF k < nin
       THEN LET \* 1 - remove all the bonds using the input
                l1 == [i \in DOMAIN links |->
                         IF links[i] # -1 /\ io[links[i] + 1].mt = 0 /\ io[links[i] + 1].res = k
                         THEN -1 ELSE links[i]]
                \* 2/3 - remove the internal output, lower by 1 the ids above it
                Keep(b) == ~(b.mt = 0 /\ b.res = k)
                ren(b)  == IF b.mt = 0 /\ b.res > k THEN B(0, b.res - 1, 0) ELSE b
                kept    == Filter(io, Keep)
                removed == {i \in DOMAIN io : ~Keep(io[i])}
                keeppos == IF removed = {} THEN -1 ELSE (CHOOSE i \in removed : \A j \in removed : j <= i) - 1
            IN  /\ io' = [i \in DOMAIN kept |-> ren(kept[i])]
                \* 4 - shift links
                /\ links' = [i \in DOMAIN l1 |->
                               IF keeppos > -1 /\ l1[i] > keeppos THEN l1[i] - 1 ELSE l1[i]]
                /\ nin' = nin - 1
                /\ UNCHANGED <<nout, procs, doms, ii>>
       ELSE UNCHANGED vars

AddOutput ==
  /\ nout < MaxOut
  /\ ii' = Append(ii, B(1, nout, 0))
  /\ links' = Append(links, -1)
  /\ nout' = nout + 1
  /\ UNCHANGED <<nin, procs, doms, io>>

DelOutput(k) ==
  /\ k <= nout
  /\ IF k < nout
       THEN LET keepIdx == {i \in DOMAIN ii : ~(ii[i].mt = 1 /\ ii[i].res = k)}
                ren(b)  == IF b.mt = 1 /\ b.res > k THEN B(1, b.res - 1, 0) ELSE b
                \* order preserving compaction of both arrays together
                Rank(i) == Cardinality({j \in keepIdx : j <= i})
                n == Cardinality(keepIdx)
                src(r) == CHOOSE i \in keepIdx : Rank(i) = r
            IN  /\ ii' = [r \in 1 .. n |-> ren(ii[src(r)])]
                /\ links' = [r \in 1 .. n |-> links[src(r)]]
                /\ nout' = nout - 1
                /\ UNCHANGED <<nin, procs, doms, io>>
       ELSE UNCHANGED vars

AddProcessor(d) ==
  /\ d <= Len(doms)
  /\ IF d < Len(doms)
       THEN /\ Len(procs) < MaxProc
            /\ LET p == Len(procs)
                   n == doms[d + 1].n
                   m == doms[d + 1].m
               IN  /\ ii' = ii \o [x \in 1 .. n |-> B(2, p, x - 1)]
                   /\ links' = links \o [x \in 1 .. n |-> -1]
                   /\ io' = io \o [x \in 1 .. m |-> B(3, p, x - 1)]
                   /\ procs' = Append(procs, d)
            /\ UNCHANGED <<nin, nout, doms>>
       ELSE UNCHANGED vars

\* Names offered to Add_bond / Attach_benchmark_core: every existing endpoint plus one that
\* never exists.
CurNames == {NameStr(b) : b \in SeqToSet(ii) \cup SeqToSet(io)} \cup {"zz"}

\* Add_bond as coded: the first internal input whose name is e0 or e1 decides; then the first
\* internal output carrying the other name; nothing happens when either search fails.
BondUpdate(lk, iiS, ioS, e0, e1) ==
  LET hits == {i \in DOMAIN iiS : NameStr(iiS[i]) = e0 \/ NameStr(iiS[i]) = e1}
  IN  IF hits = {} THEN lk
      ELSE LET i == CHOOSE x \in hits : \A y \in hits : x <= y
               other == IF NameStr(iiS[i]) = e0 THEN e1 ELSE e0
               outs == {j \in DOMAIN ioS : NameStr(ioS[j]) = other}
           IN  IF outs = {} THEN lk
               ELSE LET j == CHOOSE x \in outs : \A y \in outs : x <= y
                    IN  [lk EXCEPT ![i] = j - 1]

AddBond(e0, e1) ==
  /\ e0 \in CurNames /\ e1 \in CurNames
  /\ links' = BondUpdate(links, ii, io, e0, e1)
  /\ UNCHANGED <<nin, nout, procs, doms, ii, io>>

DelBond(bid) ==
  /\ bid <= Len(links)
  /\ IF bid < Len(links)
       THEN /\ links' = [links EXCEPT ![bid + 1] = -1]
            /\ UNCHANGED <<nin, nout, procs, doms, ii, io>>
       ELSE UNCHANGED vars

\* Attach_benchmark_core: a composite of the calls above, as the Go code performs them.
AttachBC(e0, e1) ==
  /\ e0 \in CurNames /\ e1 \in CurNames
  /\ IF (\E j \in DOMAIN io : NameStr(io[j]) = e0) /\ (\E j \in DOMAIN io : NameStr(io[j]) = e1)
       THEN /\ Len(procs) < MaxProc /\ nout < MaxOut
            /\ LET p   == Len(procs)
                   ii1 == ii \o <<B(2, p, 0), B(2, p, 1)>>
                   l1  == links \o <<-1, -1>>
                   io1 == Append(io, B(3, p, 0))
                   l2  == BondUpdate(l1, ii1, io1, NameStr(B(2, p, 0)), e0)
                   l3  == BondUpdate(l2, ii1, io1, NameStr(B(2, p, 1)), e1)
                   ii2 == Append(ii1, B(1, nout, 0))
                   l4  == Append(l3, -1)
                   l5  == BondUpdate(l4, ii2, io1, NameStr(B(3, p, 0)), NameStr(B(1, nout, 0)))
               IN  /\ doms' = Append(doms, [n |-> 2, m |-> 1])
                   /\ procs' = Append(procs, Len(doms))
                   /\ ii' = ii2 /\ io' = io1 /\ links' = l5
                   /\ nout' = nout + 1 /\ nin' = nin
       ELSE UNCHANGED vars

\* Constant (state independent) parameter domains, so that TLC labels every transition with
\* the action and its arguments (the harness replays them by name).
MaxPorts == 3
AllNames ==
  {NameStr(B(0, k, 0)) : k \in 0 .. MaxIn} \cup {NameStr(B(1, k, 0)) : k \in 0 .. MaxOut} \cup
  {NameStr(B(2, p, x)) : p \in 0 .. MaxProc - 1, x \in 0 .. MaxPorts - 1} \cup
  {NameStr(B(3, p, x)) : p \in 0 .. MaxProc - 1, x \in 0 .. MaxPorts - 1} \cup {"zz"}
MaxDoms == Len(Catalogue) + MaxProc
MaxLinks == MaxOut + MaxProc * MaxPorts

Next ==
  \/ AddInput \/ AddOutput
  \/ \E k \in 0 .. MaxIn  : DelInput(k)
  \/ \E k \in 0 .. MaxOut : DelOutput(k)
  \/ \E d \in 0 .. MaxDoms : AddProcessor(d)
  \/ \E e0, e1 \in AllNames : AddBond(e0, e1)
  \/ \E e0, e1 \in AllNames : AttachBC(e0, e1)
  \/ \E bid \in 0 .. MaxLinks : DelBond(bid)

Spec == Init /\ [][Next]_vars

\* Refinement: every step of the index-array model is a step of the named-bond model.
AbsSpec == [][Abs!ANext(CurNames)]_<<nin, nout, procs, doms, AbsBonds>>
=============================================================================
