SPECIFICATION Spec
CONSTANTS
 MaxBinLen = 6
 MaxHexLen = 3
 Sizes = {1, 4, 8, 9, 16, 24}
INVARIANT WidthLaw
INVARIANT RoundTrip
CHECK_DEADLOCK FALSE
