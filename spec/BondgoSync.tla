----------------------------- MODULE BondgoSync -----------------------------
(***************************************************************************)
(* C12, concurrency half: the three goroutines of the bondgo compiler      *)
(* (cmd/bondgo/bondgo.go, pkg/bondgo/runinfo.go, requirements.go):         *)
(*   V  the visitor (main goroutine): walks the AST; asks the assigner for *)
(*      variables (REQ_NEW / REQ_REMOVE on Reqs, reply on Answers) and     *)
(*      notifies the usage monitor of what the code uses (Used); when the  *)
(*      walk is over: TR_EXIT to the monitor, wait usagedone, REQ_EXIT to  *)
(*      the assigner, wait assignerdone;                                   *)
(*   A  Var_assigner: serves requests; for a new variable it also notifies *)
(*      the usage monitor (register / memory size requirement);            *)
(*   M  Usage_Monitor: accumulates requirements until TR_EXIT.             *)
(* All channels are unbuffered: each rendezvous is one action.  The        *)
(* visitor's sequence of operations is nondeterministic (it quantifies     *)
(* over programs as the protocol sees them).                               *)
(* Order = "answer-first": A answers the requester and THEN notifies the   *)
(* monitor (as coded at the pinned commit); "notify-first": the reverse.   *)
(***************************************************************************)
EXTENDS Integers, FiniteSets, TLC

CONSTANTS MaxOps, Order

VARIABLES vpc, apc, mpc, ops, areq, owed, notes, news
vars == <<vpc, apc, mpc, ops, areq, owed, notes, news>>

Init == vpc = "run" /\ apc = "recv" /\ mpc = "recv" /\ ops = 0 /\ areq = "" /\ owed = 0 /\ notes = 0 /\ news = 0

\* the visitor decides what to do next
VChoose ==
  /\ vpc = "run"
  /\ \/ ops < MaxOps /\ vpc' \in {"sendNew", "sendRem", "sendUse"} /\ ops' = ops + 1
     \/ vpc' = "sendExitMon" /\ ops' = ops
  /\ UNCHANGED <<apc, mpc, areq, owed, notes, news>>

\* Reqs: V -> A
ReqsRendezvous ==
  /\ apc = "recv" /\ vpc \in {"sendNew", "sendRem", "sendExitAsg"}
  /\ areq' = vpc
  /\ vpc' = IF vpc = "sendExitAsg" THEN "waitAsgDone" ELSE "waitAns"
  /\ apc' = CASE vpc = "sendNew" -> (IF Order = "answer-first" THEN "answer" ELSE "notify")
              [] vpc = "sendRem" -> "answer"
              [] vpc = "sendExitAsg" -> "sendDone"
  /\ owed' = IF vpc = "sendNew" THEN owed + 1 ELSE owed
  /\ news' = IF vpc = "sendNew" THEN news + 1 ELSE news
  /\ UNCHANGED <<mpc, ops, notes>>

\* Answers: A -> V
AnswersRendezvous ==
  /\ apc = "answer" /\ vpc = "waitAns"
  /\ vpc' = "run"
  /\ apc' = IF areq = "sendNew" /\ Order = "answer-first" THEN "notify" ELSE "recv"
  /\ UNCHANGED <<mpc, ops, areq, owed, notes, news>>

\* Used: A -> M (the requirement notification the assigner owes for a new variable)
NotifyRendezvous ==
  /\ apc = "notify" /\ mpc = "recv"
  /\ owed' = owed - 1 /\ notes' = notes + 1
  /\ apc' = IF Order = "answer-first" THEN "recv" ELSE "answer"
  /\ UNCHANGED <<vpc, mpc, ops, areq, news>>

\* Used: V -> M (the visitor's own notifications, and TR_EXIT)
UsedRendezvous ==
  /\ mpc = "recv" /\ vpc \in {"sendUse", "sendExitMon"}
  /\ mpc' = IF vpc = "sendExitMon" THEN "sendDone" ELSE "recv"
  /\ vpc' = IF vpc = "sendExitMon" THEN "waitMonDone" ELSE "run"
  /\ UNCHANGED <<apc, ops, areq, owed, notes, news>>

MonDone == mpc = "sendDone" /\ vpc = "waitMonDone" /\ mpc' = "done" /\ vpc' = "sendExitAsg" /\ UNCHANGED <<apc, ops, areq, owed, notes, news>>
AsgDone == apc = "sendDone" /\ vpc = "waitAsgDone" /\ apc' = "done" /\ vpc' = "done" /\ UNCHANGED <<mpc, ops, areq, owed, notes, news>>

Next == VChoose \/ ReqsRendezvous \/ AnswersRendezvous \/ NotifyRendezvous \/ UsedRendezvous \/ MonDone \/ AsgDone
Fair == WF_vars(Next)
Spec == Init /\ [][Next]_vars
FairSpec == Spec /\ Fair

AllDone == vpc = "done" /\ apc = "done" /\ mpc = "done"
\* the compilation never gets stuck
DeadlockFree == AllDone \/ ENABLED Next
Termination == <>AllDone
\* every notification the assigner owes reaches the monitor before the monitor exits
NotifiedBeforeExit == mpc \in {"sendDone", "done"} => owed = 0
\* what the monitor has accumulated at the end does not depend on the interleaving
SameRequirements == AllDone => notes = news
=============================================================================
