SPECIFICATION Spec
INVARIANT NothingLostOrInvented
INVARIANT InStep
CHECK_DEADLOCK FALSE
