SPECIFICATION TraceSpec
CONSTANT MaxRules = 3
POSTCONDITION TraceAccepted
CHECK_DEADLOCK FALSE
