------------------------------ MODULE GoSubset ------------------------------
(***************************************************************************)
(* C12, semantic half: reference semantics of the Go subset the bondgo     *)
(* compiler accepts, over register-sized unsigned variables with           *)
(* wrap-around: assignment, + and *, ++/--, IOWrite to outputs, and        *)
(* if/else on ==.  A behaviour of this specification BUILDS a program one  *)
(* statement at a time and executes it as it goes: prog is the program so  *)
(* far, env the variable values, outs the values written to the outputs,   *)
(* in order.  TLC -simulate produces random programs with their expected   *)
(* output; the harness prints each as Go source, compiles it with the real *)
(* bondgo, simulates the emitted machine and compares the output streams.  *)
(***************************************************************************)
EXTENDS Integers, Sequences, FiniteSets, TLC

CONSTANTS RSize, MaxLen, WithIf,
          NoAssign,   \* TRUE: only ++ / -- / IOWrite / late declarations (no `=` anywhere)
          Repeat,     \* the complete program is the body of an endless loop: further iterations executed here
          WithCalls   \* TRUE: expressions may call the functions twice(x) = x + x and addmul(a, b) = (a + b) * b
                      \* (addmul keeps its sum in a local variable that is not a register)

TopVars == {"a", "b", "c"}          \* declared at the top of main
LateVars == {"d", "e"}              \* declared by a statement in the middle of the program
Vars == TopVars \cup LateVars
Outs == {0, 1}
Mod == 2 ^ RSize
Consts == {0, 1, 2, 3, Mod - 1, Mod \div 2}

VARIABLES prog, env, outs, declared, iter
vars == <<prog, env, outs, declared, iter>>

Atom == [k : {"const"}, n : Consts] \cup [k : {"var"}, v : Vars]
Zero == [k |-> "const", n |-> 0]
Expr == Atom \cup [k : {"add", "mul"}, l : Atom, r : Atom]
             \cup (IF WithCalls THEN [k : {"addmul"}, l : Atom, r : Atom] \cup [k : {"twice"}, l : Atom, r : {Zero}] ELSE {})

Eval(e, en) ==
  CASE e.k = "const" -> e.n
    [] e.k = "var" -> en[e.v]
    [] e.k = "add" -> ((IF e.l.k = "const" THEN e.l.n ELSE en[e.l.v]) + (IF e.r.k = "const" THEN e.r.n ELSE en[e.r.v])) % Mod
    [] e.k = "mul" -> ((IF e.l.k = "const" THEN e.l.n ELSE en[e.l.v]) * (IF e.r.k = "const" THEN e.r.n ELSE en[e.r.v])) % Mod
    [] e.k = "twice" -> (2 * (IF e.l.k = "const" THEN e.l.n ELSE en[e.l.v])) % Mod
    [] e.k = "addmul" -> LET a == IF e.l.k = "const" THEN e.l.n ELSE en[e.l.v]
                             b == IF e.r.k = "const" THEN e.r.n ELSE en[e.r.v]
                         IN  (((a + b) % Mod) * b) % Mod

Simple == [k : {"set"}, v : Vars, e : Expr] \cup [k : {"inc", "dec"}, v : Vars] \cup [k : {"out"}, o : Outs, e : Expr]
\* v, w = e, f : both right-hand sides are evaluated before either variable is assigned
TopAtom == [k : {"var"}, v : TopVars]
Tuple == {t \in [k : {"tuple"}, v : TopVars, w : TopVars, e : TopAtom \cup [k : {"add"}, l : TopAtom, r : TopAtom],
                                                           f : TopAtom \cup [k : {"add"}, l : TopAtom, r : TopAtom]] : t.v # t.w}
\* if l == r { t } else { f }  with single simple statements in the branches
SmallConst == [k : {"const"}, n : {0, 1, 2}]
VarAtom == [k : {"var"}, v : Vars]
Branch == [k : {"set"}, v : Vars, e : SmallConst] \cup [k : {"inc"}, v : Vars] \cup [k : {"out"}, o : Outs, e : SmallConst \cup VarAtom]
IfStmt == [k : {"ifeq"}, l : VarAtom, r : SmallConst \cup VarAtom, t : Branch, f : Branch]

\* effect of a simple statement: [env, outs]
Do(s, en, os) ==
  CASE s.k = "set" -> [env |-> [en EXCEPT ![s.v] = Eval(s.e, en)], outs |-> os]
    [] s.k = "inc" -> [env |-> [en EXCEPT ![s.v] = (@ + 1) % Mod], outs |-> os]
    [] s.k = "dec" -> [env |-> [en EXCEPT ![s.v] = (@ + Mod - 1) % Mod], outs |-> os]
    [] s.k = "out" -> [env |-> en, outs |-> Append(os, <<s.o, Eval(s.e, en)>>)]
    [] s.k = "tuple" -> [env |-> [en EXCEPT ![s.v] = Eval(s.e, en), ![s.w] = Eval(s.f, en)], outs |-> os]

Init == prog = <<>> /\ env = [v \in Vars |-> 0] /\ outs = <<>> /\ declared = TopVars /\ iter = 1

\* the variables a statement mentions
AtomVars(e) == IF e.k = "var" THEN {e.v} ELSE {}
ExprVars(e) == IF e.k \in {"add", "mul", "addmul", "twice"} THEN AtomVars(e.l) \cup AtomVars(e.r) ELSE AtomVars(e)
StmtVars(s) == CASE s.k = "set" -> {s.v} \cup ExprVars(s.e) [] s.k \in {"inc", "dec"} -> {s.v} [] s.k = "out" -> ExprVars(s.e)
                 [] s.k = "tuple" -> {s.v, s.w} \cup ExprVars(s.e) \cup ExprVars(s.f)
                 [] s.k = "ifeq" -> AtomVars(s.l) \cup AtomVars(s.r) \cup (IF s.t.k = "out" THEN ExprVars(s.t.e) ELSE {s.t.v})
                                    \cup (IF s.f.k = "out" THEN ExprVars(s.f.e) ELSE {s.f.v})
Allowed(s) == StmtVars(s) \subseteq declared /\ (NoAssign => s.k \in {"inc", "dec", "out"})

\* `var reg_v T` in the middle of the program: the variable exists from here on, with value 0
AddDecl(v) ==
  /\ Len(prog) < MaxLen /\ v \in LateVars \ declared
  /\ prog' = Append(prog, [k |-> "decl", v |-> v])
  /\ declared' = declared \cup {v} /\ env' = [env EXCEPT ![v] = 0] /\ outs' = outs /\ iter' = iter

AddSimple(s) ==
  /\ Len(prog) < MaxLen /\ Allowed(s) /\ UNCHANGED <<declared, iter>>
  /\ prog' = Append(prog, s)
  /\ LET d == Do(s, env, outs) IN env' = d.env /\ outs' = d.outs

AddIf(s) ==
  /\ Len(prog) < MaxLen /\ Allowed(s) /\ ~NoAssign /\ UNCHANGED <<declared, iter>>
  /\ prog' = Append(prog, s)
  /\ LET d == IF Eval(s.l, env) = Eval(s.r, env) THEN Do(s.t, env, outs) ELSE Do(s.f, env, outs)
     IN  env' = d.env /\ outs' = d.outs

\* one more iteration of the loop whose body is the complete program (a variable declared in the
\* body is a fresh zero in every iteration)
DoAny(s, en, os) ==
  CASE s.k = "decl" -> [env |-> [en EXCEPT ![s.v] = 0], outs |-> os]
    [] s.k = "ifeq" -> (IF Eval(s.l, en) = Eval(s.r, en) THEN Do(s.t, en, os) ELSE Do(s.f, en, os))
    [] OTHER -> Do(s, en, os)
RECURSIVE RunFrom(_, _, _)
RunFrom(i, en, os) == IF i > Len(prog) THEN [env |-> en, outs |-> os]
                      ELSE LET d == DoAny(prog[i], en, os) IN RunFrom(i + 1, d.env, d.outs)
Again ==
  /\ Len(prog) = MaxLen /\ iter < Repeat
  /\ LET d == RunFrom(1, env, outs) IN env' = d.env /\ outs' = d.outs
  /\ iter' = iter + 1 /\ UNCHANGED <<prog, declared>>

\* (written with an outer choice so that the simulator, which picks uniformly among the
\* sub-actions it can split Next into, chooses an if statement about once in four steps)
Next == \E w \in 1 .. 7 :
          IF Len(prog) = MaxLen THEN (w = 1 /\ Again)
          ELSE IF w = 1 /\ WithIf THEN \E s \in IfStmt : AddIf(s)
          ELSE IF w = 2 THEN \E v \in LateVars : AddDecl(v)
          ELSE IF w = 3 /\ ~NoAssign THEN \E s \in Tuple : AddSimple(s)
          ELSE \E s \in Simple : AddSimple(s)
Spec == Init /\ [][Next]_vars

\* sanity of the semantics
TypeOK == \A v \in Vars : env[v] \in 0 .. Mod - 1
=============================================================================
