------------------------------- MODULE Simbox -------------------------------
(***************************************************************************)
(* C15 — simulation rules (pkg/simbox, docs/simbox-rules.md).              *)
(*                                                                         *)
(* Three parts:                                                            *)
(*  1. the rule grammar: Print / Parse over token sequences, with the      *)
(*     defaulting of the extra field; theorem ParsePrint (ParseRule(PrintRule(r))  *)
(*     = r) checked by TLC over the bounded rule domain;                   *)
(*  2. the rule list as a state machine with edit actions Add, Del,        *)
(*     Suspend, Reactivate, SaveLoad (a stuttering step): every transition *)
(*     of the bounded graph is replayed on the real Simbox object;         *)
(*  3. the EFFECT of an active rule list on a simulation whose rule-free   *)
(*     reference trace is Ref: which values are injected, shown and        *)
(*     reported at which tick (ValAt, Shows, Gets).  These operators judge *)
(*     the real simulator's observed output in SimboxTrace.                *)
(***************************************************************************)
EXTENDS Integers, Sequences, FiniteSets, TLC

CONSTANTS MaxRules     \* bound on the length of the rule list (edit histories)

\* ---- 1. grammar ---------------------------------------------------------------------------------
Timed   == {"absolute", "relative"}
Evented == {"onvalid", "onrecv", "onexit"}
ConfigParam == {"get_all", "get_all_internal", "show_all", "show_all_internal"}
ConfigPlain == {"show_pc", "show_instruction", "show_disasm", "show_ticks", "get_ticks", "show_proc_regs_pre",
                "show_proc_regs_post", "show_proc_io_pre", "show_proc_io_post", "show_io_pre", "show_io_post"}

Rule(tc, tick, act, obj, extra, susp) ==
  [timec |-> tc, tick |-> tick, action |-> act, object |-> obj, extra |-> extra, suspended |-> susp]

Ticks   == {0, 1, 3, 7}
Objects == {"i0", "o0", "p0r0", "p1i0", "p0o0", "nosuch"}
Extras  == {"unsigned", "hex", "5", "0x1f"}

RuleDomain ==
  {Rule(tc, t, a, o, e, FALSE) : tc \in Timed, t \in Ticks, a \in {"set", "get", "show"}, o \in Objects, e \in Extras} \cup
  {Rule(tc, 0, a, o, e, FALSE) : tc \in Evented, a \in {"get", "show"}, o \in Objects, e \in Extras} \cup
  {Rule("config", 0, "config", o, e, FALSE) : o \in ConfigParam, e \in {"unsigned", "hex"}} \cup
  {Rule("config", 0, "config", o, "", FALSE) : o \in ConfigPlain}

PrintRule(r) ==
  CASE r.timec \in Timed   -> <<r.timec, ToString(r.tick), r.action, r.object, r.extra>>
    [] r.timec \in Evented -> <<r.timec, r.action, r.object, r.extra>>
    [] r.timec = "config"  -> IF r.object \in ConfigParam THEN <<"config", r.object, r.extra>> ELSE <<"config", r.object>>

NumOf(s) == CHOOSE n \in 0 .. 1000 : ToString(n) = s
IsNum(s) == \E n \in 0 .. 1000 : ToString(n) = s
NoRule == [timec |-> "error"]

\* the inverse, with the documented defaulting: a get/show rule without format is "unsigned"
ParseRule(f) ==
  CASE Len(f) = 5 /\ f[1] \in Timed /\ IsNum(f[2]) /\ f[3] \in {"set", "get", "show"} -> Rule(f[1], NumOf(f[2]), f[3], f[4], f[5], FALSE)
    [] Len(f) = 4 /\ f[1] \in Timed /\ IsNum(f[2]) /\ f[3] \in {"get", "show"} -> Rule(f[1], NumOf(f[2]), f[3], f[4], "unsigned", FALSE)
    [] Len(f) = 4 /\ f[1] \in Evented /\ f[2] \in {"get", "show"} -> Rule(f[1], 0, f[2], f[3], f[4], FALSE)
    [] Len(f) = 3 /\ f[1] \in Evented /\ f[2] \in {"get", "show"} -> Rule(f[1], 0, f[2], f[3], "unsigned", FALSE)
    [] Len(f) = 3 /\ f[1] = "config" /\ f[2] \in ConfigParam -> Rule("config", 0, "config", f[2], f[3], FALSE)
    [] Len(f) = 2 /\ f[1] = "config" /\ f[2] \in ConfigPlain -> Rule("config", 0, "config", f[2], "", FALSE)
    [] OTHER -> NoRule

ParsePrint == \A r \in RuleDomain : ParseRule(PrintRule(r)) = r
\* the short forms
ShortForms ==
  {<<tc, ToString(t), a, o>> : tc \in Timed, t \in Ticks, a \in {"get", "show"}, o \in Objects} \cup
  {<<tc, a, o>> : tc \in Evented, a \in {"get", "show"}, o \in Objects}
ShortFormsDefault == \A f \in ShortForms : ParseRule(f) # NoRule /\ ParseRule(f).extra = "unsigned"

\* ---- 2. the rule list and its edit history ------------------------------------------------------
VARIABLES rules
EditRules == {Rule("absolute", 3, "set", "p0r0", "5", FALSE), Rule("relative", 1, "show", "o0", "hex", FALSE),
              Rule("onvalid", 0, "get", "o0", "unsigned", FALSE), Rule("config", 0, "config", "show_ticks", "", FALSE)}
EditRuleSeq == <<Rule("absolute", 3, "set", "p0r0", "5", FALSE), Rule("relative", 1, "show", "o0", "hex", FALSE),
                 Rule("onvalid", 0, "get", "o0", "unsigned", FALSE), Rule("config", 0, "config", "show_ticks", "", FALSE)>>

Init == rules = <<>>
Add(k) == Len(rules) < MaxRules /\ rules' = Append(rules, EditRuleSeq[k])
Del(i) == i <= Len(rules) /\ rules' = IF i < Len(rules) THEN [j \in 1 .. Len(rules) - 1 |-> IF j <= i THEN rules[j] ELSE rules[j + 1]] ELSE rules
Suspend(i) == i <= Len(rules) /\ rules' = IF i < Len(rules) THEN [rules EXCEPT ![i + 1].suspended = TRUE] ELSE rules
Reactivate(i) == i <= Len(rules) /\ rules' = IF i < Len(rules) THEN [rules EXCEPT ![i + 1].suspended = FALSE] ELSE rules
SaveLoad == UNCHANGED rules
Next == (\E k \in 1 .. 4 : Add(k)) \/ (\E i \in 0 .. MaxRules : Del(i) \/ Suspend(i) \/ Reactivate(i)) \/ SaveLoad
Spec == Init /\ [][Next]_rules
TypeOK == Len(rules) <= MaxRules /\ \A i \in DOMAIN rules : rules[i] \in [timec : STRING, tick : Nat, action : STRING, object : STRING, extra : STRING, suspended : BOOLEAN]

\* ---- 3. effects -----------------------------------------------------------------------------------
(* A run: ticks 0 .. n-1 are simulated; if exit >= 0 the loop stops at iteration exit WITHOUT stepping   *)
(* (the -sim-stop-on-valid-of case), otherwise it ends when the n iterations are exhausted.              *)
(* ref[t+1][obj]  value of obj after the step of tick t in the rule-free run                             *)
(* vref[t+1][obj] valid line of obj (i0 / o0 only) after the step of tick t in the run under test        *)
(* val[e] is the numeric value of the extra field e of a set rule.                                       *)
Active(rs) == SelectSeq(rs, LAMBDA r : ~r.suspended)

\* the set rules (as the documentation defines them) that have fired on obj by the end of tick t
SetsUpTo(rs, obj, t) ==
  {i \in DOMAIN rs : /\ rs[i].action = "set" /\ rs[i].object = obj
                     /\ \/ rs[i].timec = "absolute" /\ rs[i].tick <= t
                        \/ rs[i].timec = "relative" /\ rs[i].tick > 0}
\* tick at which rule i last fired at or before t
LastFire(r, t) == IF r.timec = "absolute" THEN r.tick ELSE t - (t % r.tick)
\* value of an object that the machine itself never writes, after the step of tick t
ValAt(rs, obj, t, ref, val) ==
  LET S == SetsUpTo(rs, obj, t)
  IN  IF S = {} THEN ref[t + 1][obj]
      ELSE LET last == CHOOSE i \in S : \A j \in S : \/ LastFire(rs[j], t) < LastFire(rs[i], t)
                                                     \/ (LastFire(rs[j], t) = LastFire(rs[i], t) /\ j <= i)
           IN  val[rs[last].extra]

Fires(r, t, isExit, vrise) ==
  \/ r.timec = "absolute" /\ r.tick = t
  \/ r.timec = "relative" /\ r.tick > 0 /\ t % r.tick = 0
  \/ r.timec = "onvalid" /\ r.object \in vrise
  \/ r.timec = "onexit" /\ isExit

\* what must be shown / reported at iteration t: bags as sets of [kind, obj, v] (kind = the rule
\* form it comes from, used to name what is missing)
Expect(rs, act, t, tval, isExit, vrise, ref, val) ==
  {[kind |-> rs[i].timec, obj |-> rs[i].object, v |-> ValAt(rs, rs[i].object, tval, ref, val)] :
     i \in {j \in DOMAIN rs : rs[j].action = act /\ Fires(rs[j], t, isExit, vrise)}}
=============================================================================
