----------------------------- MODULE SimboxScen -----------------------------
(***************************************************************************)
(* C15, effects: the scenarios run on the real simulator.  A scenario is a *)
(* rule list made of ONE feature rule (possibly suspended, possibly two    *)
(* rules for ordering cases) and observer rules that make its effect       *)
(* visible, plus the run mode.  The label names the feature so that a      *)
(* rejection is attributed to a rule form.  Every scenario is exported; the *)
(* harness runs it on the real `bondmachine -sim` binary and SimboxTrace    *)
(* judges what the binary printed.                                          *)
(***************************************************************************)
EXTENDS Simbox, Json, IOUtils, SequencesExt

R(tc, t, a, o, e) == Rule(tc, t, a, o, e, FALSE)
ObsReg(o) == <<R("relative", 1, "get", o, "unsigned"), R("relative", 1, "show", o, "unsigned")>>
ObsIn     == <<R("relative", 1, "get", "i0", "unsigned"), R("onvalid", 0, "show", "i0", "unsigned")>>

Features == <<
  [label |-> "absolute-set",        f |-> <<R("absolute", 3, "set", "p0r1", "5")>>, obs |-> ObsReg("p0r1")],
  [label |-> "absolute-set-tick0",  f |-> <<R("absolute", 0, "set", "p0r2", "9")>>, obs |-> ObsReg("p0r2")],
  [label |-> "absolute-set-twice",  f |-> <<R("absolute", 3, "set", "p0r1", "5"), R("absolute", 7, "set", "p0r1", "9")>>, obs |-> ObsReg("p0r1")],
  [label |-> "absolute-set-two-objects", f |-> <<R("absolute", 3, "set", "p0r1", "5"), R("absolute", 3, "set", "p0r2", "9")>>, obs |-> ObsReg("p0r1") \o ObsReg("p0r2")],
  [label |-> "absolute-set-input",  f |-> <<R("absolute", 3, "set", "i0", "5")>>, obs |-> ObsIn],
  [label |-> "absolute-set-second-input", f |-> <<R("absolute", 3, "set", "i1", "5")>>,
     obs |-> <<R("relative", 1, "get", "i1", "unsigned"), R("onvalid", 0, "show", "i1", "unsigned"), R("onvalid", 0, "show", "i0", "unsigned")>>],
  [label |-> "absolute-set-register-then-input", f |-> <<R("absolute", 3, "set", "p0r1", "5"), R("absolute", 5, "set", "i0", "9")>>,
     obs |-> ObsReg("p0r1") \o <<R("relative", 1, "get", "i0", "unsigned"), R("onvalid", 0, "show", "i0", "unsigned"), R("onvalid", 0, "show", "i1", "unsigned")>>],
  [label |-> "absolute-set-inputs-reversed", f |-> <<R("absolute", 2, "set", "i1", "5"), R("absolute", 6, "set", "i0", "9")>>,
     obs |-> <<R("onvalid", 0, "show", "i0", "unsigned"), R("onvalid", 0, "show", "i1", "unsigned"), R("relative", 1, "get", "i0", "unsigned"), R("relative", 1, "get", "i1", "unsigned")>>],
  [label |-> "relative-set",        f |-> <<R("relative", 2, "set", "p0r1", "5")>>, obs |-> ObsReg("p0r1")],
  [label |-> "absolute-get",        f |-> <<R("absolute", 3, "get", "o0", "unsigned")>>, obs |-> <<>>],
  [label |-> "absolute-get-reg",    f |-> <<R("absolute", 7, "get", "p0r0", "unsigned")>>, obs |-> <<>>],
  [label |-> "absolute-show",       f |-> <<R("absolute", 7, "show", "p0r0", "unsigned")>>, obs |-> <<>>],
  \* an object that is reported AND shown, next to another shown object (the show rules come after the get)
  [label |-> "absolute-show-of-reported-object", f |-> <<R("relative", 1, "get", "o0", "unsigned"), R("absolute", 4, "show", "i0", "unsigned"), R("absolute", 6, "show", "o0", "unsigned")>>, obs |-> <<>>],
  [label |-> "absolute-show-of-reported-register", f |-> <<R("relative", 1, "get", "p0r0", "unsigned"), R("absolute", 5, "show", "p0r1", "unsigned"), R("absolute", 7, "show", "p0r0", "unsigned")>>, obs |-> <<>>],
  [label |-> "absolute-show-two-objects", f |-> <<R("absolute", 4, "show", "p0r0", "unsigned"), R("absolute", 4, "show", "o0", "unsigned")>>, obs |-> <<>>],
  [label |-> "absolute-get-beyond", f |-> <<R("absolute", 500, "get", "o0", "unsigned")>>, obs |-> <<>>],
  [label |-> "relative-get",        f |-> <<R("relative", 2, "get", "o0", "unsigned")>>, obs |-> <<>>],
  [label |-> "relative-show",       f |-> <<R("relative", 5, "show", "p0r0", "unsigned")>>, obs |-> <<>>],
  [label |-> "relative-get-after-set", f |-> <<R("relative", 3, "get", "p0r1", "unsigned")>>, obs |-> <<R("absolute", 1, "set", "p0r1", "9")>>],
  [label |-> "onvalid-show",        f |-> <<R("onvalid", 0, "show", "o0", "unsigned")>>, obs |-> <<>>],
  [label |-> "onvalid-get",         f |-> <<R("onvalid", 0, "get", "o0", "unsigned")>>, obs |-> <<>>],
  [label |-> "onexit-show",         f |-> <<R("onexit", 0, "show", "p0r0", "unsigned")>>, obs |-> <<>>],
  [label |-> "onexit-get",          f |-> <<R("onexit", 0, "get", "p0r0", "unsigned")>>, obs |-> <<>>]
>>

Suspend1(fs) == [i \in DOMAIN fs |-> IF i = 1 THEN [fs[i] EXCEPT !.suspended = TRUE] ELSE fs[i]]

\* mode "exhaust": the run ends when its iterations are used up; "stop": it ends when o0 becomes valid
Scenarios ==
  {[label |-> Features[k].label, mode |-> m, rules |-> Features[k].f \o Features[k].obs] :
      k \in DOMAIN Features, m \in {"exhaust", "stop"}} \cup
  {[label |-> Features[k].label \o "-suspended", mode |-> m, rules |-> Suspend1(Features[k].f) \o Features[k].obs] :
      k \in DOMAIN Features, m \in {"exhaust", "stop"}} \cup
  \* a suspended bulk directive (written first, with another format) has no effect at all
  {[label |-> Features[k].label \o "-after-suspended-" \o c, mode |-> m,
    rules |-> <<Rule("config", 0, "config", c, "hex", TRUE)>> \o Features[k].f \o Features[k].obs] :
      k \in {i \in DOMAIN Features : Features[i].label \in {"absolute-show", "relative-get", "onvalid-show", "absolute-set"}},
      c \in ConfigParam, m \in {"exhaust", "stop"}}

ASSUME ParsePrint
ASSUME ShortFormsDefault
ASSUME ndJsonSerialize(IOEnv.SCEN, SetToSeq(Scenarios))
\* the grammar table: every rule of the domain with its printed tokens, and every short form
ASSUME ndJsonSerialize(IOEnv.GRAMMAR, SetToSeq({[rule |-> r, fields |-> PrintRule(r)] : r \in RuleDomain}
                                             \cup {[rule |-> ParseRule(f), fields |-> f] : f \in ShortForms}))
=============================================================================
