---------------------------- MODULE BMSimBarrier ----------------------------
(***************************************************************************)
(* Property-level model of one simulated tick of a BondMachine (C09):      *)
(* the per-tick BARRIER between the coordinator (VM.Step) and the          *)
(* per-processor workers.                                                  *)
(*   Pre        the coordinator has moved data along the bonds and opens   *)
(*              the compute phase of tick t                                *)
(*   Start(p)   worker p begins its processor's step of this tick          *)
(*   End(p)     worker p has finished that step                            *)
(*   Got(p)     the coordinator has collected p's result                   *)
(*   Post       every result collected: the coordinator moves data along   *)
(*              the bonds again and the tick is over                       *)
(* Each processor is stepped exactly once per tick, only inside the        *)
(* compute phase, and the post-move waits for all of them.  The simulation  *)
(* is a function of the machine and the stimuli: the state after tick t    *)
(* does not depend on the order in which Start/End/Got of different         *)
(* processors, or events of other simulations, interleave.                  *)
(***************************************************************************)
EXTENDS Integers, FiniteSets

CONSTANT Procs
VARIABLES phase, started, ended, got, tick
bvars == <<phase, started, ended, got, tick>>

BInit == phase = "idle" /\ started = {} /\ ended = {} /\ got = {} /\ tick = 0
Pre == phase = "idle" /\ phase' = "compute" /\ started' = {} /\ ended' = {} /\ got' = {} /\ UNCHANGED tick
Start(p) == phase = "compute" /\ p \notin started /\ started' = started \cup {p} /\ UNCHANGED <<phase, ended, got, tick>>
End(p) == p \in started /\ p \notin ended /\ ended' = ended \cup {p} /\ UNCHANGED <<phase, started, got, tick>>
Got(p) == p \in ended /\ p \notin got /\ got' = got \cup {p} /\ UNCHANGED <<phase, started, ended, tick>>
Post == phase = "compute" /\ got = Procs /\ phase' = "idle" /\ tick' = tick + 1 /\ UNCHANGED <<started, ended, got>>
BNext == Pre \/ Post \/ \E p \in Procs : Start(p) \/ End(p) \/ Got(p)
BSpec == BInit /\ [][BNext]_bvars
=============================================================================
