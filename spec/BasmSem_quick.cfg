SPECIFICATION Spec
CONSTANTS
  RSize = 8
  Len0 = 10
  Budget = 40
  NOut = 2
  EntryAnywhere = FALSE
  DirectiveAnywhere = FALSE
INVARIANT TypeOK
CHECK_DEADLOCK FALSE
