------------------------------ MODULE QCircuit ------------------------------
(***************************************************************************)
(* C14 — the unitary of a quantum circuit, in EXACT arithmetic.            *)
(*                                                                         *)
(* An amplitude is a record [a, b, c, d, k] meaning                        *)
(*        (a + b w + c w^2 + d w^3) / sqrt(2)^k ,   w = e^{i pi/4}         *)
(* (w^4 = -1, sqrt(2) = w - w^3), so every gate of the supported set has   *)
(* an exact matrix: h x y z s t sx, cx cz swap iswap dcnot, rx/ry/rz at    *)
(* multiples of pi/2 and the phase shift r at multiples of pi/4.           *)
(*                                                                         *)
(* Apply places a k-qubit gate on arbitrary distinct qubits qs of an       *)
(* n-qubit register DIRECTLY FROM THE DEFINITION: a basis state is mapped  *)
(* to the superposition obtained by acting on the bits at positions qs     *)
(* (first declared qubit = most significant bit; the first gate argument   *)
(* is the most significant bit of the gate's own matrix).  No swap         *)
(* networks and no tensor products, so nothing is shared with the          *)
(* compiler's construction (BmMatrixFromOperation / swaps2baseSwaps).      *)
(* Column(c, n, circ) is the image of basis state c under the circuit;     *)
(* the table of columns is replayed on QasmToBmMatrices and on             *)
(* RunSoftwareSimulation.                                                  *)
(***************************************************************************)
EXTENDS Integers, Sequences, FiniteSets, TLC

\* ---- the ring ----------------------------------------------------------------------------------
R(a, b, c, d, k) == [a |-> a, b |-> b, c |-> c, d |-> d, k |-> k]
Zero == R(0, 0, 0, 0, 0)
One  == R(1, 0, 0, 0, 0)
I    == R(0, 0, 1, 0, 0)             \* i = w^2
W(p) == CASE p % 8 = 0 -> R(1, 0, 0, 0, 0) [] p % 8 = 1 -> R(0, 1, 0, 0, 0) [] p % 8 = 2 -> R(0, 0, 1, 0, 0)
          [] p % 8 = 3 -> R(0, 0, 0, 1, 0) [] p % 8 = 4 -> R(-1, 0, 0, 0, 0) [] p % 8 = 5 -> R(0, -1, 0, 0, 0)
          [] p % 8 = 6 -> R(0, 0, -1, 0, 0) [] p % 8 = 7 -> R(0, 0, 0, -1, 0)
Neg(x) == R(-x.a, -x.b, -x.c, -x.d, x.k)
Mul(x, y) == R(x.a * y.a - x.b * y.d - x.c * y.c - x.d * y.b,
               x.a * y.b + x.b * y.a - x.c * y.d - x.d * y.c,
               x.a * y.c + x.b * y.b + x.c * y.a - x.d * y.d,
               x.a * y.d + x.b * y.c + x.c * y.b + x.d * y.a,
               x.k + y.k)
\* the same number with a denominator exponent larger by one: multiply the numerator by sqrt 2 = w - w^3
Up(x) == R(x.b - x.d, x.a + x.c, x.b + x.d, x.c - x.a, x.k + 1)
RECURSIVE UpTo(_, _)
UpTo(x, k) == IF x.k >= k THEN x ELSE UpTo(Up(x), k)
Add(x, y) == LET k == IF x.k > y.k THEN x.k ELSE y.k
                 u == UpTo(x, k) v == UpTo(y, k)
             IN  R(u.a + v.a, u.b + v.b, u.c + v.c, u.d + v.d, k)
IsZero(x) == x.a = 0 /\ x.b = 0 /\ x.c = 0 /\ x.d = 0
Half(x) == [x EXCEPT !.k = @ + 1]          \* x / sqrt 2

\* ---- gate matrices (row major, sequences of rows) -----------------------------------------------
M2(a, b, c, d) == <<<<a, b>>, <<c, d>>>>
H1  == M2(Half(One), Half(One), Half(One), Half(Neg(One)))
X1  == M2(Zero, One, One, Zero)
Y1  == M2(Zero, Neg(I), I, Zero)
Z1  == M2(One, Zero, Zero, Neg(One))
S1  == M2(One, Zero, Zero, I)
T1  == M2(One, Zero, Zero, W(1))
\* sqrt(X) = 1/2 [[1+i, 1-i], [1-i, 1+i]]
SX1 == M2(R(1, 0, 1, 0, 2), R(1, 0, -1, 0, 2), R(1, 0, -1, 0, 2), R(1, 0, 1, 0, 2))
\* rotations by q * pi/2:  cos(q pi/4) and sin(q pi/4) in the ring
Cos4(q) == CASE q % 8 = 0 -> One [] q % 8 = 1 -> Half(One) [] q % 8 = 2 -> Zero [] q % 8 = 3 -> Half(Neg(One))
             [] q % 8 = 4 -> Neg(One) [] q % 8 = 5 -> Half(Neg(One)) [] q % 8 = 6 -> Zero [] q % 8 = 7 -> Half(One)
Sin4(q) == Cos4(q + 6)                                 \* sin x = cos(x - pi/2)
RX(q) == M2(Cos4(q), Mul(Neg(I), Sin4(q)), Mul(Neg(I), Sin4(q)), Cos4(q))
RY(q) == M2(Cos4(q), Neg(Sin4(q)), Sin4(q), Cos4(q))
RZ(q) == M2(W(8 - q), Zero, Zero, W(q))               \* diag(e^{-i q pi/4}, e^{i q pi/4})
PH(p) == M2(One, Zero, Zero, W(p))                    \* phase shift by p * pi/4

Mat4(rows) == rows
CX2    == <<<<One, Zero, Zero, Zero>>, <<Zero, One, Zero, Zero>>, <<Zero, Zero, Zero, One>>, <<Zero, Zero, One, Zero>>>>
CZ2    == <<<<One, Zero, Zero, Zero>>, <<Zero, One, Zero, Zero>>, <<Zero, Zero, One, Zero>>, <<Zero, Zero, Zero, Neg(One)>>>>
SWAP2  == <<<<One, Zero, Zero, Zero>>, <<Zero, Zero, One, Zero>>, <<Zero, One, Zero, Zero>>, <<Zero, Zero, Zero, One>>>>
ISWAP2 == <<<<One, Zero, Zero, Zero>>, <<Zero, Zero, I, Zero>>, <<Zero, I, Zero, Zero>>, <<Zero, Zero, Zero, One>>>>
\* double CNOT: CNOT(a,b) followed by CNOT(b,a):  |a,b> -> |b, a xor b>
DCNOT2 == <<<<One, Zero, Zero, Zero>>, <<Zero, Zero, One, Zero>>, <<Zero, Zero, Zero, One>>, <<Zero, One, Zero, Zero>>>>

\* a gate is [g, p, qs]: name, parameter (quarter turns for rx/ry/rz, eighth turns for r), qubits
MatrixOf(g) ==
  CASE g.g = "h" -> H1 [] g.g = "x" -> X1 [] g.g = "y" -> Y1 [] g.g = "z" -> Z1 [] g.g = "s" -> S1
    [] g.g = "t" -> T1 [] g.g = "sx" -> SX1 [] g.g = "rx" -> RX(g.p) [] g.g = "ry" -> RY(g.p)
    [] g.g = "rz" -> RZ(g.p) [] g.g = "r" -> PH(g.p)
    [] g.g = "cx" -> CX2 [] g.g = "cz" -> CZ2 [] g.g = "swap" -> SWAP2 [] g.g = "iswap" -> ISWAP2
    [] g.g = "dcnot" -> DCNOT2

\* ---- placing a gate on a register ---------------------------------------------------------------
Pow2(n) == 2 ^ n
\* bit of basis index b at qubit position q (0 = most significant) in an n-qubit register
Bit(b, q, n) == (b \div Pow2(n - 1 - q)) % 2
SetBit(b, q, n, v) == b - Bit(b, q, n) * Pow2(n - 1 - q) + v * Pow2(n - 1 - q)
\* index into the gate's own matrix formed by the bits of b at qs (first argument most significant)
RECURSIVE Sub(_, _, _, _)
Sub(b, qs, n, i) == IF i > Len(qs) THEN 0 ELSE Bit(b, qs[i], n) * Pow2(Len(qs) - i) + Sub(b, qs, n, i + 1)
RECURSIVE Put(_, _, _, _, _)
Put(b, qs, n, j, i) == IF i > Len(qs) THEN b ELSE Put(SetBit(b, qs[i], n, (j \div Pow2(Len(qs) - i)) % 2), qs, n, j, i + 1)

RECURSIVE SumR(_, _)
SumR(f, S) == IF S = {} THEN Zero ELSE LET x == CHOOSE y \in S : TRUE IN Add(f[x], SumR(f, S \ {x}))

\* vec is a function 0 .. 2^n - 1 -> ring
Apply(g, n, vec) ==
  LET m == MatrixOf(g)
      dim == Pow2(Len(g.qs))
  IN  [b \in 0 .. Pow2(n) - 1 |->
         LET i == Sub(b, g.qs, n, 1)
             terms == [j \in 0 .. dim - 1 |-> Mul(m[i + 1][j + 1], vec[Put(b, g.qs, n, j, 1)])]
         IN  SumR(terms, 0 .. dim - 1)]

RECURSIVE Run(_, _, _, _)
Run(circ, n, vec, i) == IF i > Len(circ) THEN vec ELSE Run(circ, n, Apply(circ[i], n, vec), i + 1)
Basis(c, n) == [b \in 0 .. Pow2(n) - 1 |-> IF b = c THEN One ELSE Zero]
Column(c, n, circ) == Run(circ, n, Basis(c, n), 1)

\* squared norm of a vector, as a ring element (must be 1 for a unitary's column)
Conj(x) == R(x.a, -x.d, -x.c, -x.b, x.k)
Norm2(vec, n) == SumR([b \in 0 .. Pow2(n) - 1 |-> Mul(vec[b], Conj(vec[b]))], 0 .. Pow2(n) - 1)
\* x = 1 ?  (numerator equal to sqrt(2)^k)
RECURSIVE PowS2(_)
PowS2(k) == IF k = 0 THEN One ELSE Up([PowS2(k - 1) EXCEPT !.k = 0])
IsOne(x) == LET p == PowS2(x.k) IN x.a = p.a /\ x.b = p.b /\ x.c = p.c /\ x.d = p.d
=============================================================================
