------------------------------ MODULE BMProcSem ------------------------------
(***************************************************************************)
(* C01 — the instruction-set semantics of ONE connecting processor: what    *)
(* a program does to the program counter, the register file, the RAM and   *)
(* the output ports, one retired instruction at a time.  Both back-ends     *)
(* (the Go simulator, the generated Verilog) must refine it: the state     *)
(* after every retired instruction is the state of this specification.     *)
(*                                                                         *)
(* Architecture: registers of RSize bits, 2^R of them, N inputs, M outputs, *)
(* 2^L RAM cells (L = 0: no RAM), a ROM holding the program.                *)
(* A line is [op, a, b]:                                                   *)
(*   nop                                                                   *)
(*   clr|inc|dec|cil|cir ra         (cil / cir: shift left / right by one)  *)
(*   cpy|add|sub|mult|and|or|xor|nand|nor|xnor|not ra, rb   (ra = ra op rb, *)
(*                                   cpy: ra = rb, not: ra = ~rb)          *)
(*   rset ra, imm      j loc       jz ra, loc                              *)
(*   i2r ra, in        r2o ra, out     (asynchronous port access)          *)
(*   r2m ra, addr      m2r ra, addr    (RAM)                               *)
(*   ro2rri ra, rb     ra = the ROM word at address rb.  The ROM holds the  *)
(*                     program (addresses 0 .. Len0-1) followed by ND data  *)
(*                     words DataVal(0 .. ND-1); reading anything else is   *)
(*                     outside this specification (havoc: the trace ends)   *)
(* Arithmetic wraps around at 2^RSize.  The external inputs are held at     *)
(* the values Inputs.  An instruction whose next program counter equals     *)
(* its own (a jump to itself) is a stuttering step of the trace.           *)
(*                                                                         *)
(* A behaviour builds a program (phase "build", kinds of lines drawn with  *)
(* fixed odds, restricted to the opcode set OpSet), then executes it.      *)
(* The execution steps of a TLC -simulate behaviour ARE the expected       *)
(* retire trace: the harness replays the program on the real simulator and *)
(* on the real generated Verilog and compares every retired state.         *)
(***************************************************************************)
EXTENDS Integers, Sequences, FiniteSets, TLC, Bitwise

CONSTANTS RSize, R, N, M, L, ND, Len0, Budget, OpSet, InputSeed

Mod == 2 ^ RSize
Regs == 0 .. 2 ^ R - 1
Cells == IF L = 0 THEN {} ELSE 0 .. 2 ^ L - 1
Inputs == [k \in 1 .. N |-> (InputSeed * k + 3) % Mod]        \* the values held on the external inputs
Imms == {0, 1, 2, 3, Mod - 1, Mod \div 2, Mod \div 2 + 1, 5}

VARIABLES phase, prog, pc, regs, mem, outs, steps, havoc
vars == <<phase, prog, pc, regs, mem, outs, steps, havoc>>

I(op, a, b) == [op |-> op, a |-> a, b |-> b]
DataVal(k) == (37 * (k + 1) + 11) % Mod

Unary  == {"clr", "inc", "dec", "cil", "cir"} \cap OpSet
Binary == {"cpy", "add", "sub", "mult", "and", "or", "xor", "nand", "nor", "xnor", "not"} \cap OpSet
UnaryLines  == {I(o, a, 0) : o \in Unary, a \in Regs}
BinaryLines == {I(o, a, b) : o \in Binary, a \in Regs, b \in Regs}
SetLines    == IF "rset" \in OpSet THEN {I("rset", a, v) : a \in Regs, v \in Imms} ELSE {}
JumpLines   == (IF "j" \in OpSet THEN {I("j", t, 0) : t \in 0 .. Len0 - 1} ELSE {}) \cup
               (IF "jz" \in OpSet THEN {I("jz", a, t) : a \in Regs, t \in 0 .. Len0 - 1} ELSE {})
IOLines     == (IF "i2r" \in OpSet THEN {I("i2r", a, k) : a \in Regs, k \in 0 .. N - 1} ELSE {}) \cup
               (IF "r2o" \in OpSet THEN {I("r2o", a, k) : a \in Regs, k \in 0 .. M - 1} ELSE {})
MemLines    == (IF "r2m" \in OpSet THEN {I("r2m", a, c) : a \in Regs, c \in Cells} ELSE {}) \cup
               (IF "m2r" \in OpSet THEN {I("m2r", a, c) : a \in Regs, c \in Cells} ELSE {})
Or0(S) == IF S = {} THEN (IF "nop" \in OpSet THEN {I("nop", 0, 0)} ELSE SetLines \cup UnaryLines \cup BinaryLines) ELSE S

Init ==
  /\ phase = "build" /\ prog = <<>> /\ pc = 0 /\ steps = 0 /\ havoc = FALSE
  /\ regs = [r \in Regs |-> 0] /\ mem = [c \in Cells |-> 0] /\ outs = [k \in 0 .. M - 1 |-> 0]

Add(l) ==
  /\ phase = "build" /\ Len(prog) < Len0 - 1
  /\ prog' = Append(prog, l)
  /\ UNCHANGED <<phase, pc, regs, mem, outs, steps, havoc>>
\* a ROM read comes with the load of its pointer: rset rb, (address of data word k) ; ro2rri ra, rb
AddRomRead ==
  /\ phase = "build" /\ Len(prog) < Len0 - 2 /\ ND > 0
  /\ \E a \in Regs, b \in Regs, k \in 0 .. ND - 1 :
       prog' = prog \o <<I("rset", b, Len0 + k), I("ro2rri", a, b)>>
  /\ UNCHANGED <<phase, pc, regs, mem, outs, steps, havoc>>
Close ==
  /\ phase = "build" /\ Len(prog) = Len0 - 1
  /\ \E t \in 0 .. Len0 - 1 : prog' = Append(prog, I("j", t, 0))
  /\ UNCHANGED <<phase, pc, regs, mem, outs, steps, havoc>>
Start ==
  /\ phase = "build" /\ Len(prog) = Len0
  /\ phase' = "run"
  /\ UNCHANGED <<prog, pc, regs, mem, outs, steps, havoc>>

NotW(x) == Mod - 1 - x                               \* bitwise complement on RSize bits
Alu(op, x, y) ==
  CASE op = "cpy" -> y
    [] op = "add" -> (x + y) % Mod
    [] op = "sub" -> (x + Mod - y) % Mod
    [] op = "mult" -> (x * (y % 256) + ((x * (y \div 256)) % Mod) * 256) % Mod    \* (no intermediate beyond 2^31)
    [] op = "and" -> x & y
    [] op = "or" -> x | y
    [] op = "xor" -> x ^^ y
    [] op = "nand" -> NotW(x & y)
    [] op = "nor" -> NotW(x | y)
    [] op = "xnor" -> NotW(x ^^ y)
    [] op = "not" -> NotW(y)

Exec ==
  /\ phase = "run" /\ steps < Budget /\ ~havoc
  /\ steps' = steps + 1
  /\ LET l == prog[pc + 1]
         romOK == l.op = "ro2rri" => regs[l.b] \in Len0 .. Len0 + ND - 1
     IN  /\ havoc' = ~romOK
         /\ regs' = CASE l.op = "clr" -> [regs EXCEPT ![l.a] = 0]
                      [] l.op = "inc" -> [regs EXCEPT ![l.a] = (@ + 1) % Mod]
                      [] l.op = "dec" -> [regs EXCEPT ![l.a] = (@ + Mod - 1) % Mod]
                      [] l.op = "cil" -> [regs EXCEPT ![l.a] = (2 * @) % Mod]
                      [] l.op = "cir" -> [regs EXCEPT ![l.a] = @ \div 2]
                      [] l.op \in Binary -> [regs EXCEPT ![l.a] = Alu(l.op, @, regs[l.b])]
                      [] l.op = "rset" -> [regs EXCEPT ![l.a] = l.b]
                      [] l.op = "i2r" -> [regs EXCEPT ![l.a] = Inputs[l.b + 1]]
                      [] l.op = "m2r" -> [regs EXCEPT ![l.a] = mem[l.b]]
                      [] l.op = "ro2rri" /\ romOK -> [regs EXCEPT ![l.a] = DataVal(regs[l.b] - Len0)]
                      [] OTHER -> regs
         /\ mem' = IF l.op = "r2m" THEN [mem EXCEPT ![l.b] = regs[l.a]] ELSE mem
         /\ outs' = IF l.op = "r2o" THEN [outs EXCEPT ![l.b] = regs[l.a]] ELSE outs
         /\ pc' = CASE l.op = "j" -> l.a
                    [] l.op = "jz" -> (IF regs[l.a] = 0 THEN l.b ELSE pc + 1)
                    [] OTHER -> pc + 1
  /\ UNCHANGED <<phase, prog>>

\* (IF-structured for TLC -simulate, see BasmSem)
Next == \E w \in 1 .. 8 :
          IF phase = "build" /\ Len(prog) < Len0 - 1
          THEN (IF w = 1 THEN \E l \in Or0(UnaryLines) : Add(l)
                ELSE IF w <= 3 THEN \E l \in Or0(BinaryLines) : Add(l)
                ELSE IF w = 4 THEN \E l \in Or0(SetLines) : Add(l)
                ELSE IF w = 5 THEN \E l \in Or0(JumpLines) : Add(l)
                ELSE IF w <= 7 THEN \E l \in Or0(IOLines) : Add(l)
                ELSE IF ND > 0 /\ "ro2rri" \in OpSet /\ Len(prog) < Len0 - 2 THEN AddRomRead
                ELSE \E l \in Or0(MemLines) : Add(l))
          ELSE (w = 1 /\ (Close \/ Start \/ Exec))
Spec == Init /\ [][Next]_vars

TypeOK == /\ \A r \in Regs : regs[r] \in 0 .. Mod - 1
          /\ \A c \in Cells : mem[c] \in 0 .. Mod - 1
          /\ pc \in 0 .. Len0 - 1
=============================================================================
