SPECIFICATION Spec
INVARIANT Demands
CHECK_DEADLOCK FALSE
