----------------------------- MODULE BMBondHdl -----------------------------
(***************************************************************************)
(* Implementation-level model of one bond in the GENERATED HARDWARE (C04): *)
(* one producer processor executing r2owa on an output wired to NCons      *)
(* consumer processors executing i2rw, as emitted by                       *)
(*   pkg/procbuilder/op_r2owa.go  (state machine with waitsm, oN_val       *)
(*                                 process, _auxoN)                        *)
(*   pkg/procbuilder/op_i2rw.go   (state machine, iN_recv process)         *)
(*   pkg/bondmachine/verilog.go   (oN_valid/oN wires to every consumer,    *)
(*                                 received = AND of the consumers' recv)  *)
(*                                                                         *)
(* One action = one rising clock edge; every register is updated from the  *)
(* pre-state (non-blocking assignments).  All processors share the clock,  *)
(* so relative speed is padding.  A program ends with a jump to itself     *)
(* (HALT), which in the hardware is just an instruction that is neither    *)
(* r2owa nor i2rw, executed for ever.                                      *)
(*                                                                         *)
(* As in BMBondSim the model is AS GENERATED; every clock is judged with   *)
(* BMBond!Judge and a clock that breaks the property ends the behaviour.   *)
(* Stuck is the reachable state in which a second r2owa waits for received *)
(* to fall while the first one's valid is never withdrawn (no register can *)
(* change any more): a hang, reported separately (it does not break the    *)
(* bond's safety).                                                         *)
(***************************************************************************)
EXTENDS Integers, Sequences, FiniteSets, TLC

CONSTANTS NCons, MaxSend, MaxRecv, MaxPad, AvoidKnown

VARIABLES pinstr, waitsm, oval, auxo, nsend, ppad,      \* producer
          cinstr, crecv, cnrecv, cpad,                   \* consumers
          plast, clast, ccap,                            \* outputs
          issued, pret, cret, err, cause                 \* property-level bond + verdict

B == INSTANCE BMBond
Cons == 1 .. NCons

pvars == <<pinstr, waitsm, oval, auxo, nsend, ppad>>
cvars == <<cinstr, crecv, cnrecv, cpad>>
mvars == <<issued, pret, cret, err, cause>>
vars  == <<pvars, cvars, plast, clast, ccap, mvars>>
view  == <<pvars, cvars, Len(issued) - pret, [c \in Cons |-> Len(issued) - cret[c]], err, cause>>

F1 == "i2rw-fired-with-own-recv-high"
NoOp == [op |-> "NONE", first |-> FALSE, ret |-> FALSE]

Init ==
  /\ pinstr = "NEW" /\ waitsm = FALSE /\ oval = FALSE /\ auxo = 0 /\ nsend = 0 /\ ppad = 0
  /\ cinstr = [c \in Cons |-> "NEW"] /\ crecv = [c \in Cons |-> FALSE]
  /\ cnrecv = [c \in Cons |-> 0] /\ cpad = [c \in Cons |-> 0]
  /\ plast = NoOp /\ clast = [c \in Cons |-> NoOp] /\ ccap = [c \in Cons |-> <<>>]
  /\ issued = <<>> /\ pret = 0 /\ cret = [c \in Cons |-> 0] /\ err = "" /\ cause = ""

Clock ==
  /\ err = ""
  /\ LET valid    == oval
         data     == auxo
         received == \A c \in Cons : crecv[c]
         PChoices == IF pinstr # "NEW" THEN {pinstr}
                     ELSE (IF nsend < MaxSend /\ ~(AvoidKnown /\ oval) THEN {"SEND"} ELSE {})
                          \cup (IF ppad < MaxPad THEN {"PAD"} ELSE {})
                          \cup (IF nsend + ppad > 0 THEN {"HALT"} ELSE {})
         CChoices(c) == IF cinstr[c] # "NEW" THEN {cinstr[c]}
                        ELSE (IF cnrecv[c] < MaxRecv /\ ~(AvoidKnown /\ crecv[c]) THEN {"RECV"} ELSE {})
                             \cup (IF cpad[c] < MaxPad THEN {"PAD"} ELSE {})
                             \cup (IF cnrecv[c] + cpad[c] > 0 THEN {"HALT"} ELSE {})
     IN
     \E pop \in PChoices : \E cop \in [Cons -> {"RECV", "PAD", "HALT"}] :
       /\ \A c \in Cons : cop[c] \in CChoices(c)
       /\ LET pExec   == pop = "SEND"
              pIssue  == pExec /\ pinstr = "NEW"
              ns      == IF pIssue THEN nsend + 1 ELSE nsend
              pRet    == pExec /\ waitsm /\ received
              pRetire == pRet \/ pop = "PAD"
              fire(c)    == cop[c] = "RECV" /\ valid
              cRetire(c) == fire(c) \/ cop[c] = "PAD"
              firing     == {c \in Cons : fire(c)}
              crs == [i \in 1 .. Cardinality(firing) |->
                        [c |-> CHOOSE x \in firing : Cardinality({y \in firing : y < x}) = i - 1,
                         v |-> data]]
              j == B!Judge([issued |-> issued, pret |-> pret, cret |-> cret, err |-> ""],
                           IF pIssue THEN <<ns>> ELSE <<>>, crs, pRet)
          IN
          /\ issued' = j.issued /\ pret' = j.pret /\ cret' = j.cret /\ err' = j.err
          /\ cause' = IF j.err = "" THEN ""
                      ELSE IF \E c \in firing : crecv[c] THEN F1
                      ELSE "other"
          \* r2owa state machine
          /\ waitsm' = IF pExec THEN (IF ~waitsm THEN ~received ELSE ~received) ELSE waitsm
          /\ auxo' = IF pExec /\ waitsm THEN ns ELSE auxo
          \* oN_val process: raised in the r2owa arm while waitsm = 1, withdrawn on received elsewhere
          /\ oval' = IF pExec THEN (IF waitsm THEN TRUE ELSE oval) ELSE (IF received THEN FALSE ELSE oval)
          /\ nsend' = ns
          /\ pinstr' = IF pop = "HALT" THEN "HALT" ELSE IF pRetire THEN "NEW" ELSE pop
          /\ ppad' = IF pop = "PAD" THEN ppad + 1 ELSE IF pop = "SEND" THEN 0 ELSE ppad
          /\ plast' = [op |-> pop, first |-> pinstr = "NEW", ret |-> pRetire]
          \* iN_recv process: follows valid in the i2rw arm, cleared when valid is low elsewhere
          /\ crecv' = [c \in Cons |-> IF cop[c] = "RECV" THEN valid ELSE (IF ~valid THEN FALSE ELSE crecv[c])]
          /\ ccap'  = [c \in Cons |-> IF fire(c) THEN Append(ccap[c], data) ELSE ccap[c]]
          /\ cinstr' = [c \in Cons |-> IF cop[c] = "HALT" THEN "HALT" ELSE IF cRetire(c) THEN "NEW" ELSE cop[c]]
          /\ cnrecv' = [c \in Cons |-> IF cop[c] = "RECV" /\ cinstr[c] = "NEW" THEN cnrecv[c] + 1 ELSE cnrecv[c]]
          /\ cpad' = [c \in Cons |-> IF cop[c] = "PAD" THEN cpad[c] + 1 ELSE IF cop[c] = "RECV" THEN 0 ELSE cpad[c]]
          /\ clast' = [c \in Cons |-> [op |-> cop[c], first |-> cinstr[c] = "NEW", ret |-> cRetire(c)]]

\* the hardware hang: the producer waits for received to fall, valid is never withdrawn
Stuck == pinstr = "SEND" /\ ~waitsm /\ oval /\ \A c \in Cons : crecv[c] /\ cinstr[c] = "HALT"

Quiescent == pinstr = "HALT" /\ ~oval /\ \A c \in Cons : cinstr[c] = "HALT" /\ ~crecv[c]
Next == ~Quiescent /\ ~Stuck /\ Clock

Spec == Init /\ [][Next]_vars

NoViolation      == err = ""
OnlyKnownCauses  == err # "" => cause = F1
NoF1             == cause # F1
NoStuck          == ~Stuck
AtMostOneAhead   == err = "" => \A c \in Cons : Len(issued) - cret[c] \in {0, 1}
NoEarlyProducer  == err = "" => \A c \in Cons : cret[c] >= pret
=============================================================================
