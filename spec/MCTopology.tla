----------------------------- MODULE MCTopology -----------------------------
(* Model constants for BMTopology (TLC cfg files cannot hold record literals). *)
EXTENDS BMTopology
Cat3 == <<[n |-> 1, m |-> 1], [n |-> 2, m |-> 1], [n |-> 0, m |-> 2]>>
Cat2 == <<[n |-> 1, m |-> 1], [n |-> 2, m |-> 1]>>
Cat1 == <<[n |-> 2, m |-> 2]>>
=============================================================================
