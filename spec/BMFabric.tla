------------------------------- MODULE BMFabric -------------------------------
(***************************************************************************)
(* C02 — a whole BondMachine as a network of processes joined by           *)
(* handshaked bonds: the reference for the streams delivered on its        *)
(* external outputs.                                                       *)
(*                                                                         *)
(* A machine is a TOPOLOGY (processors with input and output ports, bonds  *)
(* from sources to sinks: a source is an external input or a processor     *)
(* output and may feed several sinks; a sink is a processor input or an    *)
(* external output and has one source) and one PROGRAM per processor: an   *)
(* endless loop over steps                                                 *)
(*     RECV i r   wait for a value on input i, take it into register r     *)
(*     SEND r o   offer register r on output o, wait until EVERY sink      *)
(*                bonded to o has taken it                                 *)
(*     INC r  /  ADD r s  /  NOP                                           *)
(* The environment offers the stream base, base+1, ... on external input k *)
(* (base = 10 (k+1) + 1) and takes every value offered on an external      *)
(* output.  The observable is the sequence of values taken on each         *)
(* external output.  It is the same for every interleaving of the          *)
(* processors and every environment timing (the network is a Kahn          *)
(* network): Round, the step in which every process that can move moves,   *)
(* computes it; the real simulator and the real generated Verilog, each    *)
(* with its own timing, must both deliver exactly these streams.           *)
(*                                                                         *)
(* Topologies (Topo) and programs are drawn from the catalogue below; the  *)
(* number of NOPs in front of each program shifts the phases of the        *)
(* processors against each other.                                          *)
(***************************************************************************)
EXTENDS Integers, Sequences, FiniteSets, TLC

CONSTANTS Budget, Mod, BasePads, OnlyTopos

\* ---- programs -----------------------------------------------------------------------------------
S(op, a, b) == [op |-> op, a |-> a, b |-> b]
Fwd   == <<S("RECV", 0, 0), S("INC", 0, 0), S("SEND", 0, 0)>>                      \* o0 = i0 + 1
Fan2  == <<S("RECV", 0, 0), S("SEND", 0, 0), S("INC", 0, 0), S("SEND", 0, 1)>>     \* o0 = i0, o1 = i0 + 1
Split2 == <<S("RECV", 0, 0), S("SEND", 0, 0), S("SEND", 0, 1)>>                    \* o0 = o1 = i0 (two sends back to back)
Merge == <<S("RECV", 0, 0), S("SEND", 0, 0), S("RECV", 1, 0), S("SEND", 0, 0)>>    \* o0 = i0, i1 alternating (one register)
Sum   == <<S("RECV", 0, 0), S("RECV", 1, 1), S("ADD", 0, 1), S("SEND", 0, 0)>>     \* o0 = i0 + i1
Fan3  == <<S("RECV", 0, 0), S("SEND", 0, 0), S("INC", 0, 0), S("SEND", 0, 1), S("INC", 0, 0), S("SEND", 0, 2)>>   \* o0 = i0, o1 = i0 + 1, o2 = i0 + 2
Sum3  == <<S("RECV", 0, 0), S("RECV", 1, 1), S("ADD", 0, 1), S("RECV", 2, 1), S("ADD", 0, 1), S("SEND", 0, 0)>>   \* o0 = i0 + i1 + i2
Pad(n) == [k \in 1 .. n |-> S("NOP", 0, 0)]

\* ---- topologies ---------------------------------------------------------------------------------
\* source: [k |-> "ext", i] or [k |-> "proc", p, o];  sinks: [k |-> "ext", i] or [k |-> "proc", p, i]
XI(i) == [k |-> "ext", p |-> 0, x |-> i]
PO(p, o) == [k |-> "proc", p |-> p, x |-> o]
Bond(src, dst) == [src |-> src, dst |-> dst]
Topos ==
  [chain2  |-> [progs |-> <<Fwd, Fwd>>, nin |-> 1, nout |-> 1,
                bonds |-> {Bond(XI(0), PO(1, 0)), Bond(PO(1, 0), PO(2, 0)), Bond(PO(2, 0), XI(0))}],
   chain3  |-> [progs |-> <<Fwd, Fwd, Fwd>>, nin |-> 1, nout |-> 1,
                bonds |-> {Bond(XI(0), PO(1, 0)), Bond(PO(1, 0), PO(2, 0)), Bond(PO(2, 0), PO(3, 0)), Bond(PO(3, 0), XI(0))}],
   \* one external input feeding two processors
   fanin   |-> [progs |-> <<Fwd, Fwd>>, nin |-> 1, nout |-> 2,
                bonds |-> {Bond(XI(0), PO(1, 0)), Bond(XI(0), PO(2, 0)), Bond(PO(1, 0), XI(0)), Bond(PO(2, 0), XI(1))}],
   \* one processor output feeding a processor and an external output
   fanout  |-> [progs |-> <<Fwd, Fwd>>, nin |-> 1, nout |-> 2,
                bonds |-> {Bond(XI(0), PO(1, 0)), Bond(PO(1, 0), PO(2, 0)), Bond(PO(1, 0), XI(0)), Bond(PO(2, 0), XI(1))}],
   \* one processor output feeding two processors
   fanout2 |-> [progs |-> <<Fwd, Fwd, Fwd>>, nin |-> 1, nout |-> 2,
                bonds |-> {Bond(XI(0), PO(1, 0)), Bond(PO(1, 0), PO(2, 0)), Bond(PO(1, 0), PO(3, 0)), Bond(PO(2, 0), XI(0)), Bond(PO(3, 0), XI(1))}],
   twoout  |-> [progs |-> <<Fan2, Fwd>>, nin |-> 1, nout |-> 2,
                bonds |-> {Bond(XI(0), PO(1, 0)), Bond(PO(1, 0), XI(0)), Bond(PO(1, 1), PO(2, 0)), Bond(PO(2, 0), XI(1))}],
   \* two sends back to back on a processor with exactly two outputs; the first one feeds a processor
   split2  |-> [progs |-> <<Split2, Fwd>>, nin |-> 1, nout |-> 2,
                bonds |-> {Bond(XI(0), PO(1, 0)), Bond(PO(1, 0), PO(2, 0)), Bond(PO(2, 0), XI(0)), Bond(PO(1, 1), XI(1))}],
   \* a merger fed by an external input and by a processor
   merge   |-> [progs |-> <<Fwd, Merge>>, nin |-> 2, nout |-> 1,
                bonds |-> {Bond(XI(0), PO(2, 0)), Bond(XI(1), PO(1, 0)), Bond(PO(1, 0), PO(2, 1)), Bond(PO(2, 0), XI(0))}],
   sum     |-> [progs |-> <<Fwd, Sum>>, nin |-> 2, nout |-> 1,
                bonds |-> {Bond(XI(0), PO(2, 0)), Bond(XI(1), PO(1, 0)), Bond(PO(1, 0), PO(2, 1)), Bond(PO(2, 0), XI(0))}],
   \* a processor with one input and three outputs (input and output selectors of different widths)
   threeout |-> [progs |-> <<Fan3, Fwd>>, nin |-> 1, nout |-> 3,
                bonds |-> {Bond(XI(0), PO(1, 0)), Bond(PO(1, 0), XI(0)), Bond(PO(1, 1), XI(1)), Bond(PO(1, 2), PO(2, 0)), Bond(PO(2, 0), XI(2))}],
   \* a processor with three inputs and one output; external input 1 feeds two processors
   threein |-> [progs |-> <<Fwd, Fwd, Sum3>>, nin |-> 2, nout |-> 1,
                bonds |-> {Bond(XI(0), PO(3, 0)), Bond(XI(1), PO(1, 0)), Bond(XI(1), PO(2, 0)), Bond(PO(1, 0), PO(3, 1)), Bond(PO(2, 0), PO(3, 2)), Bond(PO(3, 0), XI(0))}]]
TopoNames == DOMAIN Topos

VARIABLES topo, tview, pads, bpad, shared, envmode, simdelay, pcs, regs, sent, offered, taken, innext, outs, steps
vars == <<topo, tview, pads, bpad, shared, envmode, simdelay, pcs, regs, sent, offered, taken, innext, outs, steps>>

T == Topos[topo]
Procs == 1 .. Len(T.progs)
\* (every loop starts with bpad + pads[p] NOPs: the fewer, the more often a processor comes back to
\* a port before its producer has withdrawn valid — the handshake defect recorded under C04)
Prog(p) == Pad(bpad + pads[p]) \o T.progs[p]
SinksOf(src) == {b.dst : b \in {c \in T.bonds : c.src = src}}
SourceOf(dst) == (CHOOSE b \in T.bonds : b.dst = dst).src
Sources == {b.src : b \in T.bonds}
Base(k) == 10 * (k + 1) + 1

Init ==
  /\ topo \in TopoNames \cap OnlyTopos
  /\ tview = Topos[topo]            \* the topology record itself (read by the harness from the behaviour)
  /\ pads \in [1 .. 3 -> 0 .. 2]
  /\ bpad \in BasePads
  /\ shared \in BOOLEAN                                   \* processors with the same program are instances of one domain
  \* timing of the environment (never visible in the streams); serial: the external inputs are offered one
  \* at a time, the next one only after the handshake of the previous one is over
  \* stalls-outputs: the values on the odd external outputs are acknowledged late, the others at once
  /\ envmode \in {"prompt", "holds-valid", "slow-ack", "serial", "stalls-outputs"}
  /\ simdelay \in {"none", "inc:6", "nop:3", "add:4", "r2owa:3", "i2rw:2"}     \* extra ticks one opcode takes in the simulator (never visible either)
  /\ pcs = [p \in 1 .. 3 |-> 0]
  /\ regs = [p \in 1 .. 3 |-> <<0, 0>>]
  /\ sent = [p \in 1 .. 3 |-> FALSE]     \* the processor's current SEND has made its offer
  /\ offered = {}                 \* sources currently offering a value: set of [src, val]
  /\ taken = {}                   \* pairs <<src, sink>>: sink has taken the value src is offering
  /\ innext = [k \in 0 .. 1 |-> 0] \* how many values each external input has delivered completely
  /\ outs = [k \in 0 .. 2 |-> <<>>]
  /\ steps = 0

Offer(src) == {o \in offered : o.src = src}
ValOf(src) == (CHOOSE o \in offered : o.src = src).val

\* what process p does in a round, given the state at the beginning of the round
Step(p) == Prog(p)[(pcs[p] % Len(Prog(p))) + 1]
CanRecv(p) == LET s == Step(p) src == SourceOf(PO(p, s.a))
              IN  Offer(src) # {} /\ <<src, PO(p, s.a)>> \notin taken
\* a round: every processor and the environment do what they can, on the state at its beginning
\* A is the set of processors that are scheduled in this round, E tells whether the environment is
Move(A, E) ==
  /\ steps < Budget /\ steps' = steps + 1
  /\ LET receivers == {p \in A : Step(p).op = "RECV" /\ CanRecv(p)}
         extTakers == IF E THEN {b \in T.bonds : b.dst.k = "ext" /\ Offer(b.src) # {} /\ <<b.src, b.dst>> \notin taken} ELSE {}
         newTaken == taken \cup {<<SourceOf(PO(p, Step(p).a)), PO(p, Step(p).a)>> : p \in receivers}
                           \cup {<<b.src, b.dst>> : b \in extTakers}
         complete == {o \in offered : \A d \in SinksOf(o.src) : <<o.src, d>> \in newTaken}
         senders == {p \in A : Step(p).op = "SEND" /\ Offer(PO(p, Step(p).b)) = {} /\ ~sent[p]}
         done == {p \in A : Step(p).op = "SEND" /\ sent[p] /\ Offer(PO(p, Step(p).b)) = {}}
         compute == {p \in A : Step(p).op \in {"INC", "ADD", "NOP"}}
         extOffer == IF E THEN {k \in 0 .. T.nin - 1 : Offer(XI(k)) = {}} ELSE {}
     IN  /\ offered' = (offered \ complete)
                         \cup {[src |-> PO(p, Step(p).b), val |-> regs[p][Step(p).a + 1]] : p \in senders}
                         \cup {[src |-> XI(k), val |-> (Base(k) + innext[k]) % Mod] : k \in extOffer}
         /\ taken' = {t \in newTaken : t[1] \notin {o.src : o \in complete}}
         /\ innext' = [k \in 0 .. 1 |-> IF XI(k) \in {o.src : o \in complete} THEN innext[k] + 1 ELSE innext[k]]
         /\ outs' = [k \in 0 .. 2 |-> IF \E b \in extTakers : b.dst = XI(k)
                                     THEN Append(outs[k], ValOf((CHOOSE b \in extTakers : b.dst = XI(k)).src))
                                     ELSE outs[k]]
         /\ regs' = [p \in 1 .. 3 |->
                      IF p \in receivers THEN [regs[p] EXCEPT ![Step(p).b + 1] = ValOf(SourceOf(PO(p, Step(p).a)))]
                      ELSE IF p \in compute /\ Step(p).op = "INC" THEN [regs[p] EXCEPT ![Step(p).a + 1] = (@ + 1) % Mod]
                      ELSE IF p \in compute /\ Step(p).op = "ADD" THEN [regs[p] EXCEPT ![Step(p).a + 1] = (@ + regs[p][Step(p).b + 1]) % Mod]
                      ELSE regs[p]]
         /\ pcs' = [p \in 1 .. 3 |-> IF p \in receivers \cup done \cup compute THEN pcs[p] + 1 ELSE pcs[p]]
         /\ sent' = [p \in 1 .. 3 |-> IF p \in senders THEN TRUE ELSE IF p \in done THEN FALSE ELSE sent[p]]
  /\ UNCHANGED <<topo, tview, pads, bpad, shared, envmode, simdelay>>

\* the round in which everybody who can move moves: the canonical schedule (used to draw behaviours)
Round == Move(Procs, TRUE)
\* any schedule: an arbitrary subset of the processors is scheduled, the environment may stall
AnyMove == \E A \in SUBSET Procs : \E E \in BOOLEAN : Move(A, E)

Next == Round
Spec == Init /\ [][Next]_vars
\* (the choices that only the implementation can see are fixed here: they do not touch the model)
AnyInit == Init /\ shared = FALSE /\ envmode = "prompt" /\ simdelay = "none"
AnySpec == AnyInit /\ [][AnyMove]_vars

\* the streams in closed form: what the network computes, schedule or no schedule
Exp(t, k, n) ==
  CASE t = "chain2" -> Base(0) + 2 + (n - 1)
    [] t = "chain3" -> Base(0) + 3 + (n - 1)
    [] t = "fanin" -> Base(0) + 1 + (n - 1)
    [] t = "fanout" -> Base(0) + 1 + k + (n - 1)
    [] t = "fanout2" -> Base(0) + 2 + (n - 1)
    [] t = "twoout" -> Base(0) + 2 * k + (n - 1)
    [] t = "split2" -> Base(0) + (1 - k) + (n - 1)
    [] t = "merge" -> IF n % 2 = 1 THEN Base(0) + (n - 1) \div 2 ELSE Base(1) + 1 + (n - 2) \div 2
    [] t = "sum" -> Base(0) + Base(1) + 1 + 2 * (n - 1)
    [] t = "threeout" -> Base(0) + (IF k = 2 THEN 3 ELSE k) + (n - 1)
    [] t = "threein" -> Base(0) + 2 * (Base(1) + 1) + 3 * (n - 1)
\* Kahn determinacy: under EVERY schedule every external output delivers a prefix of its stream
Streams == \A k \in 0 .. 2 : \A n \in 1 .. Len(outs[k]) : outs[k][n] = Exp(topo, k, n) % Mod

\* every value taken on an external output was offered by the source bonded to it, and a source
\* never has two offers at a time
OneOffer == \A a, b \in offered : a.src = b.src => a = b
ExportTopo == tview = Topos[topo]
TypeOK == OneOffer /\ \A k \in 0 .. 2 : Len(outs[k]) <= steps
=============================================================================
