---------------------------- MODULE BMBondTrace ----------------------------
(***************************************************************************)
(* Trace validation of REAL executions (Go simulator ticks or clock cycles *)
(* of the generated Verilog) against the property-level bond BMBond.       *)
(*                                                                         *)
(* NDJSON trace (path in environment variable TRACE):                      *)
(*   {"ev":"reset","k":K}                      a new run with K consumers  *)
(*   {"ev":"tick","iss":[v],"crs":[{"c":c,"v":v}],"pr":b}                  *)
(*        what the real artefact did in one tick: values whose send began, *)
(*        receives completed (consumer, captured value), producer retired  *)
(* Each tick is judged by BMBond!Judge.  A rejected tick prints            *)
(* <<"REJECT", line, reason>>; the rest of that run is skipped (err is     *)
(* sticky until the next reset), so one TLC run judges every recorded run. *)
(***************************************************************************)
EXTENDS BMBond, Json, IOUtils

Trace == ndJsonDeserialize(IOEnv.TRACE)

VARIABLES l, err
tvars == <<bvars, l, err>>

TReset ==
  /\ l <= Len(Trace) /\ Trace[l].ev = "reset" /\ l' = l + 1
  /\ issued' = <<>> /\ pret' = 0 /\ cret' = [c \in 1 .. Trace[l].k |-> 0] /\ err' = ""

TTick ==
  /\ l <= Len(Trace) /\ Trace[l].ev = "tick" /\ l' = l + 1
  /\ IF err # ""
     THEN UNCHANGED <<bvars, err>>
     ELSE LET j == Judge([issued |-> issued, pret |-> pret, cret |-> cret, err |-> ""],
                         Trace[l].iss, Trace[l].crs, Trace[l].pr)
          IN  /\ issued' = j.issued /\ pret' = j.pret /\ cret' = j.cret /\ err' = j.err
              /\ (j.err # "") => PrintT(<<"REJECT", l, j.err>>)

TraceInit == issued = <<>> /\ pret = 0 /\ cret = <<>> /\ l = 1 /\ err = ""
TraceNext == TReset \/ TTick
TraceSpec == TraceInit /\ [][TraceNext]_tvars
TraceAccepted == TLCGet("stats").diameter - 1 = Len(Trace)

\* While no tick has been rejected the recorded run satisfies the bond invariants.
TraceInv == err = "" => /\ \A c \in DOMAIN cret : Len(issued) - cret[c] \in {0, 1}
                        /\ \A c \in DOMAIN cret : cret[c] >= pret
=============================================================================
