SPECIFICATION Spec
CONSTANTS
 MaxN = 4
 PairN = {2, 3}
 InterN = {4, 5}
  WideN = {5}
 TripleN = {3}
INVARIANT UnitaryColumns
CHECK_DEADLOCK FALSE
