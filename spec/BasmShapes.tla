----------------------------- MODULE BasmShapes -----------------------------
(***************************************************************************)
(* C16 — a bounded catalogue of BASM source SHAPES whose emitted machines   *)
(* are judged by BMWellFormed and BMTopologyTrace.  The random programs of  *)
(* BasmSem and the graphs of FragGraph are judged too; the shapes add the   *)
(* source features those grammars do not have:                              *)
(*   romdata   ncode instructions followed by a ROM data section of ndata   *)
(*             words (the ROM must hold ncode + ndata words)                *)
(*   hybrid    a processor with a ROM program and a RAM program (execmode   *)
(*             hy) whose opcode sets overlap in every possible way          *)
(*   pass      external inputs bonded directly to external outputs next to  *)
(*             a processor, with the port indexes and the declaration order *)
(*             arranged in every way                                        *)
(*   romscan   a program without immediates (its jumps are the widest        *)
(*             instructions) scanning a ROM data section of nlines lines of  *)
(*             wpl words each                                               *)
(*   so        nproc processors each attached to the same nso shared queues *)
(*   dynops    instructions that are created on demand (rsets<k>, fixed    *)
(*             point arithmetic) next to static ones whose names sort      *)
(*             before and after them                                       *)
(*   hybrid/ramio  the RAM program reads and writes ports (i1, o1) and     *)
(*             registers the ROM program does not mention                  *)
(*   misfit    an operand that cannot fit (a literal wider than the         *)
(*             register): the source must be rejected (mov-max is the       *)
(*             control: the largest literal that fits)                      *)
(* The rows are exported (ASSUME) and printed as .basm text by the harness. *)
(***************************************************************************)
EXTENDS Integers, Sequences, FiniteSets, TLC, Json, IOUtils, SequencesExt

RamLines == {"inc", "dec", "add", "clr", "j"}          \* lines a RAM program may contain (ROM: clr rset add r2o j)
Shapes ==
  {[kind |-> "romdata", rsize |-> rs, ncode |-> nc, ndata |-> nd, ram |-> <<>>, npass |-> 0, high |-> FALSE, passfirst |-> FALSE, cpuin |-> FALSE, what |-> ""] :
      rs \in {8, 16}, nc \in 5 .. 9, nd \in 1 .. 9} \cup
  {[kind |-> "hybrid", rsize |-> 8, ncode |-> 5, ndata |-> 0, ram |-> SetToSeq(s), npass |-> 0, high |-> FALSE, passfirst |-> FALSE, cpuin |-> FALSE, what |-> ""] :
      s \in (SUBSET RamLines) \ {{}}} \cup
  \* the ROM program uses r0 only; the RAM program uses registers the ROM program does not (r1, r2)
  {[kind |-> "hybrid", rsize |-> 8, ncode |-> 4, ndata |-> 0, ram |-> SetToSeq(s), npass |-> 0, high |-> FALSE, passfirst |-> FALSE, cpuin |-> FALSE, what |-> "rom0"] :
      s \in (SUBSET {"inc", "inc1", "dec"}) \ {{}}} \cup
  {[kind |-> "hybrid", rsize |-> 8, ncode |-> 4, ndata |-> 0, ram |-> SetToSeq(s), npass |-> 0, high |-> FALSE, passfirst |-> FALSE, cpuin |-> FALSE, what |-> w] :
      s \in (SUBSET {"in1", "out1", "inc5", "j"}) \ {{}}, w \in {"rom0", ""}} \cup
  {[kind |-> "dynops", rsize |-> rs, ncode |-> 6, ndata |-> 0, ram |-> <<>>, npass |-> 0, high |-> FALSE, passfirst |-> FALSE, cpuin |-> FALSE, what |-> w] :
      rs \in {8, 16}, w \in {"rsets4", "rsets4+sub", "addfps", "addfps+rsets4+sub", "multfps+sub", "divfps+rsets4+sub"}} \cup
  {[kind |-> "pass", rsize |-> 8, ncode |-> 5, ndata |-> 0, ram |-> <<>>, npass |-> np, high |-> h, passfirst |-> pf, cpuin |-> ci, what |-> ""] :
      np \in 0 .. 2, h \in BOOLEAN, pf \in BOOLEAN, ci \in BOOLEAN} \cup
  {[kind |-> "romscan", rsize |-> 8, ncode |-> 6, ndata |-> nl * wpl, ram |-> <<>>, npass |-> nl, high |-> FALSE, passfirst |-> FALSE, cpuin |-> FALSE, what |-> ToString(wpl)] :
      nl \in 1 .. 4, wpl \in 1 .. 6} \cup
  {[kind |-> "so", rsize |-> 8, ncode |-> 5, ndata |-> 0, ram |-> <<>>, npass |-> nso, high |-> FALSE, passfirst |-> FALSE, cpuin |-> FALSE, what |-> ToString(np)] :
      np \in 1 .. 3, nso \in 1 .. 3} \cup
  {[kind |-> "misfit", rsize |-> rs, ncode |-> 5, ndata |-> 0, ram |-> <<>>, npass |-> 0, high |-> FALSE, passfirst |-> FALSE, cpuin |-> FALSE, what |-> w] :
      rs \in {8, 16}, w \in {"rset-wide", "mov-wide", "rset-wide-hex", "rset-wide-bin", "mov-max", "j-beyond-rom", "jz-beyond-rom", "j-last-word"}}

\* what the source demands of the emitted machine
MinRom(s) == s.ncode + s.ndata
NIn(s)  == IF s.kind = "pass" THEN s.npass + (IF s.cpuin THEN 1 ELSE 0) ELSE 0
NOut(s) == IF s.kind = "pass" THEN s.npass + 1 ELSE 1

VARIABLE s
Init == s \in Shapes
Next == UNCHANGED s
Spec == Init /\ [][Next]_s
Demands == MinRom(s) >= 4 /\ NOut(s) >= 1

ASSUME ndJsonSerialize(IOEnv.ROWS, SetToSeq({x @@ [minrom |-> MinRom(x), nin |-> NIn(x), nout |-> NOut(x)] : x \in Shapes}))
=============================================================================
