SPECIFICATION Spec
CONSTANTS
 MaxN = 3
 PairN = {2}
 InterN = {4}
 TripleN = {}
INVARIANT UnitaryColumns
CHECK_DEADLOCK FALSE
