SPECIFICATION Spec
CONSTANTS
 MaxN = 3
 PairN = {2}
 TripleN = {}
INVARIANT UnitaryColumns
CHECK_DEADLOCK FALSE
