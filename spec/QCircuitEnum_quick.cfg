SPECIFICATION Spec
CONSTANTS
 MaxN = 3
 PairN = {2}
 InterN = {4}
  WideN = {5}
 TripleN = {}
INVARIANT UnitaryColumns
CHECK_DEADLOCK FALSE
