SPECIFICATION Spec
CONSTANTS
 Catalogue <- Cat1
 MaxIn = 2
 MaxOut = 2
 MaxProc = 1
INVARIANT WellFormed
PROPERTY AbsSpec
CHECK_DEADLOCK FALSE
