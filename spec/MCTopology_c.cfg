SPECIFICATION Spec
CONSTANTS
 Catalogue <- Cat2
 MaxIn = 1
 MaxOut = 1
 MaxProc = 2
INVARIANT WellFormed
PROPERTY AbsSpec
CHECK_DEADLOCK FALSE
