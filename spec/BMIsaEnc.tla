------------------------------ MODULE BMIsaEnc ------------------------------
(***************************************************************************)
(* C03: the bounded domain over which TLC checks the encoding theorems of  *)
(* BMIsa and from which it writes the table of expected results that the   *)
(* harness replays on the real Arch.Assembler / Machine.Disassembler.      *)
(*                                                                         *)
(* Every row is one initial state; the theorems are invariants.            *)
(***************************************************************************)
EXTENDS BMIsa, BMIsaOpLists, Json, IOUtils, SequencesExt

CONSTANTS RSizes, Rs, NMs, Ls, Os, Extras, ModeLs   \* parameter sets of the architecture enumeration

VARIABLE row

NMq == {<<1, 1>>, <<2, 3>>, <<0, 1>>}
NMt == {<<1, 1>>, <<2, 3>>, <<3, 2>>, <<0, 1>>, <<4, 5>>}

ArchOf(rs, r, nm, l, o, ops, extra, mode) ==
  MkArch([rsize |-> rs, R |-> r, N |-> nm[1], M |-> nm[2], L |-> l, O |-> o, ops |-> ops, mode |-> mode], extra)

SmallLists == {OL1, OL2, OL3, OL4, OL5}
ModeLists  == {OL10}                      \* the opcodes whose location field depends on the mode
BigLists   == OpLists \ (SmallLists \cup ModeLists)
\* the full parameter product for the short opcode lists, a few parameter points for the long ones
BigParams == {<<8, 1, <<1, 1>>, 1, 2, 0>>, <<16, 2, <<2, 3>>, 2, 3, 0>>, <<8, 3, <<3, 2>>, 3, 4, 3>>, <<4, 2, <<0, 1>>, 1, 1, 1>>}
Archs == {ArchOf(rs, r, nm, l, o, ops, e, "ha") :
            rs \in RSizes, r \in Rs, nm \in NMs, l \in Ls, o \in Os, ops \in SmallLists, e \in Extras}
         \cup {ArchOf(p[1], p[2], p[3], p[4], p[5], ops, p[6], "ha") : p \in BigParams, ops \in BigLists}
         \cup {ArchOf(8, 1, <<1, 1>>, l, o, ops, e, mode) :
                 l \in ModeLs, o \in Os, ops \in ModeLists, e \in Extras, mode \in {"ha", "vn", "hy"}}

\* operand candidates: everything in range where the range is small, boundaries otherwise,
\* and always at least one value that does not fit
Cand(a, kind) ==
  CASE kind = "reg" -> 0 .. Pow2(a.R)
    [] kind = "in"  -> 0 .. a.N
    [] kind = "out" -> 0 .. a.M
    [] kind = "rom" -> {0, 1, Pow2(a.O) - 1, Pow2(a.O), Pow2(a.O) + 5}
    [] kind = "ram" -> {0, 1, Pow2(a.L) - 1, Pow2(a.L), Pow2(a.L) + 5}
    [] kind = "imm" -> {0, 1, Pow2(a.rsize - 1), Pow2(a.rsize) - 1, Pow2(a.rsize), Pow2(a.rsize) + 44}
    [] kind = "loc" -> {0, 1, Pow2(LocBits(a)) - 1, Pow2(LocBits(a)), Pow2(LocBits(a)) + 5, 3, 7}

RECURSIVE Prod(_, _)
Prod(S, i) == IF i > Len(S) THEN {<<>>} ELSE {<<x>> \o t : x \in S[i], t \in Prod(S, i + 1)}

Tuples(a, op) == Prod([i \in 1 .. Len(Fmt[op]) |-> Cand(a, Fmt[op][i])], 1)

\* a 0-bit RAM address field cannot hold any address: such opcodes need L >= 1
Usable(a, op) == ModeOK(a, op) /\ \A i \in 1 .. Len(Fmt[op]) : /\ (Fmt[op][i] = "ram" => a.L >= 1)
                                                /\ (Fmt[op][i] = "loc" => LocBits(a) >= 1)

ArchSeq == SetToSeq(Archs)

\* a row refers to its architecture by index in ArchSeq (ai)
RowOf(ai, op, xs) ==
  LET a  == ArchSeq[ai]
      ok == InRange(a, op, xs)
  IN  [ai |-> ai, op |-> op, xs |-> xs, ok |-> ok, word |-> IF ok THEN Encode(a, op, xs) ELSE <<>>]

RowsOfArch(ai) ==
  LET a == ArchSeq[ai]
  IN  UNION {{RowOf(ai, a.ops[i], xs) : xs \in Tuples(a, a.ops[i])} :
               i \in {j \in 1 .. Len(a.ops) : Usable(a, a.ops[j])}}

Rows == UNION {RowsOfArch(ai) : ai \in 1 .. Len(ArchSeq)}

Init == row \in Rows
Next == UNCHANGED row
Spec == Init /\ [][Next]_row

\* ---- the property, on the specification ------------------------------------------------------
A == ArchSeq[row.ai]
FixedWidth == row.ok => Len(row.word) = MaxWord(A)
Lossless   == row.ok => Decode(A, row.word) = <<row.op, row.xs>>
RangeCheck == row.ok <=> (\A i \in 1 .. Len(row.xs) : row.xs[i] < Limit(A, Fmt[row.op][i]))

\* ---- whole programs: comment and blank lines produce no ROM word -------------------------------
\* For every architecture a small source made of its first accepted instructions (as many as the
\* ROM holds, at most 4) interleaved with comment and blank lines; the ROM image is the sequence
\* of the words of the instruction lines, in order, and nothing else.
OkRows(ai) == SetToSeq({r \in RowsOfArch(ai) : r.ok})
CapOf(a) == IF a.mode = "ha" THEN Pow2(a.O) ELSE IF a.mode = "vn" THEN Pow2(a.L) ELSE Pow2(IF a.O > a.L THEN a.O ELSE a.L)
ProgOf(ai) ==
  LET rs == OkRows(ai)
      cap == CapOf(ArchSeq[ai])
      n == IF Len(rs) < 4 THEN (IF Len(rs) < cap THEN Len(rs) ELSE cap) ELSE (IF 4 < cap THEN 4 ELSE cap)
      instr(i) == [k |-> "instr", op |-> rs[i].op, xs |-> rs[i].xs]
      lines == <<[k |-> "comment"]>> \o
               (IF n >= 1 THEN <<instr(1), [k |-> "blank"]>> ELSE <<>>) \o
               (IF n >= 2 THEN <<instr(2), [k |-> "comment"], [k |-> "comment"]>> ELSE <<>>) \o
               (IF n >= 3 THEN <<instr(3)>> ELSE <<>>) \o
               (IF n >= 4 THEN <<[k |-> "blank"], instr(4), [k |-> "comment"]>> ELSE <<>>)
  IN  [ai |-> ai, lines |-> lines, image |-> [i \in 1 .. n |-> rs[i].word]]
Progs == [ai \in 1 .. Len(ArchSeq) |-> ProgOf(ai)]
\* theorem: one ROM word per instruction line, each MaxWord wide
ProgImageOK == \A ai \in 1 .. Len(ArchSeq) :
                 /\ Len(Progs[ai].image) = Cardinality({i \in 1 .. Len(Progs[ai].lines) : Progs[ai].lines[i].k = "instr"})
                 /\ \A i \in 1 .. Len(Progs[ai].image) : Len(Progs[ai].image[i]) = MaxWord(ArchSeq[ai])
ASSUME ProgImageOK
ASSUME ndJsonSerialize(IOEnv.PROGS, Progs)

\* ---- export for the replay ------------------------------------------------------------------
ASSUME ndJsonSerialize(IOEnv.ARCHS, ArchSeq)
ASSUME ndJsonSerialize(IOEnv.ROWS, SetToSeq(Rows))
=============================================================================
