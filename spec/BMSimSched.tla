----------------------------- MODULE BMSimSched -----------------------------
(***************************************************************************)
(* Implementation-level model of the simulator's goroutine structure       *)
(* (pkg/bondmachine/vm.go: VM.Step, Processor_execute) for NSims           *)
(* simulations running in one process, NP processors each:                 *)
(*   per simulation a coordinator and NP workers, unbuffered channels      *)
(*   send_chans[p] (token), recv_chan (worker id), result_chans[p];        *)
(*   each rendezvous is one action.                                        *)
(* Every processor executes the pipelined opcode addp over and over (two   *)
(* ticks per addition).  The opcode objects are process-wide singletons:   *)
(* with SharedOp = TRUE the pipeline phase lives in the opcode object, as  *)
(* coded (Addp.pipeline behind a shared pointer); with SharedOp = FALSE it *)
(* is per processor (vm.Extra_states, the home the VM provides).           *)
(*                                                                         *)
(* TLC explores every interleaving and checks: no deadlock, refinement of  *)
(* the per-tick barrier BMSimBarrier for every simulation, and             *)
(* Deterministic: at every barrier each processor's state equals the       *)
(* sequential reference, whatever the interleaving and whatever other      *)
(* simulations do.                                                         *)
(***************************************************************************)
EXTENDS Integers, FiniteSets, TLC

CONSTANTS NSims, NP, MaxTick, SharedOp

Sims  == 1 .. NSims
Procs == 1 .. NP

VARIABLES cpc, csend, cgot, res, tick,      \* coordinators
          wpc,                               \* workers
          acc, pipe                          \* processor state / opcode pipeline phase

vars == <<cpc, csend, cgot, res, tick, wpc, acc, pipe>>

Key(s, p) == IF SharedOp THEN <<0, 0>> ELSE <<s, p>>
Keys == IF SharedOp THEN {<<0, 0>>} ELSE Sims \X Procs

Init ==
  /\ cpc = [s \in Sims |-> "pre"] /\ csend = [s \in Sims |-> 1] /\ cgot = [s \in Sims |-> 0]
  /\ res = [s \in Sims |-> {}] /\ tick = [s \in Sims |-> 0]
  /\ wpc = [s \in Sims |-> [p \in Procs |-> "idle"]]
  /\ acc = [s \in Sims |-> [p \in Procs |-> 0]]
  /\ pipe = [k \in Keys |-> FALSE]

PreA(s) ==
  /\ cpc[s] = "pre"
  /\ cpc' = [cpc EXCEPT ![s] = "send"] /\ csend' = [csend EXCEPT ![s] = 1] /\ res' = [res EXCEPT ![s] = {}]
  /\ UNCHANGED <<cgot, tick, wpc, acc, pipe>>

\* vm.send_chans[p] <- 1  meets  <-instruct
Tok(s, p) ==
  /\ cpc[s] = "send" /\ csend[s] = p /\ wpc[s][p] = "idle"
  /\ wpc' = [wpc EXCEPT ![s][p] = "ready"]
  /\ csend' = [csend EXCEPT ![s] = p + 1]
  /\ cpc' = [cpc EXCEPT ![s] = IF p = NP THEN "wait" ELSE "send"]
  /\ UNCHANGED <<cgot, res, tick, acc, pipe>>

\* vm.Processors[p].Step: Addp.Simulate
DoStep(s, p) ==
  /\ wpc[s][p] = "ready"
  /\ wpc' = [wpc EXCEPT ![s][p] = "stepped"]
  /\ IF pipe[Key(s, p)]
     THEN acc' = [acc EXCEPT ![s][p] = @ + 1] /\ pipe' = [pipe EXCEPT ![Key(s, p)] = FALSE]
     ELSE acc' = acc /\ pipe' = [pipe EXCEPT ![Key(s, p)] = TRUE]
  /\ UNCHANGED <<cpc, csend, cgot, res, tick>>

\* resp <- procId  meets  i := <-vm.recv_chan
Id(s, p) ==
  /\ wpc[s][p] = "stepped" /\ cpc[s] = "wait"
  /\ wpc' = [wpc EXCEPT ![s][p] = "sentid"]
  /\ cpc' = [cpc EXCEPT ![s] = "recvres"] /\ cgot' = [cgot EXCEPT ![s] = p]
  /\ UNCHANGED <<csend, res, tick, acc, pipe>>

\* resultChan <- result  meets  <-vm.result_chans[i]
Res(s, p) ==
  /\ wpc[s][p] = "sentid" /\ cpc[s] = "recvres" /\ cgot[s] = p
  /\ wpc' = [wpc EXCEPT ![s][p] = "idle"]
  /\ res' = [res EXCEPT ![s] = @ \cup {p}]
  /\ cpc' = [cpc EXCEPT ![s] = IF res[s] \cup {p} = Procs THEN "post" ELSE "wait"]
  /\ UNCHANGED <<csend, cgot, tick, acc, pipe>>

PostA(s) ==
  /\ cpc[s] = "post"
  /\ tick' = [tick EXCEPT ![s] = @ + 1]
  /\ cpc' = [cpc EXCEPT ![s] = IF tick[s] + 1 = MaxTick THEN "done" ELSE "pre"]
  /\ UNCHANGED <<csend, cgot, res, wpc, acc, pipe>>

Next == \E s \in Sims : PreA(s) \/ PostA(s) \/ \E p \in Procs : Tok(s, p) \/ DoStep(s, p) \/ Id(s, p) \/ Res(s, p)
Done == \A s \in Sims : cpc[s] = "done"
Spec == Init /\ [][Next]_vars

\* no interleaving gets stuck before every simulation has finished
DeadlockFree == Done \/ ENABLED Next

\* the sequential reference: a processor executing addp alone completes one addition every two ticks
Deterministic == \A s \in Sims : cpc[s] \in {"pre", "done"} => \A p \in Procs : acc[s][p] = tick[s] \div 2

\* refinement of the per-tick barrier, for every simulation
Bar(s) == INSTANCE BMSimBarrier WITH
            phase <- IF cpc[s] \in {"pre", "done"} THEN "idle" ELSE "compute",
            started <- IF cpc[s] \in {"pre", "done"} THEN res[s]
                       ELSE {p \in Procs : (cpc[s] = "send" => p < csend[s])},
            ended <- res[s] \cup {p \in Procs : wpc[s][p] \in {"stepped", "sentid"}},
            got <- res[s],
            tick <- tick[s]
BarrierOK == \A s \in Sims : Bar(s)!BSpec
=============================================================================
