------------------------------ MODULE GoLinked ------------------------------
(***************************************************************************)
(* C12 — two goroutines on their own processors joined by a bondgo link     *)
(* (an Output of main and an Input of the worker made with the same id).    *)
(* main copies its external input to its external output and sends the      *)
(* input plus Delta on the link; the worker adds 1 (or, with an extra       *)
(* external input, adds that input) to what it receives and writes the      *)
(* result to its external output.  All I/O is asynchronous, so with the     *)
(* external inputs held constant the external outputs settle to the values  *)
(* below, whatever the ordinal of the link among main's outputs and among   *)
(* the worker's inputs.  The rows are exported; the harness prints each as  *)
(* Go source, compiles it with the real bondgo, simulates the machine with  *)
(* the inputs held and compares the settled outputs.                        *)
(***************************************************************************)
EXTENDS Integers, Sequences, FiniteSets, TLC, Json, IOUtils, SequencesExt

Mod == 256
Delta == 5
Rows == {[linkfirst |-> lf, extra |-> ex, in0 |-> a, inx |-> b,
          out0 |-> a, wout |-> IF ex THEN (a + Delta + b) % Mod ELSE (a + Delta + 1) % Mod] :
            lf \in BOOLEAN, ex \in BOOLEAN, a \in {7, 250}, b \in {3}}

VARIABLE row
Init == row \in Rows
Next == UNCHANGED row
Spec == Init /\ [][Next]_row
\* the meaning does not mention the position of the link
PositionIrrelevant == \A r1, r2 \in Rows : (r1.extra = r2.extra /\ r1.in0 = r2.in0 /\ r1.inx = r2.inx) => r1.wout = r2.wout
ASSUME PositionIrrelevant
ASSUME ndJsonSerialize(IOEnv.ROWS, SetToSeq(Rows))
=============================================================================
