------------------------------- MODULE BuildFn -------------------------------
(***************************************************************************)
(* C07 — every build step is a function of its inputs.                     *)
(*                                                                         *)
(* Design level.  A build step walks over collections (sections, macros,   *)
(* symbols, requirement sets, neurons, ...) and appends what it derives    *)
(* from each element to its artefact.  In the implementation those         *)
(* collections are hash maps, whose iteration order is chosen anew for     *)
(* every walk.  The model: Walk(k) takes ANY remaining key when the pass   *)
(* is not Ordered, the least remaining key when it is; an element's        *)
(* contribution is Commutes-insensitive (a set insertion) or appended to a *)
(* sequence.  Functional: the artefact at the end does not depend on the   *)
(* order of the walk, i.e. it equals Canonical.  TLC explores every order: *)
(* the property holds for Ordered or commutative passes and fails for an   *)
(* unordered appending pass with two or more keys — the pattern the        *)
(* conformance check looks for in the real tools.                          *)
(*                                                                         *)
(* Trace level (BuildFnTrace): every real run of a real tool is an event   *)
(* [tool, input, env, digest]; the tool is a function iff all events with  *)
(* the same tool and input carry the same digest, whatever the environment *)
(* (process, GOMAXPROCS, run number).                                      *)
(***************************************************************************)
EXTENDS Integers, Sequences, FiniteSets, TLC

CONSTANTS Keys, Ordered, Appends

VARIABLES todo, art
vars == <<todo, art>>

Min(S) == CHOOSE x \in S : \A y \in S : x <= y
RECURSIVE SortedSeq(_)
SortedSeq(S) == IF S = {} THEN <<>> ELSE <<Min(S)>> \o SortedSeq(S \ {Min(S)})
Canonical == IF Appends THEN SortedSeq(Keys) ELSE Keys

Init == todo = Keys /\ art = (IF Appends THEN <<>> ELSE {})
Walk(k) ==
  /\ k \in todo /\ (Ordered => k = Min(todo))
  /\ todo' = todo \ {k}
  /\ art' = IF Appends THEN Append(art, k) ELSE art \cup {k}
Next == \E k \in Keys : Walk(k)
Spec == Init /\ [][Next]_vars

Functional == todo = {} => art = Canonical
=============================================================================
