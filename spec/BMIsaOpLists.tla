--------------------------- MODULE BMIsaOpLists ---------------------------
(* Opcode lists (name-sorted, as the constructors of the repository sort them) used to
   enumerate architectures: 1, 2, 4, 8, 9, 17+ opcodes so that the opcode field takes every
   width 1..7; together they mention every opcode of BMIsa!Fmt. Generated once by a script
   from the format table; kept as plain TLA+. *)
OL1 == <<"rset">>
OL2 == <<"j", "nop">>
OL3 == <<"i2rw", "inc", "j", "r2owa">>
OL4 == <<"add", "clr", "cpy", "dec", "i2r", "jz", "r2o", "rset">>
OL5 == <<"adc", "and", "cil", "cir", "ja", "m2r", "r2m", "sbc", "xor">>
OL6 == <<"addf", "addf16", "addi", "addp", "chc", "chw", "cilc", "cirn", "clc", "cmpr", "cmprlt", "cmpv", "cset", "div", "divf", "divf16", "divp">>
OL7 == <<"dpc", "expf", "hlt", "incc", "jc", "jcmpa", "jcmpl", "jcmpo", "jcmpria", "jcmprio", "je", "jgt0f", "jo", "jri", "jria", "jrio", "m2rri", "mod", "mulc", "mult", "multf", "multf16", "multp">>
OL8 == <<"nand", "nor", "not", "or", "r2mri", "r2owaa", "r2s", "ro2r", "ro2rri", "rsc", "s2r", "saj", "sic", "sicv2", "sicv3", "sub", "xnor">>
OL9 == <<"adc", "add", "addf", "addf16", "addi", "addp", "and", "chc", "chw", "cil", "cilc", "cir", "cirn", "clc", "clr", "cmpr", "cmprlt", "cmpv", "cpy", "cset", "dec", "div", "divf", "divf16", "divp", "dpc", "expf", "hlt", "i2r", "i2rw", "inc", "incc", "j", "ja", "jc", "jcmpa", "jcmpl", "jcmpo", "jcmpria", "jcmprio", "je", "jgt0f", "jo", "jri", "jria", "jrio", "jz", "m2r", "m2rri", "mod", "mulc", "mult", "multf", "multf16", "multp", "nand", "nop", "nor", "not", "or", "r2m", "r2mri", "r2o", "r2owa", "r2owaa", "r2s", "ro2r", "ro2rri", "rsc", "rset", "s2r", "saj", "sbc", "sic", "sicv2", "sicv3", "sub", "xnor", "xor">>
OL10 == <<"j", "ja", "jcmpa", "jcmpl", "jcmpo", "jo", "nop", "saj">>
OpLists == {OL10, OL1, OL2, OL3, OL4, OL5, OL6, OL7, OL8, OL9}
=============================================================================
