---------------------------- MODULE QCircuitEnum ----------------------------
(***************************************************************************)
(* C14: the bounded family of circuits whose unitaries TLC computes with   *)
(* QCircuit and exports (one row per circuit: the columns of U_ref).       *)
(* Every row is an initial state; UnitaryColumns (every column of the      *)
(* reference has norm 1, exactly) is checked as an invariant.              *)
(***************************************************************************)
EXTENDS QCircuit, Json, IOUtils, SequencesExt

CONSTANTS MaxN,        \* registers of 1 .. MaxN qubits for single-gate circuits
          PairN,       \* registers on which all two-gate circuits over PairGates1/2 are taken
          TripleN,     \* registers for three-gate circuits over the small gate set
          InterN,      \* registers on which two two-qubit gates act on disjoint qubit pairs (same layer)
          WideN        \* larger registers: one two-qubit gate on every ordered pair of qubits

VARIABLE row

G(g, p, qs) == [g |-> g, p |-> p, qs |-> qs]
OneQ(q) == {G(n, 0, <<q>>) : n \in {"h", "x", "y", "z", "s", "t", "sx"}}
           \cup {G(n, p, <<q>>) : n \in {"rx", "ry", "rz"}, p \in {1, 2, 3}}
           \cup {G("r", p, <<q>>) : p \in 1 .. 7}
TwoQ(q1, q2) == {G(n, 0, <<q1, q2>>) : n \in {"cx", "cz", "swap", "iswap", "dcnot"}}
Pairs(n) == {p \in (0 .. n - 1) \X (0 .. n - 1) : p[1] # p[2]}
AllGates(n) == UNION {OneQ(q) : q \in 0 .. n - 1} \cup UNION {TwoQ(p[1], p[2]) : p \in Pairs(n)}
SmallOneQ(q) == {G("h", 0, <<q>>), G("t", 0, <<q>>), G("sx", 0, <<q>>), G("y", 0, <<q>>), G("ry", 1, <<q>>), G("rz", 3, <<q>>)}
SmallGates(n) == UNION {SmallOneQ(q) : q \in 0 .. n - 1} \cup UNION {TwoQ(p[1], p[2]) : p \in Pairs(n)}

Circuits ==
  UNION {{[n |-> n, circ |-> <<g>>] : g \in AllGates(n)} : n \in 1 .. MaxN}
  \cup UNION {{[n |-> n, circ |-> <<g1, g2>>] : g1 \in SmallGates(n), g2 \in SmallGates(n)} : n \in PairN}
  \cup UNION {{[n |-> n, circ |-> <<g1, g2, g3>>] : g1 \in TwoQ(0, n - 1), g2 \in SmallGates(n), g3 \in TwoQ(n - 1, 0) \cup SmallOneQ(0)} : n \in TripleN}

\* two two-qubit gates on disjoint pairs of qubits: the compiler puts them in ONE matrix
TwoQSmall(q1, q2) == {G(n, 0, <<q1, q2>>) : n \in {"cx", "swap", "dcnot"}}
Disjoint(n) == {pp \in Pairs(n) \X Pairs(n) : {pp[1][1], pp[1][2]} \cap {pp[2][1], pp[2][2]} = {}}
Layered == UNION {UNION {{[n |-> n, circ |-> <<g1, g2>>] : g1 \in TwoQSmall(pp[1][1], pp[1][2]), g2 \in TwoQSmall(pp[2][1], pp[2][2])} :
                           pp \in Disjoint(n)} : n \in InterN}

RowOf(c) == [n |-> c.n, circ |-> c.circ,
             cols |-> [k \in 1 .. Pow2(c.n) |-> LET v == Column(k - 1, c.n, c.circ) IN [b \in 1 .. Pow2(c.n) |-> v[b - 1]]]]

Wide == UNION {{[n |-> n, circ |-> <<g>>] : g \in UNION {{G(nm, 0, <<p[1], p[2]>>) : nm \in {"cx", "iswap"}} : p \in Pairs(n)}} : n \in WideN}
AllCircuits == Circuits \cup Layered \cup Wide
Init == row \in {RowOf(c) : c \in AllCircuits}
Next == UNCHANGED row
Spec == Init /\ [][Next]_row

UnitaryColumns == \A k \in 1 .. Len(row.cols) :
                    IsOne(Norm2([b \in 0 .. Pow2(row.n) - 1 |-> row.cols[k][b + 1]], row.n))

ASSUME ndJsonSerialize(IOEnv.ROWS, SetToSeq({RowOf(c) : c \in AllCircuits}))
=============================================================================
