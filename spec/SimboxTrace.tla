----------------------------- MODULE SimboxTrace -----------------------------
(***************************************************************************)
(* Judges what the REAL simulator printed (show lines on stdout, the CSV   *)
(* report) against Simbox!Expect.  NDJSON trace (env TRACE):               *)
(*  {"ev":"run","label":..,"rules":[..],"ref":[{obj:val}..],"val":{e:n}}   *)
(*  {"ev":"iter","t":t,"tval":tv,"exit":b,"vrise":[obj],                   *)
(*   "shows":[v..],"gets":[{"obj":o,"v":v}..]}                             *)
(* A rejected iteration prints <<"REJECT", line, reason>>; the rest of     *)
(* that run is skipped.                                                    *)
(***************************************************************************)
EXTENDS Simbox, Json, IOUtils

Trace == ndJsonDeserialize(IOEnv.TRACE)
VARIABLES l, err, cur
tvars == <<l, err, cur, rules>>

ToSet(s) == {s[i] : i \in DOMAIN s}
Count(s, v) == Cardinality({i \in DOMAIN s : s[i] = v})

Judge(run, e) ==
  LET rs == Active(run.rules)
      vr == ToSet(e.vrise)
      expS == Expect(rs, "show", e.t, e.tval, e.exit, vr, run.ref, run.val)
      expG == Expect(rs, "get", e.t, e.tval, e.exit, vr, run.ref, run.val)
      objsS == {x.obj : x \in expS}
      needS(v) == Cardinality({o \in objsS : \E x \in expS : x.obj = o /\ x.v = v})
      realG == {<<e.gets[i].obj, e.gets[i].v>> : i \in DOMAIN e.gets}
      missS == {x \in expS : Count(e.shows, x.v) < needS(x.v)}
      missG == {x \in expG : <<x.obj, x.v>> \notin realG}
  IN  IF missS # {} THEN "missing-show:" \o (CHOOSE x \in missS : TRUE).kind
      ELSE IF missG # {} THEN "missing-get:" \o (CHOOSE x \in missG : TRUE).kind
      ELSE IF \E i \in DOMAIN e.shows : Count(e.shows, e.shows[i]) > needS(e.shows[i]) THEN "unexpected-show"
      ELSE IF \E g \in realG : \A x \in expG : <<x.obj, x.v>> # g THEN "unexpected-get"
      ELSE ""

TRun ==
  /\ l <= Len(Trace) /\ Trace[l].ev = "run" /\ l' = l + 1
  /\ cur' = Trace[l] /\ err' = "" /\ UNCHANGED rules

TIter ==
  /\ l <= Len(Trace) /\ Trace[l].ev = "iter" /\ l' = l + 1
  /\ UNCHANGED <<cur, rules>>
  /\ IF err # "" THEN UNCHANGED err
     ELSE LET j == Judge(cur, Trace[l])
          IN  /\ err' = j
              /\ (j # "") => PrintT(<<"REJECT", l, j>>)

TraceInit == l = 1 /\ err = "" /\ cur = [ev |-> "none"] /\ rules = <<>>
TraceNext == TRun \/ TIter
TraceSpec == TraceInit /\ [][TraceNext]_tvars
TraceAccepted == TLCGet("stats").diameter - 1 = Len(Trace)
=============================================================================
