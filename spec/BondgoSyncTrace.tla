--------------------------- MODULE BondgoSyncTrace ---------------------------
(***************************************************************************)
(* Judges recorded runs of the REAL bondgo compiler (hook log of the       *)
(* verif build + how the process ended) against the property level of the  *)
(* concurrency half of C12: the compilation terminates under every         *)
(* schedule and emits the same artefacts.                                  *)
(*  {"ev":"run","note":..}                                                 *)
(*  {"ev":"point","p":<hook point>}                                        *)
(*  {"ev":"end","status":"ok"|"timeout"|"crash","digest":d,"ref":r}        *)
(***************************************************************************)
EXTENDS Integers, Sequences, TLC, Json, IOUtils
Trace == ndJsonDeserialize(IOEnv.TRACE)
VARIABLES l, mexit, lastA, aexit
tvars == <<l, mexit, lastA, aexit>>

TRun == l <= Len(Trace) /\ Trace[l].ev = "run" /\ l' = l + 1 /\ mexit' = FALSE /\ lastA' = "" /\ aexit' = FALSE
TPoint ==
  /\ l <= Len(Trace) /\ Trace[l].ev = "point" /\ l' = l + 1
  /\ LET p == Trace[l].p
     IN  /\ mexit' = (mexit \/ p = "monitor-exit")
         /\ aexit' = (aexit \/ p = "assigner-exit")
         /\ lastA' = IF p \in {"assigner-answer", "assigner-notify", "assigner-exit"} THEN p ELSE lastA
TEnd ==
  /\ l <= Len(Trace) /\ Trace[l].ev = "end" /\ l' = l + 1 /\ UNCHANGED <<mexit, lastA, aexit>>
  /\ LET e == Trace[l]
         why == IF e.status # "ok"
                THEN (IF mexit /\ lastA = "assigner-notify" /\ ~aexit
                      THEN "no-termination:assigner-owes-a-notification-after-the-monitor-exited"
                      ELSE "no-termination:other")
                ELSE IF e.digest # e.ref THEN "output-depends-on-schedule" ELSE ""
     IN  (why # "") => PrintT(<<"REJECT", l, why>>)
TraceInit == l = 1 /\ mexit = FALSE /\ lastA = "" /\ aexit = FALSE
TraceNext == TRun \/ TPoint \/ TEnd
TraceSpec == TraceInit /\ [][TraceNext]_tvars
TraceAccepted == TLCGet("stats").diameter - 1 = Len(Trace)
=============================================================================
