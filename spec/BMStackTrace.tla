---------------------------- MODULE BMStackTrace ----------------------------
(***************************************************************************)
(* Trace validation of the REAL generated stack/queue module (the text     *)
(* returned by BmStack.WriteHDL(), executed clock by clock) against the    *)
(* property level of C13.  Only INTERFACE signals are used: request, data  *)
(* and ack lines and the empty/full flags; nothing about the module's      *)
(* registers, so any implementation that keeps the property is accepted.   *)
(*                                                                         *)
(* NDJSON trace (path in environment variable TRACE):                      *)
(*  {"ev":"reset","kind":"FIFO","depth":D,"ns":n,"nr":m,"bound":B}        *)
(*  {"ev":"clk","w":[..],"d":[..],"r":[..],      inputs held at the edge   *)
(*   "wack":[..],"rack":[..],"rdata":[..],"empty":b,"full":b}  outputs after *)
(* bound = 0 disables the bounded-response check (environments that hold   *)
(* their requests after the ack).                                          *)
(***************************************************************************)
EXTENDS Integers, Sequences, FiniteSets, TLC, Json, IOUtils

Trace == ndJsonDeserialize(IOEnv.TRACE)

VARIABLES l, err, kind, depth, bound, store, pwack, prack, prdata, swait, rwait
tvars == <<l, err, kind, depth, bound, store, pwack, prack, prdata, swait, rwait>>

Idx(s) == 1 .. Len(s)

Judge(e) ==
  LET riseS == {s \in Idx(e.wack) : ~pwack[s] /\ e.wack[s]}
      riseR == {r \in Idx(e.rack) : ~prack[r] /\ e.rack[r]}
      n == Len(store)
      top == IF kind = "LIFO" THEN n ELSE 1
      st1 == IF riseS # {} THEN Append(store, e.d[CHOOSE s \in riseS : TRUE])
             ELSE IF riseR # {} /\ n > 0
                  THEN (IF kind = "LIFO" THEN SubSeq(store, 1, n - 1) ELSE SubSeq(store, 2, n))
                  ELSE store
      er == CASE Cardinality(riseS) + Cardinality(riseR) > 1 -> "more-than-one-transfer"
              [] \E s \in riseS : ~e.w[s] -> "write-ack-without-request"
              [] riseS # {} /\ n >= depth -> "accepted-when-full"
              [] \E r \in riseR : ~e.r[r] -> "read-ack-without-request"
              [] riseR # {} /\ n = 0 -> "returned-when-empty"
              [] \E r \in riseR : e.rdata[r] # store[top] -> "wrong-element"
              [] \E s \in Idx(e.wack) : pwack[s] /\ ~e.wack[s] /\ e.w[s] -> "write-ack-fell-while-requested"
              [] \E r \in Idx(e.rack) : prack[r] /\ ~e.rack[r] /\ e.r[r] -> "read-ack-fell-while-requested"
              [] \E r \in Idx(e.rack) : r \notin riseR /\ e.rdata[r] # prdata[r] -> "read-data-changed-without-ack"
              [] e.empty # (Len(st1) = 0) -> "empty-flag"
              [] e.full # (Len(st1) = depth) -> "full-flag"
              [] bound > 0 /\ \E s \in Idx(e.wack) : swait[s] >= bound /\ e.w[s] /\ ~pwack[s] /\ ~e.wack[s] /\ n < depth -> "write-starved"
              [] bound > 0 /\ \E r \in Idx(e.rack) : rwait[r] >= bound /\ e.r[r] /\ ~prack[r] /\ ~e.rack[r] /\ n > 0 -> "read-starved"
              [] OTHER -> ""
  IN  [err |-> er, store |-> st1,
       swait |-> [s \in Idx(e.wack) |-> IF e.w[s] /\ ~pwack[s] /\ ~e.wack[s] /\ n < depth THEN swait[s] + 1 ELSE 0],
       rwait |-> [r \in Idx(e.rack) |-> IF e.r[r] /\ ~prack[r] /\ ~e.rack[r] /\ n > 0 THEN rwait[r] + 1 ELSE 0]]

TReset ==
  /\ l <= Len(Trace) /\ Trace[l].ev = "reset" /\ l' = l + 1
  /\ LET e == Trace[l]
     IN  /\ kind' = e.kind /\ depth' = e.depth /\ bound' = e.bound /\ store' = <<>> /\ err' = ""
         /\ pwack' = [s \in 1 .. e.ns |-> FALSE] /\ prack' = [r \in 1 .. e.nr |-> FALSE]
         /\ prdata' = [r \in 1 .. e.nr |-> 0]
         /\ swait' = [s \in 1 .. e.ns |-> 0] /\ rwait' = [r \in 1 .. e.nr |-> 0]

TClk ==
  /\ l <= Len(Trace) /\ Trace[l].ev = "clk" /\ l' = l + 1
  /\ UNCHANGED <<kind, depth, bound>>
  /\ IF err # ""
     THEN UNCHANGED <<err, store, pwack, prack, prdata, swait, rwait>>
     ELSE LET e == Trace[l]
              j == Judge(e)
          IN  /\ err' = j.err /\ store' = j.store /\ swait' = j.swait /\ rwait' = j.rwait
              /\ pwack' = e.wack /\ prack' = e.rack /\ prdata' = e.rdata
              /\ (j.err # "") => PrintT(<<"REJECT", l, j.err>>)

TraceInit ==
  /\ l = 1 /\ err = "" /\ kind = "" /\ depth = 0 /\ bound = 0 /\ store = <<>>
  /\ pwack = <<>> /\ prack = <<>> /\ prdata = <<>> /\ swait = <<>> /\ rwait = <<>>
TraceNext == TReset \/ TClk
TraceSpec == TraceInit /\ [][TraceNext]_tvars
TraceAccepted == TLCGet("stats").diameter - 1 = Len(Trace)
=============================================================================
