SPECIFICATION Spec
CHECK_DEADLOCK FALSE
