SPECIFICATION Spec
CONSTANTS
 Catalogue <- Cat3
 MaxIn = 1
 MaxOut = 2
 MaxProc = 1
INVARIANT WellFormed
PROPERTY AbsSpec
CHECK_DEADLOCK FALSE
