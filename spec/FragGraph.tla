------------------------------ MODULE FragGraph ------------------------------
(***************************************************************************)
(* C06 — a graph of code fragments means its dataflow, whatever the        *)
(* mapping onto processors.                                                *)
(*                                                                         *)
(* A graph is a sequence of fragment INSTANCES; instance i is a fragment   *)
(* of the library below with every input port fed by exactly one source:   *)
(* an external input, or an output port of an EARLIER instance (so the     *)
(* sequence is a topological order).  External outputs are fed by output   *)
(* ports.  An output port may feed any number of consumers.                *)
(*                                                                         *)
(* The MEANING of the graph is Eval: the value on every external output    *)
(* as a function of the external inputs, with arithmetic modulo 2^RSize.   *)
(* It does not mention processors at all.                                  *)
(*                                                                         *)
(* A MAPPING assigns every instance to a group (processor); the instances  *)
(* of a group are collapsed in their graph order; groups get their names   *)
(* (which decide the processor numbering) through a permutation.  The      *)
(* action Remap changes the mapping and nothing else: result is a function *)
(* of the graph only (property MappingIrrelevant).  Every mapping TLC      *)
(* visits is replayed on the real assembler + simulator, whose external    *)
(* outputs must equal result.                                              *)
(***************************************************************************)
EXTENDS Integers, Sequences, FiniteSets, TLC

CONSTANTS RSize, NInst, NExtOut, NRemap, BigGraph,
          ForkJoin,  \* TRUE (with NInst = 4): only graphs of the shape  d(c(a(x)), b(y)) : b's result is live while c runs
          FragSet    \* the fragments a graph is built from (a subset of the library: which register names meet on a processor)

Mod == 2 ^ RSize
\* the fragment library: name -> [nin, nout]; the bodies are in the harness (c06.go), the meaning here
Lib == [incf |-> [nin |-> 1, nout |-> 1],      \* r0 -> r0       x + 1
        dblf |-> [nin |-> 1, nout |-> 1],      \* r0 -> r1       2x
        addf |-> [nin |-> 2, nout |-> 1],      \* r0:r1 -> r0    x + y
        trif |-> [nin |-> 1, nout |-> 1],      \* r0 -> r0       3x        (scratch register r2)
        splf |-> [nin |-> 1, nout |-> 2],      \* r0 -> r0:r1    (x, x + 1)
        swpf |-> [nin |-> 1, nout |-> 1],      \* r1 -> r0       x - 1     (input and output on different registers)
        dczf |-> [nin |-> 1, nout |-> 1],      \* r0 -> r0       x = 0 ? 0 : x - 1   (a label and a jump inside)
        sbff |-> [nin |-> 2, nout |-> 2],      \* r1:r0 -> r2:r0 (x + y, y)   (ports in an unusual register order)
        sclf |-> [nin |-> 1, nout |-> 1],      \* r0 -> r0       x + 1     (scratch r2 only ever written as a last operand)
        gapf |-> [nin |-> 1, nout |-> 1]]      \* r0 -> r0       2x        (scratch r3: the register names used have a hole at r2)
Frags == DOMAIN Lib
Sem(f, in) ==
  CASE f = "incf" -> <<(in[1] + 1) % Mod>>
    [] f = "dblf" -> <<(2 * in[1]) % Mod>>
    [] f = "addf" -> <<(in[1] + in[2]) % Mod>>
    [] f = "trif" -> <<(3 * in[1]) % Mod>>
    [] f = "splf" -> <<in[1], (in[1] + 1) % Mod>>
    [] f = "swpf" -> <<(in[1] + Mod - 1) % Mod>>
    [] f = "dczf" -> <<IF in[1] = 0 THEN 0 ELSE in[1] - 1>>
    [] f = "sbff" -> <<(in[1] + in[2]) % Mod, in[2]>>
    [] f = "sclf" -> <<(in[1] + 1) % Mod>>
    [] f = "gapf" -> <<(2 * in[1]) % Mod>>

NExtIn == 2
VecSeq == <<<<5, 7>>, <<0, Mod - 1>>, <<Mod - 56, 100>>>>
FragSeq == <<"incf", "dblf", "addf", "trif", "splf", "swpf", "dczf", "sbff", "sclf", "gapf">>

VARIABLES phase, inst, outs, group, perm, result, remaps
vars == <<phase, inst, outs, group, perm, result, remaps>>

Ext(k) == [k |-> "ext", i |-> k, p |-> 0]
Port(i, p) == [k |-> "fi", i |-> i, p |-> p]
\* sources available to instance number n (1-based): external inputs, ports of instances 1..n-1
Sources(n) == {Ext(k) : k \in 0 .. NExtIn - 1} \cup
              UNION {{Port(i, p) : p \in 0 .. Lib[inst[i].f].nout - 1} : i \in 1 .. n - 1}
PortSources(n) == Sources(n) \ {Ext(k) : k \in 0 .. NExtIn - 1}

\* ---- meaning ----------------------------------------------------------------------------------
RECURSIVE ValsUpTo(_, _)
\* sequence of output tuples of instances 1..n for input vector v
ValsUpTo(n, v) ==
  IF n = 0 THEN <<>>
  ELSE LET prev == ValsUpTo(n - 1, v)
           srcv(s) == IF s.k = "ext" THEN v[s.i + 1] ELSE prev[s.i][s.p + 1]
           in == [j \in 1 .. Len(inst[n].src) |-> srcv(inst[n].src[j])]
       IN  Append(prev, Sem(inst[n].f, in))
Eval(v) == LET vals == ValsUpTo(Len(inst), v)
           IN  [o \in 1 .. Len(outs) |-> vals[outs[o].i][outs[o].p + 1]]

\* ---- mappings ---------------------------------------------------------------------------------
\* group[i] is the group of instance i, numbered in order of first appearance (canonical form)
Canonical(g) == \A i \in DOMAIN g : g[i] <= 1 + (IF i = 1 THEN 0 ELSE LET S == {g[j] : j \in 1 .. i - 1} IN
                                                  CHOOSE m \in S : \A x \in S : x <= m)
Groupings == {g \in [1 .. NInst -> 1 .. NInst] : Canonical(g)}
NGroups(g) == Cardinality({g[i] : i \in DOMAIN g})
Perms(n) == {p \in [1 .. n -> 1 .. n] : \A a, b \in 1 .. n : a # b => p[a] # p[b]}

Init ==
  /\ phase = "build" /\ inst = <<>> /\ outs = <<>> /\ group = <<>> /\ perm = <<>>
  /\ result = <<>> /\ remaps = 0

AddInst(f, src) ==
  /\ phase = "build" /\ Len(inst) < NInst
  /\ inst' = Append(inst, [f |-> f, src |-> src])
  /\ UNCHANGED <<phase, outs, group, perm, result, remaps>>

AddOut(s) ==
  /\ phase = "build" /\ Len(inst) = NInst /\ Len(outs) < NExtOut
  /\ outs' = Append(outs, s)
  /\ UNCHANGED <<phase, inst, group, perm, result, remaps>>

\* the graph is complete: its meaning is fixed here, once
Seal ==
  /\ phase = "build" /\ Len(inst) = NInst /\ Len(outs) = NExtOut
  /\ phase' = "mapped"
  /\ result' = [k \in 1 .. Len(VecSeq) |-> Eval(VecSeq[k])]
  /\ group' = [i \in 1 .. NInst |-> i] /\ perm' = [g \in 1 .. NInst |-> g]     \* every instance on its own processor
  /\ UNCHANGED <<inst, outs, remaps>>

Remap(g, p) ==
  /\ phase = "mapped" /\ remaps < NRemap
  /\ group' = g /\ perm' = p /\ remaps' = remaps + 1
  /\ UNCHANGED <<phase, inst, outs, result>>

\* (IF-structured so that TLC -simulate draws the fragment kinds with equal odds, see BasmSem)
Next ==
  \E w \in 1 .. 10 :
    IF phase = "build" /\ Len(inst) < NInst
    THEN LET n == Len(inst) + 1
             f == FragSeq[w]
         IN  /\ f \in FragSet
             /\ IF ForkJoin
                THEN /\ Lib[f].nin = (IF n = 4 THEN 2 ELSE 1) /\ (n < 4 => Lib[f].nout = 1)
                     /\ \E src \in (CASE n = 1 -> {<<Ext(0)>>} [] n = 2 -> {<<Ext(1)>>} [] n = 3 -> {<<Port(1, 0)>>}
                                       [] OTHER -> {<<Port(3, 0), Port(2, 0)>>, <<Port(2, 0), Port(3, 0)>>}) : AddInst(f, src)
                ELSE \E src \in [1 .. Lib[f].nin -> Sources(n)] : AddInst(f, src)
    ELSE IF phase = "build" /\ Len(outs) < NExtOut
    THEN w = 1 /\ \E s \in PortSources(NInst + 1) : AddOut(s)
    ELSE IF phase = "build"
    THEN w = 1 /\ Seal
    ELSE IF w = 1 THEN Remap([i \in 1 .. NInst |-> 1], [g \in 1 .. 1 |-> 1])          \* all on one processor
    ELSE IF BigGraph                                    \* (the sets of all mappings are too large to enumerate)
    THEN (\/ w = 2 /\ Remap([i \in 1 .. NInst |-> i], [g \in 1 .. NInst |-> NInst + 1 - g])   \* one each, names reversed
          \/ w = 3 /\ Remap([i \in 1 .. NInst |-> 1 + (i % 2)], <<2, 1>>)                     \* odd / even
          \/ w = 4 /\ Remap([i \in 1 .. NInst |-> IF 2 * i <= NInst THEN 1 ELSE 2], <<1, 2>>)) \* first / second half
    ELSE IF w = 2 THEN (\E p \in Perms(NInst) : Remap([i \in 1 .. NInst |-> i], p))       \* one each, names permuted
    ELSE \E g \in Groupings : \E p \in Perms(NGroups(g)) : Remap(g, p)
Spec == Init /\ [][Next]_vars

MappingIrrelevant == [][phase = "mapped" => result' = result]_vars
TypeOK == phase = "mapped" => \A k \in 1 .. Len(VecSeq) : \A o \in 1 .. NExtOut : result[k][o] \in 0 .. Mod - 1
=============================================================================
