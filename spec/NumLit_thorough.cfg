SPECIFICATION Spec
CONSTANTS
 MaxBinLen = 9
 MaxHexLen = 4
 Sizes = {1, 2, 3, 4, 7, 8, 9, 12, 16, 17, 24, 30}
INVARIANT WidthLaw
INVARIANT RoundTrip
CHECK_DEADLOCK FALSE
