SPECIFICATION Spec
PROPERTY Unchanged
PROPERTY Registered
CHECK_DEADLOCK FALSE
