SPECIFICATION Spec
PROPERTY Unchanged
CHECK_DEADLOCK FALSE
