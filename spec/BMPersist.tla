------------------------------ MODULE BMPersist ------------------------------
(***************************************************************************)
(* C11 — saving and reloading a machine loses nothing.                     *)
(*                                                                         *)
(* At the level of this specification a machine is a value m and           *)
(* persistence is a STUTTERING step: SaveLoad leaves m unchanged.  That is *)
(* the whole property.  What the module contributes is the bounded domain  *)
(* of machine descriptors over which the real Jsoner / json / Dejsoner     *)
(* round trip is replayed: every opcode of the static table (through the   *)
(* opcode lists of BMIsaOpLists), one member of each dynamically named     *)
(* opcode family that can be created offline (FloPoCo opcodes need the     *)
(* external flopoco generator, the linear quantizer opcodes a ranges file),*)
(* every shared-object kind with 1..2 attached processors (square and      *)
(* non-square text memories), Threaded in 0..2, WordSize overrides, and    *)
(* the bond graphs of the BMTopology state space (replayed by the harness  *)
(* from that model's dumped graph).                                        *)
(*                                                                         *)
(* The loading process has an opcode REGISTRY (procbuilder.Allopcodes):    *)
(* the statically known opcodes plus the dynamically named ones created so *)
(* far.  reg is the set of dynamic names the loading process already knows:*)
(* a machine is loaded either by the process that built it (reg contains   *)
(* its dynamic names) or by a fresh process (reg = {}); loading registers   *)
(* the names and still leaves the machine unchanged.  The registry only    *)
(* grows: a machine is loaded again after every other machine of the       *)
(* catalogue has been built (reg is then the union of all names).          *)
(***************************************************************************)
EXTENDS Integers, Sequences, FiniteSets, TLC, BMIsaOpLists, Json, IOUtils, SequencesExt

VARIABLES m, reg

DynOps == <<"addfps8f4", "addfxps8f4", "calla4st", "callo4st", "divfps8f4",
            "multfps8f4", "multfxps8f4", "pull4st", "push4st", "ret4st", "rsets8">>
SharedKinds == {"sharedmem:16", "channel:", "barrier:8", "lfsr8:7", "lfsr8:37", "lfsr8:172", "vtextmem:0:1:1:8:4", "vtextmem:0:2:3:20:5", "queue:4", "stack:4", "uart:9600:4", "kbd:4"}

Dom(ops, thr, ws) == [ops |-> ops, threaded |-> thr, wsextra |-> ws]
\* names that differ only in the case of a letter are different names (two stacks dQ and dq)
TwinA == <<"add", "j", "pull4dQ", "push4dQ">>
TwinB == <<"add", "j", "pull4dq", "push4dq">>
Doms == {Dom(ops, thr, ws) : ops \in OpLists \cup {DynOps, <<"add", "j", "rsets8">>, TwinA, TwinB}, thr \in {0, 1, 2}, ws \in {0, 3}}

\* orders in which processors 0, 1 are connected to objects 0, 1 ([p, s] pairs): ascending or crossed, per processor
C(p, so) == [p |-> p, s |-> so]
ConnOrders == {<<C(0, 0), C(0, 1), C(1, 0), C(1, 1)>>, <<C(0, 0), C(0, 1), C(1, 1), C(1, 0)>>,
               <<C(0, 1), C(0, 0), C(1, 0), C(1, 1)>>, <<C(0, 1), C(0, 0), C(1, 1), C(1, 0)>>}

\* a machine: one or two processors of one domain, shared objects each attached to a set of processors
Machines ==
  {[dom |-> d, nproc |-> np, sos |-> <<>>, att |-> <<>>] : d \in Doms, np \in {1, 2}} \cup
  {[dom |-> Dom(OL4, 0, 0), nproc |-> 2, sos |-> <<s>>, att |-> <<a>>] : s \in SharedKinds, a \in {{0}, {0, 1}}} \cup
  {[dom |-> Dom(OL4, 0, 0), nproc |-> 2, sos |-> <<s1, s2>>, att |-> <<{0}, {1}>>] : s1 \in {"queue:4", "stack:4"}, s2 \in {"channel:", "sharedmem:16"}} \cup
  \* two objects of one kind attached to both processors, in every order of attachment (the position of
  \* an object in a processor's list is the processor's own number for it)
  {[dom |-> Dom(OL4, 0, 0), nproc |-> 2, sos |-> <<s1, s2>>, att |-> <<{0, 1}, {0, 1}>>, conn |-> c] :
      s1 \in {"queue:8"}, s2 \in {"queue:4"}, c \in ConnOrders}

DynUniverse == {DynOps[i] : i \in DOMAIN DynOps} \cup {"pull4dQ", "push4dQ", "pull4dq", "push4dq"}
DynNames(x) == {x.dom.ops[i] : i \in DOMAIN x.dom.ops} \cap DynUniverse
Init == m \in Machines /\ reg \in {{}, DynNames(m)}
SaveLoad == m' = m /\ reg' = reg \cup DynNames(m)
Next == SaveLoad
Spec == Init /\ [][Next]_<<m, reg>>

\* persistence never changes the machine
Unchanged == [][m' = m]_<<m, reg>>
Registered == [][DynNames(m) \subseteq reg']_<<m, reg>>

\* The command line tool loads the machine file, serves the request and writes the file back: a request
\* that only lists or shows something is a stuttering step too, whatever the machine's register size
\* (the tool's own -register-size option is about machines it creates, not about the one it loaded).
ReadOnlyRequests == {"-list-bonds", "-list-inputs", "-list-outputs", "-list-processors", "-list-domains", "-list-shared-objects", "-emit-dot"}
ToolRows == {[rsize |-> rs, request |-> q] : rs \in {8, 16, 32}, q \in ReadOnlyRequests}
ASSUME ndJsonSerialize(IOEnv.TOOLROWS, SetToSeq(ToolRows))

\* fresh = the loading process has never seen the machine's dynamic opcode names
Export(x, fresh) == [dom |-> x.dom, nproc |-> x.nproc, sos |-> x.sos, att |-> [i \in DOMAIN x.att |-> SetToSeq(x.att[i])], fresh |-> fresh,
                     conn |-> IF "conn" \in DOMAIN x THEN x.conn ELSE <<>>]
ASSUME ndJsonSerialize(IOEnv.ROWS, SetToSeq({Export(x, FALSE) : x \in Machines} \cup {Export(x, TRUE) : x \in {y \in Machines : DynNames(y) # {}}}))
=============================================================================
