------------------------------ MODULE BMSimLife ------------------------------
(***************************************************************************)
(* C17 — finished simulations leave no workers behind.                     *)
(*                                                                         *)
(* Lifecycle of the goroutines a single-shot simulation starts             *)
(* (Launch_processors: one EmuDriverDispatcher and one Processor_execute   *)
(* per processor) and of the requirement server a BasmInstance starts      *)
(* (bmreqs.NewReqRoot).  Launch(s) creates the workers of call s,          *)
(* Finish(s) is the return of the call, Exit(g) a worker returning.  With  *)
(* HasExit = FALSE the model is AS CODED: the workers block on their       *)
(* channels for ever.                                                      *)
(*   Released  when a call has finished none of its workers is alive       *)
(*   Bounded   live workers <= those of the calls still running            *)
(* TLC shows Released/Bounded violated after the first Finish in the       *)
(* as-coded model and satisfied when Finish waits for the workers' exit.   *)
(* BMSimLifeTrace judges goroutine counts sampled from the real process.   *)
(***************************************************************************)
EXTENDS Integers, FiniteSets, TLC

CONSTANTS NCalls, NP, HasExit

Calls == 1 .. NCalls
Workers(s) == {<<s, w>> : w \in 0 .. NP}          \* 0 = dispatcher, 1..NP processor workers

VARIABLES live, state       \* state[s] \in {"new", "running", "stopping", "finished"}
vars == <<live, state>>

Init == live = {} /\ state = [s \in Calls |-> "new"]
Launch(s) == state[s] = "new" /\ state' = [state EXCEPT ![s] = "running"] /\ live' = live \cup Workers(s)
\* as coded: the call returns while its workers are parked on their channels
FinishAsCoded(s) == ~HasExit /\ state[s] = "running" /\ state' = [state EXCEPT ![s] = "finished"] /\ UNCHANGED live
\* with an exit path: the call tells its workers to stop and returns when they are gone
Stop(s) == HasExit /\ state[s] = "running" /\ state' = [state EXCEPT ![s] = "stopping"] /\ UNCHANGED live
Exit(g) == HasExit /\ g \in live /\ state[g[1]] = "stopping" /\ live' = live \ {g} /\ UNCHANGED state
Finish(s) == HasExit /\ state[s] = "stopping" /\ live \cap Workers(s) = {} /\ state' = [state EXCEPT ![s] = "finished"] /\ UNCHANGED live
Next == \E s \in Calls : Launch(s) \/ FinishAsCoded(s) \/ Stop(s) \/ Finish(s) \/ \E g \in Workers(s) : Exit(g)
Spec == Init /\ [][Next]_vars

Released == \A s \in Calls : state[s] = "finished" => live \cap Workers(s) = {}
Bounded  == Cardinality(live) <= (NP + 1) * Cardinality({s \in Calls : state[s] \in {"running", "stopping"}})
=============================================================================
