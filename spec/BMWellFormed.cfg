SPECIFICATION Spec
POSTCONDITION AllJudged
CHECK_DEADLOCK FALSE
