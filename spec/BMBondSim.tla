----------------------------- MODULE BMBondSim -----------------------------
(***************************************************************************)
(* Implementation-level model of one bond in the Go SIMULATOR (C04):       *)
(* one producer processor executing r2owa on an output that is bonded to   *)
(* NCons consumer processors executing i2rw, as coded in                   *)
(*   pkg/procbuilder/op_r2owa.go  (R2owa.Simulate)                         *)
(*   pkg/procbuilder/op_i2rw.go   (I2rw.Simulate, waitRecvI2rw)            *)
(*   pkg/procbuilder/vm.go        (VM.Step: deferred first, then instr)    *)
(*   pkg/bondmachine/vm.go        (VM.Step: pre-move, compute, post-move)  *)
(*                                                                         *)
(* One action = one tick of bondmachine.VM.Step.  At a tick boundary the   *)
(* fabric registers are copies of the processors' own lines (post-move),   *)
(* so a consumer executing in tick t sees the producer's valid/data of the *)
(* END of tick t-1, and the producer sees the AND of the consumers' recv   *)
(* of the end of tick t-1.                                                 *)
(*                                                                         *)
(* Programs are not fixed: a processor whose previous instruction retired  *)
(* ("NEW") picks its next instruction when it executes it (SEND/RECV, PAD, *)
(* HALT = end of program), which quantifies over all I/O patterns and      *)
(* relative speeds (padding subsumes per-opcode delays: a delayed          *)
(* processor only runs its deferred actions, exactly like PAD).  The i-th  *)
(* SEND sends the value i.                                                 *)
(*                                                                         *)
(* The model is AS CODED, including what the code does wrong.  The         *)
(* abstract bond state (BMBond) is carried along and every tick is judged  *)
(* with BMBond!Judge; a tick that breaks the property sets err and a root  *)
(* cause tag and the behaviour stops there.  With AvoidKnown = TRUE the    *)
(* two known defective situations are never entered (an instruction is not *)
(* started in the situation that triggers them), so that TLC explores deep *)
(* behaviours in which any violation would be a new one.                   *)
(***************************************************************************)
EXTENDS Integers, Sequences, FiniteSets, TLC

CONSTANTS NCons, MaxSend, MaxRecv, MaxPad, AvoidKnown

VARIABLES pinstr, pvalid, pout, nsend, ppad,       \* producer
          cinstr, crecv, cdef, cnrecv, cpad,       \* consumers
          plast, clast, ccap,                      \* outputs: what was executed in the last tick
          issued, pret, cret, err, cause           \* property-level bond + verdict

B == INSTANCE BMBond
Cons == 1 .. NCons

pvars == <<pinstr, pvalid, pout, nsend, ppad>>
cvars == <<cinstr, crecv, cdef, cnrecv, cpad>>
mvars == <<issued, pret, cret, err, cause>>
vars  == <<pvars, cvars, plast, clast, ccap, mvars>>
\* history-free view for exhaustive search
view  == <<pvars, cvars, Len(issued) - pret, [c \in Cons |-> Len(issued) - cret[c]], err, cause>>

F1 == "i2rw-fired-with-own-recv-high"
F2 == "r2owa-retired-in-issue-tick-on-stale-recv"

NoOp == [op |-> "NONE", first |-> FALSE, ret |-> FALSE]

Init ==
  /\ pinstr = "NEW" /\ pvalid = FALSE /\ pout = 0 /\ nsend = 0 /\ ppad = 0
  /\ cinstr = [c \in Cons |-> "NEW"]
  /\ crecv = [c \in Cons |-> FALSE] /\ cdef = [c \in Cons |-> FALSE]
  /\ cnrecv = [c \in Cons |-> 0] /\ cpad = [c \in Cons |-> 0]
  /\ plast = NoOp /\ clast = [c \in Cons |-> NoOp] /\ ccap = [c \in Cons |-> <<>>]
  /\ issued = <<>> /\ pret = 0 /\ cret = [c \in Cons |-> 0] /\ err = "" /\ cause = ""

Tick ==
  /\ err = ""
  /\ LET inValid == pvalid                      \* what the consumers see during this tick
         inData  == pout
         outRecv == \A c \in Cons : crecv[c]     \* what the producer sees during this tick
         dClr(c)  == cdef[c] /\ ~inValid          \* deferred waitRecvI2rw runs first
         recv1(c) == IF dClr(c) THEN FALSE ELSE crecv[c]
         def1(c)  == IF dClr(c) THEN FALSE ELSE cdef[c]
         PChoices == IF pinstr # "NEW" THEN {pinstr}
                     ELSE (IF nsend < MaxSend /\ ~(AvoidKnown /\ outRecv) THEN {"SEND"} ELSE {})
                          \cup (IF ppad < MaxPad THEN {"PAD"} ELSE {})
                          \cup (IF nsend + ppad > 0 THEN {"HALT"} ELSE {})   \* a program has >= 1 instruction
         CChoices(c) == IF cinstr[c] # "NEW" THEN {cinstr[c]}
                        ELSE (IF cnrecv[c] < MaxRecv /\ ~(AvoidKnown /\ recv1(c)) THEN {"RECV"} ELSE {})
                             \cup (IF cpad[c] < MaxPad THEN {"PAD"} ELSE {})
                             \cup (IF cnrecv[c] + cpad[c] > 0 THEN {"HALT"} ELSE {})
     IN
     \E pop \in PChoices : \E cop \in [Cons -> {"RECV", "PAD", "HALT"}] :
       /\ \A c \in Cons : cop[c] \in CChoices(c)
       /\ LET \* ---- producer: R2owa.Simulate ----
              pExec   == pop = "SEND"
              pIssue  == pExec /\ pinstr = "NEW"
              ns      == IF pIssue THEN nsend + 1 ELSE nsend
              pRet    == pExec /\ outRecv
              pRetire == pRet \/ pop = "PAD"
              \* ---- consumers: I2rw.Simulate ----
              fire(c)    == cop[c] = "RECV" /\ inValid
              cRetire(c) == fire(c) \/ cop[c] = "PAD"
              firing     == {c \in Cons : fire(c)}
              crs == [i \in 1 .. Cardinality(firing) |->
                        [c |-> CHOOSE x \in firing : Cardinality({y \in firing : y < x}) = i - 1,
                         v |-> inData]]
              j == B!Judge([issued |-> issued, pret |-> pret, cret |-> cret, err |-> ""],
                           IF pIssue THEN <<ns>> ELSE <<>>, crs, pRet)
          IN
          /\ issued' = j.issued /\ pret' = j.pret /\ cret' = j.cret /\ err' = j.err
          /\ cause' = IF j.err = "" THEN ""
                      ELSE IF \E c \in firing : recv1(c) THEN F1
                      ELSE IF pIssue /\ pRet THEN F2
                      ELSE "other"
          /\ pout' = IF pExec THEN ns ELSE pout
          /\ pvalid' = IF pExec THEN ~outRecv ELSE pvalid
          /\ nsend' = ns
          /\ pinstr' = IF pop = "HALT" THEN "HALT" ELSE IF pRetire THEN "NEW" ELSE pop
          /\ ppad' = IF pop = "PAD" THEN ppad + 1 ELSE IF pop = "SEND" THEN 0 ELSE ppad
          /\ plast' = [op |-> pop, first |-> pinstr = "NEW", ret |-> pRetire]
          /\ crecv' = [c \in Cons |-> IF cop[c] = "RECV" THEN inValid ELSE recv1(c)]
          /\ cdef'  = [c \in Cons |-> IF fire(c) THEN TRUE ELSE def1(c)]
          /\ ccap'  = [c \in Cons |-> IF fire(c) THEN Append(ccap[c], inData) ELSE ccap[c]]
          /\ cinstr' = [c \in Cons |-> IF cop[c] = "HALT" THEN "HALT" ELSE IF cRetire(c) THEN "NEW" ELSE cop[c]]
          /\ cnrecv' = [c \in Cons |-> IF cop[c] = "RECV" /\ cinstr[c] = "NEW" THEN cnrecv[c] + 1 ELSE cnrecv[c]]
          /\ cpad' = [c \in Cons |-> IF cop[c] = "PAD" THEN cpad[c] + 1 ELSE IF cop[c] = "RECV" THEN 0 ELSE cpad[c]]
          /\ clast' = [c \in Cons |-> [op |-> cop[c], first |-> cinstr[c] = "NEW", ret |-> cRetire(c)]]

\* everybody halted and nothing pending: stop
Quiescent == pinstr = "HALT" /\ \A c \in Cons : cinstr[c] = "HALT" /\ ~cdef[c]
Next == ~Quiescent /\ Tick

Spec == Init /\ [][Next]_vars

\* ---- what TLC checks -----------------------------------------------------------------------
NoViolation      == err = ""
OnlyKnownCauses  == err # "" => cause \in {F1, F2}
NoF1             == cause # F1
NoF2             == cause # F2
AtMostOneAhead   == err = "" => \A c \in Cons : Len(issued) - cret[c] \in {0, 1}
NoEarlyProducer  == err = "" => \A c \in Cons : cret[c] >= pret
=============================================================================
