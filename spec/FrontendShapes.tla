--------------------------- MODULE FrontendShapes ---------------------------
(***************************************************************************)
(* C16 / C07 — bounded catalogues of inputs for the generator front-ends:   *)
(*   Nets      feed-forward networks for neuralbond: ni inputs, one or two  *)
(*             computing layers of 1..2 neurons of a type, one output per   *)
(*             neuron of the last layer; consecutive layers fully connected *)
(*   Circuits  quantum circuits for bmqsim: 1..2 qubits, up to three gates  *)
(* The rows are exported (ASSUME); the harness writes each as the front-    *)
(* end's input file, runs the real front-end and the real assembler, and    *)
(* the emitted machines are judged by BMWellFormed / BMTopologyTrace (C16)  *)
(* or compared byte-wise across runs (C07).                                 *)
(***************************************************************************)
EXTENDS Integers, Sequences, FiniteSets, TLC, Json, IOUtils, SequencesExt

Types == {"linear", "softmax", "relu"}
Layer == [t : Types, n : 1 .. 2]
Nets == {[ni |-> ni, layers |-> ls] : ni \in 1 .. 3, ls \in {<<a>> : a \in Layer} \cup {<<a, b>> : a \in Layer, b \in Layer}}

Gates1 == {"h", "x", "z"}
G(g, qs) == [g |-> g, qs |-> qs]
Single(n) == {G(g, <<q>>) : g \in Gates1, q \in 0 .. n - 1}
Double(n) == IF n < 2 THEN {} ELSE {G("cx", <<0, 1>>), G("cx", <<1, 0>>)}
Circuits ==
  UNION {{[n |-> n, gates |-> <<a>>] : a \in Single(n) \cup Double(n)} : n \in 1 .. 2} \cup
  UNION {{[n |-> n, gates |-> <<a, b>>] : a \in Single(n), b \in Single(n) \cup Double(n)} : n \in 1 .. 2}

\* what the emitted machine must have: one external input per network input, one external output
\* per neuron of the last layer
NetIn(x)  == x.ni
NetOut(x) == x.layers[Len(x.layers)].n

VARIABLE s
Init == s \in Nets
Next == UNCHANGED s
Spec == Init /\ [][Next]_s
Demands == NetIn(s) >= 1 /\ NetOut(s) >= 1

ASSUME ndJsonSerialize(IOEnv.NETS, SetToSeq({x @@ [nin |-> NetIn(x), nout |-> NetOut(x)] : x \in Nets}))
ASSUME ndJsonSerialize(IOEnv.CIRCS, SetToSeq(Circuits))
=============================================================================
