--------------------------- MODULE BMTopologyTrace ---------------------------
(***************************************************************************)
(* Trace validation of the REAL Bondmachine object against BMTopologyAbs.  *)
(*                                                                         *)
(* The trace (NDJSON, path in the environment variable TRACE) holds        *)
(*   {"ev":"set", "post":S}            resynchronise the abstract state    *)
(*   {"ev":"Emit", "post":S}           a front-end emitted the machine the *)
(*                                     preceding "set" describes (C16)     *)
(*   {"ev":"CliDelOutputs"|"CliDelInputs", "ks":list, "post":S}  the     *)
(*                                     command line's list deletions       *)
(*   {"ev":"Netlist", "post":NL}       the generated top-level Verilog of  *)
(*                                     that machine read back as wiring    *)
(*   {"ev":<edit>, args..., "post":S}  one API call and the state the real *)
(*                                     object had after it                 *)
(* where S = [nin, nout, procs, doms, iin, ion, links, bonds] is read from *)
(* the real object (raw fields plus List_bonds()).  Each edit event takes  *)
(* the abstract action and then compares S with the abstract post-state    *)
(* and with well-formedness.  A disagreement is not blocking: it is        *)
(* printed as <<"REJECT", line, reason>> and remembered in err until the   *)
(* next "set", so that one TLC run judges every recorded segment.          *)
(***************************************************************************)
EXTENDS BMTopologyAbs, Json, IOUtils

Trace == ndJsonDeserialize(IOEnv.TRACE)

VARIABLES l, err
tvars == <<avars, l, err>>

ToSet(s) == {s[i] : i \in DOMAIN s}

SrcOf(r, name)  == CHOOSE s \in SourcesOf(r.nin, r.procs, r.doms) : NameStr(s) = name
SinkOf(r, name) == CHOOSE s \in SinksOf(r.nout, r.procs, r.doms) : NameStr(s) = name

\* First reason for which the logged real state r is not the abstract post-state / not well formed.
Diff(r) ==
  LET sinks   == SinksOf(r.nout, r.procs, r.doms)
      sources == SourcesOf(r.nin, r.procs, r.doms)
      linked  == {j \in DOMAIN r.links : r.links[j] # -1}
  IN
  CASE anin' # r.nin -> "inputs"
    [] anout' # r.nout -> "outputs"
    [] aprocs' # r.procs -> "processors"
    [] adoms' # r.doms -> "domains"
    [] Len(r.links) # Len(r.iin) -> "wf:link-slots"
    [] \E i \in DOMAIN r.links : r.links[i] \notin -1 .. Len(r.ion) - 1 -> "wf:link-range"
    [] ToSet(r.iin) # {NameStr(s) : s \in sinks} \/ Len(r.iin) # Cardinality(sinks) -> "wf:internal-inputs"
    [] ToSet(r.ion) # {NameStr(s) : s \in sources} \/ Len(r.ion) # Cardinality(sources) -> "wf:internal-outputs"
    [] {<<r.ion[r.links[i] + 1], r.iin[i]>> : i \in linked} # {<<NameStr(b[1]), NameStr(b[2])>> : b \in bonds'} -> "bonds"
    [] ToSet(r.bonds) # {<<r.ion[r.links[i] + 1], r.iin[i]>> : i \in linked} -> "list-bonds"
    [] OTHER -> ""

Judge(r) ==
  /\ err' = IF err # "" THEN err ELSE Diff(r)
  /\ (err = "" /\ err' # "") => PrintT(<<"REJECT", l, err'>>)

IsEvent(e) == l <= Len(Trace) /\ Trace[l].ev = e /\ l' = l + 1

TSet ==
  /\ IsEvent("set")
  /\ LET r == Trace[l].post
     IN  /\ anin' = r.nin /\ anout' = r.nout /\ aprocs' = r.procs /\ adoms' = r.doms
         /\ bonds' = {<<SrcOf(r, b[1]), SinkOf(r, b[2])>> : b \in ToSet(r.bonds)}
  /\ err' = ""

TAddInput   == IsEvent("AddInput")   /\ AAddInput                 /\ Judge(Trace[l].post)
TAddOutput  == IsEvent("AddOutput")  /\ AAddOutput                /\ Judge(Trace[l].post)
TDelInput   == IsEvent("DelInput")   /\ ADelInput(Trace[l].k)     /\ Judge(Trace[l].post)
TDelOutput  == IsEvent("DelOutput")  /\ ADelOutput(Trace[l].k)    /\ Judge(Trace[l].post)
TAddProc    == IsEvent("AddProcessor") /\ AAddProc(Trace[l].d)    /\ Judge(Trace[l].post)
TAddBond    == IsEvent("AddBond")    /\ AAddBond(Trace[l].e0, Trace[l].e1)  /\ Judge(Trace[l].post)
TAttachBC   == IsEvent("AttachBC")   /\ AAttachBC(Trace[l].e0, Trace[l].e1) /\ Judge(Trace[l].post)
TSaveLoad   == IsEvent("SaveLoad")   /\ ASaveLoad                 /\ Judge(Trace[l].post)
\* a front-end emitted the machine described (on names) by the preceding "set": the emitted object
\* must be that machine and be well formed (C16)
TEmit       == IsEvent("Emit")       /\ UNCHANGED avars           /\ Judge(Trace[l].post)
\* the generated top-level Verilog of the machine described by the preceding "set" was read back
\* as a netlist (C02): nl.bonds / nl.vbonds are the <<source, sink>> name pairs joined by the data
\* and the valid wiring, nl.rbonds says for every source which sinks' received lines are and-ed
\* into its own; all three must be exactly the bonds of the machine
NameBonds == {<<NameStr(b[1]), NameStr(b[2])>> : b \in bonds}
NetDiff(nl) ==
  CASE nl.problem # "" -> "netlist:" \o nl.problem
    [] ToSet(nl.bonds) # NameBonds -> "netlist:data-wiring-differs-from-bonds"
    [] ToSet(nl.vbonds) # NameBonds -> "netlist:valid-wiring-differs-from-bonds"
    [] ToSet(nl.rbonds) # NameBonds -> "netlist:received-is-not-the-conjunction-of-the-bonded-sinks"
    [] OTHER -> ""
TNetlist ==
  /\ IsEvent("Netlist") /\ UNCHANGED avars
  /\ err' = IF err # "" THEN err ELSE NetDiff(Trace[l].post)
  /\ (err = "" /\ err' # "") => PrintT(<<"REJECT", l, err'>>)
\* DelBond is addressed by link slot; dname is the name the real object gave that slot before
\* the call ("" when the slot does not exist: the call must fail and change nothing).
TDelBond ==
  /\ IsEvent("DelBond")
  /\ LET dn == Trace[l].dname
         ds == {s \in Sinks : NameStr(s) = dn}
     IN  IF ds = {} THEN UNCHANGED avars ELSE ADelBond(CHOOSE s \in ds : TRUE)
  /\ Judge(Trace[l].post)

\* the command line deletes a LIST of external outputs / inputs: the set of listed ids that exist
\* (as numbered before the call), whatever the order and the repetitions in the list
DelOutF(st, k) == [nout |-> st.nout - 1,
                   bonds |-> {<<b[1], RenOut(b[2], k)>> : b \in {c \in st.bonds : c[2] # B(1, k, 0)}}]
DelInF(st, k) == [nin |-> st.nin - 1,
                  bonds |-> {<<RenIn(b[1], k), b[2]>> : b \in {c \in st.bonds : c[1] # B(0, k, 0)}}]
MaxOf(S) == CHOOSE m \in S : \A x \in S : x <= m
RECURSIVE DelOuts(_, _)
DelOuts(st, S) == IF S = {} THEN st ELSE DelOuts(DelOutF(st, MaxOf(S)), S \ {MaxOf(S)})
RECURSIVE DelIns(_, _)
DelIns(st, S) == IF S = {} THEN st ELSE DelIns(DelInF(st, MaxOf(S)), S \ {MaxOf(S)})
TCliDelOutputs ==
  /\ IsEvent("CliDelOutputs")
  /\ LET r == DelOuts([nout |-> anout, bonds |-> bonds], {k \in ToSet(Trace[l].ks) : k >= 0 /\ k < anout})
     IN  anout' = r.nout /\ bonds' = r.bonds /\ UNCHANGED <<anin, aprocs, adoms>>
  /\ Judge(Trace[l].post)
TCliDelInputs ==
  /\ IsEvent("CliDelInputs")
  /\ LET r == DelIns([nin |-> anin, bonds |-> bonds], {k \in ToSet(Trace[l].ks) : k >= 0 /\ k < anin})
     IN  anin' = r.nin /\ bonds' = r.bonds /\ UNCHANGED <<anout, aprocs, adoms>>
  /\ Judge(Trace[l].post)

TraceInit ==
  /\ anin = 0 /\ anout = 0 /\ aprocs = <<>> /\ adoms = <<>> /\ bonds = {}
  /\ l = 1 /\ err = ""

TraceNext ==
  \/ TSet \/ TAddInput \/ TAddOutput \/ TDelInput \/ TDelOutput \/ TAddProc
  \/ TAddBond \/ TAttachBC \/ TDelBond \/ TSaveLoad \/ TEmit \/ TNetlist \/ TCliDelOutputs \/ TCliDelInputs

TraceSpec == TraceInit /\ [][TraceNext]_tvars

TraceAccepted == TLCGet("stats").diameter - 1 = Len(Trace)
=============================================================================
