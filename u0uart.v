`timescale 1ns / 1ps
// Documented Verilog UART
// Copyright (C) 2010 Timothy Goddard (tim@goddard.net.nz)
//               2013 Aaron Dahlen
// Distributed under the MIT licence.
//
// Permission is hereby granted, free of charge, to any person obtaining a copy
// of this software and associated documentation files (the "Software"), to deal
// in the Software without restriction, including without limitation the rights
// to use, copy, modify, merge, publish, distribute, sublicense, and/or sell
// copies of the Software, and to permit persons to whom the Software is
// furnished to do so, subject to the following conditions:
// 
// The above copyright notice and this permission notice shall be included in
// all copies or substantial portions of the Software.
// 
// THE SOFTWARE IS PROVIDED "AS IS", WITHOUT WARRANTY OF ANY KIND, EXPRESS OR
// IMPLIED, INCLUDING BUT NOT LIMITED TO THE WARRANTIES OF MERCHANTABILITY,
// FITNESS FOR A PARTICULAR PURPOSE AND NONINFRINGEMENT. IN NO EVENT SHALL THE
// AUTHORS OR COPYRIGHT HOLDERS BE LIABLE FOR ANY CLAIM, DAMAGES OR OTHER
// LIABILITY, WHETHER IN AN ACTION OF CONTRACT, TORT OR OTHERWISE, ARISING FROM,
// OUT OF OR IN CONNECTION WITH THE SOFTWARE OR THE USE OR OTHER DEALINGS IN
// THE SOFTWARE.
// 
//** INSTANTIATION ********************************************
//
//  To instantiate this module copy this section to your main code...
//
//    u0uart #(
//        .baud_rate(baud_rate),            // default is 9600
//        .sys_clk_freq(sys_clk_freq)       // default is 100000000
//     )
//    instance_name(
//        .clk(clk),                        // The master clock for this module
//        .rst(rst),                        // Synchronous reset
//        .rx(rx),                          // Incoming serial line
//        .tx(tx),                          // Outgoing serial line
//        .transmit(transmit),              // Signal to transmit
//        .tx_byte(tx_byte),                // Byte to transmit       
//        .received(received),              // Indicated that a byte has been received
//        .rx_byte(rx_byte),                // Byte received
//        .is_receiving(is_receiving),      // Low when receive line is idle
//        .is_transmitting(is_transmitting),// Low when transmit line is idle
//        .recv_error(recv_error)           // Indicates error in receiving packet.
//      //.recv_state(recv_state),          // for test bench
//      //.tx_state(tx_state)               // for test bench
//    );
//

 module u0uart(
    input clk,                  // The master clock for this module
    input rst,                  // Synchronous reset
    input rx,                   // Incoming serial line
    output tx,                  // Outgoing serial line
    input transmit,             // Assert to begin transmission
    input [7:0] tx_byte,        // Byte to transmit
    output received,            // Indicates that a byte has been received
    output [7:0] rx_byte,       // Byte received
    output wire is_receiving,   // Low when receive line is idle.
    output wire is_transmitting,// Low when transmit line is idle.
    output wire recv_error,      // Indicates error in receiving packet.
    output reg [3:0] rx_samples,
    output reg [3:0] rx_sample_countdown
);

// The clock_divider is calculated using baud_rate and sys_clk_freq.  
// To modify baud rate you can modify the defaults shown below or instantiate
// the module using the template shown in the INSTANTIATION section above. 
// For aditional information about instantiation please see:
// http://www.sunburst-design.com/papers/CummingsHDLCON2002_Parameters_rev1_2.pdf

    parameter baud_rate = 9600;
    parameter sys_clk_freq = 100000000;
   
    localparam one_baud_cnt = sys_clk_freq / (baud_rate);

//** SYMBOLIC STATE DECLARATIONS ******************************

    localparam [2:0]     
        RX_IDLE             = 3'd0, 
        RX_CHECK_START      = 3'd1, 
        RX_SAMPLE_BITS      = 3'd2,
        RX_READ_BITS        = 3'd3,      
        RX_CHECK_STOP       = 3'd4, 
        RX_DELAY_RESTART    = 3'd5,
        RX_ERROR            = 3'd6,      
        RX_RECEIVED         = 3'd7; 

    localparam [1:0]     
        TX_IDLE             = 2'd0,
        TX_SENDING          = 2'd1,
        TX_DELAY_RESTART    = 2'd2,
        TX_RECOVER          = 2'd3;
  
  
//** SIGNAL DECLARATIONS **************************************

    reg [log2(one_baud_cnt * 16)-1:0] rx_clk;
    reg [log2(one_baud_cnt)-1:0] tx_clk;

    reg [2:0] recv_state = RX_IDLE;
    reg [3:0] rx_bits_remaining;
    reg [7:0] rx_data;
     
    reg tx_out = 1'b1;
    reg [1:0] tx_state = TX_IDLE;
    reg [3:0] tx_bits_remaining;
    reg [7:0] tx_data;
    

//** ASSIGN STATEMENTS ****************************************

    assign received = recv_state == RX_RECEIVED;
    assign recv_error = recv_state == RX_ERROR;
    assign is_receiving = recv_state != RX_IDLE;
    assign rx_byte = rx_data;

    assign tx = tx_out;
    assign is_transmitting = tx_state != TX_IDLE;


//** TASKS / FUNCTIONS **************************************** 

    function integer log2(input integer M);
        integer i;
    begin
        log2 = 1;
        for (i = 0; 2**i <= M; i = i + 1)
            log2 = i + 1;
    end endfunction
    
    
//** Body *****************************************************

    always @(posedge clk) begin
        if (rst) begin
            recv_state = RX_IDLE;
            tx_state = TX_IDLE;
        end
                              
        // Countdown timers for the receiving and transmitting
        // state machines are decremented.
        
        if(rx_clk) begin
            rx_clk = rx_clk - 1'd1;
        end
    
        if(tx_clk) begin
            tx_clk = tx_clk - 1'd1;
        end
        
    
//** Receive state machine ************************************

        case (recv_state)
            RX_IDLE: begin
                // A low pulse on the receive line indicates the
                // start of data.
                if (!rx) begin
                    // Wait 1/2 of the bit period
                    rx_clk = one_baud_cnt / 2;
                    recv_state = RX_CHECK_START;
                end
            end
            
            RX_CHECK_START: begin
                if (!rx_clk) begin
                    // Check the pulse is still there
                    if (!rx) begin
                        // Pulse still there - good
                        // Wait the bit period plus 3/8 of the next
                        rx_clk = (one_baud_cnt / 2) + (one_baud_cnt * 3) / 8; 
                        rx_bits_remaining = 8;  
                        recv_state = RX_SAMPLE_BITS;
                        rx_samples = 0;
                        rx_sample_countdown = 5;
                    end else begin
                        // Pulse lasted less than half the period -
                        // not a valid transmission.
                        recv_state = RX_ERROR;
                    end
                end
            end
            
            RX_SAMPLE_BITS: begin
                // sample the rx line multiple times 
                if (!rx_clk) begin
                    if (rx) begin
                        rx_samples =  rx_samples + 1'd1;
                    end
                    rx_clk = one_baud_cnt / 8;
                    rx_sample_countdown = rx_sample_countdown -1'd1;
                    recv_state = rx_sample_countdown ? RX_SAMPLE_BITS : RX_READ_BITS;
                end
            end
            
            RX_READ_BITS: begin
                if (!rx_clk) begin
                    // Should be finished sampling the pulse here.
                    // Update and prep for next
                    if (rx_samples > 3) begin
                        rx_data = {1'd1, rx_data[7:1]};
                    end else begin
                        rx_data = {1'd0, rx_data[7:1]};
                    end
                    
                    rx_clk = (one_baud_cnt * 3) / 8;
                    rx_samples = 0;
                    rx_sample_countdown = 5;
                    rx_bits_remaining = rx_bits_remaining - 1'd1;
                    
                    if(rx_bits_remaining)begin
                        recv_state = RX_SAMPLE_BITS;
                    end else begin
                        recv_state = RX_CHECK_STOP;
                        rx_clk = one_baud_cnt / 2;
                    end
                end
            end
            
            RX_CHECK_STOP: begin
                if (!rx_clk) begin
                    // Should resume half-way through the stop bit
                    // This should be high - if not, reject the
                    // transmission and signal an error.
                    recv_state = rx ? RX_RECEIVED : RX_ERROR;
                end
            end
            

            
            RX_ERROR: begin
                // There was an error receiving.
                // Raises the recv_error flag for one clock
                // cycle while in this state and then waits
                // 2 bit periods before accepting another
                // transmission.
                rx_clk = 8 * sys_clk_freq / (baud_rate);
                recv_state = RX_DELAY_RESTART;
            end
            
    // why is this state needed?  Why not go to idle and wait for next? 
    
            RX_DELAY_RESTART: begin
                // Waits a set number of cycles before accepting
                // another transmission.
                recv_state = rx_clk ? RX_DELAY_RESTART : RX_IDLE;
            end
            
            
            RX_RECEIVED: begin
                // Successfully received a byte.
                // Raises the received flag for one clock
                // cycle while in this state.
                recv_state = RX_IDLE;
            end
            
        endcase
        
        
//** Transmit state machine ***********************************

        case (tx_state)
            TX_IDLE: begin
                if (transmit) begin
                    // If the transmit flag is raised in the idle
                    // state, start transmitting the current content
                    // of the tx_byte input.
                    tx_data = tx_byte;
                    // Send the initial, low pulse of 1 bit period
                    // to signal the start, followed by the data
                  //  tx_clk_divider =  clock_divide;                                
                    tx_clk = one_baud_cnt;
                    tx_out = 0;
                    tx_bits_remaining = 8;
                    tx_state = TX_SENDING;
                end
            end
            
            TX_SENDING: begin
                if (!tx_clk) begin
                    if (tx_bits_remaining) begin
                        tx_bits_remaining = tx_bits_remaining - 1'd1;
                        tx_out = tx_data[0];
                        tx_data = {1'b0, tx_data[7:1]};
                        tx_clk = one_baud_cnt;
                        tx_state = TX_SENDING;
                    end else begin
                        // Set delay to send out 2 stop bits.
                        tx_out = 1;
                        tx_clk = 16 * one_baud_cnt;// tx_countdown = 16;
                        tx_state = TX_DELAY_RESTART;
                    end
                end
            end
            
            TX_DELAY_RESTART: begin
                // Wait until tx_countdown reaches the end before
                // we send another transmission. This covers the
                // "stop bit" delay.
                tx_state = tx_clk ? TX_DELAY_RESTART : TX_RECOVER;// TX_IDLE;
            end
            
            TX_RECOVER: begin
                // Wait unitil the transmit line is deactivated.  This prevents repeated characters
                tx_state = transmit ? TX_RECOVER : TX_IDLE;
           
            end
            
        endcase
    end

endmodule

