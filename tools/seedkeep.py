#!/usr/bin/env python3
"""tools/seedkeep.py <ID> <n> <detected-by: signature text> [note] : keep a confirmed seeded change under /verif/seeded/<ID>-<n>/"""
import sys, json, os, shutil, glob
ID, n, detected = sys.argv[1], sys.argv[2], sys.argv[3]
note = sys.argv[4] if len(sys.argv) > 4 else ""
src = f"/tmp/seeds/{os.environ.get('SEEDOUT','out')}_{ID}/{n}"
dst = f"/verif/seeded/{ID}-{os.environ.get('SEEDNAME', n)}"
os.makedirs(dst, exist_ok=True)
shutil.copy(f"{src}/patch.diff", dst)
for f in glob.glob(f"{src}/demo*"):
    if os.path.isdir(f):
        shutil.copytree(f, os.path.join(dst, os.path.basename(f)), dirs_exist_ok=True)
    else:
        # keep the demo under a name the Go tool ignores inside /verif (it belongs in the repo package)
        shutil.copy(f, os.path.join(dst, os.path.basename(f) + ".txt"))
meta = json.load(open(f"{src}/meta.json"))
meta["confirmed"] = {"by": "tools/seedconfirm.sh in a scratch worktree: demo passes on the clean tree, fails with the patch; the package's own tests still pass with the patch",
                     "check_result": detected, "note": note}
json.dump(meta, open(f"{dst}/meta.json", "w"), indent=1)
print("kept", dst)
