#!/bin/bash
# Runs the repository's test suite (guard OFF) and compares the passing tests with BASELINE.json's stable_pass list.
cd /repo && export GOFLAGS=-mod=mod GOPROXY=off GOSUMDB=off GOTOOLCHAIN=local
go test -json -vet=off -count=1 -timeout 25m ./... 2>/dev/null > /tmp/baseline_run.json
python3 - <<'PY'
import json
passed=set()
for l in open('/tmp/baseline_run.json'):
    try: e=json.loads(l)
    except: continue
    if e.get('Action')=='pass' and e.get('Test'):
        passed.add(e['Package']+'::'+e['Test'])
base=json.load(open('/root/.vp/BASELINE.json'))
stable=set(base['stable_pass'])
missing=sorted(stable-passed)
print("stable:",len(stable),"passed now:",len(stable&passed),"missing:",missing)
PY
