#!/usr/bin/env python3
"""Regenerates /verif/MANIFEST.json from the table below (single source of truth for the interface)."""
import json, os, subprocess
here = os.path.dirname(os.path.dirname(os.path.abspath(__file__)))
props = [json.loads(l) for l in open(os.path.join(here, 'properties.jsonl'))]

# id -> (level, technique, text, note, design_ref, engine)
CHECKS = {
 "C10": ("model_checking",
   "TLA+ spec (BMTopology refines BMTopologyAbs) model-checked by TLC; every transition of the dumped state graph replayed on the real Bondmachine API; all recorded behaviour trace-validated by TLC against the named-bond spec",
   "TLC explores the index-array model of the edit API exhaustively for small bounds (WellFormed + refinement to bonds between named endpoints); the harness replays every transition of that graph and long random edit histories on the real Bondmachine object and TLC validates everything the object did against the property-level spec, so a change to the shifting/renumbering code that corrupts an untouched bond is rejected at the edit that does it.",
   "Bounds: <=2 external inputs/outputs, <=2 processors in the exhaustive part; random histories up to 4/4/4 and depth 40-80. Trusted: TLC, the JSON projection of the real object's public fields/List_* methods.",
   "DESIGN.md §4 C10", "bmverif"),
 "C04": ("model_checking",
   "TLA+ specs of the 4-phase bond handshake (BMBond property level; BMBondSim / BMBondHdl as coded) model-checked by TLC for fan-out 1..3 over all program shapes; TLC behaviours and random programs executed on the real simulator VM (and the real generated Verilog) and every recorded execution trace-validated by TLC against BMBond",
   "TLC explores every interleaving of producer/consumer I/O and padding for small fan-outs on models transcribed from R2owa/I2rw.Simulate, VM.Step and the HDL templates; the same behaviours are replayed tick by tick on the real artefacts (lock-step compared) and everything the real artefacts do is judged by the property-level bond spec, so a handshake change that loses, duplicates or reorders a value under some phase offset is rejected at the tick where it happens.",
   "Bounds: fan-out <=3 (4 thorough), <=3..6 sends in the exhaustive models; random programs up to 10 sends, fan-out 4, fixed per-opcode delays. Two genuine defects of the pinned tree are listed in known_findings.json by root-cause signature. Trusted: TLC, the projection of VM fields into events, the Verilog interpreter for the HDL back-end.",
   "DESIGN.md §4 C04", "bmverif"),
 "C03": ("model_checking",
   "TLA+ spec of the instruction encoding (BMIsa: format table, Encode/Decode) with FixedWidth/Lossless/RangeCheck checked by TLC over an enumerated domain of architectures x opcodes x operand tuples; the table of expected results TLC writes is replayed row by row on the real Arch.Assembler and Machine.Disassembler",
   "TLC enumerates every opcode of the format table under every field-width combination of the bounded architecture domain with in-range and out-of-range operands, proves the code's intended theorems on the specification and exports the expected result of every row; the harness replays all rows on the real assembler/disassembler and judges the real results (exact width, round trip both ways, misfits rejected), so a wrong bit-slice, padding or missing range check in one opcode under one width combination is found.",
   "Domain: rsize in {4,8,16} (TLC integers are 32 bit, so 32/64-bit immediates are outside the enumerated domain), R 1..3, N/M 0..9, L 0..3, O 1..4, opcode fields 1..7 bits, WordSize 0/natural+k; 79 opcodes in 'ha' mode; shared-object and video-memory opcodes are outside the table. Trusted: TLC, the rendering of a row as assembly text.",
   "DESIGN.md §4 C03", "bmverif"),
 "C13": ("model_checking",
   "TLA+ spec BMStack (register-exact transcription of the stack/queue template + nondeterministic protocol-abiding environment) model-checked by TLC against the abstract sequence (refinement, flags, bounded response); every transition of the dumped state graphs replayed on the real WriteHDL() output in the Verilog interpreter; interface traces of real executions validated by TLC against the property level",
   "For small parameters the reachable transition relation of the real generated circuit is shown equal to the specification's (every transition replayed, registers compared), which transfers TLC's exhaustive verdict over all environment strategies to the real module; larger parameters are driven by random protocol-abiding environments and every clock of every execution is judged by the property-level trace spec on interface signals only.",
   "Exhaustive: LIFO/FIFO, depth 1..3 (4 thorough), up to 2x2 (3x2 thorough) agents, 1-bit data. Random: depth<=5, <=3x3 agents, data 1..4 bits, 150 clocks. Trusted: TLC, the Verilog interpreter (cross-checked by the zero-mismatch transition replay), NeededBits widths as coded.",
   "DESIGN.md §4 C13", "bmverif"),
 "C08": ("model_checking",
   "TLA+ spec NumLex: synchronous product of the NFAs of every pair of the real matcher regexes (compiled by Go's regexp/syntax) explored by TLC, witnesses replayed on the real regexes and import functions; TLA+ spec NumLit: denotation and printers of the integer notations with WidthLaw/RoundTrip checked by TLC, table replayed on ImportString/Export*; round-trip law on bit patterns for float16/32 and fixed-point types",
   "Ambiguity is decided on the regular languages themselves: TLC's reachability over the product automaton is the intersection-emptiness test for all 190 pairs of notations, and every common word up to a length bound is replayed on the two real import functions to compare meanings; the integer notations' meaning and every printer are specified and replayed row by row, so a notation that claims another's strings, a wrong width or a lossy printer is found.",
   "NFAs come from regexp/syntax (trusted); integer rows bounded to widths <= 30 bit in TLC (32-bit integers); float round trips: all finite float16 patterns (every 7th in quick), boundary + random float32 patterns, all 8-bit and random 16-bit fixed-point patterns; IEEE rounding of conversions is not modelled. Width is compared after a round trip only where the exported text states it (bin, hex).",
   "DESIGN.md §4 C08", "bmverif"),
 "C15": ("model_checking",
   "TLA+ spec Simbox (rule grammar Print/Parse, rule list with edit actions, effect semantics ValAt/Fires/Expect) model-checked by TLC; grammar table and every transition of the edit-history graph replayed on the real simbox package; scenarios run on the real `bondmachine -sim` binary and its printed shows/CSV report trace-validated by TLC against the effect semantics",
   "TLC proves Parse(Print(r)) = r and the short-form defaults on the specification, explores every Add/Del/Suspend/Reactivate/SaveLoad history of a bounded rule list and defines, from the documentation, what each rule form must inject, show and report at which tick; the real parser/printer, the real rule list and the real simulator binary are replayed against that, so a wrong tick comparison, a mis-resolved object, a lost valid side effect or a suspended rule that still acts is rejected at the iteration where it shows.",
   "Effects are judged on one machine (free-running counter with a handshaked output) for 14 iterations, both run-ending modes, with set targets the machine never writes; the rule-free reference trace comes from the real VM. Seven scenario/mode combinations fail on the pinned tree for four genuine reasons (periodic set, event gets, on-exit on exhaustion) and are listed in known_findings.json. onrecv rules are checked for print/parse only (no simulator path consumes them and the property does not list them).",
   "DESIGN.md §4 C15", "bmverif"),
 "C09": ("model_checking",
   "TLA+ spec BMSimSched (coordinator/worker goroutines over unbuffered channels, opcode singletons) model-checked by TLC for all interleavings (deadlock freedom, refinement of the per-tick barrier BMSimBarrier, Deterministic); real simulations recorded through verif hooks under seeded schedule perturbation, GOMAXPROCS 1..16, alone and concurrently, built with -race; event logs and per-tick state digests trace-validated by TLC",
   "TLC explores every interleaving of the token/id/result rendezvous for 1-2 simulations of 2-3 processors and proves the barrier and the independence of the result from the interleaving on the model; the real goroutines are observed at the same points, their logs must be behaviours of the barrier spec and the digest of the full VM state after every tick must equal that of the same simulation run alone, and any race report fails the run — so shared mutable state between workers or simulations, or a broken barrier, is caught even when a single run looks correct.",
   "Schedules are perturbed (yields/sleeps from a seed at every hook point) and GOMAXPROCS varied, not enumerated, on the real code; 4 machines (handshaked pipeline, 3 independent arithmetic processors, 1- and 2-processor machines over the pipelined opcodes), 40 ticks (120 thorough), 3 (12) repetitions of 10 run groups per GOMAXPROCS value. Trusted: TLC, the Go race detector, the hooks (5 one-line call sites).",
   "DESIGN.md §4 C09", "bmverif"),
 "C17": ("model_checking",
   "TLA+ spec BMSimLife (launch/finish/exit lifecycle of the simulator's goroutines; as coded and with an exit path) model-checked by TLC; goroutine profiles sampled after series of real single-shot simulations and assemblies, trace-validated by TLC against the bound",
   "The lifecycle model shows which design has the Released/Bounded properties; the real process is then measured: after 1, 5, 25 (100, 400) sequential and concurrent calls of SinglePipelineSimulate / Fitness_default / the assembler, the number of live goroutines (grouped by creating function) must stay within a constant of the number before the first call, which a leak per call cannot satisfy whatever the release mechanism is.",
   "Bound: 3 goroutines above the pre-series count after a settle period (GC + yields). The assembler's requirement-server leak is a recorded known finding. Trusted: runtime.Stack profile parsing.",
   "DESIGN.md §4 C17", "bmverif"),
 "C05": ("model_checking",
   "TLA+ reference semantics BasmSem of BASM SOURCE programs (labels, entry directive at any position, a macro, mov pseudo-instructions in register/literal/input/output forms, literals in every notation, synchronous I/O, one or two processors wired by ioatt) with a second, as-coded interpreter for the recorded deviations; TLC -simulate builds programs and their expected output streams; each is printed as .basm text, assembled by the real assembler, the emitted machine simulated by the real VM inside a four-phase handshaking environment and every external output stream compared with the specification's",
   "Programs are drawn from the specification's own grammar with balanced odds for every line kind, so label resolution after directive removal and macro expansion, matcher resolution of every mov form, opcode-index assignment and literal import are exercised together on whole programs; the oracle is the specification's interpreter over the source text, which shares nothing with the assembler's passes.",
   "Programs of 8-10 lines over four registers, register sizes 8 and 16 (TLC integers are 32-bit), one macro without parameters (macro parameters are not substituted by the pinned tree), I/O lines on one port at least three lines apart (closer ones run into the recorded C04 findings); data sections, calls and fragments are not generated (fragments: C06). Trusted: TLC, the pretty-printer from the spec's lines to .basm text, the environment process of the harness.",
   "DESIGN.md §4 C05", "bmverif"),
 "C06": ("model_checking",
   "TLA+ spec FragGraph: a graph of fragment instances has a meaning Eval (dataflow value of every external output, arithmetic modulo 2^RSize) that does not mention processors; the action Remap changes the mapping of instances to processors (any partition, collapse lists in graph order, processor names permuted) and MappingIrrelevant (result' = result) is checked by TLC; TLC -simulate builds graphs and walks through mappings, each (graph, mapping) is printed as .basm text (fragments, fidef, filinkatt, cpdef fragcollapse), assembled by the real assembler, simulated by the real VM with the inputs held at each of three input vectors, and the settled external outputs compared with the specification's result",
   "The oracle is the specification's direct evaluation of the graph, independent of fragmentComposer's register allocation, IO renumbering and bond creation; the same graph is replayed under several mappings including the two extremes, with fragments that reuse register names, use scratch registers, have several outputs, ports on unusual registers and internal labels, with fan-out of ports and of external inputs, and with graphs large enough for two-digit temporaries.",
   "Graphs of 3-5 instances with every partition and name permutation reachable, and graphs of 26 instances with four fixed mappings (all-on-one, one-each reversed, odd/even, halves); 8 fragments; rsize 8 and 16; asynchronous I/O only (the composer's default), outputs read after they have been stable for 150 ticks. Trusted: TLC, the printer from the spec's graph to .basm text.",
   "DESIGN.md §4 C06", "bmverif"),
 "C16": ("model_checking",
   "TLA+ spec BMWellFormed (well-formedness of an emitted machine as WhyNot: opcode list sorted and duplicate-free, ROM large enough for code plus data, every ROM word of the architecture's width and decoding with the field table of BMIsa to an opcode of the processor with every port operand in range, zero padding, register sizes agreeing, demands of the source) judges a log of every machine emitted by the real front-ends for the sources of the specifications' grammars: BasmSem programs, FragGraph graphs under their mappings, the BasmShapes catalogue (ROM data sections of every size, hybrid ROM+RAM processors with every opcode overlap, pass-through bonds with every index and declaration arrangement, misfit literals), GoSubset programs through bondgo, FrontendShapes networks through neuralbond+basm and circuits through bmqsim+basm; the emitted bond graph is trace-validated by TLC against BMTopologyAbs (the graph the source names, on names, and AbsWF)",
   "The validator is a TLA+ predicate that shares nothing with the front-ends: it recomputes field widths and the word size from R/N/M/L/O and the opcode list with the format table that C03 binds to the real assembler, so an under-sized ROM, a duplicated or unsorted opcode, a mis-sized word or a dropped port shows on the first machine that has it; the sources come from bounded catalogues that sweep the boundaries (code+data across powers of two, every subset of shared opcodes, every port arrangement).",
   "Machines of 1-2 processors from BasmSem, up to 26 fragment instances, 155 shapes, 36 bondgo programs, 126 networks and 68 circuits (quick: a quarter of the networks/circuits); operand fields other than port indexes are as wide as their range and are not re-checked; opcodes outside BMIsa's table get the generic checks only; RAM programs of hybrid processors are not decoded. A source that cannot fit must be rejected (4 kinds of over-wide literal x 2 register sizes). Trusted: TLC, the projection wfRecord/readTopo of the emitted object.",
   "DESIGN.md §4 C16", "bmverif"),
 "C07": ("model_checking",
   "TLA+ design model BuildFn (a pass that walks a collection in arbitrary order is a function of its input iff it is ordered or its contributions commute; TLC checks the four combinations) and trace spec BuildFnTrace (every run of a real tool is an event [tool, input, env, digest]; a run whose digest differs from an earlier run of the same tool on the same input is rejected); the real basm, bondgo, neuralbond (both operating modes), bmqsim and Verilog generation are run 8-40 times per input, every run in a fresh process with GOMAXPROCS in {1,2,4,16}, on inputs drawn from the specifications' catalogues (BasmSem, FragGraph, BasmShapes, GoSubset, FrontendShapes) and hand-written sources with fragment calls and dynamically created opcodes",
   "Go randomises map iteration per walk and per process, so a nondeterministic artefact shows as two different digests among repeated fresh runs of one input; the inputs are chosen to have several sections, several processors, dynamic opcodes first met in different orders and goroutines with their own external ports, which is where the order of a walk can leak into opcode numbering, ROM contents, port numbering or line order.",
   "A difference that shows less often than about once in 10 runs (quick) or 40 runs (thorough) per input can be missed: 32-120 runs are spent on the inputs whose failure modes are order-of-visit dependent. Verilog is rendered by the string-returning generators in a child process (the bondmachine command's test-bench path needs a simulation box). Artefacts compared: machine JSON, assembly listings, .basm text, the Verilog file set; error messages are compared without the logger's timestamp. Trusted: TLC, SHA-1.",
   "DESIGN.md §4 C07", "bmverif"),
 "C01": ("model_checking",
   "TLA+ spec BMProcSem: instruction-set semantics of one connecting processor (program counter, register file, RAM, output ports; 24 opcodes) whose execution steps under TLC -simulate are the expected retire trace of randomly built programs over architectures that differ in every field width; each program is assembled by the real assembler, executed by the real simulator tick by tick and by the real generated Verilog clock by clock (in the Verilog interpreter of the harness), and the architectural state after every retired instruction is compared three ways; the same programs are run on 32- and 64-bit processors where the two back-ends are compared with each other; BasmSem programs are rendered with and without the program-derived hardware optimisations and the optimised hardware must behave as the plain one",
   "Every opcode is exercised alone (on a base of load/move/show instructions) and together with all others, with operands drawn over all registers, ports and boundary immediates, on architectures with 2/4/8 registers, 1-4 outputs, 1-3 inputs and 8/16/32/64-bit registers, so a wrong bit slice, operand order or width case in one per-opcode template or Simulate function shows at the first retired instruction that uses it; the specification tells which back-end deviates.",
   "Co-implemented set used: nop clr inc dec cil cir cpy add mult and or xor nand nor xnor not rset j jz i2r r2o (sub and r2m are stubs in the simulator, m2r is a recorded finding; pipelined, floating-point, carry/compare, shared-object and synchronous-I/O opcodes are not in the specification: synchronous I/O is C02/C04). Programs of 8-12 instructions, 24-40 retired instructions each; RAM cells and registers the reset leaves unknown are taken as zero (FPGA power-up) in the Verilog interpreter. 32/64-bit: no specification values (TLC integers are 32-bit), back-ends compared with each other only. Trusted: TLC, the Verilog interpreter (harness/vlog), the assembly printer.",
   "DESIGN.md §4 C01", "bmverif"),
 "C02": ("model_checking",
   "TLA+ spec BMFabric: a BondMachine as a network of processes joined by handshaked bonds (fan-out: a send completes when every sink has taken the value); TLC checks under EVERY interleaving of the processors and every environment stall (AnySpec) that each external output delivers a prefix of its closed-form stream (Kahn determinacy); TLC -simulate draws topologies (chains, fan-out of an external input / of a processor output, two outputs, mergers), phase shifts, domain sharing and environment timings; each machine is built as a real Bondmachine through the API, run on the real simulator and on the real generated top-level Verilog inside the same four-phase environment, and the streams on every external output are compared: HDL against simulator (the verdict), both against the specification (tells which side deviates; both deviating alike is the handshake defect recorded under C04 and is counted, not alarmed)",
   "The streams are timing independent in the model, so any difference between simulator, hardware and reference is a wiring or handshake defect, whatever the relative speeds; topologies include processors sharing one domain (processor index differs from domain index), external inputs and processor outputs with two sinks, processors out of phase, and environments that hold valid or delay acknowledgements.",
   "Eight topologies of 2-3 processors, phase shifts 0-2, three environment timings, 8-bit registers, 9-26 values per output; the netlist is judged by behaviour (streams), not by a structural comparison of the top-level text. Trusted: TLC, the Verilog interpreter, the environment processes of the harness.",
   "DESIGN.md §4 C02", "bmverif"),
 "C12": ("model_checking",
   "TLA+ spec BondgoSync (visitor / Var_assigner / Usage_Monitor over unbuffered channels) model-checked by TLC for deadlock freedom, termination under fairness, NotifiedBeforeExit and SameRequirements; the real compiler (verif build) run under schedules forced by delays at every hook point, hook logs and process outcomes trace-validated by TLC; TLA+ reference semantics GoSubset simulated by TLC to build programs with expected output streams, compiled by the real bondgo, simulated by the real VM and compared",
   "The protocol model explores every interleaving of the compiler's three goroutines and singles out the schedule that deadlocks a given ordering of the assigner's answer/notify pair; the real compiler is then driven into exactly those schedules (and the others reachable by delaying each synchronisation point), must terminate in all of them and must emit identical artefacts. Independently, programs drawn from the reference semantics are compiled and executed and their output streams must equal the specification's.",
   "Semantic half: straight-line programs over three register variables, + and *, ++/--, constants incl. wrap-around, two outputs, if/else on ==, rsize 8 and 16 (goroutines/channels/functions/loops are not generated); == is a recorded known finding (je stub). Concurrency half: delays of 4-40 ms at 5 hook points, singly and in pairs, on programs whose last request is a variable request. Trusted: TLC, the pretty-printer from the spec's AST to Go source, r2o-retire detection in the simulator.",
   "DESIGN.md §4 C12", "bmverif"),
 "C14": ("translation_validation",
   "TLA+ reference semantics QCircuit (exact arithmetic in Z[e^{i pi/4}]/sqrt2^k, gates placed on qubits directly from the definition) evaluated by TLC over an enumerated family of circuits with UnitaryColumns checked on the spec; every circuit compiled by the real QasmToBmMatrices, the emitted matrices multiplied and compared entrywise with the reference, each checked unitary, and RunSoftwareSimulation run on every basis state",
   "Each compiled circuit is validated against an independent exact reference: the specification never builds swap networks or tensor products, so a wrong permutation, argument order or swap-back in the compiler shows as an entrywise difference for the placement that triggers it; all gates on all placements of 1..3 (4) qubit registers and all two-gate circuits over a gate subset are enumerated.",
   "Tolerance 2e-5 * 2^n absorbs float32 rounding only; parametric gates at multiples of pi/2 (rx, ry, rz) and pi/4 (phase shift r) since other angles are not representable in the ring; 'p' is the S gate in this code base. Trusted: TLC, conversion of ring elements to complex128.",
   "DESIGN.md §4 C14", "bmverif"),
 "C11": ("model_checking",
   "persistence as a stuttering step of the TLA+ models (BMTopology!SaveLoad, BMPersist): every state of the topology graph explored by TLC and every machine descriptor of the BMPersist catalogue is built as a real Bondmachine, saved and reloaded through Jsoner/json/Dejsoner; the reloaded topology is trace-validated by TLC against BMTopologyAbs; re-save byte equality, reflection-driven structural comparison, Verilog equality and simulation-digest equality are checked on the catalogue",
   "Every reachable bond graph of the bounded topology model and a catalogue covering every static opcode, the dynamically named opcode families that can be created offline, every shared-object kind with one or two attached processors, threaded processors and WordSize overrides go through the real save/load path; the abstract state must not move (TLC) and every exported field of the live structs must survive (reflection), so a field forgotten in Jsoner/Dejsoner or a name that is not re-resolved on load is found.",
   "Topology bounds as C10 (quick: 2 configurations, 2588 states). FloPoCo and linear-quantizer opcodes cannot be created offline (external generator / ranges file); machines using fxps opcodes are not rendered to Verilog (external sources under /tmp/fxpcode). Machines are built through the API with transient generation fields unset, then compared before anything is generated.",
   "DESIGN.md §4 C11", "bmverif"),
}
NOT_APPLICABLE = {
 "C18": "static well-formedness of generated Verilog text (parse/lint judgement): no state, transitions or behaviour for a TLA+ specification to decide; see DESIGN.md §5",
}
PENDING = "check not built yet (work in progress, see DESIGN.md §8)"

hooks_commits = []
try:
    out = subprocess.run(["git", "-C", "/repo", "log", "--format=%H %s"], capture_output=True, text=True).stdout
    for line in out.splitlines():
        h, _, s = line.partition(' ')
        if s.startswith('verif:'):
            hooks_commits.append(h)
except Exception:
    pass

m = {
 "version": 1,
 "setup_cmd": "./check --setup",
 "hooks": {
  "guard": "verif",
  "enable": "the harness (and the cmd/ binaries it drives) are built with `go build -tags verif` against /repo's working tree by ./check",
  "baseline_off_cmd": "cd /repo && go test -vet=off -count=1 -timeout 25m ./...",
  "source_commits": hooks_commits,
  "add_only": True,
 },
 "engines": [
  {"name": "tlc", "path": "/opt/veriftools/tla/tla2tools.jar", "kind_free_text": "TLA+ model checker: exhaustive exploration, simulation, trace validation of recorded behaviour", "serves_properties": sorted(CHECKS)},
  {"name": "bmverif", "path": "/verif/harness/cmd/bmverif", "kind_free_text": "Go harness: drives the real BondMachine packages, records traces, replays TLC behaviours, writes evidence", "serves_properties": sorted(CHECKS)},
  {"name": "vlog", "path": "/verif/harness/vlog", "kind_free_text": "cycle-accurate interpreter for the Verilog subset the generators emit (executes the artefact; verdicts are TLC's)", "serves_properties": [c for c in ("C01","C02","C04","C13") if c in CHECKS]},
 ],
 "checks": [],
 "not_applicable": [],
 "notes": "All checks: `./check <id> quick|thorough`; exit 0 held / 1 VIOLATION / 2 inconclusive (never a verdict). known_findings.json lists recorded genuine defects.",
}
for p in props:
    i = p['id']
    if i in CHECKS:
        level, tech, text, note, ref, eng = CHECKS[i]
        m["checks"].append({
          "property_id": i,
          "quick_cmd": f"./check {i} quick",
          "thorough_cmd": f"./check {i} thorough",
          "evidence_file": f"/verif/evidence/{i}.json",
          "replay_cmd_template": f"./check {i} --replay {{path}}",
          "engine": eng,
          "level_claimed": {"category": level, "text": text, "design_ref": ref},
          "level_note": note,
          "technique": tech,
        })
    else:
        m["not_applicable"].append({"property_id": i, "reason": NOT_APPLICABLE.get(i, PENDING)})
json.dump(m, open(os.path.join(here, 'MANIFEST.json'), 'w'), indent=1)
print("checks:", [c["property_id"] for c in m["checks"]])
