#!/bin/bash
# tools/seedconfirm.sh <ID> <n> : confirm a sub-agent's seeded change in the scratch worktree /tmp/seeds/<ID>:
# demo passes on the clean tree, fails with the patch; then run ./check <ID> quick with the patch applied to /repo.
set -u
ID=$1; n=$2; W=/tmp/seeds/$ID; O=/tmp/seeds/${SEEDOUT:-out}_$ID/$n
export GOFLAGS=-mod=mod GOPROXY=off GOSUMDB=off GOTOOLCHAIN=local
demo=$(ls $O/demo_test.go $O/demo*.go $O/demo/main.go 2>/dev/null | head -1)
pkgdir=$(grep -m1 -oE "pkg/[a-z0-9_]+|cmd/[a-z0-9_]+" "$demo" | head -1)
[ -z "$pkgdir" ] && pkgdir=$(python3 -c "import json;print(json.load(open('$O/meta.json'))['files'][0].rsplit('/',1)[0])")
cd $W && git checkout -q -- . && git clean -fdq
name=zz_seed_demo_test.go
cp "$demo" $W/$pkgdir/$name
echo "== demo in $pkgdir, clean tree"
(cd $W && go test -tags verif -vet=off -count=1 -run 'Demo|Seed|C[0-9]+' -timeout 300s ./$pkgdir 2>&1 | tail -3)
clean=$?
echo "== with patch"
(cd $W && git apply $O/patch.diff && go test -tags verif -vet=off -count=1 -run 'Demo|Seed|C[0-9]+' -timeout 300s ./$pkgdir 2>&1 | tail -5)
rm -f $W/$pkgdir/$name
echo "== package tests with patch"
(cd $W && go test -vet=off -count=1 ./$pkgdir 2>&1 | tail -3)
cd $W && git checkout -q -- . && git clean -fdq
echo "== ./check $ID quick with patch on /repo"
/verif/tools/mutest.sh $O/patch.diff $ID quick
