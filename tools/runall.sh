#!/bin/bash
# tools/runall.sh <tier> <seed> [ids...] : run the registered checks one after the other, summarise outcome lines
tier=${1:-quick}; seed=${2:-1}; shift 2
ids=${@:-C01 C02 C03 C04 C05 C06 C07 C08 C09 C10 C11 C12 C13 C14 C15 C16 C17}
cd /verif
for id in $ids; do
  start=$(date +%s)
  VERIF_SEED=$seed ./check $id $tier > /tmp/runall_${tier}_${seed}_$id.log 2>&1
  rc=$?
  echo "$id tier=$tier seed=$seed exit=$rc wall=$(( $(date +%s) - start ))s $(grep -c '^VIOLATION' /tmp/runall_${tier}_${seed}_$id.log) violations $(grep -c '^KNOWN-FINDING' /tmp/runall_${tier}_${seed}_$id.log) known"
done
