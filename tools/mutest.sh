#!/bin/bash
# tools/mutest.sh <patch-or-"-"> <id> [tier] : apply a patch to /repo, run a check, revert. (development helper)
set -u
patch=$1; id=$2; tier=${3:-quick}
cd /repo && git apply "$patch" || { echo "patch does not apply"; exit 3; }
cd /verif && timeout 2400 ./check "$id" "$tier" 2>&1 | grep -E "^(VIOLATION|KNOWN-FINDING|OK|INCONCLUSIVE|  signature)" | cut -c1-300 | head -20
code=${PIPESTATUS[0]}
cd /repo && git checkout -- . 
echo "exit=$code"
