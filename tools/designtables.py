#!/usr/bin/env python3
"""tools/designtables.py : regenerate the seeded-changes table of DESIGN.md (section 10.5) from seeded/*/meta.json"""
import json, glob, re, os
os.chdir(os.path.dirname(os.path.dirname(os.path.abspath(__file__))))
rows = []
def key(d):
    m = re.match(r"seeded/(C\d+)-(\d+)", d)
    return (m.group(1), int(m.group(2)))
for d in sorted(glob.glob("seeded/C*-*"), key=key):
    m = json.load(open(d + "/meta.json"))
    name = d.split("/")[1]
    br = str(m.get("breaks", "")).replace("|", "/").replace("\n", " ")[:260]
    res = str(m.get("confirmed", {}).get("check_result", "")).replace("|", "/").replace("\n", " ")
    rows.append(f"| {name} | {br} | {res} |")
table = "| seeded change | clause it breaks | outcome on the check |\n|---|---|---|\n" + "\n".join(rows) + "\n"
s = open("DESIGN.md").read()
i0 = s.index("| seeded change | clause it breaks | outcome on the check |")
i1 = s.index("\n\n", i0)
s = s[:i0] + table.rstrip("\n") + s[i1:]
open("DESIGN.md", "w").write(s)
print(len(rows), "rows")
