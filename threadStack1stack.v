
module threadStack1(clk,
    reset,
    senderData,
    senderWrite,
    senderAck,
    receiverData,
    receiverRead,
    receiverAck,
    empty,
    full
);
    input clk;
    input reset;
    output empty;
    output full;
    input [43:0] senderData;
    input senderWrite;
    output reg senderAck;
    output reg [43:0] receiverData;
    input receiverRead;
    output reg receiverAck;

    reg [43:0] memory[0:0];
    reg [0:0] sp;
    reg [0:0] readsp;
    reg [0:0] writesp;

    assign empty = (sp==0)? 1'b1:1'b0; 
    assign full = (sp==1)? 1'b1:1'b0;
    
    wire readneed;
    wire writeneed;

    assign writeneed = ( 1'b0
            | senderWrite );

    assign readneed = ( 1'b0
            | receiverRead );

    reg [0:0] sendSM;
    //
    //localparam sendSMsender = 1'd0;
    //
    
    reg [0:0] recvSM;
    //
    //localparam recvSMreceiver = 1'd0;
    //

    integer i;

    always @(posedge clk) begin
        if (reset) begin
            sp <= 1'd0;
            readsp <= 1'd0;
            writesp <= 1'd0;
            receiverData <= 44'd0;
            receiverAck <= 1'b0;
            senderAck <= 1'b0;
            sendSM <= 1'd0;
            recvSM <= 1'd0;
            for (i=0;i<1;i=i+1) begin
                memory[i]<=44'd0;
            end
        end
        else begin
            // Read state machine part
            if (readneed && !empty) begin
                case (recvSM)
                1'd0: begin
                    if (receiverRead && !receiverAck) begin
                        receiverData[43:0] <= memory[readsp];
                        if (readsp==0) begin
                            readsp <= 0;
                            sp <=  writesp;
                        end
                        else begin
                            readsp <= readsp + 1;
                            if (writesp < readsp + 1) begin
                                sp <= 1 - readsp -1 + writesp;
                            end
                            else begin
                                sp <= writesp - readsp - 1;
                            end
                        end
                    end
                    recvSM <= 1'd0;
                end
                endcase
            end
            // Write state machine part
            else if (writeneed && !full) begin
                case (sendSM)
                1'd0: begin
                    if (senderWrite && !senderAck) begin
                        memory[writesp] <= senderData[43:0];
                        if (writesp==0) begin
                            writesp <= 0;
                            sp <= 1 - readsp;
                        end
                        else begin
                            writesp <= writesp + 1;
                            if (writesp + 1 > readsp) begin
                                sp <= writesp - readsp + 1;
                            end
                            else begin
                                sp <= 1 - readsp + writesp + 1;
                            end
                        end
                    end
                    sendSM <= 1'd0;
                end
                endcase
            end

            // Read ack process
            if (receiverRead && !receiverAck && recvSM==1'd0 && !empty) begin
                receiverAck <= 1'b1;
            end
            else begin
                if (!receiverRead) begin
                    receiverAck <= 1'b0;
                end
            end

            // Write ack process
            if (!(readneed && !empty) && senderWrite && !senderAck && sendSM==1'd0 && !full) begin
                senderAck <= 1'b1;
            end
            else begin
                if (!senderWrite) begin
                    senderAck <= 1'b0;
                end
            end
        end
    end
endmodule
