
`timescale 1ns / 1ps
module u0(
    input clk,
    input rst,
    
    
    input u0_rx,
    output u0_tx,     
    output rempty,
    output rfull,
    output wempty,
    output wfull
    );

    reg transmit;
    reg [7:0] tx_byte;

    wire is_receiving;
    wire is_transmitting;
    wire recv_error;
    wire [3:0] rx_samples;
    wire [3:0] rx_sample_countdown;

    reg tstart;
    reg [2:0] istrans;
    
    wire txactive;
    wire tx_ended;
    
    wire received;
    wire [7:0] rx_byte;
	
	wire [7:0] uartwriterData;
	reg uartwriterRead;
	wire uartwriterAck;

    reg [7:0] uartreaderData;
    reg uartreaderWrite;
    wire uartreaderAck;

u0rfifo u0rfifo_inst(.clk(clk),
    .reset(reset),
    
    .uartreaderData(uartreaderData),
    .uartreaderWrite(uartreaderWrite),
    .uartreaderAck(uartreaderAck),
    .empty(rempty),
    .full(rfull)
);    


u0wfifo u0wfifo_inst(.clk(clk),
    .reset(reset),
    
    .uartwriterData(uartwriterData),
    .uartwriterRead(uartwriterRead),
    .uartwriterAck(uartwriterAck),
    .empty(wempty),
    .full(wfull)
);

u0uart u0uart_inst(.clk(clk),
    .rst(reset),
    .rx(u0_rx),
    .tx(u0_tx),
    .transmit(transmit),
    .tx_byte(tx_byte),
    .received(received),
    .rx_byte(rx_byte),
    .is_receiving(is_receiving),
    .is_transmitting(is_transmitting),
    .recv_error(recv_error),
    .rx_samples(rx_samples),
    .rx_sample_countdown(rx_sample_countdown)
);

reg [1:0] outSM;
 
localparam [1:0]     
    OUT_IDLE             = 2'd0,
    OUT_WAIT             = 2'd1,
    OUT_DONE             = 2'd2;
        
// Sending out to uart from the write FIFO
always @(posedge clk) begin
        if (reset) begin
            uartwriterRead <= 1'b0;
            transmit <= 1'b0;
        end
        else begin
            case (outSM)
            OUT_IDLE: begin
                if (!wempty) begin
                    if (uartwriterAck && uartwriterRead) begin
                        uartwriterRead <= 1'b0;
                        tx_byte[7:0] <= uartwriterData[7:0];
                        transmit <= 1'b1;
                        outSM <= OUT_WAIT;
                    end
                    else begin
                        uartwriterRead <= 1'b1;
                        transmit <= 1'b0;
                    end
                end
            end
            OUT_WAIT: begin
                if (is_transmitting) begin
                    outSM <= OUT_DONE;
                    transmit <= 1'b0;
                end
            end
            OUT_DONE: begin
                if (!is_transmitting) begin
                    outSM <= OUT_IDLE;
                    transmit <= 1'b0;
                end
            end
            endcase
        end
end

reg [1:0] inSM;
 
localparam [1:0]     
    IN_IDLE             = 2'd0,
    IN_WAIT             = 2'd1,
    IN_DONE             = 2'd2;

// Reading the UART and pushing to the read FIFO
always @(posedge clk) begin
        if (reset) begin
        end
        else begin
            case (inSM)
            IN_IDLE: begin
                if (received) begin
                    if (!uartreaderAck) begin
                        uartreaderData[7:0] <= rx_byte[7:0];
                        uartreaderWrite <= #1 1'b1;
                        inSM <= IN_WAIT;
                    end
                end
            end
            IN_WAIT: begin
                if (uartreaderAck) begin
                    uartreaderWrite <= #1 1'b0;
                    inSM <= IN_IDLE;
                end
            end
            endcase
        end
end
    
endmodule    

