// Package tlc runs the TLC model checker on a copy of /verif/spec in a scratch directory and
// parses what it printed: state counts, violated invariants/properties, counterexample
// traces, dumped state graphs and -simulate behaviour files.
package tlc

import (
	"bufio"
	"bytes"
	"context"
	"fmt"
	"io"
	"os"
	"os/exec"
	"path/filepath"
	"regexp"
	"strconv"
	"strings"
	"time"

	"verif/harness/tlaval"
)

const Jar = "/opt/veriftools/tla/tla2tools.jar:/opt/veriftools/tla/CommunityModules-deps.jar"

type Options struct {
	SpecDir  string            // directory holding the .tla files (copied)
	Module   string            // module name (file Module.tla)
	Cfg      string            // cfg file name inside SpecDir, or "" when CfgText is given
	CfgText  string            // literal cfg content
	Workers  int               // 0 = 1
	Env      map[string]string // extra environment (IOEnv)
	Timeout  time.Duration     // 0 = 10 min
	Args     []string          // extra TLC arguments
	HeapMB   int               // 0 = 8192
	DFS      bool              // use StateDeque (depth-first) queue
	DumpDot  bool              // -dump dot,actionlabels
	Scratch  string            // scratch dir to use (created when empty)
	KeepDir  bool              // do not remove scratch
	ExtraTLA map[string]string // extra generated files (name -> content) written next to the spec
}

type State struct {
	Num    int
	Action string
	Vars   map[string]tlaval.Value
	Raw    string
}

type Result struct {
	Stdout        string
	ExitCode      int
	Generated     int64
	Distinct      int64
	Depth         int
	Violation     string // "" | "invariant" | "property" | "deadlock" | "postcondition" | "assumption" | "error"
	ViolationName string
	Trace         []State
	Error         string // first Error: line(s) when Violation == "error"
	TimedOut      bool
	Wall          time.Duration
	Dir           string // scratch dir (only when KeepDir)
	DotPath       string
	Cmd           string
}

func copyFile(dst, src string) error {
	in, err := os.Open(src)
	if err != nil {
		return err
	}
	defer in.Close()
	out, err := os.Create(dst)
	if err != nil {
		return err
	}
	defer out.Close()
	_, err = io.Copy(out, in)
	return err
}

var (
	reCounts  = regexp.MustCompile(`(?m)^(\d+) states generated, (\d+) distinct states found, (\d+) states left on queue`)
	reDepth   = regexp.MustCompile(`The depth of the complete state graph search is (\d+)`)
	reInv     = regexp.MustCompile(`Error: Invariant (\S+) is violated`)
	reProp    = regexp.MustCompile(`Error: (?:Action|Temporal) propert(?:y|ies) (\S*)\s*(?:is|were) violated`)
	reStateHd = regexp.MustCompile(`^State (\d+): <?(.*?)>?$`)
)

// Run executes TLC. A non-nil error means TLC could not be run at all (the caller must treat it
// as inconclusive); model-level outcomes are in Result.
func Run(o Options) (*Result, error) {
	dir := o.Scratch
	if dir == "" {
		d, err := os.MkdirTemp("", "bmverif-tlc-")
		if err != nil {
			return nil, err
		}
		dir = d
	}
	if err := os.MkdirAll(dir, 0o755); err != nil {
		return nil, err
	}
	if !o.KeepDir {
		defer os.RemoveAll(dir)
	}
	ents, err := os.ReadDir(o.SpecDir)
	if err != nil {
		return nil, err
	}
	for _, e := range ents {
		n := e.Name()
		if strings.HasSuffix(n, ".tla") || strings.HasSuffix(n, ".cfg") {
			if err := copyFile(filepath.Join(dir, n), filepath.Join(o.SpecDir, n)); err != nil {
				return nil, err
			}
		}
	}
	for n, c := range o.ExtraTLA {
		if err := os.WriteFile(filepath.Join(dir, n), []byte(c), 0o644); err != nil {
			return nil, err
		}
	}
	cfg := o.Cfg
	if o.CfgText != "" {
		cfg = "_gen_" + o.Module + ".cfg"
		if err := os.WriteFile(filepath.Join(dir, cfg), []byte(o.CfgText), 0o644); err != nil {
			return nil, err
		}
	}
	workers := o.Workers
	if workers <= 0 {
		workers = 1
	}
	heap := o.HeapMB
	if heap <= 0 {
		heap = 8192
	}
	timeout := o.Timeout
	if timeout <= 0 {
		timeout = 10 * time.Minute
	}
	args := []string{"-XX:+UseParallelGC", fmt.Sprintf("-Xmx%dm", heap), "-Xss512m"}
	if o.DFS {
		args = append(args, "-Dtlc2.tool.queue.IStateQueue=StateDeque")
	}
	args = append(args, "-cp", Jar, "tlc2.TLC", "-noGenerateSpecTE", "-metadir", filepath.Join(dir, "md"),
		"-workers", strconv.Itoa(workers), "-config", cfg)
	res := &Result{}
	if o.DumpDot {
		res.DotPath = filepath.Join(dir, "graph.dot")
		args = append(args, "-dump", "dot,actionlabels", res.DotPath)
	}
	args = append(args, o.Args...)
	args = append(args, o.Module+".tla")
	ctx, cancel := context.WithTimeout(context.Background(), timeout)
	defer cancel()
	cmd := exec.CommandContext(ctx, "java", args...)
	cmd.Dir = dir
	cmd.Env = os.Environ()
	for k, v := range o.Env {
		cmd.Env = append(cmd.Env, k+"="+v)
	}
	var buf bytes.Buffer
	cmd.Stdout = &buf
	cmd.Stderr = &buf
	res.Cmd = "java " + strings.Join(args, " ")
	t0 := time.Now()
	err = cmd.Run()
	res.Wall = time.Since(t0)
	res.Stdout = buf.String()
	if ctx.Err() == context.DeadlineExceeded {
		res.TimedOut = true
	}
	if err != nil {
		if ee, ok := err.(*exec.ExitError); ok {
			res.ExitCode = ee.ExitCode()
		} else if !res.TimedOut {
			return nil, err
		}
	}
	if o.KeepDir {
		res.Dir = dir
	}
	parseOutput(res)
	return res, nil
}

func parseOutput(r *Result) {
	out := r.Stdout
	if ms := reCounts.FindAllStringSubmatch(out, -1); len(ms) > 0 {
		m := ms[len(ms)-1]
		r.Generated, _ = strconv.ParseInt(m[1], 10, 64)
		r.Distinct, _ = strconv.ParseInt(m[2], 10, 64)
	}
	if m := reDepth.FindStringSubmatch(out); m != nil {
		r.Depth, _ = strconv.Atoi(m[1])
	}
	switch {
	case reInv.MatchString(out):
		r.Violation = "invariant"
		r.ViolationName = reInv.FindStringSubmatch(out)[1]
	case strings.Contains(out, "Error: Deadlock reached"):
		r.Violation = "deadlock"
	case reProp.MatchString(out):
		r.Violation = "property"
		r.ViolationName = reProp.FindStringSubmatch(out)[1]
	case strings.Contains(out, "Temporal properties were violated"):
		r.Violation = "property"
	case strings.Contains(out, "is violated by the initial state") || strings.Contains(out, "Action property"):
		r.Violation = "property"
	case strings.Contains(out, "Postcondition") && strings.Contains(out, "Error:"),
		strings.Contains(out, "post-condition") && strings.Contains(out, "Error:"):
		r.Violation = "postcondition"
	case strings.Contains(out, "Error: Assumption"):
		r.Violation = "assumption"
	case strings.Contains(out, "Error:") || (r.ExitCode != 0 && !strings.Contains(out, "No error has been found")):
		r.Violation = "error"
		idx := strings.Index(out, "Error:")
		if idx >= 0 {
			end := idx + 1500
			if end > len(out) {
				end = len(out)
			}
			r.Error = out[idx:end]
		} else {
			tail := out
			if len(tail) > 1500 {
				tail = tail[len(tail)-1500:]
			}
			r.Error = tail
		}
	}
	// counterexample trace
	sc := bufio.NewScanner(strings.NewReader(out))
	sc.Buffer(make([]byte, 1<<20), 1<<26)
	var cur *State
	var body []string
	flush := func() {
		if cur != nil {
			cur.Raw = strings.Join(body, "\n")
			if vs, err := tlaval.ParseState(cur.Raw); err == nil {
				cur.Vars = vs
			}
			r.Trace = append(r.Trace, *cur)
			cur = nil
			body = nil
		}
	}
	for sc.Scan() {
		line := sc.Text()
		if m := reStateHd.FindStringSubmatch(line); m != nil {
			flush()
			n, _ := strconv.Atoi(m[1])
			cur = &State{Num: n, Action: m[2]}
			continue
		}
		if cur != nil {
			if strings.TrimSpace(line) == "" {
				flush()
				continue
			}
			body = append(body, line)
		}
	}
	flush()
}

// OK reports whether TLC finished without finding anything and without internal error.
func (r *Result) OK() bool {
	return r.Violation == "" && !r.TimedOut && strings.Contains(r.Stdout, "Model checking completed. No error has been found")
}

// Graph ------------------------------------------------------------------------------------

type Edge struct {
	From, To string
	Action   string // e.g. "DelInput(0)"
}

type Graph struct {
	Nodes map[string]map[string]tlaval.Value
	Init  []string
	Edges []Edge
}

func unescapeDot(s string) string {
	var sb strings.Builder
	for i := 0; i < len(s); i++ {
		if s[i] == '\\' && i+1 < len(s) {
			switch s[i+1] {
			case 'n':
				sb.WriteByte('\n')
			case '\\':
				sb.WriteByte('\\')
			case '"':
				sb.WriteByte('"')
			default:
				sb.WriteByte(s[i+1])
			}
			i++
			continue
		}
		sb.WriteByte(s[i])
	}
	return sb.String()
}

// readQuoted reads a dot quoted string starting right after the opening quote; returns the raw
// (still escaped) content and the index after the closing quote.
func readQuoted(s string, i int) (string, int) {
	st := i
	for i < len(s) {
		if s[i] == '\\' {
			i += 2
			continue
		}
		if s[i] == '"' {
			return s[st:i], i + 1
		}
		i++
	}
	return s[st:], len(s)
}

// ParseDot reads a graph written by -dump dot,actionlabels.
func ParseDot(path string) (*Graph, error) {
	f, err := os.Open(path)
	if err != nil {
		return nil, err
	}
	defer f.Close()
	g := &Graph{Nodes: map[string]map[string]tlaval.Value{}}
	sc := bufio.NewScanner(f)
	sc.Buffer(make([]byte, 1<<20), 1<<28)
	for sc.Scan() {
		line := sc.Text()
		if len(line) == 0 || !(line[0] == '-' || (line[0] >= '0' && line[0] <= '9')) {
			continue
		}
		sp := strings.IndexByte(line, ' ')
		if sp < 0 {
			continue
		}
		id := line[:sp]
		rest := line[sp+1:]
		if strings.HasPrefix(rest, "-> ") {
			rest = rest[3:]
			sp2 := strings.IndexByte(rest, ' ')
			if sp2 < 0 {
				continue
			}
			to := rest[:sp2]
			li := strings.Index(rest, `[label="`)
			act := ""
			if li >= 0 {
				raw, _ := readQuoted(rest, li+8)
				act = unescapeDot(raw)
			}
			g.Edges = append(g.Edges, Edge{From: id, To: to, Action: act})
			continue
		}
		li := strings.Index(rest, `[label="`)
		if li < 0 {
			continue
		}
		raw, end := readQuoted(rest, li+8)
		st, err := tlaval.ParseState(unescapeDot(raw))
		if err != nil {
			return nil, fmt.Errorf("dot node %s: %v", id, err)
		}
		g.Nodes[id] = st
		if strings.Contains(rest[end:], "style = filled") {
			g.Init = append(g.Init, id)
		}
	}
	return g, sc.Err()
}

// ActionArgs splits "Name(a, b)" into the name and the parsed arguments.
func ActionArgs(label string) (string, []tlaval.Value, error) {
	i := strings.IndexByte(label, '(')
	if i < 0 {
		return strings.TrimSpace(label), nil, nil
	}
	name := label[:i]
	inner := strings.TrimSpace(label[i:])
	if !strings.HasSuffix(inner, ")") {
		return name, nil, fmt.Errorf("bad action label %q", label)
	}
	v, err := tlaval.Parse("<<" + inner[1:len(inner)-1] + ">>")
	if err != nil {
		return name, nil, err
	}
	return name, []tlaval.Value(v.(tlaval.Seq)), nil
}

// Simulation files ---------------------------------------------------------------------------

// ParseSimFile reads one behaviour file written by -simulate file=prefix,num=N.
func ParseSimFile(path string) ([]State, error) {
	b, err := os.ReadFile(path)
	if err != nil {
		return nil, err
	}
	r := &Result{Stdout: string(b)}
	// files use "STATE_n ==" headers
	text := string(b)
	re := regexp.MustCompile(`(?m)^STATE_(\d+) ==\s*$`)
	idx := re.FindAllStringSubmatchIndex(text, -1)
	for k, m := range idx {
		n, _ := strconv.Atoi(text[m[2]:m[3]])
		end := len(text)
		if k+1 < len(idx) {
			end = idx[k+1][0]
		}
		var keep []string
		for _, ln := range strings.Split(text[m[1]:end], "\n") {
			t := strings.TrimSpace(ln)
			if strings.HasPrefix(t, "\\*") || strings.HasPrefix(t, "====") || strings.HasPrefix(t, "----") {
				continue
			}
			keep = append(keep, ln)
		}
		body := strings.TrimSpace(strings.Join(keep, "\n"))
		vs, err := tlaval.ParseState(strings.TrimSpace(body))
		if err != nil {
			return nil, fmt.Errorf("%s state %d: %v", path, n, err)
		}
		r.Trace = append(r.Trace, State{Num: n, Vars: vs, Raw: body})
	}
	return r.Trace, nil
}
