// Package bmgen wraps the real BondMachine front-ends and generators behind string-in /
// string-out helpers: assemble BASM text, render the Verilog file set of a machine.
package bmgen

import (
	"fmt"
	"strconv"

	"github.com/BondMachineHQ/BondMachine/pkg/basm"
	"github.com/BondMachineHQ/BondMachine/pkg/bondmachine"
	"github.com/BondMachineHQ/BondMachine/pkg/procbuilder"
)

// AssembleBasm runs the real assembler on BASM source text (no chooser options).
func AssembleBasm(src string) (bm *bondmachine.Bondmachine, bi *basm.BasmInstance, err error) {
	return AssembleBasmOpts(src)
}

// AssembleBasmOpts runs the real assembler with the given bmconfig options activated (as the
// flags of cmd/basm do, e.g. bmconfig.ChooserMinWordSize).
func AssembleBasmOpts(src string, opts ...uint64) (bm *bondmachine.Bondmachine, bi *basm.BasmInstance, err error) {
	defer func() {
		if e := recover(); e != nil {
			err = fmt.Errorf("basm panic: %v", e)
		}
	}()
	bi = new(basm.BasmInstance)
	bi.BasmInstanceInit(nil)
	for _, o := range opts {
		bi.Activate(o)
	}
	if err = bi.ParseAssemblyStringDefault(src); err != nil {
		return nil, bi, err
	}
	if err = bi.RunAssembler(); err != nil {
		return nil, bi, err
	}
	if err = bi.Assembler2BondMachine(); err != nil {
		return nil, bi, err
	}
	bm = bi.GetBondMachine()
	return bm, bi, nil
}

// VerilogFiles renders the file set Bondmachine.Write_verilog would write (processors, ROM,
// RAM, arch wrappers, shared objects, top level) using the string-returning generators, in
// the same order and with the same names, without touching the file system.
func VerilogFiles(bm *bondmachine.Bondmachine, conf *bondmachine.Config, flavor string) (files map[string]string, order []string, err error) {
	defer func() {
		if e := recover(); e != nil {
			err = fmt.Errorf("verilog generator panic: %v", e)
		}
	}()
	files = map[string]string{}
	add := func(n, s string) {
		if _, ok := files[n]; !ok {
			files[n] = s
			order = append(order, n)
		}
	}
	pConf := conf.ProcbuilderConfig()
	sharedHDLOps := ""
	for i, domID := range bm.Processors {
		ri := new(procbuilder.RuntimeInfo)
		ri.Init()
		pConf.Runinfo = ri
		dom := bm.Domains[domID]
		sharedlist := ""
		solist := bm.Shared_links[i]
		for j, soID := range solist {
			sharedlist += bm.Shared_objects[soID].String()
			if j != len(solist)-1 {
				sharedlist += ","
			}
		}
		dom.Arch.Shared_constraints = sharedlist
		archMod := "a" + strconv.Itoa(i)
		names := map[string]string{"processor": "p" + strconv.Itoa(i), "rom": "p" + strconv.Itoa(i) + "rom", "ram": "p" + strconv.Itoa(i) + "ram"}
		dom.Conproc.CpID = uint32(i)
		dom.Conproc.SharedHDLOps = sharedHDLOps
		add("arch_"+strconv.Itoa(i)+".v", dom.Arch.Write_verilog(archMod, names, flavor))
		add(names["processor"]+".v", dom.Arch.Conproc.Write_verilog(pConf, &dom.Arch, names["processor"], flavor))
		add(names["rom"]+".v", dom.Arch.Rom.Write_verilog(dom, names["rom"], flavor))
		if int(dom.L) != 0 {
			add(names["ram"]+".v", dom.Arch.Ram.Write_verilog(pConf, dom, names["ram"], flavor))
		}
		sharedHDLOps = dom.Arch.Conproc.SharedHDLOps
	}
	seq := map[string]int{}
	for i, so := range bm.Shared_objects {
		sname := so.Shortname()
		add(sname+strconv.Itoa(seq[sname])+".v", so.Write_verilog(bm, i, sname+strconv.Itoa(seq[sname]), flavor))
		seq[sname]++
	}
	add("bondmachine.v", bm.Write_verilog_main(conf, "bondmachine", flavor))
	return files, order, nil
}
