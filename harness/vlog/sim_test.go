package vlog

import (
	"reflect"
	"strings"
	"testing"
)

func step(t *testing.T, s *Sim, clk string, n int) {
	t.Helper()
	for i := 0; i < n; i++ {
		if err := s.Step(clk); err != nil {
			t.Fatalf("step %d: %v", i, err)
		}
	}
}

func TestNBASwapAndBlockingOrder(t *testing.T) {
	src := `
module t(clk);
	input clk;
	reg [7:0] a, b;      // swapped with NBAs
	reg [7:0] c, d;      // "swapped" with blocking assignments
	reg [7:0] e, f, g;   // blocking temp feeding an NBA
	reg [7:0] last;      // last NBA wins
	reg [7:0] h, hcopy;  // NBA is not visible inside the block
	initial begin a = 1; b = 2; c = 3; d = 4; e = 10; h = 5; end
	always @(posedge clk) begin
		a <= b;
		b <= a;
	end
	always @(posedge clk) begin
		c = d;
		d = c;
	end
	always @(posedge clk) begin
		f = e + 1;
		g <= f + 1;
		last <= 1;
		last <= 2;
		h <= h + 1;
		hcopy <= h;
	end
endmodule`
	bothPaths(t, func(t *testing.T) {
		s := elabOne(t, src, "t")
		step(t, s, "clk", 1)
		check(t, s, k("a", 2), k("b", 1), k("c", 4), k("d", 4), k("f", 11), k("g", 12), k("last", 2), k("h", 6), k("hcopy", 5))
		want := []string{"a", "b", "c", "d", "f", "g", "h", "hcopy", "last"}
		if got := s.LastWrites(); !reflect.DeepEqual(got, want) {
			t.Errorf("LastWrites = %v, want %v", got, want)
		}
		step(t, s, "clk", 1)
		check(t, s, k("a", 1), k("b", 2), k("h", 7), k("hcopy", 6))
	})
}

func TestBlocksSeePreEdgeValues(t *testing.T) {
	// a 3-stage shift register spread over three always blocks, written in
	// "wrong" order: every block must read the pre-edge value.
	src := `
module t(input clk, input [3:0] in);
	reg [3:0] s1, s2, s3;
	always @(posedge clk) s3 <= s2;
	always @(posedge clk) s2 <= s1;
	always @(posedge clk) s1 <= in;
endmodule`
	s := elabOne(t, src, "t")
	for i, v := range []uint64{1, 2, 3, 4} {
		s.Set("in", v)
		step(t, s, "clk", 1)
		if i >= 2 {
			check(t, s, k("s1", v), k("s2", v-1), k("s3", v-2))
		}
	}
}

func TestCaseAndDefault(t *testing.T) {
	src := `
module t(input clk, input [2:0] sel, input [1:0] sub);
	localparam A = 3'b000, B = 3'b001,
	           C = 3'b010;
	localparam [2:0] D = 3;
	reg [7:0] out, out2;
	always @(posedge clk) begin
		case (sel)
			A: out <= 8'd10;
			B, C: begin out <= 8'd20; end
			D: case (sub)
				2'd0: out <= 8'd30;
				2'd1: ;
				default: out <= 8'd31;
			   endcase
			3'd4, 3'd5: out <= 8'd45;
			default: out <= 8'd99;
		endcase
		case (sel[0])
			1'b1: out2 <= 1;
		endcase
	end
endmodule`
	s := elabOne(t, src, "t")
	cases := []struct{ sel, sub, out uint64 }{
		{0, 0, 10}, {1, 0, 20}, {2, 0, 20}, {3, 0, 30}, {3, 1, 30}, {3, 2, 31}, {4, 0, 45}, {5, 0, 45}, {6, 0, 99}, {7, 0, 99},
	}
	for _, c := range cases {
		s.Set("sel", c.sel)
		s.Set("sub", c.sub)
		step(t, s, "clk", 1)
		check(t, s, k("out", c.out))
	}
	if s.UnknownBranches != 0 {
		t.Errorf("UnknownBranches = %d, want 0", s.UnknownBranches)
	}
	// unknown selector: default branch, counted
	s.SetUnknown("sel")
	s.Set("out", 0)
	step(t, s, "clk", 1)
	check(t, s, k("out", 99))
	if s.UnknownBranches != 2 {
		t.Errorf("UnknownBranches = %d, want 2 (outer case + case(sel[0]))", s.UnknownBranches)
	}
	if len(s.UnknownBranchSites) != 2 {
		t.Errorf("UnknownBranchSites = %v", s.UnknownBranchSites)
	}
}

func TestIfElseChainUnknown(t *testing.T) {
	src := `
module t(input clk, input a, input b);
	reg [3:0] r;
	always @(posedge clk)
		if (a) r <= 1;
		else if (b) r <= 2;
		else r <= 3;
endmodule`
	s := elabOne(t, src, "t")
	s.Set("b", 1)
	step(t, s, "clk", 1) // a unknown -> else; b=1 -> 2
	check(t, s, k("r", 2))
	if s.UnknownBranches != 1 {
		t.Errorf("UnknownBranches = %d, want 1", s.UnknownBranches)
	}
	s.Set("a", 1)
	step(t, s, "clk", 1)
	check(t, s, k("r", 1))
	s.Set("a", 0)
	s.Set("b", 0)
	step(t, s, "clk", 1)
	check(t, s, k("r", 3))
}

func TestForLoopsAndMemories(t *testing.T) {
	src := `
module t(input clk, input rst, input [1:0] addr, input [7:0] din, input we);
	reg [7:0] up [0:3];
	reg [7:0] down [3:0];
	reg [7:0] off [4:7];
	reg [7:0] q, qd, qo, oob;
	reg [7:0] total;
	integer i;
	always @(posedge clk) begin : MEMBLK
		integer k;
		if (rst) begin
			for (i = 0; i < 4; i = i + 1) begin
				up[i] <= i + 1;
				down[i] <= 8'd10 + i;
			end
			for (k = 4; k <= 7; k = k + 1)
				off[k] <= k;
		end else begin
			if (we) up[addr] <= din;
			q <= up[addr];
			qd <= down[addr];
			qo <= off[addr + 3'd4];
			oob <= off[addr];
			off[addr] <= 8'hEE; // out of range: dropped
		end
	end
	always @(*) begin
		total = 0;
		for (i = 0; i < 4; i = i + 1)
			total = total + up[i];
	end
endmodule`
	bothPaths(t, func(t *testing.T) {
		s := elabOne(t, src, "t")
		if d, ok := s.IsMem("up"); !ok || d != 4 || s.Width("up") != 8 {
			t.Fatalf("IsMem(up) = %d,%v width %d", d, ok, s.Width("up"))
		}
		if lo, hi, ok := s.MemRange("off"); !ok || lo != 4 || hi != 7 {
			t.Fatalf("MemRange(off) = %d,%d,%v", lo, hi, ok)
		}
		if _, kn := s.GetMem("up", 0); kn {
			t.Fatal("memory should start unknown")
		}
		check(t, s, x("total"))
		s.Set("rst", 1)
		s.Set("we", 0)
		step(t, s, "clk", 1)
		for i := 0; i < 4; i++ {
			if v, kn := s.GetMem("up", i); !kn || v != uint64(i+1) {
				t.Errorf("up[%d] = %d,%v", i, v, kn)
			}
			if v, kn := s.GetMem("down", i); !kn || v != uint64(10+i) {
				t.Errorf("down[%d] = %d,%v", i, v, kn)
			}
			if v, kn := s.GetMem("off", 4+i); !kn || v != uint64(4+i) {
				t.Errorf("off[%d] = %d,%v", 4+i, v, kn)
			}
		}
		if _, kn := s.GetMem("off", 0); kn {
			t.Error("GetMem out of the declared range must fail")
		}
		check(t, s, k("total", 10), k("i", 4))
		if !s.Has("MEMBLK.k") {
			t.Errorf("block-local integer should be named MEMBLK.k; names: %v", s.Names())
		}
		s.Set("rst", 0)
		s.Set("addr", 2)
		s.Set("din", 77)
		s.Set("we", 1)
		before := s.OutOfRange
		step(t, s, "clk", 1)
		check(t, s, k("q", 3), k("qd", 12), k("qo", 6), x("oob"), k("total", 1+2+77+4))
		if v, _ := s.GetMem("up", 2); v != 77 {
			t.Errorf("up[2] = %d", v)
		}
		if s.OutOfRange != before+2 {
			t.Errorf("OutOfRange went from %d to %d, want +2 (one read, one write)", before, s.OutOfRange)
		}
		lw := strings.Join(s.LastWrites(), ",")
		if lw != "oob,q,qd,qo,up" {
			t.Errorf("LastWrites = %s", lw)
		}
		// unknown address: write dropped and counted, read unknown
		s.SetUnknown("addr")
		step(t, s, "clk", 1)
		check(t, s, x("q"))
		if s.UnknownIndexWrites == 0 {
			t.Error("UnknownIndexWrites not counted")
		}
		if v, kn := s.GetMem("up", 2); !kn || v != 77 {
			t.Errorf("up[2] changed by a write with unknown address: %d,%v", v, kn)
		}
		// SetMem
		if err := s.SetMem("up", 0, 0x1FF); err != nil {
			t.Fatal(err)
		}
		if v, _ := s.GetMem("up", 0); v != 0xFF {
			t.Errorf("SetMem must mask to the word width, got %#x", v)
		}
		if err := s.SetMem("up", 4, 1); err == nil {
			t.Error("SetMem out of range must fail")
		}
		if err := s.Set("up", 1); err == nil {
			t.Error("Set on a memory must fail")
		}
	})
}

func TestBitAndPartSelectLvalues(t *testing.T) {
	src := `
module t(input clk, input [2:0] idx);
	reg [7:0] v;
	reg [7:0] w;
	reg [0:7] asc;
	reg [11:4] off;
	reg [7:0] mem [0:1];
	reg [3:0] ao; reg o11;
	initial begin v = 0; w = 8'hFF; asc = 0; off = 0; mem[0] = 0; end
	always @(posedge clk) begin
		v[idx] <= 1'b1;
		w[7:4] <= 4'h3;
		w[0] <= 1'b0;
		asc[0] <= 1'b1;       // MSB of an ascending range
		asc[4:7] <= 4'b0101;
		off[11] <= 1'b1;
		off[7:4] <= 4'h9;
		mem[0][idx] <= 1'b1;
		mem[0][7:6] <= 2'b10;
		ao <= asc[0:3];
		o11 <= off[11];
	end
endmodule`
	bothPaths(t, func(t *testing.T) {
		s := elabOne(t, src, "t")
		s.Set("idx", 5)
		step(t, s, "clk", 2)
		check(t, s, k("v", 0x20), k("w", 0x3E), k("asc", 0x85), k("off", 0x89), k("ao", 0x8), k("o11", 1))
		if v, kn := s.GetMem("mem", 0); !kn || v != 0xA0 {
			t.Errorf("mem[0] = %#x,%v want 0xa0", v, kn)
		}
	})
}

func TestHierarchyPositionalNamedParams(t *testing.T) {
	src := `
module leaf #(parameter W = 4, parameter INC = 1) (input ck, input rst, input [W-1:0] d, output [W-1:0] q, output [W-1:0] nq);
	reg [W-1:0] r;
	always @(posedge ck or posedge rst)
		if (rst) r <= {W{1'b0}};
		else r <= d + INC;
	assign q = r;
	assign nq = ~r;
endmodule

module mid(clock, reset, a, b, ya, yb, ynb);
	input clock, reset;
	input [3:0] a;
	input [7:0] b;
	output [3:0] ya;
	output [7:0] yb, ynb;
	wire [3:0] unused;
	leaf u_pos(clock, reset, a, ya, unused);
	leaf #(.W(8), .INC(3)) u_named(.d(b), .q(yb), .ck(clock), .rst(reset), .nq(ynb));
	leaf #(8) u_open(.ck(clock), .rst(reset), .d(8'd1), .q(), .nq());
endmodule

module top(input clk, input rst, input [3:0] a, input [7:0] b, output [3:0] ya, output [7:0] yb, output [7:0] ynb, output [11:0] cat);
	wire [3:0] ya_i;
	wire [7:0] yb_i;
	mid m(clk, rst, a, b, ya_i, yb_i, ynb);
	assign ya = ya_i;
	assign yb = yb_i;
	assign cat = {ya_i, yb_i};
endmodule`
	d, err := Parse(src)
	if err != nil {
		t.Fatal(err)
	}
	if got := d.Modules(); !reflect.DeepEqual(got, []string{"leaf", "mid", "top"}) {
		t.Errorf("Modules = %v", got)
	}
	if got := d.Tops(); !reflect.DeepEqual(got, []string{"top"}) {
		t.Errorf("Tops = %v", got)
	}
	wantPorts := []Port{{"ck", "input", 1}, {"rst", "input", 1}, {"d", "input", 4}, {"q", "output", 4}, {"nq", "output", 4}}
	if got := d.Ports("leaf"); !reflect.DeepEqual(got, wantPorts) {
		t.Errorf("Ports(leaf) = %v", got)
	}
	if got := d.Ports("mid"); len(got) != 7 || got[3] != (Port{"b", "input", 8}) || got[6] != (Port{"ynb", "output", 8}) {
		t.Errorf("Ports(mid) = %v", got)
	}
	insts := d.Instances("mid")
	if len(insts) != 3 {
		t.Fatalf("Instances(mid) = %v", insts)
	}
	if insts[0].Module != "leaf" || insts[0].Name != "u_pos" ||
		!reflect.DeepEqual(insts[0].Conns, []Conn{{"ck", "clock"}, {"rst", "reset"}, {"d", "a"}, {"q", "ya"}, {"nq", "unused"}}) {
		t.Errorf("positional instance = %+v", insts[0])
	}
	if !reflect.DeepEqual(insts[1].Conns, []Conn{{"d", "b"}, {"q", "yb"}, {"ck", "clock"}, {"rst", "reset"}, {"nq", "ynb"}}) {
		t.Errorf("named instance = %+v", insts[1])
	}
	if insts[2].Conns[3] != (Conn{"q", ""}) || insts[2].Conns[2] != (Conn{"d", "8'd1"}) {
		t.Errorf("open instance = %+v", insts[2])
	}
	if got := d.Assigns("top"); !reflect.DeepEqual(got, []Assign{{"ya", "ya_i"}, {"yb", "yb_i"}, {"cat", "{ya_i, yb_i}"}}) {
		t.Errorf("Assigns(top) = %v", got)
	}

	s, err := Elaborate(d, "top")
	if err != nil {
		t.Fatal(err)
	}
	for _, n := range []string{"clk", "m.clock", "m.u_pos.ck", "m.u_pos.r", "m.u_named.r", "m.u_open.r", "m.unused", "ya_i"} {
		if !s.Has(n) {
			t.Errorf("missing hierarchical name %q in %v", n, s.Names())
		}
	}
	if s.Width("m.u_pos.r") != 4 || s.Width("m.u_named.r") != 8 || s.Width("m.u_open.d") != 8 {
		t.Errorf("parameterised widths wrong: %d %d %d", s.Width("m.u_pos.r"), s.Width("m.u_named.r"), s.Width("m.u_open.d"))
	}
	if got := s.TopInputs(); !reflect.DeepEqual(got, []string{"a", "b", "clk", "rst"}) {
		t.Errorf("TopInputs = %v", got)
	}
	for _, w := range s.Warnings {
		t.Errorf("unexpected warning: %s", w)
	}
	s.Set("rst", 1)
	s.Set("a", 3)
	s.Set("b", 250)
	step(t, s, "clk", 1)
	check(t, s, k("ya", 0), k("yb", 0), k("ynb", 255), k("m.u_pos.nq", 15), k("m.unused", 15))
	s.Set("rst", 0)
	step(t, s, "clk", 1)
	check(t, s, k("ya", 4), k("yb", 253), k("ynb", 2), k("cat", 0x4FD), k("m.u_open.r", 2), k("m.u_pos.d", 3))
	// combinational path through the hierarchy settles without a clock
	s.Set("a", 9)
	if err := s.Settle(); err != nil {
		t.Fatal(err)
	}
	check(t, s, k("m.u_pos.d", 9), k("ya", 4))
	if len(s.ClockedBlocks()) != 3 || !strings.Contains(s.ClockedBlocks()[0], "posedge clk, posedge rst") {
		t.Errorf("ClockedBlocks = %v", s.ClockedBlocks())
	}
}

func TestInitialAndDeclarationInits(t *testing.T) {
	src := `
module t(input clk);
	reg [3:0] r = 4'd5;
	reg one;
	initial one = 1'b1;
	reg [7:0] cnt;
	reg [2:0] sm;
	localparam RUN = 3'b101;
	initial begin
		cnt <= 8'b00000100;
		sm <= RUN;
	end
	wire [3:0] w = r + 4'd1;
	reg never;
	always @(posedge clk) cnt <= cnt + one;
endmodule`
	s := elabOne(t, src, "t")
	check(t, s, k("r", 5), k("one", 1), k("cnt", 4), k("sm", 5), k("w", 6), x("never"))
	step(t, s, "clk", 3)
	check(t, s, k("cnt", 7))
}

func TestCombinationalAlways(t *testing.T) {
	src := `
module t(input [3:0] a, input [3:0] b, input sel);
	reg [3:0] y, z, lvl;
	reg [4:0] tmp;
	wire [3:0] chain1, chain2, chain3;
	// declared in "reverse" dependency order on purpose
	assign chain3 = chain2 + 4'd1;
	assign chain2 = chain1 + 4'd1;
	assign chain1 = y;
	always @(*) begin
		y = 4'd0;          // default, then override
		if (sel) y = a;
		else y = b;
	end
	always @* begin
		tmp = a + b;
		z = tmp[4:1];
	end
	always @(a or b) lvl = a & b;
endmodule`
	s := elabOne(t, src, "t")
	s.Set("a", 9)
	s.Set("b", 12)
	s.Set("sel", 1)
	if err := s.Settle(); err != nil {
		t.Fatal(err)
	}
	check(t, s, k("y", 9), k("chain3", 11), k("z", 10), k("lvl", 8))
	s.Set("sel", 0)
	s.Settle()
	check(t, s, k("y", 12), k("chain3", 14))
	if len(s.Warnings) != 1 || !strings.Contains(s.Warnings[0], "level-sensitive") {
		t.Errorf("Warnings = %v", s.Warnings)
	}
}

func TestCombinationalLoopIsAnError(t *testing.T) {
	d, err := Parse(`module t; wire a; reg s; initial s = 0; assign a = ~(a | s); endmodule`)
	if err != nil {
		t.Fatal(err)
	}
	// a starts unknown: ~(x|0) stays unknown, so force it to provoke the oscillation
	s, err := Elaborate(d, "t")
	if err != nil {
		t.Fatal(err)
	}
	s.Set("a", 0)
	if err := s.Settle(); err == nil || !strings.Contains(err.Error(), "did not settle") {
		t.Errorf("expected a 'did not settle' error, got %v", err)
	}
	// a stable loop is fine
	s2 := elabOne(t, `module t(input i); wire a, b; assign a = b | i; assign b = a; endmodule`, "t")
	s2.Set("i", 1)
	if err := s2.Settle(); err != nil {
		t.Fatal(err)
	}
	check(t, s2, k("b", 1))
}

func TestNegedgeAndMultipleClocks(t *testing.T) {
	src := `
module t(input clk, input clk2);
	reg [3:0] p, n, other;
	initial begin p = 0; n = 0; other = 0; end
	always @(posedge clk) p <= p + 1;
	always @(negedge clk) n <= p;
	always @(posedge clk2) other <= other + 1;
endmodule`
	s := elabOne(t, src, "t")
	step(t, s, "clk", 3)
	check(t, s, k("p", 3), k("n", 3), k("other", 0))
	step(t, s, "clk2", 2)
	check(t, s, k("p", 3), k("other", 2))
	if err := s.Step("nope"); err == nil {
		t.Error("Step on an unknown clock must fail")
	}
}

func TestParsingDetails(t *testing.T) {
	src := "`timescale 1ns/1ps\n" + `
/* block
   comment */
module t(clk, o); // line comment
	input clk;
	output reg [7:0] o;
	(* KEEP = "TRUE" *) reg [7:0] cnt;
	(* a *) (* b = 1 *) wire unused_w;
	reg [7:0] \escaped.name ;
	initial begin cnt = 0; o = 0; end
	always @ (posedge clk)
	begin : NAMED
		$display("cnt=%d o=%b", cnt, o);
		$write("x");
		$finish;
		$display;
		cnt <= #1 cnt + 1'b1;
		o <= #(2) cnt;
		#5 ;
	end
endmodule
`
	s := elabOne(t, src, "t")
	step(t, s, "clk", 2)
	check(t, s, k("cnt", 2), k("o", 1))
	if !s.Has("escaped.name") || s.Kind("cnt") != "reg" || s.Kind("unused_w") != "wire" {
		t.Errorf("names/kinds wrong: %v", s.Names())
	}
}

func TestUnsupportedConstructsAreErrors(t *testing.T) {
	bad := map[string]string{
		"generate":      `module t; genvar i; generate for (i=0;i<2;i=i+1) begin : g wire w; end endgenerate endmodule`,
		"function":      `module t; function f; input a; f = a; endfunction endmodule`,
		"casez":         `module t(input clk, input [1:0] a); reg r; always @(posedge clk) casez (a) 2'b1?: r <= 1; endcase endmodule`,
		"signed reg":    `module t; reg signed [7:0] r; endmodule`,
		"$signed":       `module t; reg [7:0] r; initial r = $signed(8'd1); endmodule`,
		"while":         `module t; integer i; initial while (i < 3) i = i + 1; endmodule`,
		"hier ref":      `module t; reg r; initial r = a.b; endmodule`,
		"power":         `module t; reg [7:0] r; initial r = 2 ** 3; endmodule`,
		"define":        "`define X 1\nmodule t; endmodule",
		"real":          `module t; reg [7:0] r; initial r = 1.5; endmodule`,
		"always no @":   `module t; reg c; always #5 c = ~c; endmodule`,
		"event control": `module t(input clk); reg c; initial begin @(posedge clk); c = 1; end endmodule`,
		"2d array":      `module t; reg [7:0] m [0:3][0:3]; endmodule`,
	}
	for name, src := range bad {
		d, err := Parse(src)
		if err == nil {
			_, err = Elaborate(d, "t")
		}
		if err == nil {
			t.Errorf("%s: expected an error", name)
		} else if !strings.Contains(err.Error(), "unsupported") {
			t.Errorf("%s: error should say 'unsupported': %v", name, err)
		}
	}
	semantic := map[string]string{
		"unknown ident":    `module t; reg r; initial r = nothere; endmodule`,
		"unknown module":   `module t; foo u(); endmodule`,
		"assign to reg":    `module t; reg r; assign r = 1'b0; endmodule`,
		"proc to wire":     `module t(input clk); wire w; always @(posedge clk) w <= 1; endmodule`,
		"range mismatch":   `module t(o); output [7:0] o; reg o; endmodule`,
		"part oob":         `module t; reg [7:0] r; wire [3:0] w = r[9:6]; endmodule`,
		"part reversed":    `module t; reg [7:0] r; wire [3:0] w = r[0:3]; endmodule`,
		"no direction":     `module t(a); wire a; endmodule`,
		"too many conns":   `module c(input a); endmodule module t; wire x, y; c u(x, y); endmodule`,
		"bad port":         `module c(input a); endmodule module t; wire x; c u(.b(x)); endmodule`,
		"out to reg":       `module c(output a); assign a = 1'b1; endmodule module t; reg x; c u(x); endmodule`,
		"dup module":       `module t; endmodule module t; endmodule`,
		"missing top":      `module notT; endmodule`,
		"nonconst range":   `module t; reg [3:0] n; reg [n:0] r; endmodule`,
		"two defaults":     `module t(input clk, input a); reg r; always @(posedge clk) case (a) default: r<=0; default: r<=1; endcase endmodule`,
		"missing endmod":   `module t; reg r;`,
		"mem no index":     `module t; reg [7:0] m [0:3]; reg [7:0] r; initial r = m; endmodule`,
		"param override x": `module c #(parameter P=1) (input a); endmodule module t; wire x; c #(.Q(2)) u(x); endmodule`,
	}
	for name, src := range semantic {
		d, err := Parse(src)
		if err == nil {
			_, err = Elaborate(d, "t")
		}
		if err == nil {
			t.Errorf("%s: expected an error", name)
		}
	}
}

func TestErrorsCarryModuleAndLine(t *testing.T) {
	_, err := Parse("module good; endmodule\nmodule bad;\n  reg r;\n  initial r = ;\nendmodule")
	if err == nil || !strings.Contains(err.Error(), "module bad line 4") {
		t.Errorf("parse error without location: %v", err)
	}
	d, _ := Parse("module leaf(input a);\n wire w;\n assign w = a + nothere;\nendmodule\nmodule t; wire x; leaf u1(x); endmodule")
	_, err = Elaborate(d, "t")
	if err == nil || !strings.Contains(err.Error(), "module leaf (instance u1) line 3") {
		t.Errorf("elaboration error without location: %v", err)
	}
}

func TestWarnings(t *testing.T) {
	src := `
module c(input [7:0] a, output [3:0] y); assign y = a[3:0]; endmodule
module t(input clk);
	wire [3:0] narrow; wire [7:0] wide;
	wire dd;
	reg r;
	c u1(narrow, wide);
	c u2(.a(8'd1), .y(implicit_w));
	assign dd = 1'b0;
	assign dd = 1'b0;
	always @(posedge clk) r <= 1;
	always @(posedge clk) r <= 0;
	reg div; initial div = 0;
	always @(posedge clk) div <= ~div;
	reg [1:0] slow;
	always @(posedge div) slow <= slow + 1;
endmodule`
	s := elabOne(t, src, "t")
	all := strings.Join(s.Warnings, "\n")
	for _, frag := range []string{"is 8 bits but the connected expression is 4 bits", "is 4 bits but the connected net is 8 bits",
		"implicit 1-bit wire \"implicit_w\"", "\"dd\" has 2 combinational drivers", "\"r\" is assigned in 2 different clocked always blocks",
		"clocked by \"div\" which is not a top-level input"} {
		if !strings.Contains(all, frag) {
			t.Errorf("missing warning containing %q in:\n%s", frag, all)
		}
	}
	// the derived clock block runs only when stepped explicitly
	s.Set("slow", 0)
	step(t, s, "clk", 2)
	check(t, s, k("slow", 0))
	step(t, s, "div", 1)
	check(t, s, k("slow", 1))
}

func TestSnapshotRestore(t *testing.T) {
	src := `
module t(input clk);
	reg [7:0] cnt; reg [7:0] mem [0:3];
	initial cnt = 0;
	always @(posedge clk) begin cnt <= cnt + 1; mem[cnt[1:0]] <= cnt; end
endmodule`
	s := elabOne(t, src, "t")
	step(t, s, "clk", 2)
	snap := s.Snapshot()
	step(t, s, "clk", 5)
	check(t, s, k("cnt", 7))
	if err := s.Restore(snap); err != nil {
		t.Fatal(err)
	}
	check(t, s, k("cnt", 2))
	if _, kn := s.GetMem("mem", 2); kn {
		t.Error("mem[2] should be unknown again after Restore")
	}
	step(t, s, "clk", 1)
	check(t, s, k("cnt", 3))
	if v, kn := s.GetMem("mem", 2); !kn || v != 2 {
		t.Errorf("mem[2] = %d,%v", v, kn)
	}
}

func TestSetGetAPI(t *testing.T) {
	s := elabOne(t, `module t(input [3:0] a, output [3:0] y); assign y = a; endmodule`, "t")
	if err := s.Set("a", 0x1F); err != nil {
		t.Fatal(err)
	}
	if v, kn := s.Get("a"); v != 0xF || !kn {
		t.Errorf("Set must mask to width: %d,%v", v, kn)
	}
	s.Settle()
	check(t, s, k("y", 15))
	if _, kn := s.Get("nothere"); kn || s.Has("nothere") {
		t.Error("unknown names must yield (0,false)")
	}
	if s.Set("nothere", 1) == nil || s.SetUnknown("nothere") == nil || s.SetMem("a", 0, 1) == nil {
		t.Error("bad names must be errors")
	}
	if s.Width("y") != 4 || s.Width("nothere") != 0 {
		t.Error("Width")
	}
	if _, ok := s.IsMem("a"); ok {
		t.Error("IsMem on a vector")
	}
}

func TestGeneratorIdioms(t *testing.T) {
	// snippets in the style of conproc.go (hy/vn modes), op_clr, op_jz, op_r2m/op_m2r, op_r2s
	src := `
module t(clock_signal, reset_signal, ram_dout, ram_addr, ram_en, ram_din, ram_wren);
	input clock_signal;
	input reset_signal;
	input  [7:0] ram_dout;
	output [7:0] ram_din;
	output  [3:0] ram_addr;
	output ram_wren, ram_en;
	localparam	M2R=4'b0110,
			NOP=4'b1001;
	localparam FETCH=2'b00, WAIT=2'b10, EXECUTE=2'b01;
	reg [11:0] ram_instruction;
	reg [11:0] rom_value;
	wire [11:0] current_instruction;
	reg exec_mode; // 0 = harvard , 1=VN
	reg [1:0] vn_state;
	reg [3:0] _pc;
	reg [7:0] _r0;
	reg [3:0] addr_ram_to_mem;
	reg [7:0] ram_din_i;
	reg wr_int_ram;
	reg [1:0] sh_wren_i;
	wire [3:0] addr_ram_m2r;
	assign current_instruction= (exec_mode==1'b0) ? rom_value : ram_instruction;
	assign ram_en = 1'b1;
	assign ram_din = ram_din_i;
	assign ram_wren = wr_int_ram;
	assign ram_addr =  (exec_mode == 1'b1 && vn_state == FETCH) ? _pc :  (current_instruction[11:8]==M2R) ? addr_ram_m2r : addr_ram_to_mem;
	assign addr_ram_m2r = current_instruction[3:0];
	always @(posedge clock_signal, posedge reset_signal)
	begin
		if(reset_signal)
		begin
			_pc <= #1 4'h0;
			_r0 <= #1 8'h0;
			exec_mode <= #1 1'b0;
			vn_state <= FETCH;
			wr_int_ram <= #1 1'b0;
			addr_ram_to_mem <= #1 'b0;
			sh_wren_i <= #1 'b0;
		end
		else begin
			if (exec_mode == 1'b1 && vn_state == FETCH) begin
				vn_state <= WAIT;
			end
			else if (exec_mode == 1'b1 && vn_state == WAIT) begin
				vn_state <= EXECUTE;
				ram_instruction <= ram_dout;
			end
			else begin
				case(current_instruction[11:8])
					M2R: begin
						if (wr_int_ram == 0) begin
							wr_int_ram <= #1 1'b1;
						end
						else begin
							wr_int_ram <= #1 1'b0;
							_r0 <= #1 ram_dout;
							if (exec_mode == 1'b1) begin
								vn_state <= FETCH;
							end
							_pc <= #1 _pc + 1'b1;
						end
					end
					NOP: begin
						if(_r0 == 'b0) begin
						_pc <= #1 current_instruction[7:4];
						end
						else begin
							_pc <= #1 _pc + 1'b1;
						end
						sh_wren_i[current_instruction[0]] <= #1 1'b1;
					end
					default : begin
						$display("Unknown Opcode");
						_pc <= #1 _pc + 1'b1;
					end
				endcase
			end
		end
	end
endmodule`
	s := elabOne(t, src, "t")
	s.Set("reset_signal", 1)
	s.Set("ram_dout", 0x5A)
	s.Set("rom_value", 0x6_0_7) // M2R, address 7
	step(t, s, "clock_signal", 1)
	check(t, s, k("_pc", 0), k("addr_ram_to_mem", 0), k("sh_wren_i", 0), k("ram_addr", 7), k("ram_en", 1), k("ram_wren", 0), x("ram_din"))
	s.Set("reset_signal", 0)
	step(t, s, "clock_signal", 1)
	check(t, s, k("wr_int_ram", 1), k("_pc", 0))
	step(t, s, "clock_signal", 1)
	check(t, s, k("wr_int_ram", 0), k("_pc", 1), k("_r0", 0x5A))
	s.Set("rom_value", 0x9_C_1) // NOP-coded JZ-like: r0 != 0 -> pc+1, sets sh_wren_i[1]
	step(t, s, "clock_signal", 1)
	check(t, s, k("_pc", 2), k("sh_wren_i", 2))
	s.Set("_r0", 0)
	step(t, s, "clock_signal", 1)
	check(t, s, k("_pc", 0xC))
	if s.UnknownBranches != 0 {
		t.Errorf("UnknownBranches = %v", s.UnknownBranchSites)
	}
}

func TestRecursiveInstantiationIsAnError(t *testing.T) {
	d, err := Parse(`module t(input a); t u(a); endmodule`)
	if err != nil {
		t.Fatal(err)
	}
	if _, err := Elaborate(d, "t"); err == nil || !strings.Contains(err.Error(), "depth") {
		t.Errorf("expected a depth error, got %v", err)
	}
}

func TestInvalidGeneratorOutputIsRejected(t *testing.T) {
	// op_m2r without op_r2m emits this line; it must be a parse error, not be guessed at
	_, err := Parse("module t(input [3:0] c, output [3:0] ram_addr);\n wire [3:0] addr_ram_m2r;\n assign ram_addr =  (c==4'd1) ? addr_ram_m2r : ;\nendmodule")
	if err == nil || !strings.Contains(err.Error(), "line 3") {
		t.Errorf("expected a parse error at line 3, got %v", err)
	}
}
