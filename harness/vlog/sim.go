package vlog

import (
	"fmt"
	"math/big"
	"sort"
	"strings"
)

// Sim is an elaborated (flattened) design together with its current state.
type Sim struct {
	// UnknownBranches counts if/case/for conditions that evaluated to unknown
	// (the else/default branch was taken).  It counts every evaluation,
	// including re-evaluations of combinational blocks while settling.
	UnknownBranches int
	// UnknownBranchSites maps "module (instance) line" to the number of
	// unknown branch decisions taken there.
	UnknownBranchSites map[string]int
	// UnknownIndexWrites counts assignments skipped because a bit index or
	// memory address was unknown (Verilog semantics: no write happens).
	UnknownIndexWrites int
	// OutOfRange counts out-of-range bit/part/memory accesses (reads give
	// unknown, writes are dropped).
	OutOfRange int
	// Warnings collects elaboration-time diagnostics (implicit wires, width
	// mismatches on ports, multiple drivers, unsized constants in
	// concatenations, derived clocks ...).
	Warnings []string

	top    string
	sigs   []*signal
	byName map[string]*signal
	comb   []*process
	edge   []*process
	dirty  bool

	lastWrites []string
}

// ClearCounters resets UnknownBranches, UnknownBranchSites,
// UnknownIndexWrites and OutOfRange.
func (s *Sim) ClearCounters() {
	s.UnknownBranches, s.UnknownIndexWrites, s.OutOfRange = 0, 0, 0
	s.UnknownBranchSites = map[string]int{}
}

// MaxSettleIterations bounds the combinational fixpoint iteration.
const MaxSettleIterations = 1000

// Names returns all hierarchical signal names, sorted.
func (s *Sim) Names() []string {
	out := make([]string, 0, len(s.sigs))
	for _, sg := range s.sigs {
		out = append(out, sg.name)
	}
	sort.Strings(out)
	return out
}

// Has reports whether a signal or memory with that hierarchical name exists.
func (s *Sim) Has(name string) bool { _, ok := s.byName[name]; return ok }

// Width returns the vector width (word width for memories), 0 if unknown name.
func (s *Sim) Width(name string) int {
	if sg, ok := s.byName[name]; ok {
		return sg.w
	}
	return 0
}

// IsMem reports whether name is a memory and returns its depth.
func (s *Sim) IsMem(name string) (int, bool) {
	if sg, ok := s.byName[name]; ok && sg.isMem {
		return sg.depth, true
	}
	return 0, false
}

// MemRange returns the smallest and largest valid index of a memory.
func (s *Sim) MemRange(name string) (lo, hi int, ok bool) {
	if sg, found := s.byName[name]; found && sg.isMem {
		return sg.memLo, sg.memLo + sg.depth - 1, true
	}
	return 0, 0, false
}

// Kind returns "wire", "reg" or "integer" ("" for unknown names).
func (s *Sim) Kind(name string) string {
	if sg, ok := s.byName[name]; ok {
		return sg.net
	}
	return ""
}

func (s *Sim) vector(name string) (*signal, error) {
	sg, ok := s.byName[name]
	if !ok {
		return nil, fmt.Errorf("vlog: no signal named %q", name)
	}
	if sg.isMem {
		return nil, fmt.Errorf("vlog: %q is a memory (use SetMem/GetMem)", name)
	}
	return sg, nil
}

func (s *Sim) memory(name string, idx int) (*signal, int, error) {
	sg, ok := s.byName[name]
	if !ok {
		return nil, 0, fmt.Errorf("vlog: no signal named %q", name)
	}
	if !sg.isMem {
		return nil, 0, fmt.Errorf("vlog: %q is not a memory", name)
	}
	slot := idx - sg.memLo
	if slot < 0 || slot >= sg.depth {
		return nil, 0, fmt.Errorf("vlog: index %d outside memory %q [%d..%d]", idx, name, sg.memLo, sg.memLo+sg.depth-1)
	}
	return sg, slot, nil
}

// Set forces a value onto any vector signal (masked to its width, marked
// known).  A net that has a driver is overwritten again by the next Settle.
func (s *Sim) Set(name string, v uint64) error {
	sg, err := s.vector(name)
	if err != nil {
		return err
	}
	sg.v, sg.x = mkVal(sg.w, v), zeroVal(sg.w)
	s.dirty = true
	return nil
}

// SetBig is Set for values wider than 64 bits.
func (s *Sim) SetBig(name string, v *big.Int) error {
	sg, err := s.vector(name)
	if err != nil {
		return err
	}
	if v.Sign() < 0 {
		return fmt.Errorf("vlog: SetBig(%q): negative value", name)
	}
	sg.v, sg.x = mkBig(sg.w, v), zeroVal(sg.w)
	s.dirty = true
	return nil
}

// SetUnknown marks every bit of a vector signal unknown.
func (s *Sim) SetUnknown(name string) error {
	sg, err := s.vector(name)
	if err != nil {
		return err
	}
	sg.v, sg.x = zeroVal(sg.w), onesVal(sg.w)
	s.dirty = true
	return nil
}

// Get returns the value of a vector signal (low 64 bits if wider) and
// whether all its bits are known.  Unknown bits read as 0.  Unknown names and
// memories yield (0,false).
func (s *Sim) Get(name string) (uint64, bool) {
	sg, ok := s.byName[name]
	if !ok || sg.isMem {
		return 0, false
	}
	return sg.v.uint64(), sg.x.isZero()
}

// GetX returns value bits and the mask of unknown bits (low 64 bits).
func (s *Sim) GetX(name string) (v, xmask uint64, ok bool) {
	sg, found := s.byName[name]
	if !found || sg.isMem {
		return 0, 0, false
	}
	return sg.v.uint64(), sg.x.uint64(), true
}

// GetBig returns the full value of a vector signal.
func (s *Sim) GetBig(name string) (*big.Int, bool) {
	sg, ok := s.byName[name]
	if !ok || sg.isMem {
		return new(big.Int), false
	}
	return new(big.Int).Set(sg.v.bigv()), sg.x.isZero()
}

// SetMem writes one memory word; idx is the declared (Verilog) index.
func (s *Sim) SetMem(name string, idx int, v uint64) error {
	sg, slot, err := s.memory(name, idx)
	if err != nil {
		return err
	}
	sg.mv[slot], sg.mx[slot] = mkVal(sg.w, v), zeroVal(sg.w)
	s.dirty = true
	return nil
}

// SetMemBig is SetMem for words wider than 64 bits.
func (s *Sim) SetMemBig(name string, idx int, v *big.Int) error {
	sg, slot, err := s.memory(name, idx)
	if err != nil {
		return err
	}
	if v.Sign() < 0 {
		return fmt.Errorf("vlog: SetMemBig(%q): negative value", name)
	}
	sg.mv[slot], sg.mx[slot] = mkBig(sg.w, v), zeroVal(sg.w)
	s.dirty = true
	return nil
}

// SetMemUnknown marks one memory word unknown.
func (s *Sim) SetMemUnknown(name string, idx int) error {
	sg, slot, err := s.memory(name, idx)
	if err != nil {
		return err
	}
	sg.mv[slot], sg.mx[slot] = zeroVal(sg.w), onesVal(sg.w)
	s.dirty = true
	return nil
}

// GetMem reads one memory word (low 64 bits); (0,false) for bad names/indices.
func (s *Sim) GetMem(name string, idx int) (uint64, bool) {
	sg, slot, err := s.memory(name, idx)
	if err != nil {
		return 0, false
	}
	return sg.mv[slot].uint64(), sg.mx[slot].isZero()
}

// GetMemBig reads one full memory word.
func (s *Sim) GetMemBig(name string, idx int) (*big.Int, bool) {
	sg, slot, err := s.memory(name, idx)
	if err != nil {
		return new(big.Int), false
	}
	return new(big.Int).Set(sg.mv[slot].bigv()), sg.mx[slot].isZero()
}

// TopInputs returns the names of the top module's input ports.
func (s *Sim) TopInputs() []string {
	var out []string
	for _, sg := range s.sigs {
		if sg.topInput {
			out = append(out, sg.name)
		}
	}
	sort.Strings(out)
	return out
}

// runComb evaluates one combinational process and reports a state change.
func (s *Sim) runComb(p *process) (bool, error) {
	if p.kind == pAssign {
		c := ctx{s: s, where: p.where}
		if err := c.assign(p.lhs, p.rhs, false); err != nil {
			return false, err
		}
		return c.changed, nil
	}
	c := ctx{s: s, where: p.where, overlay: true, nbaAsBlocking: true}
	if err := c.exec(p.body); err != nil {
		return false, err
	}
	return c.commitOverlay(nil), nil
}

// Settle iterates continuous assignments, port connections and always @*
// blocks until no signal changes any more.
func (s *Sim) Settle() error {
	if !s.dirty {
		return nil
	}
	var lastChanged []string
	for iter := 0; iter < MaxSettleIterations; iter++ {
		changed := false
		lastChanged = lastChanged[:0]
		for _, p := range s.comb {
			ch, err := s.runComb(p)
			if err != nil {
				return err
			}
			if ch {
				changed = true
				if len(lastChanged) < 8 {
					lastChanged = append(lastChanged, p.where)
				}
			}
		}
		if !changed {
			s.dirty = false
			return nil
		}
	}
	return fmt.Errorf("vlog: combinational logic did not settle after %d iterations (combinational loop or conflicting drivers?); still changing: %s",
		MaxSettleIterations, strings.Join(lastChanged, "; "))
}

// runEdge runs every always block sensitive to the given edge of the root
// signal.  All blocks read the pre-edge state; blocking assignments are
// private to their block until all blocks have run, then they are committed,
// followed by all non-blocking assignments in order.
func (s *Sim) runEdge(root int, pos bool, written map[int]bool) error {
	var ctxs []*ctx
	for _, p := range s.edge {
		hit := false
		for _, ev := range p.events {
			if ev.root == root && ev.pos == pos {
				hit = true
			}
		}
		if !hit {
			continue
		}
		c := s.newCtx(p.where, true)
		if err := c.exec(p.body); err != nil {
			return err
		}
		ctxs = append(ctxs, c)
	}
	for _, c := range ctxs {
		c.commitOverlay(written)
	}
	for _, c := range ctxs {
		c.applyNBA(written)
	}
	return nil
}

// Step simulates one full period of the named clock: settle with the clock
// low, rising edge, settle, falling edge, settle.
func (s *Sim) Step(clock string) error {
	clk, err := s.vector(clock)
	if err != nil {
		return err
	}
	written := map[int]bool{}
	s.lastWrites = nil
	setClk := func(v uint64) {
		nv := mkVal(clk.w, v)
		if !sameBits(clk.v, nv) || !clk.x.isZero() {
			clk.v, clk.x = nv, zeroVal(clk.w)
			s.dirty = true
		}
	}
	setClk(0)
	if err := s.Settle(); err != nil {
		return err
	}
	setClk(1)
	if err := s.runEdge(clk.id, true, written); err != nil {
		return err
	}
	if err := s.Settle(); err != nil {
		return err
	}
	setClk(0)
	if err := s.runEdge(clk.id, false, written); err != nil {
		return err
	}
	if err := s.Settle(); err != nil {
		return err
	}
	for id := range written {
		s.lastWrites = append(s.lastWrites, s.sigs[id].name)
	}
	sort.Strings(s.lastWrites)
	return nil
}

// LastWrites lists the variables/memories that received a procedural
// assignment (blocking or non-blocking, whether or not the value changed)
// during the edge phases of the last Step, sorted.
func (s *Sim) LastWrites() []string {
	return append([]string(nil), s.lastWrites...)
}

// ClockedBlocks returns, for diagnostics, "where -> clock root" strings for
// all edge-triggered always blocks.
func (s *Sim) ClockedBlocks() []string {
	var out []string
	for _, p := range s.edge {
		var evs []string
		for _, ev := range p.events {
			e := "negedge "
			if ev.pos {
				e = "posedge "
			}
			evs = append(evs, e+s.sigs[ev.root].name)
		}
		out = append(out, p.where+" -> "+strings.Join(evs, ", "))
	}
	return out
}

// State is an opaque copy of all signal and memory contents.
type State struct {
	v, x   []val
	mv, mx [][]val
}

// Snapshot copies the complete simulation state.
func (s *Sim) Snapshot() *State {
	st := &State{v: make([]val, len(s.sigs)), x: make([]val, len(s.sigs)),
		mv: make([][]val, len(s.sigs)), mx: make([][]val, len(s.sigs))}
	for i, sg := range s.sigs {
		if sg.isMem {
			st.mv[i] = append([]val(nil), sg.mv...)
			st.mx[i] = append([]val(nil), sg.mx...)
		} else {
			st.v[i], st.x[i] = sg.v, sg.x
		}
	}
	return st
}

// Restore puts back a state obtained from Snapshot on the same Sim.
func (s *Sim) Restore(st *State) error {
	if len(st.v) != len(s.sigs) {
		return fmt.Errorf("vlog: Restore: snapshot belongs to a different design")
	}
	for i, sg := range s.sigs {
		if sg.isMem {
			copy(sg.mv, st.mv[i])
			copy(sg.mx, st.mx[i])
		} else {
			sg.v, sg.x = st.v[i], st.x[i]
		}
	}
	s.dirty = true
	return nil
}
