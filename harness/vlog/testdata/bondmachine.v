module bondmachine(clk, reset, i0, i0_valid, i0_received, o0, o0_valid, o0_received, o1, o1_valid, o1_received);

	input clk, reset;
	input [7:0] i0;
	input i0_valid;
	output i0_received;
	//--------------Output Ports-----------------------
	output [7:0] o0;
	output o0_valid;
	input o0_received;
	output [7:0] o1;
	output o1_valid;
	input o1_received;



	wire [7:0] p0o0;
	wire p0o0_valid;
	wire p0o0_received;
	wire p1i0_received;
	wire [7:0] p0o1;
	wire p0o1_valid;
	wire p0o1_received;
	wire o1_received;
	wire [7:0] p1o0;
	wire p1o0_valid;
	wire p1o0_received;
	wire o0_received;
	wire [7:0] i0;
	wire i0_valid;
	wire i0_received;
	wire p0i0_received;


	//Instantiation of the Processors and Shared Objects
	a0 a0_inst(clk, reset, i0, i0_valid, p0i0_received, p0o0, p0o0_valid, p0o0_received, p0o1, p0o1_valid, p0o1_received);
	a1 a1_inst(clk, reset, p0o0, p0o0_valid, p1i0_received, p1o0, p1o0_valid, p1o0_received);

	assign o0 = p1o0;
	assign o0_valid = p1o0_valid;
	assign o1 = p0o1;
	assign o1_valid = p0o1_valid;

	assign p0o0_received = p1i0_received;
	assign p0o1_received = o1_received;
	assign p1o0_received = o0_received;
	assign i0_received = p0i0_received;

endmodule
