`timescale 1ns/1ps
module p0(clock_signal, reset_signal, rom_bus, rom_value, ram_din, ram_dout, ram_addr, ram_wren, ram_en, i0, i0_valid, i0_received, o0, o0_valid, o0_received, o1, o1_valid, o1_received);

	input clock_signal;
	input reset_signal;
	output  [3:0] rom_bus;
	input  [13:0] rom_value;
	input  [7:0] ram_dout;
	output [7:0] ram_din;
	output  [7:0] ram_addr;
	output ram_wren, ram_en;

	input [7:0] i0;
	input i0_valid;
	output i0_received;
	output [7:0] o0;
	output o0_valid;
	input o0_received;
	output [7:0] o1;
	output o1_valid;
	input o1_received;

			// Opcodes in the instructions, length according the number of the selected.
	localparam	ADD=4'b0000,          // Register add
			CLR=4'b0001,          // Clear register
			CPY=4'b0010,          // Copy from a register to another
			DEC=4'b0011,          // Decrement a register by 1
			I2R=4'b0100,          // Input to register
			INC=4'b0101,          // Increment a register by 1
			J=4'b0110,          // Jump to a program location
			JZ=4'b0111,          // Zero conditional jump
			MULT=4'b1000,          // Register mult
			NOP=4'b1001,          // No operation
			R2O=4'b1010,          // Register to output
			R2OWA=4'b1011,          // Register to output
			RSET=4'b1100;          // Register set value

	localparam	R0=2'b00,		// Registers in the intructions
			R1=2'b01,
			R2=2'b10,
			R3=2'b11;
	localparam			I0=1'b0;
	localparam			O0=1'b0,
			O1=1'b1;
	reg [7:0] _auxo0;
	reg [7:0] _auxo1;

	reg [7:0] _ram [0:255];		// Internal processor RAM

	(* KEEP = "TRUE" *) reg [3:0] _pc;		// Program counter

	// The number of registers are 2^R, two letters and an underscore as identifier , maximum R=8 and 265 rigisters
	(* KEEP = "TRUE" *) reg [7:0] _r0;
	(* KEEP = "TRUE" *) reg [7:0] _r1;
	(* KEEP = "TRUE" *) reg [7:0] _r2;
	(* KEEP = "TRUE" *) reg [7:0] _r3;

	wire [13:0] current_instruction;
	assign current_instruction=rom_value;


	reg i0_recv;

	always @(posedge clock_signal, posedge reset_signal)
	begin
		if (reset_signal)
		begin
			i0_recv <= #1 1'b0;
		end
		else
		begin
			case(current_instruction[13:10])
				I2R: begin
					case (current_instruction[7])
					I0 : begin
						if (i0_valid)
						begin
							i0_recv <= #1 1'b1;
						end
					end
					default: begin
						if (!i0_valid)
						begin
							i0_recv <= #1 1'b0;
						end
					end
					endcase
				end
				default: begin
					if (!i0_valid)
					begin
						i0_recv <= #1 1'b0;
					end
				end
			endcase
		end
	end

	reg o0_val;
	reg o1_val;
	reg waitsm;
	initial waitsm = 1'b0;

	always @(posedge clock_signal, posedge reset_signal)
	begin
		if (reset_signal)
		begin
			o0_val <= #1 1'b0;
		end
		else
		begin
			case(current_instruction[13:10])
				R2O: begin
					case (current_instruction[7])
					O0 : begin
						o0_val <= 1'b1;
					end
					default: begin
						if (o0_received)
						begin
							o0_val <= #1 1'b0;
						end
					end
					endcase
				end
				R2OWA: begin
					case (current_instruction[7])
					O0 : begin
						if (waitsm == 1'b1) o0_val <= 1'b1;
					end
					default: begin
						if (o0_received)
						begin
							o0_val <= #1 1'b0;
						end
					end
					endcase
				end
				default: begin
					if (o0_received)
					begin
						o0_val <= #1 1'b0;
					end
				end
			endcase
		end
	end
	always @(posedge clock_signal, posedge reset_signal)
	begin
		if (reset_signal)
		begin
			o1_val <= #1 1'b0;
		end
		else
		begin
			case(current_instruction[13:10])
				R2O: begin
					case (current_instruction[7])
					O1 : begin
						o1_val <= 1'b1;
					end
					default: begin
						if (o1_received)
						begin
							o1_val <= #1 1'b0;
						end
					end
					endcase
				end
				R2OWA: begin
					case (current_instruction[7])
					O1 : begin
						if (waitsm == 1'b1) o1_val <= 1'b1;
					end
					default: begin
						if (o1_received)
						begin
							o1_val <= #1 1'b0;
						end
					end
					endcase
				end
				default: begin
					if (o1_received)
					begin
						o1_val <= #1 1'b0;
					end
				end
			endcase
		end
	end

	always @(posedge clock_signal, posedge reset_signal)
	begin
		if(reset_signal)
		begin
			_pc <= #1 4'h0;
			_r0 <= #1 8'h0;
			_r1 <= #1 8'h0;
			_r2 <= #1 8'h0;
			_r3 <= #1 8'h0;
		end
		else begin
			// ha placeholder
			$display("Program Counter:%d", _pc);
			$display("Instruction:%b", rom_value);
			$display("Registers r0:%b r1:%b r2:%b r3:%b ", _r0, _r1, _r2, _r3);
				case(current_instruction[13:10])
					ADD: begin
						case (current_instruction[9:8])
						R0 : begin
							case (current_instruction[7:6])
							R0 : begin
								_r0 <= #1 _r0 + _r0;
								$display("ADD R0 R0");
							end
							R1 : begin
								_r0 <= #1 _r1 + _r0;
								$display("ADD R0 R1");
							end
							R2 : begin
								_r0 <= #1 _r2 + _r0;
								$display("ADD R0 R2");
							end
							R3 : begin
								_r0 <= #1 _r3 + _r0;
								$display("ADD R0 R3");
							end
							endcase
						end
						R1 : begin
							case (current_instruction[7:6])
							R0 : begin
								_r1 <= #1 _r0 + _r1;
								$display("ADD R1 R0");
							end
							R1 : begin
								_r1 <= #1 _r1 + _r1;
								$display("ADD R1 R1");
							end
							R2 : begin
								_r1 <= #1 _r2 + _r1;
								$display("ADD R1 R2");
							end
							R3 : begin
								_r1 <= #1 _r3 + _r1;
								$display("ADD R1 R3");
							end
							endcase
						end
						R2 : begin
							case (current_instruction[7:6])
							R0 : begin
								_r2 <= #1 _r0 + _r2;
								$display("ADD R2 R0");
							end
							R1 : begin
								_r2 <= #1 _r1 + _r2;
								$display("ADD R2 R1");
							end
							R2 : begin
								_r2 <= #1 _r2 + _r2;
								$display("ADD R2 R2");
							end
							R3 : begin
								_r2 <= #1 _r3 + _r2;
								$display("ADD R2 R3");
							end
							endcase
						end
						R3 : begin
							case (current_instruction[7:6])
							R0 : begin
								_r3 <= #1 _r0 + _r3;
								$display("ADD R3 R0");
							end
							R1 : begin
								_r3 <= #1 _r1 + _r3;
								$display("ADD R3 R1");
							end
							R2 : begin
								_r3 <= #1 _r2 + _r3;
								$display("ADD R3 R2");
							end
							R3 : begin
								_r3 <= #1 _r3 + _r3;
								$display("ADD R3 R3");
							end
							endcase
						end
						endcase
						_pc <= #1 _pc + 1'b1;
					end
					CLR: begin
						case (current_instruction[9:8])
						R0 : begin
							_r0 <= #1 'b0;
							$display("CLR R0");
						end
						R1 : begin
							_r1 <= #1 'b0;
							$display("CLR R1");
						end
						R2 : begin
							_r2 <= #1 'b0;
							$display("CLR R2");
						end
						R3 : begin
							_r3 <= #1 'b0;
							$display("CLR R3");
						end
						endcase
						_pc <= #1 _pc + 1'b1;
					end
					CPY: begin
						case (current_instruction[9:8])
						R0 : begin
							case (current_instruction[7:6])
							R0 : begin
								_r0 <= #1 _r0;
								$display("CPY R0 R0");
							end
							R1 : begin
								_r0 <= #1 _r1;
								$display("CPY R0 R1");
							end
							R2 : begin
								_r0 <= #1 _r2;
								$display("CPY R0 R2");
							end
							R3 : begin
								_r0 <= #1 _r3;
								$display("CPY R0 R3");
							end
							endcase
						end
						R1 : begin
							case (current_instruction[7:6])
							R0 : begin
								_r1 <= #1 _r0;
								$display("CPY R1 R0");
							end
							R1 : begin
								_r1 <= #1 _r1;
								$display("CPY R1 R1");
							end
							R2 : begin
								_r1 <= #1 _r2;
								$display("CPY R1 R2");
							end
							R3 : begin
								_r1 <= #1 _r3;
								$display("CPY R1 R3");
							end
							endcase
						end
						R2 : begin
							case (current_instruction[7:6])
							R0 : begin
								_r2 <= #1 _r0;
								$display("CPY R2 R0");
							end
							R1 : begin
								_r2 <= #1 _r1;
								$display("CPY R2 R1");
							end
							R2 : begin
								_r2 <= #1 _r2;
								$display("CPY R2 R2");
							end
							R3 : begin
								_r2 <= #1 _r3;
								$display("CPY R2 R3");
							end
							endcase
						end
						R3 : begin
							case (current_instruction[7:6])
							R0 : begin
								_r3 <= #1 _r0;
								$display("CPY R3 R0");
							end
							R1 : begin
								_r3 <= #1 _r1;
								$display("CPY R3 R1");
							end
							R2 : begin
								_r3 <= #1 _r2;
								$display("CPY R3 R2");
							end
							R3 : begin
								_r3 <= #1 _r3;
								$display("CPY R3 R3");
							end
							endcase
						end
						endcase
						_pc <= #1 _pc + 1'b1;
					end
					DEC: begin
						case (current_instruction[9:8])
						R0 : begin
							_r0 <= _r0 - 1'b1;
							$display("DEC R0");
						end
						R1 : begin
							_r1 <= _r1 - 1'b1;
							$display("DEC R1");
						end
						R2 : begin
							_r2 <= _r2 - 1'b1;
							$display("DEC R2");
						end
						R3 : begin
							_r3 <= _r3 - 1'b1;
							$display("DEC R3");
						end
						endcase
						_pc <= #1 _pc + 1'b1;
					end
					I2R: begin
						case (current_instruction[9:8])
						R0 : begin
							case (current_instruction[7])
							I0 : begin
								_r0 <= #1 i0;
								$display("I2R R0 I0");
							end
							endcase
						end
						R1 : begin
							case (current_instruction[7])
							I0 : begin
								_r1 <= #1 i0;
								$display("I2R R1 I0");
							end
							endcase
						end
						R2 : begin
							case (current_instruction[7])
							I0 : begin
								_r2 <= #1 i0;
								$display("I2R R2 I0");
							end
							endcase
						end
						R3 : begin
							case (current_instruction[7])
							I0 : begin
								_r3 <= #1 i0;
								$display("I2R R3 I0");
							end
							endcase
						end
						endcase
						_pc <= #1 _pc + 1'b1;
					end
					INC: begin
						case (current_instruction[9:8])
						R0 : begin
							_r0 <= #1 _r0 + 1'b1;
							$display("INC R0");
						end
						R1 : begin
							_r1 <= #1 _r1 + 1'b1;
							$display("INC R1");
						end
						R2 : begin
							_r2 <= #1 _r2 + 1'b1;
							$display("INC R2");
						end
						R3 : begin
							_r3 <= #1 _r3 + 1'b1;
							$display("INC R3");
						end
						endcase
						_pc <= #1 _pc + 1'b1;
					end
					J: begin
						_pc <= #1 current_instruction[9:6];
						$display("J ", current_instruction[9:6]);
					end
					JZ: begin
						case (current_instruction[9:8])
							R0 : begin
								if(_r0 == 'b0) begin
								_pc <= #1 current_instruction[7:4];
								end
								else begin
									_pc <= #1 _pc + 1'b1;
								end
								$display("JZ R0 ",_r0);
							end
							R1 : begin
								if(_r1 == 'b0) begin
								_pc <= #1 current_instruction[7:4];
								end
								else begin
									_pc <= #1 _pc + 1'b1;
								end
								$display("JZ R1 ",_r1);
							end
							R2 : begin
								if(_r2 == 'b0) begin
								_pc <= #1 current_instruction[7:4];
								end
								else begin
									_pc <= #1 _pc + 1'b1;
								end
								$display("JZ R2 ",_r2);
							end
							R3 : begin
								if(_r3 == 'b0) begin
								_pc <= #1 current_instruction[7:4];
								end
								else begin
									_pc <= #1 _pc + 1'b1;
								end
								$display("JZ R3 ",_r3);
							end
						endcase
					end
					MULT: begin
						case (current_instruction[9:8])
						R0 : begin
							case (current_instruction[7:6])
							R0 : begin
								_r0 <= #1 _r0 * _r0;
								$display("MULT R0 R0");
							end
							R1 : begin
								_r0 <= #1 _r1 * _r0;
								$display("MULT R0 R1");
							end
							R2 : begin
								_r0 <= #1 _r2 * _r0;
								$display("MULT R0 R2");
							end
							R3 : begin
								_r0 <= #1 _r3 * _r0;
								$display("MULT R0 R3");
							end
							endcase
						end
						R1 : begin
							case (current_instruction[7:6])
							R0 : begin
								_r1 <= #1 _r0 * _r1;
								$display("MULT R1 R0");
							end
							R1 : begin
								_r1 <= #1 _r1 * _r1;
								$display("MULT R1 R1");
							end
							R2 : begin
								_r1 <= #1 _r2 * _r1;
								$display("MULT R1 R2");
							end
							R3 : begin
								_r1 <= #1 _r3 * _r1;
								$display("MULT R1 R3");
							end
							endcase
						end
						R2 : begin
							case (current_instruction[7:6])
							R0 : begin
								_r2 <= #1 _r0 * _r2;
								$display("MULT R2 R0");
							end
							R1 : begin
								_r2 <= #1 _r1 * _r2;
								$display("MULT R2 R1");
							end
							R2 : begin
								_r2 <= #1 _r2 * _r2;
								$display("MULT R2 R2");
							end
							R3 : begin
								_r2 <= #1 _r3 * _r2;
								$display("MULT R2 R3");
							end
							endcase
						end
						R3 : begin
							case (current_instruction[7:6])
							R0 : begin
								_r3 <= #1 _r0 * _r3;
								$display("MULT R3 R0");
							end
							R1 : begin
								_r3 <= #1 _r1 * _r3;
								$display("MULT R3 R1");
							end
							R2 : begin
								_r3 <= #1 _r2 * _r3;
								$display("MULT R3 R2");
							end
							R3 : begin
								_r3 <= #1 _r3 * _r3;
								$display("MULT R3 R3");
							end
							endcase
						end
						endcase
						_pc <= #1 _pc + 1'b1;
					end
					NOP: begin
						$display("NOP");
						_pc <= #1 _pc + 1'b1;
					end
					R2O: begin
						case (current_instruction[9:8])
						R0 : begin
							case (current_instruction[7])
							O0 : begin
								_auxo0 <= #1 _r0;
								$display("R2O R0 O0");
							end
							O1 : begin
								_auxo1 <= #1 _r0;
								$display("R2O R0 O1");
							end
							endcase
						end
						R1 : begin
							case (current_instruction[7])
							O0 : begin
								_auxo0 <= #1 _r1;
								$display("R2O R1 O0");
							end
							O1 : begin
								_auxo1 <= #1 _r1;
								$display("R2O R1 O1");
							end
							endcase
						end
						R2 : begin
							case (current_instruction[7])
							O0 : begin
								_auxo0 <= #1 _r2;
								$display("R2O R2 O0");
							end
							O1 : begin
								_auxo1 <= #1 _r2;
								$display("R2O R2 O1");
							end
							endcase
						end
						R3 : begin
							case (current_instruction[7])
							O0 : begin
								_auxo0 <= #1 _r3;
								$display("R2O R3 O0");
							end
							O1 : begin
								_auxo1 <= #1 _r3;
								$display("R2O R3 O1");
							end
							endcase
						end
						endcase
						_pc <= #1 _pc + 1'b1;
					end
					R2OWA: begin
						case (current_instruction[9:8])
						R0 : begin
							case (current_instruction[7])
							O0 : begin
								if (waitsm == 1'b0) begin
									if (!o0_received) begin
										waitsm <= 1'b1;
									end
								end else begin
									_auxo0 <= #1 _r0;
									if (o0_received) begin
										_pc <= #1 _pc + 1'b1;
										waitsm <= 1'b0;
									end
								end
								$display("R2OWA R0 O0");
							end
							O1 : begin
								if (waitsm == 1'b0) begin
									if (!o1_received) begin
										waitsm <= 1'b1;
									end
								end else begin
									_auxo1 <= #1 _r0;
									if (o1_received) begin
										_pc <= #1 _pc + 1'b1;
										waitsm <= 1'b0;
									end
								end
								$display("R2OWA R0 O1");
							end
							endcase
						end
						R1 : begin
							case (current_instruction[7])
							O0 : begin
								if (waitsm == 1'b0) begin
									if (!o0_received) begin
										waitsm <= 1'b1;
									end
								end else begin
									_auxo0 <= #1 _r1;
									if (o0_received) begin
										_pc <= #1 _pc + 1'b1;
										waitsm <= 1'b0;
									end
								end
								$display("R2OWA R1 O0");
							end
							O1 : begin
								if (waitsm == 1'b0) begin
									if (!o1_received) begin
										waitsm <= 1'b1;
									end
								end else begin
									_auxo1 <= #1 _r1;
									if (o1_received) begin
										_pc <= #1 _pc + 1'b1;
										waitsm <= 1'b0;
									end
								end
								$display("R2OWA R1 O1");
							end
							endcase
						end
						R2 : begin
							case (current_instruction[7])
							O0 : begin
								if (waitsm == 1'b0) begin
									if (!o0_received) begin
										waitsm <= 1'b1;
									end
								end else begin
									_auxo0 <= #1 _r2;
									if (o0_received) begin
										_pc <= #1 _pc + 1'b1;
										waitsm <= 1'b0;
									end
								end
								$display("R2OWA R2 O0");
							end
							O1 : begin
								if (waitsm == 1'b0) begin
									if (!o1_received) begin
										waitsm <= 1'b1;
									end
								end else begin
									_auxo1 <= #1 _r2;
									if (o1_received) begin
										_pc <= #1 _pc + 1'b1;
										waitsm <= 1'b0;
									end
								end
								$display("R2OWA R2 O1");
							end
							endcase
						end
						R3 : begin
							case (current_instruction[7])
							O0 : begin
								if (waitsm == 1'b0) begin
									if (!o0_received) begin
										waitsm <= 1'b1;
									end
								end else begin
									_auxo0 <= #1 _r3;
									if (o0_received) begin
										_pc <= #1 _pc + 1'b1;
										waitsm <= 1'b0;
									end
								end
								$display("R2OWA R3 O0");
							end
							O1 : begin
								if (waitsm == 1'b0) begin
									if (!o1_received) begin
										waitsm <= 1'b1;
									end
								end else begin
									_auxo1 <= #1 _r3;
									if (o1_received) begin
										_pc <= #1 _pc + 1'b1;
										waitsm <= 1'b0;
									end
								end
								$display("R2OWA R3 O1");
							end
							endcase
						end
						endcase
					end
					RSET: begin
						case (current_instruction[9:8])
						R0 : begin
							_r0 <= #1 current_instruction[7:0];
							$display("RSET R0 ",_r0);
						end
						R1 : begin
							_r1 <= #1 current_instruction[7:0];
							$display("RSET R1 ",_r1);
						end
						R2 : begin
							_r2 <= #1 current_instruction[7:0];
							$display("RSET R2 ",_r2);
						end
						R3 : begin
							_r3 <= #1 current_instruction[7:0];
							$display("RSET R3 ",_r3);
						end
						endcase
						_pc <= #1 _pc + 1'b1;
					end
					default : begin
						$display("Unknown Opcode");
						_pc <= #1 _pc + 1'b1;
					end
				endcase
			// ha placeholder
		end
	end
	assign rom_bus = _pc;
	assign i0_received = i0_recv;
	assign o0 = _auxo0;
	assign o0_valid = o0_val;
	assign o1 = _auxo1;
	assign o1_valid = o1_val;
endmodule
