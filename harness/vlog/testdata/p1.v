`timescale 1ns/1ps
module p1(clock_signal, reset_signal, rom_bus, rom_value, ram_din, ram_dout, ram_addr, ram_wren, ram_en, i0, i0_valid, i0_received, o0, o0_valid, o0_received);

	input clock_signal;
	input reset_signal;
	output  [1:0] rom_bus;
	input  [3:0] rom_value;
	input  [7:0] ram_dout;
	output [7:0] ram_din;
	output  [7:0] ram_addr;
	output ram_wren, ram_en;

	input [7:0] i0;
	input i0_valid;
	output i0_received;
	output [7:0] o0;
	output o0_valid;
	input o0_received;

			// Opcodes in the instructions, length according the number of the selected.
	localparam	I2RW=2'b00,          // Sync input to register
			INC=2'b01,          // Increment a register by 1
			J=2'b10,          // Jump to a program location
			R2OWA=2'b11;          // Register to output

	localparam	R0=1'b0,		// Registers in the intructions
			R1=1'b1;
	localparam			I0=1'b0;
	localparam			O0=1'b0;
	reg [7:0] _auxo0;

	reg [7:0] _ram [0:255];		// Internal processor RAM

	(* KEEP = "TRUE" *) reg [1:0] _pc;		// Program counter

	// The number of registers are 2^R, two letters and an underscore as identifier , maximum R=8 and 265 rigisters
	(* KEEP = "TRUE" *) reg [7:0] _r0;
	(* KEEP = "TRUE" *) reg [7:0] _r1;

	wire [3:0] current_instruction;
	assign current_instruction=rom_value;


	reg i0_recv;

	always @(posedge clock_signal, posedge reset_signal)
	begin
		if (reset_signal)
		begin
			i0_recv <= #1 1'b0;
		end
		else
		begin
			case(current_instruction[3:2])
				I2RW: begin
					case (current_instruction[0])
					I0 : begin
						if (i0_valid)
						begin
							i0_recv <= #1 1'b1;
						end else begin
							i0_recv <= #1 1'b0;
						end
					end
					default: begin
						if (!i0_valid)
						begin
							i0_recv <= #1 1'b0;
						end
					end
					endcase
				end
				default: begin
					if (!i0_valid)
					begin
						i0_recv <= #1 1'b0;
					end
				end
			endcase
		end
	end

	reg o0_val;
	reg waitsm;
	initial waitsm = 1'b0;

	always @(posedge clock_signal, posedge reset_signal)
	begin
		if (reset_signal)
		begin
			o0_val <= #1 1'b0;
		end
		else
		begin
			case(current_instruction[3:2])
				R2OWA: begin
					case (current_instruction[0])
					O0 : begin
						if (waitsm == 1'b1) o0_val <= 1'b1;
					end
					default: begin
						if (o0_received)
						begin
							o0_val <= #1 1'b0;
						end
					end
					endcase
				end
				default: begin
					if (o0_received)
					begin
						o0_val <= #1 1'b0;
					end
				end
			endcase
		end
	end

	always @(posedge clock_signal, posedge reset_signal)
	begin
		if(reset_signal)
		begin
			_pc <= #1 2'h0;
			_r0 <= #1 8'h0;
			_r1 <= #1 8'h0;
		end
		else begin
			// ha placeholder
			$display("Program Counter:%d", _pc);
			$display("Instruction:%b", rom_value);
			$display("Registers r0:%b r1:%b ", _r0, _r1);
				case(current_instruction[3:2])
					I2RW: begin
						case (current_instruction[1])
						R0 : begin
							case (current_instruction[0])
							I0 : begin
								if (i0_valid)
								begin
									_r0 <= #1 i0;
									_pc <= #1 _pc + 1'b1;
									$display("I2RW R0 I0");
								end
							end
							endcase
						end
						R1 : begin
							case (current_instruction[0])
							I0 : begin
								if (i0_valid)
								begin
									_r1 <= #1 i0;
									_pc <= #1 _pc + 1'b1;
									$display("I2RW R1 I0");
								end
							end
							endcase
						end
						endcase
					end
					INC: begin
						case (current_instruction[1])
						R0 : begin
							_r0 <= #1 _r0 + 1'b1;
							$display("INC R0");
						end
						R1 : begin
							_r1 <= #1 _r1 + 1'b1;
							$display("INC R1");
						end
						endcase
						_pc <= #1 _pc + 1'b1;
					end
					J: begin
						_pc <= #1 current_instruction[1:0];
						$display("J ", current_instruction[1:0]);
					end
					R2OWA: begin
						case (current_instruction[1])
						R0 : begin
							case (current_instruction[0])
							O0 : begin
								if (waitsm == 1'b0) begin
									if (!o0_received) begin
										waitsm <= 1'b1;
									end
								end else begin
									_auxo0 <= #1 _r0;
									if (o0_received) begin
										_pc <= #1 _pc + 1'b1;
										waitsm <= 1'b0;
									end
								end
								$display("R2OWA R0 O0");
							end
							endcase
						end
						R1 : begin
							case (current_instruction[0])
							O0 : begin
								if (waitsm == 1'b0) begin
									if (!o0_received) begin
										waitsm <= 1'b1;
									end
								end else begin
									_auxo0 <= #1 _r1;
									if (o0_received) begin
										_pc <= #1 _pc + 1'b1;
										waitsm <= 1'b0;
									end
								end
								$display("R2OWA R1 O0");
							end
							endcase
						end
						endcase
					end
					default : begin
						$display("Unknown Opcode");
						_pc <= #1 _pc + 1'b1;
					end
				endcase
			// ha placeholder
		end
	end
	assign rom_bus = _pc;
	assign i0_received = i0_recv;
	assign o0 = _auxo0;
	assign o0_valid = o0_val;
endmodule
