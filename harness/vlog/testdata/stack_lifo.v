
module bmstack_lifo(clk,
    reset,
    sender1Data,
    sender1Write,
    sender1Ack,
    receiver1Data,
    receiver1Read,
    receiver1Ack,
    empty,
    full
);
    input clk;
    input reset;
    output empty;
    output full;
    input [7:0] sender1Data;
    input sender1Write;
    output reg sender1Ack;
    output reg [7:0] receiver1Data;
    input receiver1Read;
    output reg receiver1Ack;

    reg [7:0] memory[3:0];
    reg [2:0] sp;

    assign empty = (sp==0)? 1'b1:1'b0; 
    assign full = (sp==4)? 1'b1:1'b0;
    
    wire readneed;
    wire writeneed;

    assign writeneed = ( 1'b0
            | sender1Write );

    assign readneed = ( 1'b0
            | receiver1Read );

    reg [0:0] sendSM;
    //
    //localparam sendSMsender1 = 1'd0;
    //
    
    reg [0:0] recvSM;
    //
    //localparam recvSMreceiver1 = 1'd0;
    //

    integer i;

    always @(posedge clk) begin
        if (reset) begin
            sp <= 3'd0;
            receiver1Data <= 8'd0;
            receiver1Ack <= 1'b0;
            sender1Ack <= 1'b0;
            sendSM <= 1'd0;
            recvSM <= 1'd0;
            for (i=0;i<4;i=i+1) begin
                memory[i]<=8'd0;
            end
        end
        else begin
            // Read state machine part
            if (readneed && !empty) begin
                case (recvSM)
                1'd0: begin
                    if (receiver1Read && !receiver1Ack) begin
                        receiver1Data[7:0] <= memory[sp-1];
                        sp <= sp - 1;
                    end
                    recvSM <= 1'd0;
                end
                endcase
            end
            // Write state machine part
            else if (writeneed && !full) begin
                case (sendSM)
                1'd0: begin
                    if (sender1Write && !sender1Ack) begin
                        memory[sp] <= sender1Data[7:0];
                        sp <= sp + 1;
                    end
                    sendSM <= 1'd0;
                end
                endcase
            end

            // Read ack process
            if (receiver1Read && !receiver1Ack && recvSM==1'd0 && !empty) begin
                receiver1Ack <= 1'b1;
            end
            else begin
                if (!receiver1Read) begin
                    receiver1Ack <= 1'b0;
                end
            end

            // Write ack process
            if (!(readneed && !empty) && sender1Write && !sender1Ack && sendSM==1'd0 && !full) begin
                sender1Ack <= 1'b1;
            end
            else begin
                if (!sender1Write) begin
                    sender1Ack <= 1'b0;
                end
            end
        end
    end
endmodule
