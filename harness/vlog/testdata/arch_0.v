`timescale 1ns/1ps
module a0(clock_signal, reset_signal, i0, i0_valid , i0_received, o0, o0_valid, o0_received, o1, o1_valid, o1_received);

	input clock_signal;
	input reset_signal;

	input [7:0] i0;
	input i0_valid;
	output i0_received;
	output [7:0] o0;
	output o0_valid;
	input o0_received;
	output [7:0] o1;
	output o1_valid;
	input o1_received;

	wire [3:0] rom_bus;
	wire [13:0] rom_value;

	wire [7:0] a0din;
	wire [7:0] a0dout;
	wire [7:0] a0addr;
	wire a0wren;
	wire a0en;

	p0 p0_instance(clock_signal, reset_signal, rom_bus, rom_value, a0din, a0dout, a0addr, a0wren, a0en, i0, i0_valid , i0_received, o0, o0_valid, o0_received, o1, o1_valid, o1_received);
	p0rom p0rom_instance(rom_bus, rom_value);
	p0ram p0ram_instance(clock_signal, reset_signal, a0din, a0dout, a0addr, a0wren, a0en);

endmodule
