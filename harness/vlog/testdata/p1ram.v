`timescale 1ns/1ps
module p1ram(clk, rst, din, dout, addr, wren, en);

	//--------------Input Ports-----------------------
	input clk;
	input rst;
	input [7:0] addr;
	input [7:0] din;
	input wren;
	input en;

	//--------------Inout Ports-----------------------
	output [7:0] dout;

	//--------------Reg-------------------------------
	reg [7:0] mem [0:255];

	reg [7:0] dout_i;

	// Memory Write Block  
	// Write Operation we = 1 
	always @ (posedge clk) 
	begin : MEM_WRITE 
		integer k; 
		if (rst)
		begin 
		end 
		else if (wren)
			mem[addr] <= #1 din;
	end 

	// Memory Read Block
	// Read Operation when we = 0 and oe = 1 
	always @ (posedge clk) 
	begin : MEM_READ 
		if (!wren)
			dout_i <= #1 mem[addr];
	end

	assign dout = dout_i;

endmodule 
