`timescale 1ns/1ps
module p0rom(input [3:0] rom_bus, output [13:0] rom_value);
	reg [13:0] _rom [0:15];
	initial
	begin
	_rom[0] = 14'b00010000000000;
	_rom[1] = 14'b11000100000011;
	_rom[2] = 14'b01010000000000;
	_rom[3] = 14'b00000001000000;
	_rom[4] = 14'b10000001000000;
	_rom[5] = 14'b00110000000000;
	_rom[6] = 14'b00101000000000;
	_rom[7] = 14'b10110000000000;
	_rom[8] = 14'b01001000000000;
	_rom[9] = 14'b10101010000000;
	_rom[10] = 14'b01111000100000;
	_rom[11] = 14'b10010000000000;
	_rom[12] = 14'b01100010000000;
	end
	assign rom_value = _rom[rom_bus];
endmodule
