`timescale 1ns/1ps
module a1(clock_signal, reset_signal, i0, i0_valid , i0_received, o0, o0_valid, o0_received);

	input clock_signal;
	input reset_signal;

	input [7:0] i0;
	input i0_valid;
	output i0_received;
	output [7:0] o0;
	output o0_valid;
	input o0_received;

	wire [1:0] rom_bus;
	wire [3:0] rom_value;

	wire [7:0] a1din;
	wire [7:0] a1dout;
	wire [7:0] a1addr;
	wire a1wren;
	wire a1en;

	p1 p1_instance(clock_signal, reset_signal, rom_bus, rom_value, a1din, a1dout, a1addr, a1wren, a1en, i0, i0_valid , i0_received, o0, o0_valid, o0_received);
	p1rom p1rom_instance(rom_bus, rom_value);
	p1ram p1ram_instance(clock_signal, reset_signal, a1din, a1dout, a1addr, a1wren, a1en);

endmodule
