`timescale 1ns/1ps
module p1rom(input [1:0] rom_bus, output [3:0] rom_value);
	reg [3:0] _rom [0:3];
	initial
	begin
	_rom[0] = 4'b0000;
	_rom[1] = 4'b0100;
	_rom[2] = 4'b1100;
	_rom[3] = 4'b1000;
	end
	assign rom_value = _rom[rom_bus];
endmodule
