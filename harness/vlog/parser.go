package vlog

import (
	"fmt"
	"strings"
)

type parser struct {
	toks []token
	i    int
	src  string
	mod  string // current module name for error messages
}

type parseError struct{ msg string }

func (e *parseError) Error() string { return e.msg }

func (p *parser) errAt(line int, format string, a ...interface{}) error {
	where := fmt.Sprintf("line %d", line)
	if p.mod != "" {
		where = fmt.Sprintf("module %s line %d", p.mod, line)
	}
	return &parseError{"vlog: " + where + ": " + fmt.Sprintf(format, a...)}
}

func (p *parser) peek() token { return p.toks[p.i] }
func (p *parser) next() token {
	t := p.toks[p.i]
	if t.kind != tEOF {
		p.i++
	}
	return t
}

// isOp reports whether the next token is the given operator/punctuation.
func (p *parser) isOp(s string) bool {
	t := p.peek()
	return t.kind == tOp && t.text == s
}

// isKw reports whether the next token is the given keyword.
func (p *parser) isKw(s string) bool {
	t := p.peek()
	return t.kind == tIdent && t.text == s
}

func (p *parser) acceptOp(s string) bool {
	if p.isOp(s) {
		p.i++
		return true
	}
	return false
}

func (p *parser) acceptKw(s string) bool {
	if p.isKw(s) {
		p.i++
		return true
	}
	return false
}

func (p *parser) expectOp(s string) error {
	if !p.acceptOp(s) {
		t := p.peek()
		return p.errAt(t.line, "expected %q, found %q", s, t.text)
	}
	return nil
}

var keywords = map[string]bool{}

func init() {
	for _, k := range strings.Fields(`always and assign automatic begin buf bufif0 bufif1 case casex casez cell cmos config
		deassign default defparam design disable edge else end endcase endconfig endfunction endgenerate endmodule
		endprimitive endspecify endtable endtask event for force forever fork function generate genvar highz0 highz1
		if ifnone incdir include initial inout input instance integer join large liblist library localparam macromodule
		medium module nand negedge nmos nor noshowcancelled not notif0 notif1 or output parameter pmos posedge primitive
		pull0 pull1 pulldown pullup pulsestyle_onevent pulsestyle_ondetect rcmos real realtime reg release repeat rnmos
		rpmos rtran rtranif0 rtranif1 scalared showcancelled signed small specify specparam strong0 strong1 supply0
		supply1 table task time tran tranif0 tranif1 tri tri0 tri1 triand trior trireg unsigned use uwire vectored wait
		wand weak0 weak1 while wire wor xnor xor`) {
		keywords[k] = true
	}
}

func (p *parser) ident() (string, int, error) {
	t := p.peek()
	if t.kind != tIdent || keywords[t.text] {
		return "", t.line, p.errAt(t.line, "expected identifier, found %q", t.text)
	}
	p.i++
	return t.text, t.line, nil
}

// textOf returns the source text of tokens [a,b) with whitespace and comments
// collapsed to single spaces.
func (p *parser) textOf(a, b int) string {
	var sb strings.Builder
	for k := a; k < b && k < len(p.toks); k++ {
		if k > a && p.toks[k].pos > p.toks[k-1].end {
			sb.WriteByte(' ')
		}
		sb.WriteString(p.toks[k].text)
	}
	return sb.String()
}

// parseSource parses all modules of one source string.
func parseSource(src string) ([]*module, error) {
	toks, err := lex(src)
	if err != nil {
		return nil, fmt.Errorf("vlog: %v", err)
	}
	p := &parser{toks: toks, src: src}
	var mods []*module
	for p.peek().kind != tEOF {
		if p.acceptOp(";") {
			continue
		}
		if p.isKw("module") || p.isKw("macromodule") {
			m, err := p.parseModule()
			if err != nil {
				return nil, err
			}
			mods = append(mods, m)
			continue
		}
		t := p.peek()
		return nil, p.errAt(t.line, "expected 'module', found %q", t.text)
	}
	return mods, nil
}

func (p *parser) parseModule() (*module, error) {
	p.mod = ""
	start := p.next() // module
	name, _, err := p.ident()
	if err != nil {
		return nil, err
	}
	p.mod = name
	m := &module{name: name, line: start.line}
	// #( parameter ... )
	if p.acceptOp("#") {
		if err := p.expectOp("("); err != nil {
			return nil, err
		}
		for !p.isOp(")") {
			d := &declItem{isParam: true, line: p.peek().line}
			p.acceptKw("parameter")
			if p.isKw("signed") {
				return nil, p.errAt(p.peek().line, "unsupported: signed parameter")
			}
			if p.isKw("integer") {
				p.next()
			}
			if p.isOp("[") {
				if d.rng, err = p.parseRange(); err != nil {
					return nil, err
				}
			}
			pn, ln, err := p.ident()
			if err != nil {
				return nil, err
			}
			if err := p.expectOp("="); err != nil {
				return nil, err
			}
			e, err := p.parseExpr()
			if err != nil {
				return nil, err
			}
			d.names = []declName{{name: pn, init: e, line: ln}}
			m.items = append(m.items, d)
			if !p.acceptOp(",") {
				break
			}
		}
		if err := p.expectOp(")"); err != nil {
			return nil, err
		}
	}
	if p.acceptOp("(") {
		if !p.isOp(")") {
			if p.isKw("input") || p.isKw("output") || p.isKw("inout") {
				if err := p.parseAnsiPorts(m); err != nil {
					return nil, err
				}
			} else {
				for {
					if p.isOp(".") || p.isOp("{") {
						return nil, p.errAt(p.peek().line, "unsupported: explicit/concatenated port expressions in module header")
					}
					pn, _, err := p.ident()
					if err != nil {
						return nil, err
					}
					m.portOrder = append(m.portOrder, pn)
					if !p.acceptOp(",") {
						break
					}
				}
			}
		}
		if err := p.expectOp(")"); err != nil {
			return nil, err
		}
	}
	if err := p.expectOp(";"); err != nil {
		return nil, err
	}
	for !p.isKw("endmodule") {
		if p.peek().kind == tEOF {
			return nil, p.errAt(p.peek().line, "missing endmodule")
		}
		if err := p.parseItem(m); err != nil {
			return nil, err
		}
	}
	p.next()
	p.mod = ""
	return m, nil
}

func (p *parser) parseAnsiPorts(m *module) error {
	var cur *declItem
	for {
		if p.isKw("input") || p.isKw("output") || p.isKw("inout") {
			cur = &declItem{dir: p.next().text, line: p.peek().line}
			if p.isKw("wire") || p.isKw("reg") {
				cur.net = p.next().text
			} else if p.isKw("integer") {
				return p.errAt(p.peek().line, "unsupported: integer port")
			}
			if p.isKw("signed") {
				return p.errAt(p.peek().line, "unsupported: signed port")
			}
			if p.isOp("[") {
				var err error
				if cur.rng, err = p.parseRange(); err != nil {
					return err
				}
			}
			m.items = append(m.items, cur)
		}
		if cur == nil {
			return p.errAt(p.peek().line, "expected port direction")
		}
		pn, ln, err := p.ident()
		if err != nil {
			return err
		}
		dn := declName{name: pn, line: ln}
		if p.acceptOp("=") {
			if dn.init, err = p.parseExpr(); err != nil {
				return err
			}
		}
		cur.names = append(cur.names, dn)
		m.portOrder = append(m.portOrder, pn)
		if !p.acceptOp(",") {
			return nil
		}
	}
}

func (p *parser) parseRange() (*rangeExpr, error) {
	if err := p.expectOp("["); err != nil {
		return nil, err
	}
	msb, err := p.parseExpr()
	if err != nil {
		return nil, err
	}
	if err := p.expectOp(":"); err != nil {
		return nil, err
	}
	lsb, err := p.parseExpr()
	if err != nil {
		return nil, err
	}
	if err := p.expectOp("]"); err != nil {
		return nil, err
	}
	return &rangeExpr{msb, lsb}, nil
}

var unsupportedItems = map[string]string{
	"generate": "generate block", "genvar": "genvar", "function": "function", "task": "task",
	"defparam": "defparam", "specify": "specify block", "primitive": "primitive", "real": "real variable",
	"time": "time variable", "realtime": "realtime variable", "event": "event", "specparam": "specparam",
	"and": "gate primitive", "or": "gate primitive", "not": "gate primitive", "nand": "gate primitive",
	"nor": "gate primitive", "xor": "gate primitive", "xnor": "gate primitive", "buf": "gate primitive",
	"bufif0": "gate primitive", "bufif1": "gate primitive", "notif0": "gate primitive", "notif1": "gate primitive",
	"pullup": "gate primitive", "pulldown": "gate primitive",
	"tri0": "net type tri0", "tri1": "net type tri1", "wand": "net type wand", "wor": "net type wor",
	"triand": "net type triand", "trior": "net type trior", "trireg": "net type trireg",
	"supply0": "net type supply0", "supply1": "net type supply1",
}

func (p *parser) parseItem(m *module) error {
	t := p.peek()
	if t.kind == tOp && t.text == ";" {
		p.next()
		return nil
	}
	if t.kind != tIdent {
		return p.errAt(t.line, "unexpected %q in module body", t.text)
	}
	if what, bad := unsupportedItems[t.text]; bad {
		return p.errAt(t.line, "unsupported: %s", what)
	}
	switch t.text {
	case "input", "output", "inout", "wire", "reg", "integer", "tri", "uwire":
		d, err := p.parseDecl()
		if err != nil {
			return err
		}
		m.items = append(m.items, d)
		return nil
	case "parameter", "localparam":
		ds, err := p.parseParamDecl()
		if err != nil {
			return err
		}
		for _, d := range ds {
			m.items = append(m.items, d)
		}
		return nil
	case "assign":
		p.next()
		if p.isOp("#") {
			if err := p.parseDelay(); err != nil {
				return err
			}
		}
		if p.isOp("(") {
			return p.errAt(t.line, "unsupported: drive strength on assign")
		}
		for {
			a := &assignItem{line: p.peek().line}
			t0 := p.i
			lhs, err := p.parseLvalue()
			if err != nil {
				return err
			}
			a.lhs = lhs
			a.lhsText = p.textOf(t0, p.i)
			if err := p.expectOp("="); err != nil {
				return err
			}
			t1 := p.i
			if a.rhs, err = p.parseExpr(); err != nil {
				return err
			}
			a.rhsText = p.textOf(t1, p.i)
			m.items = append(m.items, a)
			if !p.acceptOp(",") {
				break
			}
		}
		return p.expectOp(";")
	case "always":
		p.next()
		a := &alwaysItem{line: t.line}
		if !p.acceptOp("@") {
			return p.errAt(t.line, "unsupported: always without event control")
		}
		if p.acceptOp("*") {
			a.star = true
		} else {
			if err := p.expectOp("("); err != nil {
				return err
			}
			if p.acceptOp("*") {
				a.star = true
			} else {
				for {
					ev := edgeEvent{}
					if p.isKw("posedge") || p.isKw("negedge") {
						ev.edge = p.next().text
					}
					nm, ln, err := p.ident()
					if err != nil {
						return err
					}
					if p.isOp("[") || p.isOp(".") {
						return p.errAt(ln, "unsupported: event expression that is not a plain identifier")
					}
					ev.name = nm
					a.events = append(a.events, ev)
					if p.acceptOp(",") || p.acceptKw("or") {
						continue
					}
					break
				}
			}
			if err := p.expectOp(")"); err != nil {
				return err
			}
		}
		body, err := p.parseStmt()
		if err != nil {
			return err
		}
		a.body = body
		m.items = append(m.items, a)
		return nil
	case "initial":
		p.next()
		body, err := p.parseStmt()
		if err != nil {
			return err
		}
		m.items = append(m.items, &initialItem{body: body, line: t.line})
		return nil
	}
	if keywords[t.text] {
		return p.errAt(t.line, "unsupported: %q in module body", t.text)
	}
	return p.parseInstances(m)
}

// parseDecl parses input/output/inout/wire/reg/integer declarations up to
// and including the ';'.
func (p *parser) parseDecl() (*declItem, error) {
	t := p.next()
	d := &declItem{line: t.line}
	switch t.text {
	case "input", "output", "inout":
		d.dir = t.text
		if p.isKw("wire") || p.isKw("reg") || p.isKw("tri") {
			d.net = p.next().text
			if d.net == "tri" {
				d.net = "wire"
			}
		} else if p.isKw("integer") {
			return nil, p.errAt(t.line, "unsupported: integer port")
		}
	case "wire", "tri", "uwire":
		d.net = "wire"
	case "reg":
		d.net = "reg"
	case "integer":
		d.net = "integer"
	}
	if p.isKw("signed") {
		return nil, p.errAt(t.line, "unsupported: signed declaration")
	}
	if p.isKw("scalared") || p.isKw("vectored") {
		p.next()
	}
	if p.isOp("[") {
		if d.net == "integer" {
			return nil, p.errAt(t.line, "integer with a range")
		}
		var err error
		if d.rng, err = p.parseRange(); err != nil {
			return nil, err
		}
	}
	if p.isOp("#") {
		if err := p.parseDelay(); err != nil {
			return nil, err
		}
	}
	for {
		nm, ln, err := p.ident()
		if err != nil {
			return nil, err
		}
		dn := declName{name: nm, line: ln}
		if p.isOp("[") {
			if dn.memRng, err = p.parseRange(); err != nil {
				return nil, err
			}
			if p.isOp("[") {
				return nil, p.errAt(ln, "unsupported: multi-dimensional array")
			}
		}
		if p.acceptOp("=") {
			if dn.init, err = p.parseExpr(); err != nil {
				return nil, err
			}
		}
		d.names = append(d.names, dn)
		if !p.acceptOp(",") {
			break
		}
	}
	if err := p.expectOp(";"); err != nil {
		return nil, err
	}
	return d, nil
}

func (p *parser) parseParamDecl() ([]*declItem, error) {
	t := p.next()
	local := t.text == "localparam"
	if p.isKw("signed") {
		return nil, p.errAt(t.line, "unsupported: signed parameter")
	}
	if p.isKw("real") || p.isKw("time") || p.isKw("realtime") {
		return nil, p.errAt(t.line, "unsupported: %s parameter", p.peek().text)
	}
	if p.isKw("integer") {
		p.next()
	}
	var rng *rangeExpr
	if p.isOp("[") {
		var err error
		if rng, err = p.parseRange(); err != nil {
			return nil, err
		}
	}
	var out []*declItem
	for {
		nm, ln, err := p.ident()
		if err != nil {
			return nil, err
		}
		if err := p.expectOp("="); err != nil {
			return nil, err
		}
		e, err := p.parseExpr()
		if err != nil {
			return nil, err
		}
		out = append(out, &declItem{isParam: true, local: local, rng: rng, line: ln,
			names: []declName{{name: nm, init: e, line: ln}}})
		if !p.acceptOp(",") {
			break
		}
	}
	if err := p.expectOp(";"); err != nil {
		return nil, err
	}
	return out, nil
}

// parseDelay consumes "# <delay>" and discards it.
func (p *parser) parseDelay() error {
	if err := p.expectOp("#"); err != nil {
		return err
	}
	t := p.peek()
	switch {
	case t.kind == tNumber:
		p.next()
	case t.kind == tIdent && !keywords[t.text]:
		p.next()
	case t.kind == tOp && t.text == "(":
		p.next()
		if _, err := p.parseExpr(); err != nil {
			return err
		}
		for p.acceptOp(",") || p.acceptOp(":") {
			if _, err := p.parseExpr(); err != nil {
				return err
			}
		}
		return p.expectOp(")")
	default:
		return p.errAt(t.line, "bad delay %q", t.text)
	}
	return nil
}

func (p *parser) parseInstances(m *module) error {
	modName, line, err := p.ident()
	if err != nil {
		return err
	}
	var params []paramOverride
	if p.acceptOp("#") {
		if err := p.expectOp("("); err != nil {
			return err
		}
		if !p.isOp(")") {
			for {
				po := paramOverride{}
				if p.acceptOp(".") {
					if po.name, _, err = p.ident(); err != nil {
						return err
					}
					if err := p.expectOp("("); err != nil {
						return err
					}
					if !p.isOp(")") {
						if po.expr, err = p.parseExpr(); err != nil {
							return err
						}
					}
					if err := p.expectOp(")"); err != nil {
						return err
					}
				} else {
					if po.expr, err = p.parseExpr(); err != nil {
						return err
					}
				}
				params = append(params, po)
				if !p.acceptOp(",") {
					break
				}
			}
		}
		if err := p.expectOp(")"); err != nil {
			return err
		}
	}
	for {
		inst := &instItem{module: modName, params: params, line: line}
		if inst.name, _, err = p.ident(); err != nil {
			return err
		}
		if p.isOp("[") {
			return p.errAt(line, "unsupported: array of instances")
		}
		if err := p.expectOp("("); err != nil {
			return err
		}
		if !p.isOp(")") {
			for {
				c := connItem{line: p.peek().line}
				if p.acceptOp(".") {
					inst.named = true
					if c.port, _, err = p.ident(); err != nil {
						return err
					}
					if err := p.expectOp("("); err != nil {
						return err
					}
					if !p.isOp(")") {
						t0 := p.i
						if c.expr, err = p.parseExpr(); err != nil {
							return err
						}
						c.text = p.textOf(t0, p.i)
					}
					if err := p.expectOp(")"); err != nil {
						return err
					}
				} else {
					if inst.named {
						return p.errAt(c.line, "mixed named and positional port connections")
					}
					if !p.isOp(",") && !p.isOp(")") {
						t0 := p.i
						if c.expr, err = p.parseExpr(); err != nil {
							return err
						}
						c.text = p.textOf(t0, p.i)
					}
				}
				inst.conns = append(inst.conns, c)
				if !p.acceptOp(",") {
					break
				}
			}
		}
		if err := p.expectOp(")"); err != nil {
			return err
		}
		m.items = append(m.items, inst)
		if !p.acceptOp(",") {
			break
		}
	}
	return p.expectOp(";")
}

// ---------------------------------------------------------------- statements

var unsupportedStmts = map[string]bool{
	"while": true, "repeat": true, "forever": true, "wait": true, "disable": true, "fork": true,
	"force": true, "release": true, "deassign": true, "assign": true, "casez": true, "casex": true,
}

func (p *parser) parseStmtOrNull() (*Stmt, error) {
	return p.parseStmt()
}

func (p *parser) parseStmt() (*Stmt, error) {
	t := p.peek()
	switch {
	case t.kind == tOp && t.text == ";":
		p.next()
		return &Stmt{kind: stNull, line: t.line}, nil
	case t.kind == tOp && t.text == "#":
		if err := p.parseDelay(); err != nil {
			return nil, err
		}
		return p.parseStmt()
	case t.kind == tOp && t.text == "@":
		return nil, p.errAt(t.line, "unsupported: event control inside a procedural block")
	case t.kind == tSysIdent:
		return p.parseSysTask()
	case t.kind == tOp && t.text == "{":
		return p.parseAssignStmt(true)
	case t.kind != tIdent:
		return nil, p.errAt(t.line, "unexpected %q at start of statement", t.text)
	}
	if unsupportedStmts[t.text] {
		return nil, p.errAt(t.line, "unsupported: %q statement", t.text)
	}
	switch t.text {
	case "begin":
		p.next()
		s := &Stmt{kind: stBlock, line: t.line}
		if p.acceptOp(":") {
			nm, _, err := p.ident()
			if err != nil {
				return nil, err
			}
			s.name = nm
		}
		for !p.isKw("end") {
			if p.peek().kind == tEOF {
				return nil, p.errAt(t.line, "missing 'end' for 'begin'")
			}
			if p.isKw("integer") || p.isKw("reg") {
				if s.name == "" {
					return nil, p.errAt(p.peek().line, "declaration in an unnamed block")
				}
				d, err := p.parseDecl()
				if err != nil {
					return nil, err
				}
				s.decls = append(s.decls, d)
				continue
			}
			c, err := p.parseStmt()
			if err != nil {
				return nil, err
			}
			s.body = append(s.body, c)
		}
		p.next()
		return s, nil
	case "if":
		p.next()
		s := &Stmt{kind: stIf, line: t.line}
		if err := p.expectOp("("); err != nil {
			return nil, err
		}
		var err error
		if s.cond, err = p.parseExpr(); err != nil {
			return nil, err
		}
		if err := p.expectOp(")"); err != nil {
			return nil, err
		}
		if s.then, err = p.parseStmtOrNull(); err != nil {
			return nil, err
		}
		if p.acceptKw("else") {
			if s.els, err = p.parseStmtOrNull(); err != nil {
				return nil, err
			}
		}
		return s, nil
	case "case":
		p.next()
		s := &Stmt{kind: stCase, line: t.line}
		if err := p.expectOp("("); err != nil {
			return nil, err
		}
		var err error
		if s.sel, err = p.parseExpr(); err != nil {
			return nil, err
		}
		if err := p.expectOp(")"); err != nil {
			return nil, err
		}
		for !p.isKw("endcase") {
			if p.peek().kind == tEOF {
				return nil, p.errAt(t.line, "missing 'endcase'")
			}
			arm := caseArm{}
			if p.acceptKw("default") {
				arm.isDefault = true
				p.acceptOp(":")
			} else {
				for {
					e, err := p.parseExpr()
					if err != nil {
						return nil, err
					}
					arm.labels = append(arm.labels, e)
					if !p.acceptOp(",") {
						break
					}
				}
				if err := p.expectOp(":"); err != nil {
					return nil, err
				}
			}
			if arm.body, err = p.parseStmtOrNull(); err != nil {
				return nil, err
			}
			s.arms = append(s.arms, arm)
		}
		p.next()
		return s, nil
	case "for":
		p.next()
		s := &Stmt{kind: stFor, line: t.line}
		if err := p.expectOp("("); err != nil {
			return nil, err
		}
		var err error
		if s.init, err = p.parseAssignStmt(false); err != nil {
			return nil, err
		}
		if err := p.expectOp(";"); err != nil {
			return nil, err
		}
		if s.cond, err = p.parseExpr(); err != nil {
			return nil, err
		}
		if err := p.expectOp(";"); err != nil {
			return nil, err
		}
		if s.step, err = p.parseAssignStmt(false); err != nil {
			return nil, err
		}
		if s.init.nonblocking || s.step.nonblocking {
			return nil, p.errAt(t.line, "non-blocking assignment in for-loop header")
		}
		if err := p.expectOp(")"); err != nil {
			return nil, err
		}
		if s.then, err = p.parseStmt(); err != nil {
			return nil, err
		}
		return s, nil
	}
	if keywords[t.text] {
		return nil, p.errAt(t.line, "unexpected keyword %q at start of statement", t.text)
	}
	return p.parseAssignStmt(true)
}

// parseAssignStmt parses "lvalue (=|<=) [#delay] expr" and, if semi, the
// terminating ';'.
func (p *parser) parseAssignStmt(semi bool) (*Stmt, error) {
	s := &Stmt{kind: stAssign, line: p.peek().line}
	var err error
	if s.lhs, err = p.parseLvalue(); err != nil {
		return nil, err
	}
	switch {
	case p.acceptOp("="):
	case p.acceptOp("<="):
		s.nonblocking = true
	default:
		t := p.peek()
		if t.kind == tOp && t.text == "(" {
			return nil, p.errAt(t.line, "unsupported: task call")
		}
		return nil, p.errAt(t.line, "expected '=' or '<=' in assignment, found %q", t.text)
	}
	if p.isOp("#") {
		if err := p.parseDelay(); err != nil {
			return nil, err
		}
	}
	if p.isOp("@") || p.isKw("repeat") {
		return nil, p.errAt(p.peek().line, "unsupported: intra-assignment event control")
	}
	if s.rhs, err = p.parseExpr(); err != nil {
		return nil, err
	}
	if semi {
		if err := p.expectOp(";"); err != nil {
			return nil, err
		}
	}
	return s, nil
}

func (p *parser) parseSysTask() (*Stmt, error) {
	t := p.next()
	s := &Stmt{kind: stSysTask, name: t.text, line: t.line}
	if p.acceptOp("(") {
		if !p.isOp(")") {
			for {
				if !p.isOp(",") && !p.isOp(")") {
					if _, err := p.parseExpr(); err != nil {
						return nil, err
					}
				}
				if !p.acceptOp(",") {
					break
				}
			}
		}
		if err := p.expectOp(")"); err != nil {
			return nil, err
		}
	}
	if err := p.expectOp(";"); err != nil {
		return nil, err
	}
	return s, nil
}

// --------------------------------------------------------------- expressions

var binPrec = map[string]int{
	"||": 1, "&&": 2, "|": 3, "^": 4, "~^": 4, "^~": 4, "&": 5,
	"==": 6, "!=": 6, "===": 6, "!==": 6,
	"<": 7, "<=": 7, ">": 7, ">=": 7,
	"<<": 8, ">>": 8, "<<<": 8, ">>>": 8,
	"+": 9, "-": 9, "*": 10, "/": 10, "%": 10, "**": 11,
}

func (p *parser) parseExpr() (*Expr, error) {
	c, err := p.parseBin(1)
	if err != nil {
		return nil, err
	}
	if p.isOp("?") {
		line := p.next().line
		t, err := p.parseExpr()
		if err != nil {
			return nil, err
		}
		if err := p.expectOp(":"); err != nil {
			return nil, err
		}
		f, err := p.parseExpr()
		if err != nil {
			return nil, err
		}
		return &Expr{kind: exTernary, kids: []*Expr{c, t, f}, line: line}, nil
	}
	return c, nil
}

func (p *parser) parseBin(minPrec int) (*Expr, error) {
	left, err := p.parseUnary()
	if err != nil {
		return nil, err
	}
	for {
		t := p.peek()
		if t.kind != tOp {
			return left, nil
		}
		prec, ok := binPrec[t.text]
		if !ok || prec < minPrec {
			return left, nil
		}
		p.next()
		if t.text == "**" {
			return nil, p.errAt(t.line, "unsupported: power operator **")
		}
		right, err := p.parseBin(prec + 1)
		if err != nil {
			return nil, err
		}
		left = &Expr{kind: exBinary, op: t.text, kids: []*Expr{left, right}, line: t.line}
	}
}

var unaryOps = map[string]bool{"+": true, "-": true, "!": true, "~": true, "&": true, "|": true, "^": true,
	"~&": true, "~|": true, "~^": true, "^~": true}

func (p *parser) parseUnary() (*Expr, error) {
	t := p.peek()
	if t.kind == tOp && unaryOps[t.text] {
		p.next()
		k, err := p.parseUnary()
		if err != nil {
			return nil, err
		}
		return &Expr{kind: exUnary, op: t.text, kids: []*Expr{k}, line: t.line}, nil
	}
	return p.parsePrimary()
}

func (p *parser) parsePrimary() (*Expr, error) {
	t := p.peek()
	switch {
	case t.kind == tNumber:
		p.next()
		num := t.num
		// "8 'hff": a plain decimal followed by an unsized based literal
		if nt := p.peek(); num.plain && nt.kind == tNumber && !nt.num.plain && !nt.num.sized {
			joined, err := makeBased(num.digits, nt.num.base, nt.num.signed, nt.num.digits)
			if err != nil {
				return nil, p.errAt(t.line, "%v", err)
			}
			p.next()
			num = joined
		}
		return &Expr{kind: exNum, num: num, line: t.line}, nil
	case t.kind == tString:
		p.next()
		return &Expr{kind: exString, name: t.text, line: t.line}, nil
	case t.kind == tSysIdent:
		p.next()
		e := &Expr{kind: exSysCall, name: t.text, line: t.line}
		if p.acceptOp("(") {
			if !p.isOp(")") {
				for {
					a, err := p.parseExpr()
					if err != nil {
						return nil, err
					}
					e.kids = append(e.kids, a)
					if !p.acceptOp(",") {
						break
					}
				}
			}
			if err := p.expectOp(")"); err != nil {
				return nil, err
			}
		}
		return e, nil
	case t.kind == tOp && t.text == "(":
		p.next()
		e, err := p.parseExpr()
		if err != nil {
			return nil, err
		}
		if err := p.expectOp(")"); err != nil {
			return nil, err
		}
		return e, nil
	case t.kind == tOp && t.text == "{":
		return p.parseConcat(false)
	case t.kind == tIdent && !keywords[t.text]:
		return p.parseIdentSelects()
	}
	return nil, p.errAt(t.line, "unexpected %q in expression", t.text)
}

func (p *parser) parseIdentSelects() (*Expr, error) {
	nm, line, err := p.ident()
	if err != nil {
		return nil, err
	}
	if p.isOp(".") {
		return nil, p.errAt(line, "unsupported: hierarchical reference %s.…", nm)
	}
	if p.isOp("(") {
		return nil, p.errAt(line, "unsupported: function call %s(…)", nm)
	}
	e := &Expr{kind: exIdent, name: nm, line: line}
	for p.isOp("[") {
		p.next()
		a, err := p.parseExpr()
		if err != nil {
			return nil, err
		}
		switch {
		case p.acceptOp(":"):
			b, err := p.parseExpr()
			if err != nil {
				return nil, err
			}
			e = &Expr{kind: exRange, kids: []*Expr{e, a, b}, line: line}
		case p.isOp("+:") || p.isOp("-:"):
			op := p.next().text
			b, err := p.parseExpr()
			if err != nil {
				return nil, err
			}
			e = &Expr{kind: exIdxRange, op: op, kids: []*Expr{e, a, b}, line: line}
		default:
			e = &Expr{kind: exIndex, kids: []*Expr{e, a}, line: line}
		}
		if err := p.expectOp("]"); err != nil {
			return nil, err
		}
	}
	return e, nil
}

// parseConcat parses {a,b,...} or {n{a,b}}.  With lvalue set, the items
// must themselves be lvalues.
func (p *parser) parseConcat(lvalue bool) (*Expr, error) {
	t := p.next() // {
	e := &Expr{kind: exConcat, line: t.line}
	for {
		var k *Expr
		var err error
		if lvalue {
			k, err = p.parseLvalue()
		} else {
			k, err = p.parseExpr()
		}
		if err != nil {
			return nil, err
		}
		if !lvalue && len(e.kids) == 0 && p.isOp("{") {
			inner, err := p.parseConcat(false)
			if err != nil {
				return nil, err
			}
			if err := p.expectOp("}"); err != nil {
				return nil, err
			}
			return &Expr{kind: exRepl, kids: []*Expr{k, inner}, line: t.line}, nil
		}
		e.kids = append(e.kids, k)
		if !p.acceptOp(",") {
			break
		}
	}
	if err := p.expectOp("}"); err != nil {
		return nil, err
	}
	return e, nil
}

func (p *parser) parseLvalue() (*Expr, error) {
	t := p.peek()
	if t.kind == tOp && t.text == "{" {
		return p.parseConcat(true)
	}
	if t.kind == tIdent && !keywords[t.text] {
		return p.parseIdentSelects()
	}
	return nil, p.errAt(t.line, "expected an assignment target, found %q", t.text)
}
