// Package vlog is a small cycle-accurate interpreter for the synthesizable
// Verilog subset emitted by the BondMachine generators (processors, ROM/RAM,
// arch wrappers, top level, bmstack FIFO/LIFO).  It uses only the standard
// library.
//
// # Model
//
//   - Parse builds a Design (modules); Elaborate flattens the hierarchy below
//     a top module into a Sim.  Every net/variable gets a hierarchical name
//     (instance names joined by "."; locals of a named block are
//     "<block>.<name>"); top-level ports keep their plain names.  Port
//     connections are continuous assignments between the parent expression and
//     the child port.
//   - Values are two-state plus an "unknown" taint: per bit in storage (so
//     partial writes work), all-or-nothing inside expressions (any unknown
//     operand makes the result unknown, except 0&&x, 1||x, 0&x, ~0|x and a
//     ?: with identical branches).  Anything never assigned is unknown.
//     if/case/for on an unknown condition take the else/default/exit branch
//     and are counted in Sim.UnknownBranches.  Writes through an unknown index
//     are dropped (Sim.UnknownIndexWrites), out-of-range accesses read unknown
//     / are dropped (Sim.OutOfRange).
//   - Expression sizing follows IEEE 1364: context-determined operands of
//   - - * / % & | ^ ~^ ~ unary- ?: and the left operand of shifts are
//     extended to max(LHS width, operand widths) before the operation;
//     comparison operands are extended to the wider of the two; concatenation
//     items, indices, shift amounts and logical operands are self-determined.
//     Unsized literals are 32 bits.  Any width is supported (math/big above
//     64 bits).
//   - All arithmetic is unsigned.  Expressions whose operands are all signed
//     (integer variables, plain decimal literals) are accepted as long as no
//     intermediate value is negative; otherwise evaluation fails with an
//     "unsupported: signed expression produced a negative value" error rather
//     than producing a wrong value.  "signed" declarations, $signed, casez/x,
//     generate, functions, tasks, while/repeat/forever, delays with effect,
//     inout connections, hierarchical references and ** are rejected with an
//     "unsupported" error.
//   - Sim.Step(clock) is one clock period: settle, rising edge, settle,
//     falling edge, settle.  At an edge all triggered always blocks read the
//     pre-edge state; blocking assignments are visible immediately inside
//     their own block only, and are committed when all blocks have run,
//     followed by all non-blocking assignments in execution order.  A block
//     "@(posedge clk, posedge rst)" is triggered by the clock edge only
//     (asynchronous resets are sampled at the clock edge).  Level-sensitive
//     sensitivity lists are treated like @*.  initial blocks run once, in
//     elaboration order, inside Elaborate.
//   - === and !== behave like == and != (unknown if an operand is unknown);
//     literals containing x/z digits are entirely unknown.
//
// Set forces a value on any vector; a net with a driver is overwritten again
// by the next Settle.  After Set on inputs call Settle (or Step) before
// reading combinational outputs.
package vlog

import (
	"fmt"
	"sort"
)

// Design is a set of parsed modules.
type Design struct {
	mods  map[string]*module
	order []string
}

// Port describes one port of a module.
type Port struct {
	Name  string
	Dir   string // input | output | inout
	Width int
}

// Conn is one port connection of an instance.
type Conn struct {
	Port string // resolved formal port name
	Expr string // actual, as (whitespace-normalised) source text; "" if unconnected
}

// Instance is a module instantiation.
type Instance struct {
	Module string
	Name   string
	Conns  []Conn
}

// Assign is a continuous assignment as source text.
type Assign struct {
	LHS string
	RHS string
}

// Parse parses Verilog sources; each source may hold several modules.
func Parse(srcs ...string) (*Design, error) {
	d := &Design{mods: map[string]*module{}}
	for i, src := range srcs {
		mods, err := parseSource(src)
		if err != nil {
			if len(srcs) > 1 {
				return nil, fmt.Errorf("source #%d: %w", i, err)
			}
			return nil, err
		}
		for _, m := range mods {
			if _, dup := d.mods[m.name]; dup {
				return nil, fmt.Errorf("vlog: module %q defined twice", m.name)
			}
			d.mods[m.name] = m
			d.order = append(d.order, m.name)
		}
	}
	return d, nil
}

// Modules returns the module names in source order.
func (d *Design) Modules() []string { return append([]string(nil), d.order...) }

// HasModule reports whether the module exists.
func (d *Design) HasModule(name string) bool { _, ok := d.mods[name]; return ok }

// Tops returns the modules that are not instantiated by any other module.
func (d *Design) Tops() []string {
	used := map[string]bool{}
	for _, m := range d.mods {
		for _, it := range m.items {
			if in, ok := it.(*instItem); ok {
				used[in.module] = true
			}
		}
	}
	var out []string
	for _, n := range d.order {
		if !used[n] {
			out = append(out, n)
		}
	}
	sort.Strings(out)
	return out
}

// Ports returns the ports of a module in header order.  Widths are computed
// with the module's default parameter values; Width is 0 if a range cannot be
// evaluated.
func (d *Design) Ports(module string) []Port {
	m, ok := d.mods[module]
	if !ok {
		return nil
	}
	// A throw-away elaborator evaluates parameters and ranges.
	el := &elaborator{d: d, sim: &Sim{byName: map[string]*signal{}, UnknownBranchSites: map[string]int{}}, alias: map[int]int{}}
	sc := &scope{mod: m.name, names: map[string]*symbol{}}
	type info struct {
		dir string
		w   int
	}
	infos := map[string]*info{}
	for _, it := range m.items {
		dcl, ok := it.(*declItem)
		if !ok {
			continue
		}
		if dcl.isParam {
			dn := dcl.names[0]
			v, sg, err := el.constVal(sc, dn.init)
			if err != nil {
				continue
			}
			if dcl.rng != nil {
				if a, b, err := el.evalRange(sc, dcl.rng); err == nil {
					v, sg = resize(v, absDiff(a, b)+1), false
				}
			}
			sc.names[dn.name] = &symbol{isParam: true, c: v, csigned: sg}
			continue
		}
		w := 1
		if dcl.rng != nil {
			a, b, err := el.evalRange(sc, dcl.rng)
			if err != nil {
				w = 0
			} else {
				w = absDiff(a, b) + 1
			}
		}
		for _, dn := range dcl.names {
			inf := infos[dn.name]
			if inf == nil {
				inf = &info{w: w}
				infos[dn.name] = inf
			}
			if dcl.dir != "" {
				inf.dir = dcl.dir
			}
			if dcl.rng != nil {
				inf.w = w
			}
		}
	}
	var out []Port
	for _, pn := range m.portOrder {
		p := Port{Name: pn}
		if inf := infos[pn]; inf != nil {
			p.Dir, p.Width = inf.dir, inf.w
		}
		out = append(out, p)
	}
	return out
}

// Instances returns the instantiations inside a module in source order.
// Positional connections are resolved to formal port names when the
// instantiated module is part of the design (otherwise "#<index>").
func (d *Design) Instances(module string) []Instance {
	m, ok := d.mods[module]
	if !ok {
		return nil
	}
	var out []Instance
	for _, it := range m.items {
		in, ok := it.(*instItem)
		if !ok {
			continue
		}
		inst := Instance{Module: in.module, Name: in.name}
		cm := d.mods[in.module]
		for i, c := range in.conns {
			cn := Conn{Port: c.port, Expr: c.text}
			if !in.named {
				if cm != nil && i < len(cm.portOrder) {
					cn.Port = cm.portOrder[i]
				} else {
					cn.Port = fmt.Sprintf("#%d", i)
				}
			}
			inst.Conns = append(inst.Conns, cn)
		}
		out = append(out, inst)
	}
	return out
}

// Assigns returns the continuous assignments of a module in source order
// ("wire x = expr;" declaration assignments are not listed).
func (d *Design) Assigns(module string) []Assign {
	m, ok := d.mods[module]
	if !ok {
		return nil
	}
	var out []Assign
	for _, it := range m.items {
		if a, ok := it.(*assignItem); ok {
			out = append(out, Assign{LHS: a.lhsText, RHS: a.rhsText})
		}
	}
	return out
}
