package vlog

import (
	"fmt"
	"math/big"
	"strings"
	"testing"
)

// want describes the expected value of a signal after elaboration.
type want struct {
	name  string
	v     uint64
	known bool
}

func k(name string, v uint64) want { return want{name, v, true} }
func x(name string) want           { return want{name, 0, false} }

// elabOne parses and elaborates a single-source design.
func elabOne(t *testing.T, src, top string) *Sim {
	t.Helper()
	d, err := Parse(src)
	if err != nil {
		t.Fatalf("parse: %v", err)
	}
	s, err := Elaborate(d, top)
	if err != nil {
		t.Fatalf("elaborate: %v", err)
	}
	return s
}

func check(t *testing.T, s *Sim, wants ...want) {
	t.Helper()
	for _, w := range wants {
		if !s.Has(w.name) {
			t.Errorf("%s: no such signal", w.name)
			continue
		}
		v, known := s.Get(w.name)
		if known != w.known || (known && v != w.v) {
			t.Errorf("%s = (%d,%v), want (%d,%v)", w.name, v, known, w.v, w.known)
		}
	}
}

// bothPaths runs f with the uint64 fast path and with the math/big path.
func bothPaths(t *testing.T, f func(t *testing.T)) {
	t.Helper()
	for _, fb := range []bool{false, true} {
		forceBig = fb
		t.Run(fmt.Sprintf("forceBig=%v", fb), f)
	}
	forceBig = false
}

// initialTest wraps declarations and statements into a module whose initial
// block runs the statements.
func initialTest(t *testing.T, decls, body string, wants ...want) {
	t.Helper()
	src := "module t;\n" + decls + "\ninitial begin\n" + body + "\nend\nendmodule\n"
	bothPaths(t, func(t *testing.T) {
		s := elabOne(t, src, "t")
		check(t, s, wants...)
	})
}

func TestWidthRules(t *testing.T) {
	initialTest(t, `
		reg [7:0] a, b, r8, m8, s8, n8, inv8, sh8, shr8, q8, rem8, cat8, big8;
		reg [8:0] r9, sh9, s9, cat9;
		reg [15:0] m16, inv16, n16;
		reg c; reg [7:0] r;
		reg gt, eq8, eq32, lt;
		reg [3:0] x4; reg [7:0] y8; reg eqw, ltw;
	`, `
		a = 200; b = 100;
		r8 = a + b;
		r9 = a + b;
		{c, r} = a + b;
		m8 = a * b;
		m16 = a * b;
		s8 = (a + b) >> 1;
		s9 = (a + b) >> 1;
		cat9 = {a + b};
		cat8 = {a + b} >> 1;
		inv8 = ~a;
		inv16 = ~a;
		n8 = -a;
		n16 = -a;
		sh8 = a << 1;
		sh9 = a << 1;
		shr8 = a >> 2;
		q8 = a / b;
		rem8 = a % 8'd7;
		gt = a + b > 250;
		eq8 = (a + b) == 8'd44;
		eq32 = a + b == 300;
		lt = b < a;
		x4 = 4'hF; y8 = 8'd15;
		eqw = x4 == y8;
		ltw = x4 < y8;
		big8 = a - b - 8'd101;
	`,
		k("r8", 44), k("r9", 300), k("c", 1), k("r", 44),
		k("m8", 20000&0xff), k("m16", 20000),
		k("s8", 22), k("s9", 150), k("cat9", 44), k("cat8", 22),
		k("inv8", 0x37), k("inv16", 0xFF37), k("n8", 56), k("n16", 0xFF38),
		k("sh8", 0x90), k("sh9", 0x190), k("shr8", 50), k("q8", 2), k("rem8", 200%7),
		k("gt", 1), k("eq8", 1), k("eq32", 1), k("lt", 1), k("eqw", 1), k("ltw", 0),
		k("big8", 255),
	)
}

func TestCarryConcatNBA(t *testing.T) {
	// the ADC/SBC/INCC idioms of the generators, non-blocking
	src := `
module t(input clk);
	reg [7:0] a, b, r, d, e;
	reg c, bo, ci;
	initial begin a = 8'd200; b = 8'd100; e = 8'hFF; end
	always @(posedge clk) begin
		{ c, r } <= #1 { 1'b0, a } + {1'b0, b };
		{ bo, d } <= #1 { 1'b0, b } - {1'b0, a };
		{ci,e} <= #1 {0,e} + 1'b1;
	end
endmodule`
	bothPaths(t, func(t *testing.T) {
		s := elabOne(t, src, "t")
		if err := s.Step("clk"); err != nil {
			t.Fatal(err)
		}
		check(t, s, k("c", 1), k("r", 44), k("bo", 1), k("d", (100-200)&0xff), k("ci", 1), k("e", 0))
		if len(s.Warnings) == 0 || !strings.Contains(strings.Join(s.Warnings, "\n"), "unsized constant") {
			t.Errorf("expected a warning about the unsized constant in {0,e}, got %v", s.Warnings)
		}
	})
}

func TestOperators(t *testing.T) {
	initialTest(t, `
		reg [7:0] a, b, z;
		reg ln, la, lo, la0, lo0;
		reg ra, ro, rx, rna, rno, rxn, ra1;
		reg [7:0] t1, t2, an, orr, xo, xn1, xn2, nand8;
		reg [8:0] t9;
		reg b3; reg [3:0] hi; reg [7:0] rep; reg [3:0] ones; reg [11:0] rep3;
		reg [3:0] ip, im;
		reg [7:0] sl, sr, big1, big2, sh0, shv;
		reg [15:0] cc;
		reg [7:0] l1, l2, l3, l4, l5;
		reg ceq, cne, ne;
		reg [7:0] prec1, prec2, prec3; reg prec4;
		reg [7:0] un;
	`, `
		a = 8'hC8; b = 8'd100; z = 0;
		ln = !a; la = a && b; lo = z || a; la0 = a && z; lo0 = z || z;
		ra = &a; ro = |a; rx = ^a; rna = ~&a; rno = ~|a; rxn = ~^a; ra1 = &8'hFF;
		t1 = (a > b) ? a : b;
		t2 = (a < b) ? a : b;
		t9 = ln ? a : 9'd300;
		an = a & b; orr = a | b; xo = a ^ b; xn1 = a ~^ b; xn2 = a ^~ b; nand8 = ~(a & b);
		b3 = a[3]; hi = a[7:4]; rep = {2{a[7:4]}}; ones = {4{1'b1}}; rep3 = {3{a[3:0]}};
		ip = a[4 +: 4]; im = a[5 -: 4];
		sl = a <<< 1; sr = a >>> 1; big1 = a << 8; big2 = a >> 9; sh0 = a << 0; shv = a >> b[2:0];
		cc = {a, b};
		l1 = 8'hFF; l2 = 4'b1010; l3 = 'b0; l4 = 12'h_a_b; l5 = 8 'h7f;
		ceq = (a === 8'hC8); cne = (a !== 8'hC8); ne = a != b;
		prec1 = 1 + 2 * 3; prec2 = 8'd1 << 2 + 1; prec3 = 8'hF0 | 8'h0F & 8'h3C; prec4 = 1 == 1 && 2 > 1 || 0;
		un = + a;
	`,
		k("ln", 0), k("la", 1), k("lo", 1), k("la0", 0), k("lo0", 0),
		k("ra", 0), k("ro", 1), k("rx", 1), k("rna", 1), k("rno", 0), k("rxn", 0), k("ra1", 1),
		k("t1", 200), k("t2", 100), k("t9", 300),
		k("an", 0xC8&100), k("orr", 0xC8|100), k("xo", 0xC8^100), k("xn1", (^(0xC8^100))&0xff), k("xn2", (^(0xC8^100))&0xff), k("nand8", (^(0xC8&100))&0xff),
		k("b3", 1), k("hi", 0xC), k("rep", 0xCC), k("ones", 0xF), k("rep3", 0x888),
		k("ip", 0xC), k("im", (0xC8>>2)&0xF),
		k("sl", 0x90), k("sr", 100), k("big1", 0), k("big2", 0), k("sh0", 0xC8), k("shv", 0xC8>>4),
		k("cc", 0xC864),
		k("l1", 255), k("l2", 10), k("l3", 0), k("l4", 0xab), k("l5", 0x7f),
		k("ceq", 1), k("cne", 0), k("ne", 1),
		k("prec1", 7), k("prec2", 8), k("prec3", 0xF0|(0x0F&0x3C)), k("prec4", 1),
		k("un", 200),
	)
}

func TestDivisionByZeroIsUnknown(t *testing.T) {
	initialTest(t, `reg [7:0] a, z, q, m, q2;`, `a = 9; z = 0; q = a / z; m = a % z; q2 = a / 8'd2;`,
		x("q"), x("m"), k("q2", 4))
}

func TestWide(t *testing.T) {
	src := `
module t;
	reg [63:0] p, q;
	reg [127:0] w, cat, sh, sum, inv;
	reg [63:0] hi, lo, tr;
	reg [64:0] s65;
	reg [199:0] huge;
	reg gt, eq;
	reg [127:0] mem [0:1];
	initial begin
		p = 64'hFFFF_FFFF_FFFF_FFFF; q = 64'hFFFF_FFFF_FFFF_FFFF;
		w = p * q;
		hi = w[127:64]; lo = w[63:0];
		tr = p * q;
		s65 = p + q;
		cat = {p, 64'd5};
		sh = cat >> 60;
		sum = cat + w;
		inv = ~cat;
		huge = 200'd1 << 199;
		gt = w > cat; eq = (w - w) == 0;
		mem[1] = w;
	end
endmodule`
	bothPaths(t, func(t *testing.T) {
		s := elabOne(t, src, "t")
		m64 := new(big.Int).SetUint64(^uint64(0))
		prod := new(big.Int).Mul(m64, m64)
		got, known := s.GetBig("w")
		if !known || got.Cmp(prod) != 0 {
			t.Errorf("w = %x known=%v, want %x", got, known, prod)
		}
		check(t, s, k("hi", 0xFFFFFFFFFFFFFFFE), k("lo", 1), k("tr", 1), k("gt", 0), k("eq", 1))
		s65, _ := s.GetBig("s65")
		if want := new(big.Int).Add(m64, m64); s65.Cmp(want) != 0 {
			t.Errorf("s65 = %x want %x", s65, want)
		}
		cat := new(big.Int).Lsh(m64, 64)
		cat.Add(cat, big.NewInt(5))
		if g, _ := s.GetBig("cat"); g.Cmp(cat) != 0 {
			t.Errorf("cat = %x want %x", g, cat)
		}
		if g, _ := s.GetBig("sh"); g.Cmp(new(big.Int).Rsh(cat, 60)) != 0 {
			t.Errorf("sh = %x", g)
		}
		mask := new(big.Int).Sub(new(big.Int).Lsh(big.NewInt(1), 128), big.NewInt(1))
		wantSum := new(big.Int).And(new(big.Int).Add(cat, prod), mask)
		if g, _ := s.GetBig("sum"); g.Cmp(wantSum) != 0 {
			t.Errorf("sum = %x want %x", g, wantSum)
		}
		if g, _ := s.GetBig("inv"); g.Cmp(new(big.Int).Xor(cat, mask)) != 0 {
			t.Errorf("inv = %x", g)
		}
		if g, _ := s.GetBig("huge"); g.Cmp(new(big.Int).Lsh(big.NewInt(1), 199)) != 0 {
			t.Errorf("huge = %x", g)
		}
		if g, kn := s.GetMemBig("mem", 1); !kn || g.Cmp(prod) != 0 {
			t.Errorf("mem[1] = %x", g)
		}
		if _, kn := s.GetMemBig("mem", 0); kn {
			t.Errorf("mem[0] should be unknown")
		}
		// SetBig / Get low bits
		if err := s.SetBig("w", new(big.Int).Lsh(big.NewInt(3), 100)); err != nil {
			t.Fatal(err)
		}
		if g, _ := s.GetBig("w"); g.Cmp(new(big.Int).Lsh(big.NewInt(3), 100)) != 0 {
			t.Errorf("SetBig/GetBig mismatch: %x", g)
		}
		if v, kn := s.Get("w"); v != 0 || !kn {
			t.Errorf("Get(w) low bits = %d,%v", v, kn)
		}
	})
}

func TestUnknownPropagation(t *testing.T) {
	src := `
module t(input clk, input [7:0] in);
	reg [7:0] u, a, sum, tern1, tern2, part, andz, oro, m;
	reg land, lor, land2, cmp;
	reg [7:0] viaif, viacase;
	reg [7:0] xl, zl;
	reg [7:0] mem [0:3];
	wire [7:0] w = u + 8'd1;
	wire [7:0] fromin = in;
	initial begin
		a = 8'd3;
		sum = u + a;
		tern1 = u[0] ? 8'd7 : 8'd7;
		tern2 = u[0] ? 8'd7 : 8'd8;
		land = (a == 8'd4) && u[0];
		lor = (a == 8'd3) || u[0];
		land2 = (a == 8'd3) && u[0];
		cmp = u == 8'd0;
		andz = u & 8'd0;
		oro = u | 8'hFF;
		if (u[0]) viaif = 1; else viaif = 2;
		case (u)
			8'd0: viacase = 1;
			default: viacase = 9;
		endcase
		part = 8'd0;
		part[3:0] = u[3:0];
		u[7:4] = 4'hA;
		xl = 8'bxxxx0000; zl = 8'hzz;
		m = mem[1];
	end
endmodule`
	bothPaths(t, func(t *testing.T) {
		s := elabOne(t, src, "t")
		check(t, s, x("sum"), k("tern1", 7), x("tern2"), k("land", 0), k("lor", 1), x("land2"), x("cmp"),
			k("andz", 0), k("oro", 255), k("viaif", 2), k("viacase", 9), x("part"), x("u"), x("w"), x("xl"), x("zl"), x("m"), x("fromin"))
		if s.UnknownBranches != 2 {
			t.Errorf("UnknownBranches = %d, want 2", s.UnknownBranches)
		}
		// per-bit taint in storage: u[7:4] is known, u[3:0] is not
		v, xm, ok := s.GetX("u")
		if !ok || xm != 0x0F || v != 0xA0 {
			t.Errorf("GetX(u) = %#x,%#x,%v want 0xa0,0x0f,true", v, xm, ok)
		}
		v, xm, _ = s.GetX("part")
		if xm != 0x0F || v != 0 {
			t.Errorf("GetX(part) = %#x,%#x", v, xm)
		}
		// making the input known propagates
		s.Set("in", 77)
		s.Set("u", 9)
		if err := s.Settle(); err != nil {
			t.Fatal(err)
		}
		check(t, s, k("fromin", 77), k("w", 10))
		if err := s.SetUnknown("u"); err != nil {
			t.Fatal(err)
		}
		s.Settle()
		check(t, s, x("w"))
	})
}

func TestPartiallyKnownSelects(t *testing.T) {
	// reading known bits of a partially unknown vector is precise
	initialTest(t, `reg [7:0] u; reg [3:0] hi, lo; reg b7, b0;`,
		`u[7:4] = 4'h9; hi = u[7:4]; lo = u[3:0]; b7 = u[7]; b0 = u[0];`,
		k("hi", 9), x("lo"), k("b7", 1), x("b0"))
}

func TestSignedGuard(t *testing.T) {
	// A negative intermediate in an all-signed expression must be an error,
	// never a silently wrong unsigned value.
	for _, body := range []string{
		`integer i; initial i = 0 - 1;`,
		`integer i; reg [7:0] n; initial begin n = 0; for (i = 3; i >= 0; i = i - 1) n = n + 1; end`,
		`reg [39:0] r; initial r = -1;`,
	} {
		d, err := Parse("module t;\n" + body + "\nendmodule")
		if err != nil {
			t.Fatalf("parse %q: %v", body, err)
		}
		if _, err := Elaborate(d, "t"); err == nil || !strings.Contains(err.Error(), "negative") {
			t.Errorf("%q: expected a 'negative value' error, got %v", body, err)
		}
	}
	// ...but mixed (hence unsigned) expressions wrap around as in Verilog
	initialTest(t, `reg [3:0] sp; reg [7:0] r; reg [3:0] q; integer i; reg [31:0] big;`,
		`sp = 0; r = sp - 1; q = 8 - sp - 1 + sp; i = 5; big = sp - 1;`,
		k("r", 255), k("q", 7), k("i", 5), k("big", 0xFFFFFFFF))
}

func TestLiteralForms(t *testing.T) {
	initialTest(t, `reg [15:0] a, b, c, d, e, f; reg [3:0] tr; reg [39:0] w40; reg [7:0] o;`,
		`a = 16'd65535; b = 'hFFFF; c = 16'b1111_0000_1111_0000; d = 4'b1; e = 16'o17; f = 16'HaB; tr = 8'hAB; w40 = 'h12_3456_789A; o = 8'O17;`,
		k("a", 65535), k("b", 65535), k("c", 0xF0F0), k("d", 1), k("e", 15), k("f", 0xAB), k("tr", 0xB), k("w40", 0x123456789A), k("o", 15))
}
