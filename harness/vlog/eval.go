package vlog

import (
	"fmt"
)

type ovEntry struct{ v, x val }

type memKey struct{ id, slot int }

// write is a fully resolved assignment to (part of) a vector or memory word.
type write struct {
	sig    *signal
	slot   int // memory slot, -1 for vectors
	pos, n int
	v      val // n bits; v.known == false marks all n bits unknown
}

// ctx is the execution context of one process activation.
type ctx struct {
	s             *Sim
	where         string
	overlay       bool // blocking writes go to a private overlay until committed
	ovS           map[int]*ovEntry
	ovM           map[memKey]*ovEntry
	nba           []write
	nbaAsBlocking bool // combinational always blocks: "<=" behaves like "="
	changed       bool // a direct (non-overlay) write changed the state
}

func (s *Sim) newCtx(where string, overlay bool) *ctx {
	return &ctx{s: s, where: where, overlay: overlay}
}

func (c *ctx) errf(line int, format string, a ...interface{}) error {
	return fmt.Errorf("vlog: %s (expression at line %d): %s", c.where, line, fmt.Sprintf(format, a...))
}

func (c *ctx) readSig(s *signal) (val, val) {
	if c.ovS != nil {
		if e, ok := c.ovS[s.id]; ok {
			return e.v, e.x
		}
	}
	return s.v, s.x
}

func (c *ctx) readMem(s *signal, slot int) (val, val) {
	if c.ovM != nil {
		if e, ok := c.ovM[memKey{s.id, slot}]; ok {
			return e.v, e.x
		}
	}
	return s.mv[slot], s.mx[slot]
}

// toIndex converts a known value to an int index; ok=false if it does not
// fit (and therefore is out of any declared range).
func toIndex(v val) (int, bool) {
	if !v.fitsUint64() || v.uint64() > 1<<40 {
		return 0, false
	}
	return int(v.uint64()), true
}

// storage returns the raw bits and unknown-mask of a selectable base node.
func (c *ctx) storage(b *node) (val, val, error) {
	switch b.kind {
	case nSig:
		v, x := c.readSig(b.sig)
		return v, x, nil
	case nConst:
		if !b.c.known {
			return zeroVal(b.c.w), onesVal(b.c.w), nil
		}
		return b.c, zeroVal(b.c.w), nil
	case nMemWord:
		a, err := c.eval(b.kids[0], b.kids[0].sw)
		if err != nil {
			return val{}, val{}, err
		}
		if !a.known {
			return zeroVal(b.sw), onesVal(b.sw), nil
		}
		idx, ok := toIndex(a)
		slot := idx - b.sig.memLo
		if !ok || slot < 0 || slot >= b.sig.depth {
			c.s.OutOfRange++
			return zeroVal(b.sw), onesVal(b.sw), nil
		}
		v, x := c.readMem(b.sig, slot)
		return v, x, nil
	}
	return val{}, val{}, c.errf(b.line, "internal: bad select base")
}

func fromStorage(v, x val) val {
	if !x.isZero() {
		return unknownVal(v.w)
	}
	v.known = true
	return v
}

func (c *ctx) negErr(n *node) error {
	return c.errf(n.line, "unsupported: signed expression produced a negative value (only unsigned arithmetic is implemented)")
}

// eval computes n in a context of cw bits (cw >= n.sw); the result is
// exactly cw bits wide.
func (c *ctx) eval(n *node, cw int) (val, error) {
	if cw < n.sw {
		cw = n.sw
	}
	switch n.kind {
	case nConst:
		r := n.c
		if n.guard && r.known && r.bit(r.w-1) == 1 {
			return val{}, c.negErr(n)
		}
		return resize(r, cw), nil
	case nSig:
		v, x := c.readSig(n.sig)
		r := fromStorage(v, x)
		if n.guard && r.known && r.bit(r.w-1) == 1 {
			return val{}, c.negErr(n)
		}
		return resize(r, cw), nil
	case nMemWord:
		v, x, err := c.storage(n)
		if err != nil {
			return val{}, err
		}
		return resize(fromStorage(v, x), cw), nil
	case nBitSel:
		v, x, err := c.storage(n.kids[0])
		if err != nil {
			return val{}, err
		}
		iv, err := c.eval(n.kids[1], n.kids[1].sw)
		if err != nil {
			return val{}, err
		}
		if !iv.known {
			return unknownVal(cw), nil
		}
		idx, ok := toIndex(iv)
		pos := 0
		if ok {
			pos, ok = bitPos(n.kids[0].bmsb, n.kids[0].blsb, idx)
		}
		if !ok {
			c.s.OutOfRange++
			return unknownVal(cw), nil
		}
		if x.bit(pos) == 1 {
			return unknownVal(cw), nil
		}
		return resize(mkVal(1, uint64(v.bit(pos))), cw), nil
	case nPartSel:
		v, x, err := c.storage(n.kids[0])
		if err != nil {
			return val{}, err
		}
		return resize(fromStorage(slice(v, n.pos, n.n), slice(x, n.pos, n.n)), cw), nil
	case nIdxPart:
		b := n.kids[0]
		v, x, err := c.storage(b)
		if err != nil {
			return val{}, err
		}
		sv, err := c.eval(n.kids[1], n.kids[1].sw)
		if err != nil {
			return val{}, err
		}
		if !sv.known {
			return unknownVal(cw), nil
		}
		pos, ok := idxPartPos(b.bmsb, b.blsb, sv, n.n, n.up)
		if !ok {
			c.s.OutOfRange++
			return unknownVal(cw), nil
		}
		return resize(fromStorage(slice(v, pos, n.n), slice(x, pos, n.n)), cw), nil
	case nConcat:
		parts := make([]val, len(n.kids))
		known := true
		for i, k := range n.kids {
			p, err := c.eval(k, k.sw)
			if err != nil {
				return val{}, err
			}
			parts[i] = p
			known = known && p.known
		}
		if !known {
			return unknownVal(cw), nil
		}
		return resize(concatVals(parts), cw), nil
	case nRepl:
		k := n.kids[0]
		p, err := c.eval(k, k.sw)
		if err != nil {
			return val{}, err
		}
		if !p.known {
			return unknownVal(cw), nil
		}
		parts := make([]val, n.count)
		for i := range parts {
			parts[i] = p
		}
		return resize(concatVals(parts), cw), nil
	case nUnary:
		return c.evalUnary(n, cw)
	case nBinary:
		return c.evalBinary(n, cw)
	case nTernary:
		cv, err := c.eval(n.kids[0], n.kids[0].sw)
		if err != nil {
			return val{}, err
		}
		var r val
		if cv.known {
			k := n.kids[1]
			if cv.isZero() {
				k = n.kids[2]
			}
			if r, err = c.eval(k, cw); err != nil {
				return val{}, err
			}
		} else {
			t, err := c.eval(n.kids[1], cw)
			if err != nil {
				return val{}, err
			}
			f, err := c.eval(n.kids[2], cw)
			if err != nil {
				return val{}, err
			}
			if t.known && f.known && sameBits(t, f) {
				r = t
			} else {
				r = unknownVal(cw)
			}
		}
		if n.guard && r.known && r.bit(cw-1) == 1 {
			return val{}, c.negErr(n)
		}
		return r, nil
	}
	return val{}, c.errf(n.line, "internal: unknown node kind %d", n.kind)
}

// idxPartPos maps base[start +: n] / base[start -: n] on a descending range
// to the position of the lowest selected bit.
func idxPartPos(msb, lsb int, start val, n int, up bool) (int, bool) {
	s, ok := toIndex(start)
	if !ok {
		return 0, false
	}
	low := s
	if !up {
		low = s - n + 1
	}
	if low < lsb || low+n-1 > msb {
		return 0, false
	}
	return low - lsb, true
}

func (c *ctx) evalUnary(n *node, cw int) (val, error) {
	k := n.kids[0]
	switch n.op {
	case oPlus, oNeg, oNot:
		v, err := c.eval(k, cw)
		if err != nil {
			return val{}, err
		}
		if !v.known {
			return unknownVal(cw), nil
		}
		var r val
		switch n.op {
		case oPlus:
			r = v
		case oNeg:
			r = negVal(v)
		case oNot:
			r = notVal(v)
		}
		if n.guard && r.bit(cw-1) == 1 {
			return val{}, c.negErr(n)
		}
		return r, nil
	}
	v, err := c.eval(k, k.sw)
	if err != nil {
		return val{}, err
	}
	if !v.known {
		return unknownVal(cw), nil
	}
	var b bool
	switch n.op {
	case oLNot:
		b = v.isZero()
	case oRAnd:
		b = isAllOnes(v)
	case oRNand:
		b = !isAllOnes(v)
	case oROr:
		b = !v.isZero()
	case oRNor:
		b = v.isZero()
	case oRXor:
		b = parityVal(v) == 1
	case oRXnor:
		b = parityVal(v) == 0
	default:
		return val{}, c.errf(n.line, "internal: bad unary operator")
	}
	return resize(boolVal(b), cw), nil
}

var arithCodes = map[opCode]arithOp{oAdd: opAdd, oSub: opSub, oMul: opMul, oDiv: opDiv, oMod: opMod,
	oAnd: opAnd, oOr: opOr, oXor: opXor, oXnor: opXnor}

func (c *ctx) evalBinary(n *node, cw int) (val, error) {
	L, R := n.kids[0], n.kids[1]
	switch n.op {
	case oAdd, oSub, oMul, oDiv, oMod, oAnd, oOr, oXor, oXnor:
		l, err := c.eval(L, cw)
		if err != nil {
			return val{}, err
		}
		r, err := c.eval(R, cw)
		if err != nil {
			return val{}, err
		}
		var res val
		switch {
		case n.op == oAnd && ((l.known && l.isZero()) || (r.known && r.isZero())):
			res = zeroVal(cw)
		case n.op == oOr && ((l.known && isAllOnes(l)) || (r.known && isAllOnes(r))):
			res = onesVal(cw)
		case !l.known || !r.known:
			return unknownVal(cw), nil
		default:
			res = arith(arithCodes[n.op], l, r)
		}
		if n.guard && res.known && res.bit(cw-1) == 1 {
			return val{}, c.negErr(n)
		}
		return res, nil
	case oShl, oShr:
		l, err := c.eval(L, cw)
		if err != nil {
			return val{}, err
		}
		r, err := c.eval(R, R.sw)
		if err != nil {
			return val{}, err
		}
		if !l.known || !r.known {
			return unknownVal(cw), nil
		}
		res := shiftVal(l, r, n.op == oShl)
		if n.guard && res.bit(cw-1) == 1 {
			return val{}, c.negErr(n)
		}
		return res, nil
	case oLAnd, oLOr:
		l, err := c.eval(L, L.sw)
		if err != nil {
			return val{}, err
		}
		r, err := c.eval(R, R.sw)
		if err != nil {
			return val{}, err
		}
		// three-valued logic: 0 && x = 0, 1 || x = 1
		lt, lf := l.known && !l.isZero(), l.known && l.isZero()
		rt, rf := r.known && !r.isZero(), r.known && r.isZero()
		if n.op == oLAnd {
			switch {
			case lf || rf:
				return resize(boolVal(false), cw), nil
			case lt && rt:
				return resize(boolVal(true), cw), nil
			}
			return unknownVal(cw), nil
		}
		switch {
		case lt || rt:
			return resize(boolVal(true), cw), nil
		case lf && rf:
			return resize(boolVal(false), cw), nil
		}
		return unknownVal(cw), nil
	case oEq, oNe, oCEq, oCNe, oLt, oLe, oGt, oGe:
		w := maxInt(L.sw, R.sw)
		l, err := c.eval(L, w)
		if err != nil {
			return val{}, err
		}
		r, err := c.eval(R, w)
		if err != nil {
			return val{}, err
		}
		if !l.known || !r.known {
			return unknownVal(cw), nil
		}
		cmp := cmpVal(l, r)
		var b bool
		switch n.op {
		case oEq, oCEq:
			b = cmp == 0
		case oNe, oCNe:
			b = cmp != 0
		case oLt:
			b = cmp < 0
		case oLe:
			b = cmp <= 0
		case oGt:
			b = cmp > 0
		case oGe:
			b = cmp >= 0
		}
		return resize(boolVal(b), cw), nil
	}
	return val{}, c.errf(n.line, "internal: bad binary operator")
}

// ---------------------------------------------------------------- statements

const maxLoopIterations = 1 << 20

func (c *ctx) unknownBranch(line int) {
	c.s.UnknownBranches++
	c.s.UnknownBranchSites[fmt.Sprintf("%s (branch at line %d)", c.where, line)]++
}

func (c *ctx) exec(s *cstmt) error {
	if s == nil {
		return nil
	}
	switch s.kind {
	case csNull:
		return nil
	case csBlock:
		for _, b := range s.body {
			if err := c.exec(b); err != nil {
				return err
			}
		}
		return nil
	case csIf:
		v, err := c.eval(s.cond, s.cond.sw)
		if err != nil {
			return err
		}
		if !v.known {
			c.unknownBranch(s.line)
			return c.exec(s.els)
		}
		if !v.isZero() {
			return c.exec(s.then)
		}
		return c.exec(s.els)
	case csCase:
		sel, err := c.eval(s.sel, s.selW)
		if err != nil {
			return err
		}
		var def *cstmt
		for i := range s.arms {
			a := &s.arms[i]
			if a.isDefault {
				def = a.body
				continue
			}
			if !sel.known {
				continue
			}
			for _, l := range a.labels {
				lv, err := c.eval(l, s.selW)
				if err != nil {
					return err
				}
				if lv.known && sameBits(lv, sel) {
					return c.exec(a.body)
				}
			}
		}
		if !sel.known {
			c.unknownBranch(s.line)
		}
		return c.exec(def)
	case csFor:
		if err := c.exec(s.init); err != nil {
			return err
		}
		for iter := 0; ; iter++ {
			if iter >= maxLoopIterations {
				return c.errf(s.line, "for loop exceeded %d iterations", maxLoopIterations)
			}
			v, err := c.eval(s.cond, s.cond.sw)
			if err != nil {
				return err
			}
			if !v.known {
				c.unknownBranch(s.line)
				return nil
			}
			if v.isZero() {
				return nil
			}
			if err := c.exec(s.then); err != nil {
				return err
			}
			if err := c.exec(s.step); err != nil {
				return err
			}
		}
	case csAssign:
		return c.assign(s.lhs, s.rhs, s.nonblocking)
	}
	return c.errf(s.line, "internal: unknown statement kind")
}

func (c *ctx) assign(lv *lval, rhs *node, nonblocking bool) error {
	w := maxInt(lv.w, rhs.sw)
	v, err := c.eval(rhs, w)
	if err != nil {
		return err
	}
	v = resize(v, lv.w)
	var ws []write
	if ws, err = c.resolve(lv, v, ws); err != nil {
		return err
	}
	for _, wr := range ws {
		if nonblocking && c.overlay && !c.nbaAsBlocking {
			c.nba = append(c.nba, wr)
			continue
		}
		c.blockingWrite(wr)
	}
	return nil
}

// resolve evaluates the index expressions of an lvalue now and appends the
// resulting concrete writes.
func (c *ctx) resolve(lv *lval, v val, out []write) ([]write, error) {
	if lv.kind == lvConcat {
		rem := lv.w
		var err error
		for _, p := range lv.parts {
			rem -= p.w
			if out, err = c.resolve(p, slice(v, rem, p.w), out); err != nil {
				return nil, err
			}
		}
		return out, nil
	}
	s := lv.sig
	slot := -1
	if lv.kind == lvMem {
		a, err := c.eval(lv.addr, lv.addr.sw)
		if err != nil {
			return nil, err
		}
		if !a.known {
			c.s.UnknownIndexWrites++
			return out, nil
		}
		idx, ok := toIndex(a)
		slot = idx - s.memLo
		if !ok || slot < 0 || slot >= s.depth {
			c.s.OutOfRange++
			return out, nil
		}
	}
	switch lv.sel {
	case selNone:
		return append(out, write{sig: s, slot: slot, pos: 0, n: s.w, v: v}), nil
	case selPart:
		return append(out, write{sig: s, slot: slot, pos: lv.pos, n: lv.n, v: v}), nil
	case selBit:
		iv, err := c.eval(lv.idx, lv.idx.sw)
		if err != nil {
			return nil, err
		}
		if !iv.known {
			c.s.UnknownIndexWrites++
			return out, nil
		}
		idx, ok := toIndex(iv)
		pos := 0
		if ok {
			pos, ok = bitPos(s.msb, s.lsb, idx)
		}
		if !ok {
			c.s.OutOfRange++
			return out, nil
		}
		return append(out, write{sig: s, slot: slot, pos: pos, n: 1, v: v}), nil
	case selIdx:
		sv, err := c.eval(lv.idx, lv.idx.sw)
		if err != nil {
			return nil, err
		}
		if !sv.known {
			c.s.UnknownIndexWrites++
			return out, nil
		}
		pos, ok := idxPartPos(s.msb, s.lsb, sv, lv.n, lv.up)
		if !ok {
			c.s.OutOfRange++
			return out, nil
		}
		return append(out, write{sig: s, slot: slot, pos: pos, n: lv.n, v: v}), nil
	}
	return nil, c.errf(lv.line, "internal: bad lvalue")
}

// merge applies a write to the current bits/unknown-mask of its target.
func merge(curV, curX val, w write) (val, val) {
	bits := w.v
	var xb val
	if bits.known {
		xb = zeroVal(w.n)
	} else {
		bits = zeroVal(w.n)
		xb = onesVal(w.n)
	}
	return setSlice(curV, w.pos, bits), setSlice(curX, w.pos, xb)
}

// blockingWrite performs a blocking (or continuous) assignment.
func (c *ctx) blockingWrite(w write) {
	if w.slot < 0 {
		cv, cx := c.readSig(w.sig)
		nv, nx := merge(cv, cx, w)
		if c.overlay {
			if c.ovS == nil {
				c.ovS = map[int]*ovEntry{}
			}
			c.ovS[w.sig.id] = &ovEntry{nv, nx}
			return
		}
		if !sameBits(cv, nv) || !sameBits(cx, nx) {
			w.sig.v, w.sig.x = nv, nx
			c.changed = true
			c.s.dirty = true
		}
		return
	}
	cv, cx := c.readMem(w.sig, w.slot)
	nv, nx := merge(cv, cx, w)
	if c.overlay {
		if c.ovM == nil {
			c.ovM = map[memKey]*ovEntry{}
		}
		c.ovM[memKey{w.sig.id, w.slot}] = &ovEntry{nv, nx}
		return
	}
	if !sameBits(cv, nv) || !sameBits(cx, nx) {
		w.sig.mv[w.slot], w.sig.mx[w.slot] = nv, nx
		c.changed = true
		c.s.dirty = true
	}
}

// commitOverlay copies the overlay into the simulator state.  It reports
// whether anything changed; written (if non-nil) collects the ids of all
// signals that were assigned.
func (c *ctx) commitOverlay(written map[int]bool) bool {
	changed := false
	for id, e := range c.ovS {
		s := c.s.sigs[id]
		if written != nil {
			written[id] = true
		}
		if !sameBits(s.v, e.v) || !sameBits(s.x, e.x) {
			s.v, s.x = e.v, e.x
			changed = true
		}
	}
	for k, e := range c.ovM {
		s := c.s.sigs[k.id]
		if written != nil {
			written[k.id] = true
		}
		if !sameBits(s.mv[k.slot], e.v) || !sameBits(s.mx[k.slot], e.x) {
			s.mv[k.slot], s.mx[k.slot] = e.v, e.x
			changed = true
		}
	}
	c.ovS, c.ovM = nil, nil
	if changed {
		c.s.dirty = true
	}
	return changed
}

// applyNBA performs the collected non-blocking assignments in order.
func (c *ctx) applyNBA(written map[int]bool) {
	for _, w := range c.nba {
		if written != nil {
			written[w.sig.id] = true
		}
		if w.slot < 0 {
			nv, nx := merge(w.sig.v, w.sig.x, w)
			if !sameBits(w.sig.v, nv) || !sameBits(w.sig.x, nx) {
				w.sig.v, w.sig.x = nv, nx
				c.s.dirty = true
			}
			continue
		}
		nv, nx := merge(w.sig.mv[w.slot], w.sig.mx[w.slot], w)
		if !sameBits(w.sig.mv[w.slot], nv) || !sameBits(w.sig.mx[w.slot], nx) {
			w.sig.mv[w.slot], w.sig.mx[w.slot] = nv, nx
			c.s.dirty = true
		}
	}
	c.nba = nil
}
