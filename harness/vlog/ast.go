package vlog

// maxWidth bounds vector widths and memory depths to keep allocations sane.
const maxWidth = 1 << 20

type exprKind int

const (
	exNum      exprKind = iota
	exIdent             // name
	exIndex             // kids[0]=base, kids[1]=index
	exRange             // kids[0]=base, kids[1]=msb, kids[2]=lsb
	exIdxRange          // kids[0]=base, kids[1]=start, kids[2]=width; op "+:" or "-:"
	exConcat            // kids = items, first is most significant
	exRepl              // kids[0]=count, kids[1]=concat
	exUnary             // op, kids[0]
	exBinary            // op, kids[0], kids[1]
	exTernary           // kids[0] ? kids[1] : kids[2]
	exString
	exSysCall // name, kids = args
)

// Expr is a parsed (unbound) expression.
type Expr struct {
	kind exprKind
	op   string
	name string
	num  *numLit
	kids []*Expr
	line int
}

type stmtKind int

const (
	stNull stmtKind = iota
	stBlock
	stIf
	stCase
	stFor
	stAssign
	stSysTask
)

type caseArm struct {
	labels    []*Expr
	isDefault bool
	body      *Stmt
}

// Stmt is a parsed procedural statement.
type Stmt struct {
	kind stmtKind
	line int

	name  string      // stBlock: optional label; stSysTask: task name
	decls []*declItem // stBlock: local declarations
	body  []*Stmt     // stBlock

	cond      *Expr // stIf, stFor
	then, els *Stmt // stIf; stFor uses then as the body

	sel  *Expr // stCase
	arms []caseArm

	init, step *Stmt // stFor

	lhs, rhs    *Expr // stAssign
	nonblocking bool
}

type rangeExpr struct {
	msb, lsb *Expr
}

type declName struct {
	name   string
	memRng *rangeExpr // memory dimension, nil for plain vectors
	init   *Expr      // "wire x = e" / "reg x = e"
	line   int
}

// declItem is an input/output/inout/wire/reg/integer declaration.
type declItem struct {
	dir     string // "", "input", "output", "inout"
	net     string // "", "wire", "reg", "integer"
	rng     *rangeExpr
	names   []declName
	line    int
	isParam bool // parameter / localparam
	local   bool // localparam
}

type assignItem struct {
	lhs, rhs         *Expr
	lhsText, rhsText string
	line             int
}

type edgeEvent struct {
	edge string // "posedge", "negedge" or "" (level)
	name string
}

type alwaysItem struct {
	star   bool // @* or @(*)
	events []edgeEvent
	body   *Stmt
	line   int
}

type initialItem struct {
	body *Stmt
	line int
}

type connItem struct {
	port string // "" for positional
	expr *Expr  // nil if unconnected
	text string
	line int
}

type paramOverride struct {
	name string // "" for positional
	expr *Expr
}

type instItem struct {
	module string
	name   string
	params []paramOverride
	conns  []connItem
	named  bool
	line   int
}

// item is one of *declItem, *assignItem, *alwaysItem, *initialItem, *instItem.
type item interface{}

type module struct {
	name      string
	line      int
	portOrder []string
	items     []item
}
