package vlog

import (
	"math/big"
	"math/bits"
)

// val is an unsigned bit vector of width w plus an all-or-nothing "known"
// taint.  Invariants:
//   - w >= 1
//   - if w <= 64: big == nil and lo holds the value masked to w bits
//   - if w  > 64: big != nil, 0 <= big < 2^w, lo is unused (0)
//   - a *big.Int reachable from a val is never mutated after creation
//   - an unknown value (known == false) carries value bits 0
//
// The same type is used for stored unknown-masks (the known flag is ignored
// there).
type val struct {
	w     int
	known bool
	lo    uint64
	big   *big.Int
}

// forceBig makes every arithmetic helper take the math/big path even for
// narrow values.  It exists only so the tests can cross-check both paths.
var forceBig bool

var big1 = big.NewInt(1)

func mask64(w int) uint64 {
	if w >= 64 {
		return ^uint64(0)
	}
	return (uint64(1) << uint(w)) - 1
}

func bigMask(w int) *big.Int {
	m := new(big.Int).Lsh(big1, uint(w))
	return m.Sub(m, big1)
}

// mkVal builds a known value of width w from a uint64 (truncating).
func mkVal(w int, x uint64) val {
	if w <= 64 {
		return val{w: w, known: true, lo: x & mask64(w)}
	}
	return val{w: w, known: true, big: new(big.Int).SetUint64(x)}
}

// mkBig builds a known value of width w from a big.Int, reducing it modulo
// 2^w (negative numbers wrap as two's complement).  b is not retained.
func mkBig(w int, b *big.Int) val {
	r := new(big.Int).And(b, bigMask(w))
	if w <= 64 {
		return val{w: w, known: true, lo: r.Uint64()}
	}
	return val{w: w, known: true, big: r}
}

func unknownVal(w int) val {
	if w <= 64 {
		return val{w: w}
	}
	return val{w: w, big: new(big.Int)}
}

func zeroVal(w int) val { return mkVal(w, 0) }

func onesVal(w int) val {
	if w <= 64 {
		return val{w: w, known: true, lo: mask64(w)}
	}
	return val{w: w, known: true, big: bigMask(w)}
}

// bigv returns the value as a big.Int that must NOT be mutated.
func (v val) bigv() *big.Int {
	if v.big != nil {
		return v.big
	}
	return new(big.Int).SetUint64(v.lo)
}

func (v val) isZero() bool {
	if v.big != nil {
		return v.big.Sign() == 0
	}
	return v.lo == 0
}

// bit returns bit i (0 = LSB); i must be < w.
func (v val) bit(i int) uint {
	if v.big != nil {
		return v.big.Bit(i)
	}
	return uint(v.lo>>uint(i)) & 1
}

// fitsUint64 reports whether the value is representable in 64 bits.
func (v val) fitsUint64() bool {
	if v.big != nil {
		return v.big.IsUint64()
	}
	return true
}

func (v val) uint64() uint64 {
	if v.big != nil {
		return new(big.Int).And(v.big, bigMask(64)).Uint64()
	}
	return v.lo
}

func sameBits(a, b val) bool {
	if a.w != b.w {
		return false
	}
	if a.big != nil || b.big != nil {
		return a.bigv().Cmp(b.bigv()) == 0
	}
	return a.lo == b.lo
}

// resize zero-extends or truncates to w bits, preserving the known flag.
func resize(v val, w int) val {
	if w == v.w {
		return v
	}
	if !v.known {
		return unknownVal(w)
	}
	if v.w <= 64 && w <= 64 && !forceBig {
		return val{w: w, known: true, lo: v.lo & mask64(w)}
	}
	return mkBig(w, v.bigv())
}

// slice extracts n bits starting at bit pos (pos+n <= v.w).  The known flag
// is inherited.
func slice(v val, pos, n int) val {
	if pos == 0 && n == v.w {
		return v
	}
	if !v.known {
		return unknownVal(n)
	}
	if v.w <= 64 && !forceBig {
		return val{w: n, known: true, lo: (v.lo >> uint(pos)) & mask64(n)}
	}
	r := new(big.Int).Rsh(v.bigv(), uint(pos))
	return mkBig(n, r)
}

// setSlice returns v with bits [pos+src.w-1 : pos] replaced by src's bits.
// Only the raw bits are handled; known flags are the caller's business (the
// result is flagged known).
func setSlice(v val, pos int, src val) val {
	n := src.w
	if pos == 0 && n == v.w {
		r := src
		r.known = true
		return r
	}
	if v.w <= 64 && !forceBig {
		m := mask64(n) << uint(pos)
		return val{w: v.w, known: true, lo: (v.lo &^ m) | ((src.lo << uint(pos)) & m)}
	}
	m := new(big.Int).Lsh(bigMask(n), uint(pos))
	r := new(big.Int).AndNot(v.bigv(), m)
	s := new(big.Int).Lsh(src.bigv(), uint(pos))
	r.Or(r, s)
	return mkBig(v.w, r)
}

// concatVals joins parts, first part most significant.  All parts must be
// known (callers check).
func concatVals(parts []val) val {
	w := 0
	for _, p := range parts {
		w += p.w
	}
	if w <= 64 && !forceBig {
		var x uint64
		for _, p := range parts {
			x = (x << uint(p.w)) | p.lo
		}
		return val{w: w, known: true, lo: x & mask64(w)}
	}
	r := new(big.Int)
	for _, p := range parts {
		r.Lsh(r, uint(p.w))
		r.Or(r, p.bigv())
	}
	return mkBig(w, r)
}

type arithOp int

const (
	opAdd arithOp = iota
	opSub
	opMul
	opDiv
	opMod
	opAnd
	opOr
	opXor
	opXnor
)

// arith computes a op b where a.w == b.w; the result has the same width.
// Division/modulo by zero yields an unknown value.
func arith(op arithOp, a, b val) val {
	w := a.w
	if w <= 64 && !forceBig {
		var r uint64
		switch op {
		case opAdd:
			r = a.lo + b.lo
		case opSub:
			r = a.lo - b.lo
		case opMul:
			r = a.lo * b.lo
		case opDiv:
			if b.lo == 0 {
				return unknownVal(w)
			}
			r = a.lo / b.lo
		case opMod:
			if b.lo == 0 {
				return unknownVal(w)
			}
			r = a.lo % b.lo
		case opAnd:
			r = a.lo & b.lo
		case opOr:
			r = a.lo | b.lo
		case opXor:
			r = a.lo ^ b.lo
		case opXnor:
			r = ^(a.lo ^ b.lo)
		}
		return val{w: w, known: true, lo: r & mask64(w)}
	}
	x, y := a.bigv(), b.bigv()
	r := new(big.Int)
	switch op {
	case opAdd:
		r.Add(x, y)
	case opSub:
		r.Sub(x, y)
	case opMul:
		r.Mul(x, y)
	case opDiv:
		if y.Sign() == 0 {
			return unknownVal(w)
		}
		r.Quo(x, y)
	case opMod:
		if y.Sign() == 0 {
			return unknownVal(w)
		}
		r.Rem(x, y)
	case opAnd:
		r.And(x, y)
	case opOr:
		r.Or(x, y)
	case opXor:
		r.Xor(x, y)
	case opXnor:
		r.Xor(x, y)
		r.Xor(r, bigMask(w))
	}
	return mkBig(w, r)
}

func notVal(a val) val {
	if a.w <= 64 && !forceBig {
		return val{w: a.w, known: true, lo: ^a.lo & mask64(a.w)}
	}
	return mkBig(a.w, new(big.Int).Xor(a.bigv(), bigMask(a.w)))
}

func negVal(a val) val {
	if a.w <= 64 && !forceBig {
		return val{w: a.w, known: true, lo: (-a.lo) & mask64(a.w)}
	}
	return mkBig(a.w, new(big.Int).Neg(a.bigv()))
}

// shiftVal shifts a left or right (logical) by n bits, n given as a val of
// any width.
func shiftVal(a val, n val, left bool) val {
	if !n.fitsUint64() || n.uint64() >= uint64(a.w) {
		return zeroVal(a.w)
	}
	sh := uint(n.uint64())
	if a.w <= 64 && !forceBig {
		if left {
			return val{w: a.w, known: true, lo: (a.lo << sh) & mask64(a.w)}
		}
		return val{w: a.w, known: true, lo: a.lo >> sh}
	}
	r := new(big.Int)
	if left {
		r.Lsh(a.bigv(), sh)
	} else {
		r.Rsh(a.bigv(), sh)
	}
	return mkBig(a.w, r)
}

// cmpVal compares two equal-width values as unsigned numbers.
func cmpVal(a, b val) int {
	if a.big == nil && b.big == nil && !forceBig {
		switch {
		case a.lo < b.lo:
			return -1
		case a.lo > b.lo:
			return 1
		}
		return 0
	}
	return a.bigv().Cmp(b.bigv())
}

// popcountParity returns the XOR of all bits.
func parityVal(a val) uint64 {
	if a.big == nil {
		return uint64(bits.OnesCount64(a.lo) & 1)
	}
	n := 0
	for _, w := range a.big.Bits() {
		n += bits.OnesCount(uint(w))
	}
	return uint64(n & 1)
}

func isAllOnes(a val) bool {
	if a.big == nil {
		return a.lo == mask64(a.w)
	}
	return a.big.Cmp(bigMask(a.w)) == 0
}

func boolVal(b bool) val {
	if b {
		return val{w: 1, known: true, lo: 1}
	}
	return val{w: 1, known: true}
}
