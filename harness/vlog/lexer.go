package vlog

import (
	"fmt"
	"math/big"
	"strings"
)

type tokKind int

const (
	tEOF tokKind = iota
	tIdent
	tSysIdent
	tNumber
	tString
	tOp
)

type token struct {
	kind     tokKind
	text     string
	line     int
	pos, end int // byte offsets into the source
	num      *numLit
}

// numLit is a Verilog number literal already converted to bits.
type numLit struct {
	w      int      // width (32 or more for unsized literals)
	sized  bool     // an explicit size was given
	signed bool     // plain decimal literal or 's' flag
	v      *big.Int // value bits (0 where xm has a 1)
	xm     *big.Int // unknown (x/z) bit mask
	// raw pieces, kept so that the parser can join "8 'hff" (size and based
	// part separated by white space) into one sized literal
	plain  bool   // plain decimal without base
	base   byte   // 'b','o','d','h' for based literals
	digits string // digits of a based literal / of a plain decimal
}

func isIdentStart(c byte) bool {
	return c == '_' || (c >= 'a' && c <= 'z') || (c >= 'A' && c <= 'Z')
}
func isIdentChar(c byte) bool { return isIdentStart(c) || c == '$' || (c >= '0' && c <= '9') }
func isDigit(c byte) bool     { return c >= '0' && c <= '9' }
func isSpace(c byte) bool     { return c == ' ' || c == '\t' || c == '\n' || c == '\r' || c == '\f' }

var operators = []string{
	"<<<", ">>>", "===", "!==",
	"<<", ">>", "<=", ">=", "==", "!=", "&&", "||", "~^", "^~", "~&", "~|", "**",
}

type lexError struct {
	line int
	msg  string
}

func (e *lexError) Error() string { return fmt.Sprintf("line %d: %s", e.line, e.msg) }

// lex converts source text to tokens.  Comments, attributes (* ... *) and the
// harmless compiler directives are dropped.
func lex(src string) ([]token, error) {
	var toks []token
	line := 1
	i := 0
	n := len(src)
	brDepth := 0
	errf := func(format string, a ...interface{}) error {
		return &lexError{line, fmt.Sprintf(format, a...)}
	}
	for i < n {
		c := src[i]
		if c == '\n' {
			line++
			i++
			continue
		}
		if isSpace(c) {
			i++
			continue
		}
		// comments
		if c == '/' && i+1 < n && src[i+1] == '/' {
			for i < n && src[i] != '\n' {
				i++
			}
			continue
		}
		if c == '/' && i+1 < n && src[i+1] == '*' {
			j := strings.Index(src[i+2:], "*/")
			if j < 0 {
				return nil, errf("unterminated /* comment")
			}
			line += strings.Count(src[i:i+2+j+2], "\n")
			i += 2 + j + 2
			continue
		}
		// compiler directives
		if c == '`' {
			j := i + 1
			for j < n && isIdentChar(src[j]) {
				j++
			}
			name := src[i+1 : j]
			switch name {
			case "timescale", "default_nettype", "resetall", "celldefine", "endcelldefine", "nounconnected_drive", "unconnected_drive":
				for j < n && src[j] != '\n' {
					j++
				}
				i = j
				continue
			}
			return nil, errf("unsupported compiler directive `%s", name)
		}
		// attributes (* ... *), but not the @(*) sensitivity list
		if c == '(' && i+1 < n && src[i+1] == '*' {
			j := i + 2
			for j < n && isSpace(src[j]) {
				j++
			}
			if j < n && src[j] == ')' {
				// "(*)": emit the three tokens separately
				toks = append(toks, token{kind: tOp, text: "(", line: line, pos: i, end: i + 1})
				toks = append(toks, token{kind: tOp, text: "*", line: line, pos: i + 1, end: i + 2})
				line += strings.Count(src[i:j], "\n")
				toks = append(toks, token{kind: tOp, text: ")", line: line, pos: j, end: j + 1})
				i = j + 1
				continue
			}
			k := strings.Index(src[i+2:], "*)")
			if k < 0 {
				return nil, errf("unterminated (* attribute")
			}
			line += strings.Count(src[i:i+2+k+2], "\n")
			i += 2 + k + 2
			continue
		}
		start := i
		switch {
		case isIdentStart(c):
			j := i
			for j < n && isIdentChar(src[j]) {
				j++
			}
			toks = append(toks, token{kind: tIdent, text: src[i:j], line: line, pos: i, end: j})
			i = j
		case c == '\\':
			// escaped identifier: up to whitespace
			j := i + 1
			for j < n && !isSpace(src[j]) {
				j++
			}
			if j == i+1 {
				return nil, errf("empty escaped identifier")
			}
			toks = append(toks, token{kind: tIdent, text: src[i+1 : j], line: line, pos: i, end: j})
			i = j
		case c == '$':
			j := i + 1
			for j < n && isIdentChar(src[j]) {
				j++
			}
			if j == i+1 {
				return nil, errf("stray '$'")
			}
			toks = append(toks, token{kind: tSysIdent, text: src[i:j], line: line, pos: i, end: j})
			i = j
		case c == '"':
			j := i + 1
			for j < n && src[j] != '"' {
				if src[j] == '\\' {
					j++
				}
				if j < n && src[j] == '\n' {
					return nil, errf("newline in string literal")
				}
				j++
			}
			if j >= n {
				return nil, errf("unterminated string literal")
			}
			toks = append(toks, token{kind: tString, text: src[i : j+1], line: line, pos: i, end: j + 1})
			i = j + 1
		case isDigit(c) || c == '\'':
			j := i
			sizeStr := ""
			if isDigit(c) {
				for j < n && (isDigit(src[j]) || src[j] == '_') {
					j++
				}
				sizeStr = strings.ReplaceAll(src[i:j], "_", "")
				// real numbers are not supported
				if j+1 < n && src[j] == '.' && isDigit(src[j+1]) {
					return nil, errf("unsupported: real number literal")
				}
				// a base specifier must follow immediately to be merged here;
				// "8 'hff" is joined by the parser ("#1 'b0" must stay apart)
				if j < n && src[j] == '\'' && j+1 < n && isBaseStart(src[j+1:]) {
					// fall through to the based part
				} else {
					// plain decimal
					lit, err := makeDecimal(sizeStr)
					if err != nil {
						return nil, errf("%v", err)
					}
					toks = append(toks, token{kind: tNumber, text: src[start:j], line: line, pos: start, end: j, num: lit})
					i = j
					continue
				}
			}
			// src[j] == '\''
			if !(j+1 < n && isBaseStart(src[j+1:])) {
				return nil, errf("unsupported: literal starting with ' (SystemVerilog fill literal or cast?)")
			}
			j++
			signed := false
			if src[j] == 's' || src[j] == 'S' {
				signed = true
				j++
			}
			base := src[j] | 0x20
			j++
			for j < n && (src[j] == ' ' || src[j] == '\t') {
				j++
			}
			k := j
			for k < n && (isIdentChar(src[k]) || src[k] == '?') && src[k] != '$' {
				k++
			}
			digits := strings.ReplaceAll(src[j:k], "_", "")
			if digits == "" {
				return nil, errf("number literal without digits")
			}
			lit, err := makeBased(sizeStr, base, signed, digits)
			if err != nil {
				return nil, errf("%v", err)
			}
			toks = append(toks, token{kind: tNumber, text: src[start:k], line: line, pos: start, end: k, num: lit})
			i = k
		default:
			matched := false
			if brDepth > 0 && i+1 < n && (c == '+' || c == '-') && src[i+1] == ':' {
				toks = append(toks, token{kind: tOp, text: src[i : i+2], line: line, pos: i, end: i + 2})
				i += 2
				matched = true
			}
			if !matched {
				for _, op := range operators {
					if strings.HasPrefix(src[i:], op) {
						toks = append(toks, token{kind: tOp, text: op, line: line, pos: i, end: i + len(op)})
						i += len(op)
						matched = true
						break
					}
				}
			}
			if !matched {
				if strings.IndexByte("()[]{};,.:?=+-*/%&|^~!<>@#", c) < 0 {
					return nil, errf("unexpected character %q", c)
				}
				if c == '[' {
					brDepth++
				} else if c == ']' && brDepth > 0 {
					brDepth--
				}
				toks = append(toks, token{kind: tOp, text: string(c), line: line, pos: i, end: i + 1})
				i++
			}
		}
	}
	toks = append(toks, token{kind: tEOF, text: "<EOF>", line: line, pos: n, end: n})
	return toks, nil
}

// isBaseStart reports whether s starts with [sS]?[bBoOdDhH].
func isBaseStart(s string) bool {
	if len(s) == 0 {
		return false
	}
	k := 0
	if s[0] == 's' || s[0] == 'S' {
		k = 1
	}
	if k >= len(s) {
		return false
	}
	switch s[k] | 0x20 {
	case 'b', 'o', 'd', 'h':
		return true
	}
	return false
}

func makeDecimal(digits string) (*numLit, error) {
	v, ok := new(big.Int).SetString(digits, 10)
	if !ok {
		return nil, fmt.Errorf("bad decimal literal %q", digits)
	}
	w := 32
	if v.BitLen() > w {
		w = v.BitLen()
	}
	return &numLit{w: w, signed: true, v: v, xm: new(big.Int), plain: true, digits: digits}, nil
}

func makeBased(sizeStr string, base byte, signed bool, digits string) (*numLit, error) {
	lit := &numLit{signed: signed, base: base, digits: digits}
	size := 0
	if sizeStr != "" {
		sv, ok := new(big.Int).SetString(sizeStr, 10)
		if !ok || !sv.IsInt64() || sv.Int64() <= 0 || sv.Int64() > maxWidth {
			return nil, fmt.Errorf("bad literal size %q", sizeStr)
		}
		size = int(sv.Int64())
		lit.sized = true
	}
	v := new(big.Int)
	xm := new(big.Int)
	nbits := 0    // number of bits described by the digits
	topX := false // most significant digit is x/z
	switch base {
	case 'd':
		lower := strings.ToLower(digits)
		if lower == "x" || lower == "z" || lower == "?" {
			topX = true
			nbits = 1
			xm.SetInt64(1)
		} else {
			if _, ok := v.SetString(digits, 10); !ok {
				return nil, fmt.Errorf("bad decimal digits %q", digits)
			}
			nbits = v.BitLen()
			if nbits == 0 {
				nbits = 1
			}
		}
	case 'b', 'o', 'h':
		k := map[byte]int{'b': 1, 'o': 3, 'h': 4}[base]
		for idx := 0; idx < len(digits); idx++ {
			c := digits[idx] | 0x20
			if digits[idx] == '?' {
				c = 'z'
			}
			v.Lsh(v, uint(k))
			xm.Lsh(xm, uint(k))
			switch {
			case c == 'x' || c == 'z':
				xm.Or(xm, big.NewInt(int64(1<<uint(k))-1))
				if idx == 0 {
					topX = true
				}
			default:
				d := -1
				switch {
				case c >= '0' && c <= '9':
					d = int(c - '0')
				case c >= 'a' && c <= 'f':
					d = int(c-'a') + 10
				}
				if d < 0 || d >= 1<<uint(k) {
					return nil, fmt.Errorf("bad digit %q for base '%c", digits[idx], base)
				}
				v.Or(v, big.NewInt(int64(d)))
			}
		}
		nbits = k * len(digits)
	default:
		return nil, fmt.Errorf("bad base %q", base)
	}
	w := size
	if !lit.sized {
		w = 32
		need := v.BitLen()
		if xm.BitLen() > need {
			need = xm.BitLen()
		}
		if need > w {
			w = need
		}
	}
	if w > nbits && topX {
		// x/z extension of the leftmost digit
		ext := new(big.Int).Lsh(bigMask(w-nbits), uint(nbits))
		xm.Or(xm, ext)
	}
	m := bigMask(w)
	v.And(v, m)
	xm.And(xm, m)
	v.AndNot(v, xm)
	lit.w = w
	lit.v = v
	lit.xm = xm
	return lit, nil
}
