package vlog

import (
	"os"
	"path/filepath"
	"reflect"
	"sort"
	"strings"
	"testing"
)

func readTestdata(t *testing.T, names ...string) []string {
	t.Helper()
	var out []string
	for _, n := range names {
		b, err := os.ReadFile(filepath.Join("testdata", n))
		if err != nil {
			t.Fatal(err)
		}
		out = append(out, string(b))
	}
	return out
}

var bondmachineFiles = []string{"bondmachine.v", "arch_0.v", "arch_1.v", "p0.v", "p0rom.v", "p0ram.v", "p1.v", "p1rom.v", "p1ram.v"}

func TestBondMachineEndToEnd(t *testing.T) {
	d, err := Parse(readTestdata(t, bondmachineFiles...)...)
	if err != nil {
		t.Fatal(err)
	}
	mods := d.Modules()
	sort.Strings(mods)
	if !reflect.DeepEqual(mods, []string{"a0", "a1", "bondmachine", "p0", "p0ram", "p0rom", "p1", "p1ram", "p1rom"}) {
		t.Fatalf("Modules = %v", mods)
	}
	if tops := d.Tops(); !reflect.DeepEqual(tops, []string{"bondmachine"}) {
		t.Fatalf("Tops = %v", tops)
	}
	// netlist extraction API
	ports := d.Ports("bondmachine")
	if len(ports) != 11 || ports[2] != (Port{"i0", "input", 8}) || ports[4] != (Port{"i0_received", "output", 1}) || ports[5] != (Port{"o0", "output", 8}) {
		t.Errorf("Ports(bondmachine) = %v", ports)
	}
	if got := d.Ports("p0rom"); !reflect.DeepEqual(got, []Port{{"rom_bus", "input", 4}, {"rom_value", "output", 14}}) {
		t.Errorf("Ports(p0rom) = %v", got)
	}
	insts := d.Instances("bondmachine")
	if len(insts) != 2 || insts[1].Module != "a1" || insts[1].Name != "a1_inst" ||
		!reflect.DeepEqual(insts[1].Conns, []Conn{{"clock_signal", "clk"}, {"reset_signal", "reset"}, {"i0", "p0o0"}, {"i0_valid", "p0o0_valid"},
			{"i0_received", "p1i0_received"}, {"o0", "p1o0"}, {"o0_valid", "p1o0_valid"}, {"o0_received", "p1o0_received"}}) {
		t.Errorf("Instances(bondmachine) = %+v", insts)
	}
	as := d.Assigns("bondmachine")
	if len(as) != 8 || as[0] != (Assign{"o0", "p1o0"}) || as[4] != (Assign{"p0o0_received", "p1i0_received"}) {
		t.Errorf("Assigns(bondmachine) = %v", as)
	}

	s, err := Elaborate(d, "bondmachine")
	if err != nil {
		t.Fatal(err)
	}
	for _, n := range []string{"clk", "i0", "o0_valid", "a0_inst.p0_instance._pc", "a0_inst.p0_instance._r3", "a1_inst.p1_instance._pc",
		"a0_inst.p0rom_instance._rom", "a0_inst.p0ram_instance.mem", "a0_inst.p0ram_instance.MEM_WRITE.k", "a0_inst.rom_value"} {
		if !s.Has(n) {
			t.Errorf("missing signal %q", n)
		}
	}
	if s.Width("a0_inst.p0_instance._pc") != 4 || s.Width("a0_inst.rom_value") != 14 {
		t.Error("widths wrong")
	}
	if d, ok := s.IsMem("a0_inst.p0rom_instance._rom"); !ok || d != 16 {
		t.Errorf("rom depth %d %v", d, ok)
	}
	if v, kn := s.GetMem("a0_inst.p0rom_instance._rom", 1); !kn || v != 0x3103 {
		t.Errorf("rom[1] = %#x,%v (initial block did not run?)", v, kn)
	}
	if _, kn := s.GetMem("a0_inst.p0rom_instance._rom", 13); kn {
		t.Error("rom[13] is never initialised and must be unknown")
	}
	check(t, s, k("a0_inst.p0_instance.waitsm", 0), x("a0_inst.p0_instance._pc"))
	// every clocked block must hang on the top-level clk (and reset)
	for _, cb := range s.ClockedBlocks() {
		if !strings.HasSuffix(cb, "-> posedge clk") && !strings.HasSuffix(cb, "-> posedge clk, posedge reset") {
			t.Errorf("unexpected clocking: %s", cb)
		}
	}
	for _, w := range s.Warnings {
		t.Logf("warning: %s", w)
	}

	s.Set("reset", 1)
	s.Set("i0", 5)
	s.Set("i0_valid", 1)
	s.Set("o0_received", 0)
	s.Set("o1_received", 0)
	pcs := map[uint64]bool{}
	var o0Values, o1Values []uint64
	handshakes := 0
	prevValid := uint64(0)
	for i := 0; i < 300; i++ {
		if i == 2 {
			s.Set("reset", 0)
		}
		// the environment echoes last cycle's valid as received
		ov0, k0 := s.Get("o0_valid")
		ov1, k1 := s.Get("o1_valid")
		if i >= 1 && (!k0 || !k1) {
			t.Fatalf("cycle %d: o0_valid/o1_valid unknown after reset", i)
		}
		s.Set("o0_received", ov0)
		s.Set("o1_received", ov1)
		if err := s.Step("clk"); err != nil {
			t.Fatalf("cycle %d: %v", i, err)
		}
		pc, known := s.Get("a0_inst.p0_instance._pc")
		if !known {
			t.Fatalf("cycle %d: pc unknown", i)
		}
		pcs[pc] = true
		if i < 2 && pc != 0 {
			t.Errorf("cycle %d: pc = %d during reset", i, pc)
		}
		v0, _ := s.Get("o0_valid")
		if v0 == 1 && prevValid == 0 {
			handshakes++
			o, kn := s.Get("o0")
			if !kn {
				t.Errorf("cycle %d: o0 unknown while valid", i)
			}
			o0Values = append(o0Values, o)
		}
		prevValid = v0
		if v1, _ := s.Get("o1_valid"); v1 == 1 {
			o, _ := s.Get("o1")
			if len(o1Values) == 0 || o1Values[len(o1Values)-1] != o {
				o1Values = append(o1Values, o)
			}
		}
	}
	if len(pcs) < 10 {
		t.Errorf("pc visited only %d distinct values: %v", len(pcs), pcs)
	}
	if handshakes < 10 {
		t.Errorf("only %d o0_valid handshakes in 300 cycles", handshakes)
	}
	// p0 computes r0 = ((r0+1+3)*3)-1 each round (8 bit) and sends it to p1,
	// which adds one and outputs it: 12, 45, 144, 185, ...
	want := []uint64{12, 45, 144, 185}
	if len(o0Values) < 4 || !reflect.DeepEqual(o0Values[:4], want) {
		t.Errorf("o0 sequence = %v, want prefix %v", o0Values, want)
	}
	r0 := uint64(0)
	for i, got := range o0Values {
		r0 = ((r0+1+3)*3 - 1) & 0xff
		if got != (r0+1)&0xff {
			t.Errorf("o0 value #%d = %d, want %d", i, got, (r0+1)&0xff)
		}
	}
	if len(o1Values) == 0 || o1Values[0] != 5 {
		t.Errorf("o1 values = %v, want the echoed input 5", o1Values)
	}
	// the undriven ram_wren makes the RAM blocks branch on an unknown
	if s.UnknownBranches == 0 {
		t.Error("expected UnknownBranches > 0 (p0ram/p1ram wren is undriven in this design)")
	}
	for site := range s.UnknownBranchSites {
		if !strings.Contains(site, "ram") {
			t.Errorf("unknown branch outside the RAM models: %s", site)
		}
	}
	lw := s.LastWrites()
	if len(lw) == 0 || !sort.StringsAreSorted(lw) {
		t.Errorf("LastWrites = %v", lw)
	}
	for _, n := range lw {
		if !s.Has(n) || s.Kind(n) == "wire" {
			t.Errorf("LastWrites contains %q which is not a variable", n)
		}
	}
}

// stackEnv drives the bmstack handshakes.
type stackEnv struct {
	t *testing.T
	s *Sim
}

func (e *stackEnv) step() {
	e.t.Helper()
	if err := e.s.Step("clk"); err != nil {
		e.t.Fatal(err)
	}
}

func (e *stackEnv) get(n string) uint64 {
	e.t.Helper()
	v, known := e.s.Get(n)
	if !known {
		e.t.Fatalf("%s is unknown", n)
	}
	return v
}

// push sends v through the given sender; it returns false if no ack arrives.
func (e *stackEnv) push(sender string, v uint64) bool {
	e.t.Helper()
	e.s.Set(sender+"Data", v)
	e.s.Set(sender+"Write", 1)
	acked := false
	for i := 0; i < 12 && !acked; i++ {
		e.step()
		acked = e.get(sender+"Ack") == 1
	}
	e.s.Set(sender+"Write", 0)
	for i := 0; i < 12 && e.get(sender+"Ack") == 1; i++ {
		e.step()
	}
	return acked
}

// pop reads one value through the given receiver.
func (e *stackEnv) pop(receiver string) (uint64, bool) {
	e.t.Helper()
	e.s.Set(receiver+"Read", 1)
	acked := false
	for i := 0; i < 12 && !acked; i++ {
		e.step()
		acked = e.get(receiver+"Ack") == 1
	}
	v := e.get(receiver + "Data")
	e.s.Set(receiver+"Read", 0)
	for i := 0; i < 12 && e.get(receiver+"Ack") == 1; i++ {
		e.step()
	}
	return v, acked
}

func TestStackFIFO(t *testing.T) {
	d, err := Parse(readTestdata(t, "stack_fifo.v")...)
	if err != nil {
		t.Fatal(err)
	}
	if got := d.Ports("bmstack"); len(got) != 19 || got[2] != (Port{"sender1Data", "input", 32}) || got[4] != (Port{"sender1Ack", "output", 1}) {
		t.Errorf("Ports = %v", got)
	}
	bothPaths(t, func(t *testing.T) {
		s, err := Elaborate(d, "bmstack")
		if err != nil {
			t.Fatal(err)
		}
		for _, w := range s.Warnings {
			t.Errorf("unexpected warning: %s", w)
		}
		if dp, ok := s.IsMem("memory"); !ok || dp != 8 || s.Width("memory") != 32 || s.Width("recvSM") != 1 || s.Width("sendSM") != 2 {
			t.Fatalf("memory/SM shapes wrong")
		}
		e := &stackEnv{t, s}
		for _, n := range s.TopInputs() {
			s.Set(n, 0)
		}
		s.Set("reset", 1)
		e.step()
		e.step()
		s.Set("reset", 0)
		e.step()
		check(t, s, k("empty", 1), k("full", 0), k("sp", 0), k("readsp", 0), k("writesp", 0), k("i", 8))
		for i := 0; i < 8; i++ {
			if v, kn := s.GetMem("memory", i); !kn || v != 0 {
				t.Errorf("memory[%d] = %d,%v after reset", i, v, kn)
			}
		}
		ub := s.UnknownBranches

		// reading from an empty queue is never acknowledged
		if _, ok := e.pop("receiver1"); ok {
			t.Error("pop on an empty FIFO was acknowledged")
		}

		if !e.push("sender1", 0xDEADBEEF) {
			t.Fatal("first push not acknowledged")
		}
		check(t, s, k("empty", 0), k("full", 0), k("sp", 1))
		if !e.push("sender1", 0x12345678) {
			t.Fatal("second push not acknowledged")
		}
		check(t, s, k("sp", 2), k("writesp", 2), k("readsp", 0))
		if v, _ := s.GetMem("memory", 0); v != 0xDEADBEEF {
			t.Errorf("memory[0] = %#x", v)
		}
		if v, _ := s.GetMem("memory", 1); v != 0x12345678 {
			t.Errorf("memory[1] = %#x", v)
		}
		v1, ok1 := e.pop("receiver1")
		v2, ok2 := e.pop("receiver1")
		if !ok1 || !ok2 || v1 != 0xDEADBEEF || v2 != 0x12345678 {
			t.Errorf("FIFO order violated: got %#x(%v) %#x(%v)", v1, ok1, v2, ok2)
		}
		check(t, s, k("empty", 1), k("sp", 0))

		// fill it completely through alternating senders, then drain it
		// through alternating receivers
		senders := []string{"sender1", "sender2", "sender3"}
		for i := 0; i < 8; i++ {
			if !e.push(senders[i%3], uint64(100+i)) {
				t.Fatalf("push %d not acknowledged", i)
			}
			check(t, s, k("sp", uint64(i+1)))
		}
		check(t, s, k("full", 1), k("empty", 0))
		if e.push("sender2", 999) {
			t.Error("push on a full FIFO was acknowledged")
		}
		receivers := []string{"receiver1", "receiver2"}
		for i := 0; i < 8; i++ {
			v, ok := e.pop(receivers[i%2])
			if !ok || v != uint64(100+i) {
				t.Errorf("pop %d = %d,%v want %d", i, v, ok, 100+i)
			}
		}
		check(t, s, k("empty", 1), k("full", 0))
		if s.UnknownBranches != ub {
			t.Errorf("unknown branches after reset: %v", s.UnknownBranchSites)
		}
		if s.OutOfRange != 0 || s.UnknownIndexWrites != 0 {
			t.Errorf("OutOfRange=%d UnknownIndexWrites=%d", s.OutOfRange, s.UnknownIndexWrites)
		}
	})
}

func TestStackLIFO(t *testing.T) {
	// stack_lifo.v is the output of bmstack.WriteHDL for MemType "LIFO",
	// depth 4, 8 data bits, one sender and one receiver.
	s := elabOne(t, readTestdata(t, "stack_lifo.v")[0], "bmstack_lifo")
	for _, w := range s.Warnings {
		t.Errorf("unexpected warning: %s", w)
	}
	if s.Has("readsp") || s.Width("sp") != 3 {
		t.Fatal("LIFO variant should have only sp[2:0]")
	}
	e := &stackEnv{t, s}
	for _, n := range s.TopInputs() {
		s.Set(n, 0)
	}
	s.Set("reset", 1)
	e.step()
	s.Set("reset", 0)
	e.step()
	check(t, s, k("empty", 1), k("full", 0), k("sp", 0))
	for i := uint64(1); i <= 4; i++ {
		if !e.push("sender1", 10*i) {
			t.Fatalf("push %d not acknowledged", i)
		}
		check(t, s, k("sp", i))
	}
	check(t, s, k("full", 1))
	if e.push("sender1", 55) {
		t.Error("push on a full stack was acknowledged")
	}
	for i := uint64(4); i >= 1; i-- {
		v, ok := e.pop("receiver1")
		if !ok || v != 10*i {
			t.Errorf("pop = %d,%v want %d (LIFO order)", v, ok, 10*i)
		}
	}
	check(t, s, k("empty", 1), k("sp", 0))
	if _, ok := e.pop("receiver1"); ok {
		t.Error("pop on an empty stack was acknowledged")
	}
	if s.OutOfRange != 0 {
		t.Errorf("OutOfRange = %d", s.OutOfRange)
	}
}

func BenchmarkBondMachineStep(b *testing.B) {
	var srcs []string
	for _, n := range bondmachineFiles {
		data, err := os.ReadFile(filepath.Join("testdata", n))
		if err != nil {
			b.Fatal(err)
		}
		srcs = append(srcs, string(data))
	}
	d, err := Parse(srcs...)
	if err != nil {
		b.Fatal(err)
	}
	s, err := Elaborate(d, "bondmachine")
	if err != nil {
		b.Fatal(err)
	}
	s.Set("reset", 1)
	s.Set("i0", 5)
	s.Set("i0_valid", 1)
	s.Step("clk")
	s.Set("reset", 0)
	b.ResetTimer()
	for i := 0; i < b.N; i++ {
		v0, _ := s.Get("o0_valid")
		v1, _ := s.Get("o1_valid")
		s.Set("o0_received", v0)
		s.Set("o1_received", v1)
		if err := s.Step("clk"); err != nil {
			b.Fatal(err)
		}
	}
}
