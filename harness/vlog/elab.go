package vlog

import (
	"fmt"
	"sort"
	"strings"
)

// signal is one flattened net, variable or memory.
type signal struct {
	id        int
	name      string // hierarchical name
	w         int    // vector width (word width for memories)
	msb, lsb  int    // declared vector range
	isMem     bool
	memLo     int // smallest declared memory index
	depth     int
	net       string // "wire", "reg", "integer"
	dir       string // port direction within its module, or ""
	isInteger bool
	topInput  bool

	// state (vectors)
	v, x val
	// state (memories)
	mv, mx []val
}

type symbol struct {
	sig     *signal
	isParam bool
	c       val
	csigned bool
}

type scope struct {
	parent *scope
	prefix string // hierarchical prefix including trailing "." (or "")
	mod    string // module name (for messages)
	inst   string // instance path (for messages)
	names  map[string]*symbol
	insts  map[string]bool
}

func (sc *scope) lookup(name string) *symbol {
	for s := sc; s != nil; s = s.parent {
		if sym, ok := s.names[name]; ok {
			return sym
		}
	}
	return nil
}

type nodeKind int

const (
	nConst nodeKind = iota
	nSig
	nMemWord // sig, kids[0]=address
	nBitSel  // kids[0]=base (nSig/nMemWord/nConst), kids[1]=index
	nPartSel // kids[0]=base; pos,n constant
	nIdxPart // kids[0]=base, kids[1]=start; n constant, up
	nConcat
	nRepl // kids[0]=inner, count
	nUnary
	nBinary
	nTernary
)

type opCode int

const (
	oNone opCode = iota
	// unary
	oPlus
	oNeg
	oNot  // ~
	oLNot // !
	oRAnd
	oRNand
	oROr
	oRNor
	oRXor
	oRXnor
	// binary
	oAdd
	oSub
	oMul
	oDiv
	oMod
	oAnd
	oOr
	oXor
	oXnor
	oEq
	oNe
	oCEq
	oCNe
	oLt
	oLe
	oGt
	oGe
	oLAnd
	oLOr
	oShl
	oShr
)

// node is a bound expression.
type node struct {
	kind   nodeKind
	op     opCode
	sw     int  // self-determined width
	signed bool // statically signed operand (integers, plain decimals)
	guard  bool // effective signed context: negative results are rejected
	line   int
	kids   []*node
	sig    *signal
	c      val
	pos, n int
	up     bool
	count  int
	// declared index range of a selectable base
	bmsb, blsb int
}

type lvKind int

const (
	lvSig lvKind = iota
	lvMem
	lvConcat
)

type selKind int

const (
	selNone selKind = iota
	selBit
	selPart
	selIdx
)

type lval struct {
	kind   lvKind
	sig    *signal
	addr   *node
	sel    selKind
	idx    *node
	pos, n int
	up     bool
	parts  []*lval
	w      int
	line   int
}

type cstmtKind int

const (
	csNull cstmtKind = iota
	csBlock
	csIf
	csCase
	csFor
	csAssign
)

type ccaseArm struct {
	labels    []*node
	isDefault bool
	body      *cstmt
}

type cstmt struct {
	kind        cstmtKind
	line        int
	body        []*cstmt
	cond        *node
	then, els   *cstmt
	sel         *node
	selW        int
	arms        []ccaseArm
	init, step  *cstmt
	lhs         *lval
	rhs         *node
	nonblocking bool
}

type procKind int

const (
	pAssign procKind = iota
	pComb
	pEdge
	pInitial
)

type edgeRef struct {
	pos  bool
	sig  *signal
	root int // resolved root signal id
}

type process struct {
	kind   procKind
	where  string // "module m (inst path) line N"
	lhs    *lval
	rhs    *node
	body   *cstmt
	events []edgeRef
	reads  map[int]bool
	writes map[int]bool
}

// ------------------------------------------------------------------ elaborator

type elaborator struct {
	d        *Design
	sim      *Sim
	alias    map[int]int // signal id -> the signal it is a plain copy of
	initials []*process
	depth    int
}

func (el *elaborator) errf(sc *scope, line int, format string, a ...interface{}) error {
	where := "module " + sc.mod
	if sc.inst != "" {
		where += " (instance " + sc.inst + ")"
	}
	return fmt.Errorf("vlog: %s line %d: %s", where, line, fmt.Sprintf(format, a...))
}

func (el *elaborator) warnf(sc *scope, line int, format string, a ...interface{}) {
	where := "module " + sc.mod
	if sc.inst != "" {
		where += " (instance " + sc.inst + ")"
	}
	el.sim.Warnings = append(el.sim.Warnings, fmt.Sprintf("%s line %d: %s", where, line, fmt.Sprintf(format, a...)))
}

func whereOf(sc *scope, line int) string {
	if sc.inst != "" {
		return fmt.Sprintf("module %s (instance %s) line %d", sc.mod, sc.inst, line)
	}
	return fmt.Sprintf("module %s line %d", sc.mod, line)
}

func (el *elaborator) newSignal(name string) *signal {
	s := &signal{id: len(el.sim.sigs), name: name}
	el.sim.sigs = append(el.sim.sigs, s)
	el.sim.byName[name] = s
	return s
}

// pendingDecl accumulates the (possibly repeated) declarations of one name.
type pendingDecl struct {
	name     string
	dir      string
	net      string
	hasRange bool
	msb, lsb int
	isMem    bool
	ma, mb   int
	line     int
}

// constInt evaluates e as an elaboration-time constant integer.
func (el *elaborator) constInt(sc *scope, e *Expr) (int, error) {
	v, _, err := el.constVal(sc, e)
	if err != nil {
		return 0, err
	}
	if !v.known {
		return 0, el.errf(sc, e.line, "constant expression has unknown (x/z) bits")
	}
	if !v.fitsUint64() || v.uint64() > 1<<31 {
		return 0, el.errf(sc, e.line, "constant expression out of range (negative or too large)")
	}
	return int(v.uint64()), nil
}

func (el *elaborator) constVal(sc *scope, e *Expr) (val, bool, error) {
	n, err := el.compileExpr(sc, e)
	if err != nil {
		return val{}, false, err
	}
	if !isConstNode(n) {
		return val{}, false, el.errf(sc, e.line, "expression is not an elaboration-time constant")
	}
	markSigned(n, true, false)
	c := &ctx{s: el.sim, where: whereOf(sc, e.line)}
	v, err := c.eval(n, n.sw)
	if err != nil {
		return val{}, false, err
	}
	return v, n.signed, nil
}

func isConstNode(n *node) bool {
	switch n.kind {
	case nSig, nMemWord:
		return false
	}
	for _, k := range n.kids {
		if !isConstNode(k) {
			return false
		}
	}
	return true
}

func (el *elaborator) evalRange(sc *scope, r *rangeExpr) (int, int, error) {
	a, err := el.constInt(sc, r.msb)
	if err != nil {
		return 0, 0, err
	}
	b, err := el.constInt(sc, r.lsb)
	if err != nil {
		return 0, 0, err
	}
	return a, b, nil
}

func absDiff(a, b int) int {
	if a > b {
		return a - b
	}
	return b - a
}

// declare processes one declaration item into the pending table.
func (el *elaborator) declare(sc *scope, pend map[string]*pendingDecl, order *[]string, d *declItem) error {
	hasRange := d.rng != nil
	msb, lsb := 0, 0
	if d.net == "integer" {
		hasRange, msb, lsb = true, 31, 0
	}
	if d.rng != nil {
		var err error
		if msb, lsb, err = el.evalRange(sc, d.rng); err != nil {
			return err
		}
		if absDiff(msb, lsb)+1 > maxWidth {
			return el.errf(sc, d.line, "vector too wide")
		}
	}
	for _, dn := range d.names {
		if sym, ok := sc.names[dn.name]; ok && sym.isParam {
			return el.errf(sc, dn.line, "%q is already declared as a parameter", dn.name)
		}
		pd, ok := pend[dn.name]
		if !ok {
			pd = &pendingDecl{name: dn.name, line: dn.line}
			pend[dn.name] = pd
			*order = append(*order, dn.name)
			pd.hasRange, pd.msb, pd.lsb = hasRange, msb, lsb
		} else {
			// merge a repeated declaration (port + net/reg type)
			if d.dir != "" && pd.dir != "" {
				return el.errf(sc, dn.line, "port %q has two direction declarations", dn.name)
			}
			if d.dir == "" && pd.dir == "" {
				return el.errf(sc, dn.line, "%q is declared twice", dn.name)
			}
			if d.net != "" && pd.net != "" {
				return el.errf(sc, dn.line, "%q has two net/variable type declarations", dn.name)
			}
			if pd.hasRange != hasRange || pd.msb != msb || pd.lsb != lsb {
				return el.errf(sc, dn.line, "%q is re-declared with a different range ([%d:%d] vs [%d:%d])", dn.name, pd.msb, pd.lsb, msb, lsb)
			}
		}
		if d.dir != "" {
			pd.dir = d.dir
		}
		if d.net != "" {
			pd.net = d.net
		}
		if dn.memRng != nil {
			if d.dir != "" {
				return el.errf(sc, dn.line, "port %q cannot be a memory", dn.name)
			}
			a, b, err := el.evalRange(sc, dn.memRng)
			if err != nil {
				return err
			}
			if absDiff(a, b)+1 > maxWidth {
				return el.errf(sc, dn.line, "memory too deep")
			}
			pd.isMem, pd.ma, pd.mb = true, a, b
		}
	}
	return nil
}

// materialize turns pending declarations into signals registered in sc.
func (el *elaborator) materialize(sc *scope, pend map[string]*pendingDecl, order []string) error {
	for _, name := range order {
		pd := pend[name]
		s := el.newSignal(sc.prefix + name)
		s.msb, s.lsb = pd.msb, pd.lsb
		s.w = absDiff(pd.msb, pd.lsb) + 1
		s.dir = pd.dir
		s.net = pd.net
		if s.net == "" {
			s.net = "wire"
		}
		s.isInteger = s.net == "integer"
		if pd.isMem {
			if s.net == "wire" {
				return el.errf(sc, pd.line, "memory %q must be a reg", name)
			}
			s.isMem = true
			s.memLo = pd.ma
			if pd.mb < pd.ma {
				s.memLo = pd.mb
			}
			s.depth = absDiff(pd.ma, pd.mb) + 1
			s.mv = make([]val, s.depth)
			s.mx = make([]val, s.depth)
			for i := range s.mv {
				s.mv[i] = zeroVal(s.w)
				s.mx[i] = onesVal(s.w)
			}
		} else {
			s.v = zeroVal(s.w)
			s.x = onesVal(s.w)
		}
		if s.dir == "input" && s.net != "wire" {
			return el.errf(sc, pd.line, "input port %q cannot be a %s", name, s.net)
		}
		sc.names[name] = &symbol{sig: s}
	}
	return nil
}

// elabModule instantiates module m under the given prefix and returns its
// scope.
func (el *elaborator) elabModule(m *module, prefix, instPath string, overrides []paramOverride, parent *scope, instLine int) (*scope, error) {
	el.depth++
	defer func() { el.depth-- }()
	if el.depth > 64 {
		return nil, fmt.Errorf("vlog: module %s: instantiation depth > 64 (recursive instantiation?)", m.name)
	}
	sc := &scope{prefix: prefix, mod: m.name, inst: instPath, names: map[string]*symbol{}}

	// Parameter overrides are evaluated in the parent's scope.
	ovByName := map[string]val{}
	ovSigned := map[string]bool{}
	var ovPos []val
	var ovPosSigned []bool
	for _, po := range overrides {
		if po.expr == nil {
			continue
		}
		v, sg, err := el.constVal(parent, po.expr)
		if err != nil {
			return nil, err
		}
		if po.name != "" {
			ovByName[po.name] = v
			ovSigned[po.name] = sg
		} else {
			ovPos = append(ovPos, v)
			ovPosSigned = append(ovPosSigned, sg)
		}
	}

	// Pass 1: parameters and declarations, in source order.
	pend := map[string]*pendingDecl{}
	var order []string
	paramIdx := 0
	usedOv := map[string]bool{}
	for _, it := range m.items {
		d, ok := it.(*declItem)
		if !ok {
			continue
		}
		if d.isParam {
			dn := d.names[0]
			if _, dup := sc.names[dn.name]; dup {
				return nil, el.errf(sc, dn.line, "parameter %q declared twice", dn.name)
			}
			if _, dup := pend[dn.name]; dup {
				return nil, el.errf(sc, dn.line, "%q is already declared", dn.name)
			}
			var v val
			var sg bool
			var err error
			overridden := false
			if !d.local {
				if ov, ok := ovByName[dn.name]; ok {
					v, sg, overridden = ov, ovSigned[dn.name], true
					usedOv[dn.name] = true
				} else if paramIdx < len(ovPos) {
					v, sg, overridden = ovPos[paramIdx], ovPosSigned[paramIdx], true
				}
				paramIdx++
			}
			if !overridden {
				if v, sg, err = el.constVal(sc, dn.init); err != nil {
					return nil, err
				}
			}
			if d.rng != nil {
				a, b, err := el.evalRange(sc, d.rng)
				if err != nil {
					return nil, err
				}
				v = resize(v, absDiff(a, b)+1)
				sg = false
			}
			sc.names[dn.name] = &symbol{isParam: true, c: v, csigned: sg}
			continue
		}
		if err := el.declare(sc, pend, &order, d); err != nil {
			return nil, err
		}
	}
	for name := range ovByName {
		if !usedOv[name] {
			return nil, el.errf(parent, instLine, "module %s has no parameter %q", m.name, name)
		}
	}
	if len(ovPos) > paramIdx {
		return nil, el.errf(parent, instLine, "too many positional parameter overrides for module %s", m.name)
	}
	// every port in the header needs a direction
	seenPort := map[string]bool{}
	for _, pn := range m.portOrder {
		if seenPort[pn] {
			return nil, el.errf(sc, m.line, "port %q listed twice in the module header", pn)
		}
		seenPort[pn] = true
		pd, ok := pend[pn]
		if !ok || pd.dir == "" {
			return nil, el.errf(sc, m.line, "port %q has no input/output/inout declaration", pn)
		}
	}
	for _, name := range order {
		if pend[name].dir != "" && !seenPort[name] {
			return nil, el.errf(sc, pend[name].line, "%q has a port direction but is not in the module's port list", name)
		}
	}
	if err := el.materialize(sc, pend, order); err != nil {
		return nil, err
	}

	// Pass 2: behaviour.
	for _, it := range m.items {
		switch x := it.(type) {
		case *declItem:
			if x.isParam {
				continue
			}
			for _, dn := range x.names {
				if dn.init == nil {
					continue
				}
				sym := sc.names[dn.name]
				if sym.sig.isMem {
					return nil, el.errf(sc, dn.line, "initialiser on memory %q", dn.name)
				}
				lv := &lval{kind: lvSig, sig: sym.sig, w: sym.sig.w, line: dn.line}
				rhs, err := el.compileRoot(sc, dn.init)
				if err != nil {
					return nil, err
				}
				if sym.sig.net == "wire" {
					el.addAssign(sc, dn.line, lv, rhs)
				} else {
					// variable initialiser == initial block
					st := &cstmt{kind: csAssign, line: dn.line, lhs: lv, rhs: rhs}
					el.initials = append(el.initials, &process{kind: pInitial, where: whereOf(sc, dn.line), body: st})
				}
			}
		case *assignItem:
			lv, err := el.compileLval(sc, x.lhs, false)
			if err != nil {
				return nil, err
			}
			rhs, err := el.compileRoot(sc, x.rhs)
			if err != nil {
				return nil, err
			}
			el.addAssign(sc, x.line, lv, rhs)
			// plain "assign a = b" is recorded for clock tracing
			if lv.kind == lvSig && lv.sel == selNone && rhs.kind == nSig && rhs.sig.w == lv.sig.w {
				el.alias[lv.sig.id] = rhs.sig.id
			}
		case *alwaysItem:
			if err := el.elabAlways(sc, x); err != nil {
				return nil, err
			}
		case *initialItem:
			body, err := el.compileStmt(sc, x.body, true)
			if err != nil {
				return nil, err
			}
			el.initials = append(el.initials, &process{kind: pInitial, where: whereOf(sc, x.line), body: body})
		case *instItem:
			if err := el.elabInstance(sc, x); err != nil {
				return nil, err
			}
		}
	}
	return sc, nil
}

func (el *elaborator) addAssign(sc *scope, line int, lv *lval, rhs *node) {
	p := &process{kind: pAssign, where: whereOf(sc, line), lhs: lv, rhs: rhs}
	el.sim.comb = append(el.sim.comb, p)
}

func (el *elaborator) elabAlways(sc *scope, a *alwaysItem) error {
	edges := 0
	for _, ev := range a.events {
		if ev.edge != "" {
			edges++
		}
	}
	if edges > 0 && edges != len(a.events) {
		return el.errf(sc, a.line, "unsupported: sensitivity list mixing edge and level events")
	}
	body, err := el.compileStmt(sc, a.body, true)
	if err != nil {
		return err
	}
	if a.star || edges == 0 {
		// combinational (level-sensitive lists are treated like @*)
		for _, ev := range a.events {
			if sc.lookup(ev.name) == nil {
				return el.errf(sc, a.line, "unknown identifier %q in sensitivity list", ev.name)
			}
		}
		if !a.star {
			el.warnf(sc, a.line, "level-sensitive always block is simulated as always @*")
		}
		if stmtHasNBA(body) {
			el.warnf(sc, a.line, "non-blocking assignment in a combinational always block is treated as blocking")
		}
		el.sim.comb = append(el.sim.comb, &process{kind: pComb, where: whereOf(sc, a.line), body: body})
		return nil
	}
	p := &process{kind: pEdge, where: whereOf(sc, a.line), body: body}
	for _, ev := range a.events {
		sym := sc.lookup(ev.name)
		if sym == nil || sym.isParam || sym.sig.isMem {
			return el.errf(sc, a.line, "bad signal %q in sensitivity list", ev.name)
		}
		if sym.sig.w != 1 {
			el.warnf(sc, a.line, "edge event on multi-bit signal %q", ev.name)
		}
		p.events = append(p.events, edgeRef{pos: ev.edge == "posedge", sig: sym.sig})
	}
	el.sim.edge = append(el.sim.edge, p)
	return nil
}

func stmtHasNBA(s *cstmt) bool {
	if s == nil {
		return false
	}
	if s.kind == csAssign && s.nonblocking {
		return true
	}
	for _, b := range s.body {
		if stmtHasNBA(b) {
			return true
		}
	}
	for _, a := range s.arms {
		if stmtHasNBA(a.body) {
			return true
		}
	}
	return stmtHasNBA(s.then) || stmtHasNBA(s.els) || stmtHasNBA(s.init) || stmtHasNBA(s.step)
}

func (el *elaborator) elabInstance(sc *scope, in *instItem) error {
	cm, ok := el.d.mods[in.module]
	if !ok {
		return el.errf(sc, in.line, "unknown module %q (instance %s)", in.module, in.name)
	}
	if _, dup := sc.names[in.name]; dup || sc.insts[in.name] {
		return el.errf(sc, in.line, "instance name %q clashes with another declaration", in.name)
	}
	if sc.insts == nil {
		sc.insts = map[string]bool{}
	}
	instPath := in.name
	if sc.inst != "" {
		instPath = sc.inst + "." + in.name
	}
	csc, err := el.elabModule(cm, sc.prefix+in.name+".", instPath, in.params, sc, in.line)
	if err != nil {
		return err
	}
	sc.insts[in.name] = true
	if !in.named && len(in.conns) > len(cm.portOrder) {
		return el.errf(sc, in.line, "instance %s of %s has %d connections but the module has %d ports", in.name, in.module, len(in.conns), len(cm.portOrder))
	}
	if !in.named && len(in.conns) < len(cm.portOrder) {
		el.warnf(sc, in.line, "instance %s of %s connects only %d of %d ports", in.name, in.module, len(in.conns), len(cm.portOrder))
	}
	seen := map[string]bool{}
	for i, c := range in.conns {
		pname := c.port
		if !in.named {
			pname = cm.portOrder[i]
		}
		psym, ok := csc.names[pname]
		if !ok || psym.isParam || psym.sig.dir == "" {
			return el.errf(sc, c.line, "module %s has no port %q", in.module, pname)
		}
		if seen[pname] {
			return el.errf(sc, c.line, "port %q connected twice", pname)
		}
		seen[pname] = true
		if c.expr == nil {
			continue
		}
		ps := psym.sig
		// implicit nets for undeclared plain identifiers
		if c.expr.kind == exIdent && sc.lookup(c.expr.name) == nil {
			s := el.newSignal(sc.prefix + c.expr.name)
			s.w, s.net = 1, "wire"
			s.v, s.x = zeroVal(1), onesVal(1)
			sc.names[c.expr.name] = &symbol{sig: s}
			el.warnf(sc, c.line, "implicit 1-bit wire %q created by a port connection", c.expr.name)
		}
		switch ps.dir {
		case "input":
			rhs, err := el.compileRoot(sc, c.expr)
			if err != nil {
				return err
			}
			if rhs.sw != ps.w && !(c.expr.kind == exNum && !c.expr.num.sized) {
				el.warnf(sc, c.line, "port %s.%s is %d bits but the connected expression is %d bits", in.name, pname, ps.w, rhs.sw)
			}
			lv := &lval{kind: lvSig, sig: ps, w: ps.w, line: c.line}
			el.addAssign(sc, c.line, lv, rhs)
			if rhs.kind == nSig && rhs.sig.w == ps.w {
				el.alias[ps.id] = rhs.sig.id
			}
		case "output":
			lv, err := el.compileLval(sc, c.expr, false)
			if err != nil {
				return el.errf(sc, c.line, "output port %s.%s must be connected to a net: %v", in.name, pname, err)
			}
			if lv.w != ps.w {
				el.warnf(sc, c.line, "port %s.%s is %d bits but the connected net is %d bits", in.name, pname, ps.w, lv.w)
			}
			rhs := &node{kind: nSig, sig: ps, sw: ps.w, line: c.line, bmsb: ps.msb, blsb: ps.lsb}
			el.addAssign(sc, c.line, lv, rhs)
		default:
			return el.errf(sc, c.line, "unsupported: connection to inout port %s.%s", in.name, pname)
		}
	}
	return nil
}

// ------------------------------------------------------------- expressions

// compileRoot compiles an expression that forms its own sizing context (an
// assignment RHS, a condition, ...) and fixes its signedness context.
func (el *elaborator) compileRoot(sc *scope, e *Expr) (*node, error) {
	n, err := el.compileExpr(sc, e)
	if err != nil {
		return nil, err
	}
	markSigned(n, true, false)
	return n, nil
}

// markSigned propagates the effective signedness of each sizing context
// down to its context-determined operands and sets node.guard accordingly.
// root says that n starts a new context.
func markSigned(n *node, root bool, ctxSigned bool) {
	if root {
		ctxSigned = n.signed
	}
	n.guard = ctxSigned
	switch n.kind {
	case nConst, nSig:
	case nMemWord:
		markSigned(n.kids[0], true, false)
	case nBitSel, nIdxPart:
		n.guard = false
		markSigned(n.kids[0], true, false)
		markSigned(n.kids[1], true, false)
	case nPartSel:
		n.guard = false
		markSigned(n.kids[0], true, false)
	case nConcat, nRepl:
		n.guard = false
		for _, k := range n.kids {
			markSigned(k, true, false)
		}
	case nUnary:
		switch n.op {
		case oPlus, oNeg, oNot:
			markSigned(n.kids[0], false, ctxSigned)
		default:
			n.guard = false
			markSigned(n.kids[0], true, false)
		}
	case nBinary:
		switch n.op {
		case oAdd, oSub, oMul, oDiv, oMod, oAnd, oOr, oXor, oXnor:
			markSigned(n.kids[0], false, ctxSigned)
			markSigned(n.kids[1], false, ctxSigned)
		case oShl, oShr:
			markSigned(n.kids[0], false, ctxSigned)
			markSigned(n.kids[1], true, false)
		case oLAnd, oLOr:
			n.guard = false
			markSigned(n.kids[0], true, false)
			markSigned(n.kids[1], true, false)
		default: // comparisons: the two operands form one context
			n.guard = false
			both := n.kids[0].signed && n.kids[1].signed
			markSigned(n.kids[0], false, both)
			markSigned(n.kids[1], false, both)
		}
	case nTernary:
		markSigned(n.kids[0], true, false)
		markSigned(n.kids[1], false, ctxSigned)
		markSigned(n.kids[2], false, ctxSigned)
	}
}

func constNode(v val, signed bool, line int) *node {
	return &node{kind: nConst, c: v, sw: v.w, signed: signed, line: line, bmsb: v.w - 1, blsb: 0}
}

func litVal(l *numLit) val {
	if l.xm.Sign() != 0 {
		return unknownVal(l.w)
	}
	return mkBig(l.w, l.v)
}

var unaryCodes = map[string]opCode{"+": oPlus, "-": oNeg, "~": oNot, "!": oLNot, "&": oRAnd, "~&": oRNand,
	"|": oROr, "~|": oRNor, "^": oRXor, "~^": oRXnor, "^~": oRXnor}

var binaryCodes = map[string]opCode{"+": oAdd, "-": oSub, "*": oMul, "/": oDiv, "%": oMod, "&": oAnd, "|": oOr,
	"^": oXor, "~^": oXnor, "^~": oXnor, "==": oEq, "!=": oNe, "===": oCEq, "!==": oCNe, "<": oLt, "<=": oLe,
	">": oGt, ">=": oGe, "&&": oLAnd, "||": oLOr, "<<": oShl, "<<<": oShl, ">>": oShr, ">>>": oShr}

func maxInt(a, b int) int {
	if a > b {
		return a
	}
	return b
}

func (el *elaborator) compileExpr(sc *scope, e *Expr) (*node, error) {
	switch e.kind {
	case exNum:
		return constNode(litVal(e.num), e.num.signed, e.line), nil
	case exString:
		return nil, el.errf(sc, e.line, "unsupported: string literal in an expression")
	case exSysCall:
		return nil, el.errf(sc, e.line, "unsupported: system function %s", e.name)
	case exIdent:
		sym := sc.lookup(e.name)
		if sym == nil {
			return nil, el.errf(sc, e.line, "unknown identifier %q", e.name)
		}
		if sym.isParam {
			return constNode(sym.c, sym.csigned, e.line), nil
		}
		if sym.sig.isMem {
			return nil, el.errf(sc, e.line, "memory %q used without an index", e.name)
		}
		s := sym.sig
		return &node{kind: nSig, sig: s, sw: s.w, signed: s.isInteger, line: e.line, bmsb: s.msb, blsb: s.lsb}, nil
	case exIndex:
		// memory word?
		if b := e.kids[0]; b.kind == exIdent {
			if sym := sc.lookup(b.name); sym != nil && !sym.isParam && sym.sig.isMem {
				addr, err := el.compileExpr(sc, e.kids[1])
				if err != nil {
					return nil, err
				}
				s := sym.sig
				return &node{kind: nMemWord, sig: s, sw: s.w, line: e.line, kids: []*node{addr}, bmsb: s.msb, blsb: s.lsb}, nil
			}
		}
		base, err := el.selectBase(sc, e.kids[0])
		if err != nil {
			return nil, err
		}
		idx, err := el.compileExpr(sc, e.kids[1])
		if err != nil {
			return nil, err
		}
		return &node{kind: nBitSel, sw: 1, line: e.line, kids: []*node{base, idx}}, nil
	case exRange:
		base, err := el.selectBase(sc, e.kids[0])
		if err != nil {
			return nil, err
		}
		a, err := el.constInt(sc, e.kids[1])
		if err != nil {
			return nil, err
		}
		b, err := el.constInt(sc, e.kids[2])
		if err != nil {
			return nil, err
		}
		pos, n, err := partBounds(base.bmsb, base.blsb, a, b)
		if err != nil {
			return nil, el.errf(sc, e.line, "%v", err)
		}
		return &node{kind: nPartSel, sw: n, line: e.line, kids: []*node{base}, pos: pos, n: n}, nil
	case exIdxRange:
		base, err := el.selectBase(sc, e.kids[0])
		if err != nil {
			return nil, err
		}
		if base.bmsb < base.blsb {
			return nil, el.errf(sc, e.line, "unsupported: indexed part-select on an ascending range")
		}
		start, err := el.compileExpr(sc, e.kids[1])
		if err != nil {
			return nil, err
		}
		n, err := el.constInt(sc, e.kids[2])
		if err != nil {
			return nil, err
		}
		if n < 1 || n > base.sw {
			return nil, el.errf(sc, e.line, "bad indexed part-select width %d", n)
		}
		return &node{kind: nIdxPart, sw: n, line: e.line, kids: []*node{base, start}, n: n, up: e.op == "+:"}, nil
	case exConcat:
		n := &node{kind: nConcat, line: e.line}
		for _, k := range e.kids {
			if k.kind == exNum && !k.num.sized {
				el.warnf(sc, k.line, "unsized constant in a concatenation is taken as %d bits", k.num.w)
			}
			kn, err := el.compileExpr(sc, k)
			if err != nil {
				return nil, err
			}
			n.kids = append(n.kids, kn)
			n.sw += kn.sw
		}
		if n.sw > maxWidth {
			return nil, el.errf(sc, e.line, "concatenation too wide")
		}
		return n, nil
	case exRepl:
		cnt, err := el.constInt(sc, e.kids[0])
		if err != nil {
			return nil, err
		}
		inner, err := el.compileExpr(sc, e.kids[1])
		if err != nil {
			return nil, err
		}
		if cnt < 1 || cnt*inner.sw > maxWidth {
			return nil, el.errf(sc, e.line, "bad replication count %d", cnt)
		}
		return &node{kind: nRepl, line: e.line, kids: []*node{inner}, count: cnt, sw: cnt * inner.sw}, nil
	case exUnary:
		k, err := el.compileExpr(sc, e.kids[0])
		if err != nil {
			return nil, err
		}
		op := unaryCodes[e.op]
		n := &node{kind: nUnary, op: op, line: e.line, kids: []*node{k}}
		switch op {
		case oPlus, oNeg, oNot:
			n.sw, n.signed = k.sw, k.signed
		default:
			n.sw = 1
		}
		return n, nil
	case exBinary:
		l, err := el.compileExpr(sc, e.kids[0])
		if err != nil {
			return nil, err
		}
		r, err := el.compileExpr(sc, e.kids[1])
		if err != nil {
			return nil, err
		}
		op, ok := binaryCodes[e.op]
		if !ok {
			return nil, el.errf(sc, e.line, "unsupported operator %q", e.op)
		}
		n := &node{kind: nBinary, op: op, line: e.line, kids: []*node{l, r}}
		switch op {
		case oAdd, oSub, oMul, oDiv, oMod, oAnd, oOr, oXor, oXnor:
			n.sw = maxInt(l.sw, r.sw)
			n.signed = l.signed && r.signed
		case oShl, oShr:
			n.sw = l.sw
			n.signed = l.signed
		default:
			n.sw = 1
		}
		return n, nil
	case exTernary:
		c, err := el.compileExpr(sc, e.kids[0])
		if err != nil {
			return nil, err
		}
		t, err := el.compileExpr(sc, e.kids[1])
		if err != nil {
			return nil, err
		}
		f, err := el.compileExpr(sc, e.kids[2])
		if err != nil {
			return nil, err
		}
		return &node{kind: nTernary, line: e.line, kids: []*node{c, t, f}, sw: maxInt(t.sw, f.sw), signed: t.signed && f.signed}, nil
	}
	return nil, el.errf(sc, e.line, "internal: unknown expression kind %d", e.kind)
}

// selectBase compiles the operand of a bit/part select: a vector, a memory
// word or a parameter.
func (el *elaborator) selectBase(sc *scope, e *Expr) (*node, error) {
	switch e.kind {
	case exIdent, exIndex:
		n, err := el.compileExpr(sc, e)
		if err != nil {
			return nil, err
		}
		switch n.kind {
		case nSig, nMemWord, nConst:
			return n, nil
		}
		return nil, el.errf(sc, e.line, "unsupported: select applied to a select")
	}
	return nil, el.errf(sc, e.line, "bit/part select applied to something that is not a signal")
}

// partBounds maps a constant part select [a:b] of a vector declared
// [msb:lsb] to (position of the least significant selected bit, width).
func partBounds(msb, lsb, a, b int) (int, int, error) {
	desc := msb >= lsb
	if msb == lsb {
		desc = a >= b
	}
	var pos, n int
	if desc {
		if a < b {
			return 0, 0, fmt.Errorf("part select [%d:%d] is reversed with respect to the declaration [%d:%d]", a, b, msb, lsb)
		}
		if a > msb || b < lsb {
			return 0, 0, fmt.Errorf("part select [%d:%d] is outside the declared range [%d:%d]", a, b, msb, lsb)
		}
		pos, n = b-lsb, a-b+1
	} else {
		if a > b {
			return 0, 0, fmt.Errorf("part select [%d:%d] is reversed with respect to the declaration [%d:%d]", a, b, msb, lsb)
		}
		if a < msb || b > lsb {
			return 0, 0, fmt.Errorf("part select [%d:%d] is outside the declared range [%d:%d]", a, b, msb, lsb)
		}
		pos, n = lsb-b, b-a+1
	}
	return pos, n, nil
}

// bitPos maps a declared index to a bit position, ok=false if out of range.
func bitPos(msb, lsb, idx int) (int, bool) {
	if msb >= lsb {
		if idx < lsb || idx > msb {
			return 0, false
		}
		return idx - lsb, true
	}
	if idx < msb || idx > lsb {
		return 0, false
	}
	return lsb - idx, true
}

// ------------------------------------------------------------------ lvalues

func (el *elaborator) compileLval(sc *scope, e *Expr, procedural bool) (*lval, error) {
	checkKind := func(s *signal, line int) error {
		if procedural && s.net == "wire" {
			return el.errf(sc, line, "procedural assignment to wire %q", s.name)
		}
		if !procedural && s.net != "wire" {
			return el.errf(sc, line, "continuous assignment (or output port connection) to %s %q", s.net, s.name)
		}
		return nil
	}
	switch e.kind {
	case exConcat:
		lv := &lval{kind: lvConcat, line: e.line}
		for _, k := range e.kids {
			p, err := el.compileLval(sc, k, procedural)
			if err != nil {
				return nil, err
			}
			lv.parts = append(lv.parts, p)
			lv.w += p.w
		}
		return lv, nil
	case exIdent:
		sym := sc.lookup(e.name)
		if sym == nil {
			return nil, el.errf(sc, e.line, "unknown identifier %q", e.name)
		}
		if sym.isParam {
			return nil, el.errf(sc, e.line, "assignment to parameter %q", e.name)
		}
		if sym.sig.isMem {
			return nil, el.errf(sc, e.line, "assignment to whole memory %q", e.name)
		}
		if err := checkKind(sym.sig, e.line); err != nil {
			return nil, err
		}
		return &lval{kind: lvSig, sig: sym.sig, w: sym.sig.w, line: e.line}, nil
	case exIndex, exRange, exIdxRange:
		// find the root identifier and an optional memory index
		base := e.kids[0]
		var lv *lval
		switch base.kind {
		case exIdent:
			sym := sc.lookup(base.name)
			if sym == nil {
				return nil, el.errf(sc, e.line, "unknown identifier %q", base.name)
			}
			if sym.isParam {
				return nil, el.errf(sc, e.line, "assignment to parameter %q", base.name)
			}
			if err := checkKind(sym.sig, e.line); err != nil {
				return nil, err
			}
			if sym.sig.isMem {
				if e.kind != exIndex {
					return nil, el.errf(sc, e.line, "part select applied directly to memory %q", base.name)
				}
				addr, err := el.compileRoot(sc, e.kids[1])
				if err != nil {
					return nil, err
				}
				return &lval{kind: lvMem, sig: sym.sig, addr: addr, w: sym.sig.w, line: e.line}, nil
			}
			lv = &lval{kind: lvSig, sig: sym.sig, line: e.line}
		case exIndex:
			// mem[addr][sel]
			inner, err := el.compileLval(sc, base, procedural)
			if err != nil {
				return nil, err
			}
			if inner.kind != lvMem || inner.sel != selNone {
				return nil, el.errf(sc, e.line, "unsupported: select applied to a select in an assignment target")
			}
			lv = inner
		default:
			return nil, el.errf(sc, e.line, "bad assignment target")
		}
		s := lv.sig
		switch e.kind {
		case exIndex:
			idx, err := el.compileRoot(sc, e.kids[1])
			if err != nil {
				return nil, err
			}
			lv.sel, lv.idx, lv.w = selBit, idx, 1
		case exRange:
			a, err := el.constInt(sc, e.kids[1])
			if err != nil {
				return nil, err
			}
			b, err := el.constInt(sc, e.kids[2])
			if err != nil {
				return nil, err
			}
			pos, n, err := partBounds(s.msb, s.lsb, a, b)
			if err != nil {
				return nil, el.errf(sc, e.line, "%v", err)
			}
			lv.sel, lv.pos, lv.n, lv.w = selPart, pos, n, n
		case exIdxRange:
			if s.msb < s.lsb {
				return nil, el.errf(sc, e.line, "unsupported: indexed part-select on an ascending range")
			}
			start, err := el.compileRoot(sc, e.kids[1])
			if err != nil {
				return nil, err
			}
			n, err := el.constInt(sc, e.kids[2])
			if err != nil {
				return nil, err
			}
			if n < 1 || n > s.w {
				return nil, el.errf(sc, e.line, "bad indexed part-select width %d", n)
			}
			lv.sel, lv.idx, lv.n, lv.w, lv.up = selIdx, start, n, n, e.op == "+:"
		}
		return lv, nil
	}
	return nil, el.errf(sc, e.line, "expression is not a valid assignment target")
}

// --------------------------------------------------------------- statements

func (el *elaborator) compileStmt(sc *scope, s *Stmt, procedural bool) (*cstmt, error) {
	if s == nil {
		return nil, nil
	}
	switch s.kind {
	case stNull, stSysTask:
		return &cstmt{kind: csNull, line: s.line}, nil
	case stBlock:
		bsc := sc
		if len(s.decls) > 0 {
			bsc = &scope{parent: sc, prefix: sc.prefix + s.name + ".", mod: sc.mod, inst: sc.inst, names: map[string]*symbol{}}
			pend := map[string]*pendingDecl{}
			var order []string
			for _, d := range s.decls {
				if d.dir != "" {
					return nil, el.errf(sc, d.line, "port declaration inside a block")
				}
				if err := el.declare(bsc, pend, &order, d); err != nil {
					return nil, err
				}
				for _, dn := range d.names {
					if dn.init != nil {
						return nil, el.errf(sc, dn.line, "unsupported: initialiser on a block-local variable")
					}
				}
			}
			if err := el.materialize(bsc, pend, order); err != nil {
				return nil, err
			}
		}
		c := &cstmt{kind: csBlock, line: s.line}
		for _, b := range s.body {
			cb, err := el.compileStmt(bsc, b, procedural)
			if err != nil {
				return nil, err
			}
			c.body = append(c.body, cb)
		}
		return c, nil
	case stIf:
		cond, err := el.compileRoot(sc, s.cond)
		if err != nil {
			return nil, err
		}
		c := &cstmt{kind: csIf, line: s.line, cond: cond}
		if c.then, err = el.compileStmt(sc, s.then, procedural); err != nil {
			return nil, err
		}
		if c.els, err = el.compileStmt(sc, s.els, procedural); err != nil {
			return nil, err
		}
		return c, nil
	case stCase:
		sel, err := el.compileExpr(sc, s.sel)
		if err != nil {
			return nil, err
		}
		c := &cstmt{kind: csCase, line: s.line, sel: sel, selW: sel.sw}
		allSigned := sel.signed
		defaults := 0
		for _, a := range s.arms {
			ca := ccaseArm{isDefault: a.isDefault}
			if a.isDefault {
				defaults++
			}
			for _, l := range a.labels {
				ln, err := el.compileExpr(sc, l)
				if err != nil {
					return nil, err
				}
				c.selW = maxInt(c.selW, ln.sw)
				allSigned = allSigned && ln.signed
				ca.labels = append(ca.labels, ln)
			}
			if ca.body, err = el.compileStmt(sc, a.body, procedural); err != nil {
				return nil, err
			}
			c.arms = append(c.arms, ca)
		}
		if defaults > 1 {
			return nil, el.errf(sc, s.line, "case statement with more than one default")
		}
		// selector and labels share one sizing/signedness context
		markSigned(sel, false, allSigned)
		for _, a := range c.arms {
			for _, l := range a.labels {
				markSigned(l, false, allSigned)
			}
		}
		return c, nil
	case stFor:
		c := &cstmt{kind: csFor, line: s.line}
		var err error
		if c.init, err = el.compileStmt(sc, s.init, procedural); err != nil {
			return nil, err
		}
		if c.cond, err = el.compileRoot(sc, s.cond); err != nil {
			return nil, err
		}
		if c.step, err = el.compileStmt(sc, s.step, procedural); err != nil {
			return nil, err
		}
		if c.then, err = el.compileStmt(sc, s.then, procedural); err != nil {
			return nil, err
		}
		return c, nil
	case stAssign:
		lv, err := el.compileLval(sc, s.lhs, procedural)
		if err != nil {
			return nil, err
		}
		rhs, err := el.compileRoot(sc, s.rhs)
		if err != nil {
			return nil, err
		}
		return &cstmt{kind: csAssign, line: s.line, lhs: lv, rhs: rhs, nonblocking: s.nonblocking}, nil
	}
	return nil, el.errf(sc, s.line, "internal: unknown statement kind %d", s.kind)
}

// ------------------------------------------------------- read/write analysis

func nodeReads(n *node, set map[int]bool) {
	if n == nil {
		return
	}
	if n.sig != nil {
		set[n.sig.id] = true
	}
	for _, k := range n.kids {
		nodeReads(k, set)
	}
}

func lvalRW(lv *lval, reads, writes map[int]bool) {
	if lv == nil {
		return
	}
	if lv.kind == lvConcat {
		for _, p := range lv.parts {
			lvalRW(p, reads, writes)
		}
		return
	}
	writes[lv.sig.id] = true
	nodeReads(lv.addr, reads)
	nodeReads(lv.idx, reads)
}

func stmtRW(s *cstmt, reads, writes map[int]bool) {
	if s == nil {
		return
	}
	nodeReads(s.cond, reads)
	nodeReads(s.sel, reads)
	nodeReads(s.rhs, reads)
	lvalRW(s.lhs, reads, writes)
	for _, b := range s.body {
		stmtRW(b, reads, writes)
	}
	for _, a := range s.arms {
		for _, l := range a.labels {
			nodeReads(l, reads)
		}
		stmtRW(a.body, reads, writes)
	}
	stmtRW(s.then, reads, writes)
	stmtRW(s.els, reads, writes)
	stmtRW(s.init, reads, writes)
	stmtRW(s.step, reads, writes)
}

func (p *process) analyse() {
	p.reads, p.writes = map[int]bool{}, map[int]bool{}
	if p.kind == pAssign {
		nodeReads(p.rhs, p.reads)
		lvalRW(p.lhs, p.reads, p.writes)
		return
	}
	stmtRW(p.body, p.reads, p.writes)
}

// orderComb sorts combinational processes so that, for acyclic logic,
// producers run before consumers (one evaluation pass then suffices).
func orderComb(procs []*process) []*process {
	writers := map[int][]int{}
	for i, p := range procs {
		for w := range p.writes {
			writers[w] = append(writers[w], i)
		}
	}
	state := make([]int, len(procs))
	var out []*process
	var visit func(i int)
	visit = func(i int) {
		if state[i] != 0 {
			return
		}
		state[i] = 1
		var deps []int
		for r := range procs[i].reads {
			deps = append(deps, writers[r]...)
		}
		sort.Ints(deps)
		for _, d := range deps {
			if d != i {
				visit(d)
			}
		}
		state[i] = 2
		out = append(out, procs[i])
	}
	for i := range procs {
		visit(i)
	}
	return out
}

// Elaborate flattens the hierarchy below module top, runs the initial
// blocks and settles the combinational logic once.
func Elaborate(d *Design, top string) (*Sim, error) {
	m, ok := d.mods[top]
	if !ok {
		return nil, fmt.Errorf("vlog: top module %q not found", top)
	}
	s := &Sim{byName: map[string]*signal{}, UnknownBranchSites: map[string]int{}, top: top}
	el := &elaborator{d: d, sim: s, alias: map[int]int{}}
	rootScope := &scope{mod: top, names: map[string]*symbol{}}
	if _, err := el.elabModule(m, "", "", nil, rootScope, m.line); err != nil {
		return nil, err
	}
	for _, sg := range s.sigs {
		if sg.dir == "input" && !strings.Contains(sg.name, ".") {
			sg.topInput = true
		}
	}
	// resolve clock roots
	rootOf := func(id int) int {
		for hops := 0; hops < len(s.sigs)+1; hops++ {
			nx, ok := el.alias[id]
			if !ok {
				return id
			}
			id = nx
		}
		return id
	}
	for _, p := range s.edge {
		for i := range p.events {
			p.events[i].root = rootOf(p.events[i].sig.id)
			if r := s.sigs[p.events[i].root]; !r.topInput {
				s.Warnings = append(s.Warnings, fmt.Sprintf("%s: always block is clocked by %q which is not a top-level input; it only runs on Step(%q)", p.where, r.name, r.name))
			}
		}
	}
	// static analyses
	for _, p := range s.comb {
		p.analyse()
	}
	for _, p := range s.edge {
		p.analyse()
	}
	s.checkDrivers()
	s.comb = orderComb(s.comb)
	// initial blocks
	for _, p := range el.initials {
		c := s.newCtx(p.where, true)
		if err := c.exec(p.body); err != nil {
			return nil, err
		}
		c.commitOverlay(nil)
		c.applyNBA(nil)
	}
	s.dirty = true
	if err := s.Settle(); err != nil {
		return nil, err
	}
	return s, nil
}

// checkDrivers emits warnings for nets with several whole-signal drivers and
// for variables written by more than one always block.
func (s *Sim) checkDrivers() {
	combWriters := map[int]int{}
	for _, p := range s.comb {
		for w := range p.writes {
			if p.kind == pAssign && p.lhs.kind == lvSig && p.lhs.sel != selNone {
				continue // partial drivers are common and legal
			}
			combWriters[w]++
		}
	}
	edgeWriters := map[int]int{}
	for _, p := range s.edge {
		for w := range p.writes {
			edgeWriters[w]++
		}
	}
	var msgs []string
	for id, n := range combWriters {
		if n > 1 && !s.sigs[id].isMem {
			msgs = append(msgs, fmt.Sprintf("signal %q has %d combinational drivers", s.sigs[id].name, n))
		}
		if edgeWriters[id] > 0 {
			msgs = append(msgs, fmt.Sprintf("signal %q is driven both combinationally and from a clocked block", s.sigs[id].name))
		}
	}
	for id, n := range edgeWriters {
		if n > 1 {
			msgs = append(msgs, fmt.Sprintf("variable %q is assigned in %d different clocked always blocks", s.sigs[id].name, n))
		}
	}
	sort.Strings(msgs)
	s.Warnings = append(s.Warnings, msgs...)
}
