// Package tlaval parses the textual form in which TLC prints TLA+ values
// (state dumps, -simulate trace files, counterexamples) into Go values.
//
// Mapping:
//
//	integer        -> int64
//	TRUE/FALSE     -> bool
//	"string"       -> string
//	model value    -> ModelValue
//	<<a, b>>       -> Seq
//	{a, b}         -> Set
//	[f |-> v, ...] -> Rec
//	(k :> v @@ ..) -> Fun  (a function whose domain is 1..n is returned as Seq by TLC itself)
//	a..b           -> Set of the integers
package tlaval

import (
	"fmt"
	"sort"
	"strconv"
	"strings"
)

type Value interface{}

type ModelValue string
type Seq []Value
type Set []Value
type Rec map[string]Value
type FunPair struct{ K, V Value }
type Fun []FunPair

type parser struct {
	s   string
	pos int
}

func (p *parser) ws() {
	for p.pos < len(p.s) {
		c := p.s[p.pos]
		if c == ' ' || c == '\n' || c == '\t' || c == '\r' {
			p.pos++
		} else {
			break
		}
	}
}

func (p *parser) peek(t string) bool {
	p.ws()
	return strings.HasPrefix(p.s[p.pos:], t)
}

func (p *parser) eat(t string) bool {
	if p.peek(t) {
		p.pos += len(t)
		return true
	}
	return false
}

func (p *parser) expect(t string) error {
	if !p.eat(t) {
		end := p.pos + 30
		if end > len(p.s) {
			end = len(p.s)
		}
		return fmt.Errorf("tlaval: expected %q at %d near %q", t, p.pos, p.s[p.pos:end])
	}
	return nil
}

func isIdent(c byte) bool {
	return c == '_' || (c >= 'a' && c <= 'z') || (c >= 'A' && c <= 'Z') || (c >= '0' && c <= '9')
}

func (p *parser) ident() string {
	p.ws()
	st := p.pos
	for p.pos < len(p.s) && isIdent(p.s[p.pos]) {
		p.pos++
	}
	return p.s[st:p.pos]
}

// value parses one value including a possible trailing "@@ ..." chain or ".." interval.
func (p *parser) value() (Value, error) {
	v, err := p.atom()
	if err != nil {
		return nil, err
	}
	if p.peek("..") {
		p.pos += 2
		hi, err := p.atom()
		if err != nil {
			return nil, err
		}
		lo, ok1 := v.(int64)
		h, ok2 := hi.(int64)
		if !ok1 || !ok2 {
			return nil, fmt.Errorf("tlaval: non integer interval")
		}
		out := Set{}
		for i := lo; i <= h; i++ {
			out = append(out, i)
		}
		return out, nil
	}
	return v, nil
}

func (p *parser) atom() (Value, error) {
	p.ws()
	if p.pos >= len(p.s) {
		return nil, fmt.Errorf("tlaval: unexpected end")
	}
	c := p.s[p.pos]
	switch {
	case c == '"':
		p.pos++
		var sb strings.Builder
		for p.pos < len(p.s) {
			ch := p.s[p.pos]
			if ch == '\\' && p.pos+1 < len(p.s) {
				n := p.s[p.pos+1]
				switch n {
				case 'n':
					sb.WriteByte('\n')
				case 't':
					sb.WriteByte('\t')
				default:
					sb.WriteByte(n)
				}
				p.pos += 2
				continue
			}
			if ch == '"' {
				p.pos++
				return sb.String(), nil
			}
			sb.WriteByte(ch)
			p.pos++
		}
		return nil, fmt.Errorf("tlaval: unterminated string")
	case c == '<' && strings.HasPrefix(p.s[p.pos:], "<<"):
		p.pos += 2
		out := Seq{}
		if p.eat(">>") {
			return out, nil
		}
		for {
			v, err := p.value()
			if err != nil {
				return nil, err
			}
			out = append(out, v)
			if p.eat(",") {
				continue
			}
			if err := p.expect(">>"); err != nil {
				return nil, err
			}
			return out, nil
		}
	case c == '{':
		p.pos++
		out := Set{}
		if p.eat("}") {
			return out, nil
		}
		for {
			v, err := p.value()
			if err != nil {
				return nil, err
			}
			out = append(out, v)
			if p.eat(",") {
				continue
			}
			if err := p.expect("}"); err != nil {
				return nil, err
			}
			return out, nil
		}
	case c == '[':
		p.pos++
		out := Rec{}
		if p.eat("]") {
			return out, nil
		}
		for {
			name := p.ident()
			if name == "" {
				return nil, fmt.Errorf("tlaval: record field expected at %d", p.pos)
			}
			if err := p.expect("|->"); err != nil {
				return nil, err
			}
			v, err := p.value()
			if err != nil {
				return nil, err
			}
			out[name] = v
			if p.eat(",") {
				continue
			}
			if err := p.expect("]"); err != nil {
				return nil, err
			}
			return out, nil
		}
	case c == '(':
		p.pos++
		out := Fun{}
		for {
			k, err := p.value()
			if err != nil {
				return nil, err
			}
			if err := p.expect(":>"); err != nil {
				return nil, err
			}
			v, err := p.value()
			if err != nil {
				return nil, err
			}
			out = append(out, FunPair{k, v})
			if p.eat("@@") {
				continue
			}
			if err := p.expect(")"); err != nil {
				return nil, err
			}
			return out, nil
		}
	case c == '-' || (c >= '0' && c <= '9'):
		st := p.pos
		p.pos++
		for p.pos < len(p.s) && p.s[p.pos] >= '0' && p.s[p.pos] <= '9' {
			p.pos++
		}
		n, err := strconv.ParseInt(p.s[st:p.pos], 10, 64)
		if err != nil {
			return nil, err
		}
		return n, nil
	default:
		id := p.ident()
		switch id {
		case "TRUE":
			return true, nil
		case "FALSE":
			return false, nil
		case "":
			return nil, fmt.Errorf("tlaval: unexpected %q at %d", string(c), p.pos)
		}
		return ModelValue(id), nil
	}
}

// Parse parses one TLA+ value.
func Parse(s string) (Value, error) {
	p := &parser{s: s}
	v, err := p.value()
	if err != nil {
		return nil, err
	}
	p.ws()
	if p.pos != len(p.s) {
		return nil, fmt.Errorf("tlaval: trailing text at %d: %q", p.pos, p.s[p.pos:])
	}
	return v, nil
}

// ParseState parses a TLC state: "/\ x = v\n/\ y = w" (the leading /\ is optional for a
// single variable) into a variable->value map.
func ParseState(s string) (map[string]Value, error) {
	p := &parser{s: s}
	out := map[string]Value{}
	for {
		p.ws()
		if p.pos >= len(p.s) {
			return out, nil
		}
		p.eat("/\\")
		name := p.ident()
		if name == "" {
			return nil, fmt.Errorf("tlaval: variable name expected at %d in %q", p.pos, s)
		}
		if err := p.expect("="); err != nil {
			return nil, err
		}
		v, err := p.value()
		if err != nil {
			return nil, err
		}
		out[name] = v
	}
}

// Helpers ---------------------------------------------------------------------------------

func Int(v Value) int {
	switch x := v.(type) {
	case int64:
		return int(x)
	case int:
		return x
	case float64:
		return int(x)
	}
	panic(fmt.Sprintf("tlaval.Int: %T %v", v, v))
}

func Bool(v Value) bool {
	b, ok := v.(bool)
	if !ok {
		panic(fmt.Sprintf("tlaval.Bool: %T %v", v, v))
	}
	return b
}

func Str(v Value) string {
	switch x := v.(type) {
	case string:
		return x
	case ModelValue:
		return string(x)
	}
	panic(fmt.Sprintf("tlaval.Str: %T %v", v, v))
}

// AsSeq returns v as a sequence; a Fun over 1..n and an empty value are accepted.
func AsSeq(v Value) Seq {
	switch x := v.(type) {
	case Seq:
		return x
	case Fun:
		out := make(Seq, len(x))
		for _, kv := range x {
			out[Int(kv.K)-1] = kv.V
		}
		return out
	case Set:
		if len(x) == 0 {
			return Seq{}
		}
	}
	panic(fmt.Sprintf("tlaval.AsSeq: %T %v", v, v))
}

func AsRec(v Value) Rec {
	switch x := v.(type) {
	case Rec:
		return x
	case Fun:
		out := Rec{}
		for _, kv := range x {
			out[Str(kv.K)] = kv.V
		}
		return out
	case Seq:
		if len(x) == 0 {
			return Rec{}
		}
	}
	panic(fmt.Sprintf("tlaval.AsRec: %T %v", v, v))
}

// AsFun returns v as key/value pairs; sequences become 1..n functions, records string keyed.
func AsFun(v Value) Fun {
	switch x := v.(type) {
	case Fun:
		return x
	case Seq:
		out := Fun{}
		for i, e := range x {
			out = append(out, FunPair{int64(i + 1), e})
		}
		return out
	case Rec:
		keys := make([]string, 0, len(x))
		for k := range x {
			keys = append(keys, k)
		}
		sort.Strings(keys)
		out := Fun{}
		for _, k := range keys {
			out = append(out, FunPair{k, x[k]})
		}
		return out
	}
	panic(fmt.Sprintf("tlaval.AsFun: %T %v", v, v))
}

// Get looks up key k in a function/sequence/record value.
func Get(f Value, k Value) (Value, bool) {
	for _, kv := range AsFun(f) {
		if Equal(kv.K, k) {
			return kv.V, true
		}
	}
	return nil, false
}

func Equal(a, b Value) bool {
	return String(a) == String(b)
}

// String renders a canonical form (sets and functions sorted) usable as a map key.
func String(v Value) string {
	switch x := v.(type) {
	case nil:
		return "nil"
	case int64:
		return strconv.FormatInt(x, 10)
	case int:
		return strconv.Itoa(x)
	case bool:
		if x {
			return "TRUE"
		}
		return "FALSE"
	case string:
		return strconv.Quote(x)
	case ModelValue:
		return string(x)
	case Seq:
		parts := make([]string, len(x))
		for i, e := range x {
			parts[i] = String(e)
		}
		return "<<" + strings.Join(parts, ", ") + ">>"
	case Set:
		parts := make([]string, len(x))
		for i, e := range x {
			parts[i] = String(e)
		}
		sort.Strings(parts)
		return "{" + strings.Join(parts, ", ") + "}"
	case Rec:
		keys := make([]string, 0, len(x))
		for k := range x {
			keys = append(keys, k)
		}
		sort.Strings(keys)
		parts := make([]string, len(keys))
		for i, k := range keys {
			parts[i] = k + " |-> " + String(x[k])
		}
		return "[" + strings.Join(parts, ", ") + "]"
	case Fun:
		parts := make([]string, len(x))
		for i, kv := range x {
			parts[i] = String(kv.K) + " :> " + String(kv.V)
		}
		sort.Strings(parts)
		return "(" + strings.Join(parts, " @@ ") + ")"
	}
	return fmt.Sprintf("%v", v)
}

// ToJSONable converts a value into plain Go data for encoding/json.
func ToJSONable(v Value) interface{} {
	switch x := v.(type) {
	case ModelValue:
		return string(x)
	case Seq:
		out := make([]interface{}, len(x))
		for i, e := range x {
			out[i] = ToJSONable(e)
		}
		return out
	case Set:
		out := make([]interface{}, len(x))
		for i, e := range x {
			out[i] = ToJSONable(e)
		}
		return out
	case Rec:
		out := map[string]interface{}{}
		for k, e := range x {
			out[k] = ToJSONable(e)
		}
		return out
	case Fun:
		out := map[string]interface{}{}
		for _, kv := range x {
			out[strings.Trim(String(kv.K), "\"")] = ToJSONable(kv.V)
		}
		return out
	}
	return v
}
