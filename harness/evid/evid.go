// Package evid holds what is common to every check: tier/seed, the evidence file, the
// VIOLATION / KNOWN-FINDING lines, the known-findings file and replay artefacts.
package evid

import (
	"crypto/sha1"
	"encoding/hex"
	"encoding/json"
	"fmt"
	"os"
	"path/filepath"
	"sort"
	"strconv"
	"strings"
	"sync"
	"time"
)

var VerifDir = func() string {
	if d := os.Getenv("VERIF_DIR"); d != "" {
		return d
	}
	return "/verif"
}()

type Run struct {
	ID    string
	Tier  string
	Seed  int64
	Level string
	Start time.Time

	mu           sync.Mutex
	Coverage     map[string]interface{}
	Assumptions  []string
	violations   []Violation
	known        []string
	knownSeen    map[string]int
	inconclusive []string
	samples      []interface{}
	distinct     map[string]struct{}
	kf           []KnownFinding
}

type Violation struct {
	Signature string
	What      string
	Replay    string
}

type KnownFinding struct {
	Property  string `json:"property"`
	ID        string `json:"id"`
	Status    string `json:"status"` // open | fixed
	Signature string `json:"signature"`
	What      string `json:"what"`
	Commit    string `json:"commit,omitempty"`
}

func NewRun(id, tier, level string) *Run {
	seed := int64(1)
	if s := os.Getenv("VERIF_SEED"); s != "" {
		if v, err := strconv.ParseInt(s, 10, 64); err == nil {
			seed = v
		}
	}
	r := &Run{ID: id, Tier: tier, Seed: seed, Level: level, Start: time.Now(),
		Coverage: map[string]interface{}{}, knownSeen: map[string]int{}, distinct: map[string]struct{}{}}
	r.kf = LoadKnown()
	return r
}

func LoadKnown() []KnownFinding {
	b, err := os.ReadFile(filepath.Join(VerifDir, "known_findings.json"))
	if err != nil {
		return nil
	}
	var out []KnownFinding
	if err := json.Unmarshal(b, &out); err != nil {
		fmt.Fprintf(os.Stderr, "known_findings.json: %v\n", err)
		os.Exit(2)
	}
	return out
}

func (r *Run) Thorough() bool { return r.Tier == "thorough" }

// Pick returns q in the quick tier and t in the thorough tier.
func (r *Run) Pick(q, t int) int {
	if r.Thorough() {
		return t
	}
	return q
}

func (r *Run) Set(key string, v interface{}) {
	r.mu.Lock()
	defer r.mu.Unlock()
	r.Coverage[key] = v
}

func (r *Run) Add(key string, n int64) {
	r.mu.Lock()
	defer r.mu.Unlock()
	cur, _ := r.Coverage[key].(int64)
	r.Coverage[key] = cur + n
}

func (r *Run) Get(key string) int64 {
	r.mu.Lock()
	defer r.mu.Unlock()
	cur, _ := r.Coverage[key].(int64)
	return cur
}

func (r *Run) Assume(s string) {
	r.mu.Lock()
	defer r.mu.Unlock()
	for _, a := range r.Assumptions {
		if a == s {
			return
		}
	}
	r.Assumptions = append(r.Assumptions, s)
}

// Sample records one explored case (kept small: at most max samples are stored).
func (r *Run) Sample(v interface{}) {
	r.mu.Lock()
	defer r.mu.Unlock()
	if len(r.samples) < 6 {
		r.samples = append(r.samples, v)
	}
}

// Distinct counts a distinct non-trivial case under key k.
func (r *Run) Distinct(k string) {
	r.mu.Lock()
	defer r.mu.Unlock()
	h := sha1.Sum([]byte(k))
	r.distinct[string(h[:8])] = struct{}{}
}

func (r *Run) DistinctCount() int {
	r.mu.Lock()
	defer r.mu.Unlock()
	return len(r.distinct)
}

// Inconclusive records a reason for which this run cannot give a verdict (exit 2).
func (r *Run) Inconclusive(format string, a ...interface{}) {
	r.mu.Lock()
	defer r.mu.Unlock()
	msg := fmt.Sprintf(format, a...)
	if len(r.inconclusive) < 50 {
		r.inconclusive = append(r.inconclusive, msg)
	}
	fmt.Printf("INCONCLUSIVE property=%s %s\n", r.ID, msg)
}

// SaveReplay writes a replay artefact and returns its path.
func (r *Run) SaveReplay(v interface{}) string {
	b, _ := json.MarshalIndent(v, "", " ")
	h := sha1.Sum(b)
	dir := filepath.Join(VerifDir, "evidence", "replays")
	os.MkdirAll(dir, 0o755)
	p := filepath.Join(dir, fmt.Sprintf("%s-%s.json", r.ID, hex.EncodeToString(h[:6])))
	os.WriteFile(p, b, 0o644)
	return p
}

// Violate reports a property violation observed on the real artefact. signature identifies the
// failing input/call site/history class; a signature listed as open in known_findings.json is
// reported as KNOWN-FINDING instead.
func (r *Run) Violate(signature, what string, replay interface{}) {
	r.mu.Lock()
	for _, k := range r.kf {
		if k.Property == r.ID && k.Status == "open" && k.Signature == signature {
			r.knownSeen[k.ID]++
			if r.knownSeen[k.ID] == 1 {
				r.known = append(r.known, fmt.Sprintf("KNOWN-FINDING: property=%s %s [%s] %s", r.ID, k.ID, signature, k.What))
			}
			r.mu.Unlock()
			return
		}
	}
	for _, v := range r.violations {
		if v.Signature == signature {
			r.mu.Unlock()
			return
		}
	}
	r.mu.Unlock()
	p := r.SaveReplay(map[string]interface{}{"property": r.ID, "signature": signature, "what": what, "replay": replay})
	r.mu.Lock()
	r.violations = append(r.violations, Violation{signature, what, p})
	r.mu.Unlock()
	fmt.Printf("VIOLATION property=%s replay=%s\n", r.ID, p)
	fmt.Printf("  signature=%s\n  %s\n", signature, what)
}

func (r *Run) Violations() int {
	r.mu.Lock()
	defer r.mu.Unlock()
	return len(r.violations)
}

// Finish writes evidence/<id>.json and returns the process exit code.
func (r *Run) Finish() int {
	r.mu.Lock()
	defer r.mu.Unlock()
	sort.Strings(r.known)
	for _, k := range r.known {
		fmt.Println(k)
	}
	// every open known finding of this property that the run was expected to re-observe but did
	// not is only noted (it may be out of this tier's reach); it never fails the run.
	for _, k := range r.kf {
		if k.Property == r.ID && k.Status == "open" && r.knownSeen[k.ID] == 0 {
			fmt.Printf("NOTE property=%s known finding %s not re-observed in this run\n", r.ID, k.ID)
		}
	}
	cov := r.Coverage
	if _, ok := cov["samples"]; !ok {
		if len(r.samples) == 0 {
			r.samples = append(r.samples, "no sample recorded")
		}
		cov["samples"] = r.samples
	}
	if _, ok := cov["distinct_nontrivial"]; !ok {
		cov["distinct_nontrivial"] = len(r.distinct)
	}
	if _, ok := cov["evaluations"]; !ok {
		cov["evaluations"] = int64(len(r.distinct))
	}
	cov["known_findings_reobserved"] = r.knownSeen
	if len(r.inconclusive) > 0 {
		cov["inconclusive"] = r.inconclusive
	}
	ev := map[string]interface{}{
		"property_id": r.ID,
		"tier":        r.Tier,
		"seed":        r.Seed,
		"level":       r.Level,
		"coverage":    cov,
		"assumptions": r.Assumptions,
		"wall_s":      time.Since(r.Start).Seconds(),
		"violations":  len(r.violations),
	}
	if r.Assumptions == nil {
		ev["assumptions"] = []string{}
	}
	b, _ := json.MarshalIndent(ev, "", " ")
	dir := filepath.Join(VerifDir, "evidence")
	os.MkdirAll(dir, 0o755)
	if err := os.WriteFile(filepath.Join(dir, r.ID+".json"), b, 0o644); err != nil {
		fmt.Fprintf(os.Stderr, "cannot write evidence: %v\n", err)
		return 2
	}
	if len(r.violations) > 0 {
		return 1
	}
	if len(r.inconclusive) > 0 {
		return 2
	}
	fmt.Printf("OK property=%s tier=%s seed=%d wall=%.1fs %s\n", r.ID, r.Tier, r.Seed, time.Since(r.Start).Seconds(), summary(cov))
	return 0
}

func summary(cov map[string]interface{}) string {
	keys := []string{"states", "transitions", "traces_validated_against_impl", "programs", "evaluations", "distinct_nontrivial"}
	var parts []string
	for _, k := range keys {
		if v, ok := cov[k]; ok {
			parts = append(parts, fmt.Sprintf("%s=%v", k, v))
		}
	}
	return strings.Join(parts, " ")
}
