// Package relang turns Go regular expressions (compiled by Go's own regexp/syntax, the same
// front end the real code uses) into explicit NFAs over a common partition of the alphabet, so
// that a TLA+ specification can explore the product of two of them.
package relang

import (
	"fmt"
	"regexp/syntax"
	"sort"
	"strings"
)

// NFA state 0 is the initial state (at the beginning of the text); state 1+pc is "a thread at
// instruction pc, not at the beginning of the text".
type NFA struct {
	Pattern string
	N       int       // number of states
	Delta   [][][]int // Delta[state][class] = sorted target states
	Final   []bool    // Final[state]: the text may end here (Match reachable through end-anchored closure)
}

type compiled struct {
	pattern string
	prog    *syntax.Prog
}

func compile(pattern string) (*compiled, error) {
	re, err := syntax.Parse(pattern, syntax.Perl)
	if err != nil {
		return nil, err
	}
	prog, err := syntax.Compile(re.Simplify())
	if err != nil {
		return nil, err
	}
	return &compiled{pattern, prog}, nil
}

// closure returns the consuming instructions reachable from pc by empty moves, and whether Match
// is reachable, given whether we are at the beginning / end of the text.
func (c *compiled) closure(pc int, atStart, atEnd bool) (cons []int, match bool) {
	seen := map[int]bool{}
	var walk func(pc int)
	walk = func(pc int) {
		if seen[pc] {
			return
		}
		seen[pc] = true
		in := &c.prog.Inst[pc]
		switch in.Op {
		case syntax.InstAlt, syntax.InstAltMatch:
			walk(int(in.Out))
			walk(int(in.Arg))
		case syntax.InstCapture, syntax.InstNop:
			walk(int(in.Out))
		case syntax.InstEmptyWidth:
			need := syntax.EmptyOp(in.Arg)
			ok := true
			if need&(syntax.EmptyBeginText|syntax.EmptyBeginLine) != 0 && !atStart {
				ok = false
			}
			if need&(syntax.EmptyEndText|syntax.EmptyEndLine) != 0 && !atEnd {
				ok = false
			}
			if need&(syntax.EmptyWordBoundary|syntax.EmptyNoWordBoundary) != 0 {
				ok = false // not used by the matchers; treated as never satisfiable (checked in Build)
			}
			if ok {
				walk(int(in.Out))
			}
		case syntax.InstMatch:
			match = true
		case syntax.InstFail:
		default:
			cons = append(cons, pc)
		}
	}
	walk(pc)
	sort.Ints(cons)
	return
}

// Alphabet is a partition of the runes into classes; Reps[i] is a representative of class i.
type Alphabet struct {
	Reps []rune
}

// Build compiles all patterns and returns their NFAs over a common alphabet partition.
func Build(patterns []string) ([]*NFA, *Alphabet, error) {
	var cs []*compiled
	bounds := map[rune]bool{0: true}
	addRange := func(lo, hi rune) {
		bounds[lo] = true
		if hi < 0x10FFFF {
			bounds[hi+1] = true
		}
	}
	for _, p := range patterns {
		c, err := compile(p)
		if err != nil {
			return nil, nil, fmt.Errorf("%q: %v", p, err)
		}
		for _, in := range c.prog.Inst {
			switch in.Op {
			case syntax.InstRune, syntax.InstRune1:
				if syntax.Flags(in.Arg)&syntax.FoldCase != 0 {
					return nil, nil, fmt.Errorf("%q: case folding is not supported", p)
				}
				if len(in.Rune) == 1 {
					addRange(in.Rune[0], in.Rune[0])
				}
				for i := 0; i+1 < len(in.Rune); i += 2 {
					addRange(in.Rune[i], in.Rune[i+1])
				}
			case syntax.InstRuneAnyNotNL:
				addRange('\n', '\n')
			case syntax.InstEmptyWidth:
				if syntax.EmptyOp(in.Arg)&(syntax.EmptyWordBoundary|syntax.EmptyNoWordBoundary) != 0 {
					return nil, nil, fmt.Errorf("%q: word boundaries are not supported", p)
				}
			}
		}
		cs = append(cs, c)
	}
	var bs []rune
	for b := range bounds {
		bs = append(bs, b)
	}
	sort.Slice(bs, func(i, j int) bool { return bs[i] < bs[j] })
	alpha := &Alphabet{}
	for _, b := range bs {
		// skip the surrogate gap start if it were a class of its own: harmless either way
		alpha.Reps = append(alpha.Reps, b)
	}
	var out []*NFA
	for _, c := range cs {
		n := &NFA{Pattern: c.pattern, N: len(c.prog.Inst) + 1}
		n.Delta = make([][][]int, n.N)
		n.Final = make([]bool, n.N)
		for st := 0; st < n.N; st++ {
			pc, atStart := st-1, false
			if st == 0 {
				pc, atStart = c.prog.Start, true
			}
			cons, _ := c.closure(pc, atStart, false)
			_, match := c.closure(pc, atStart, true)
			n.Final[st] = match
			n.Delta[st] = make([][]int, len(alpha.Reps))
			for ci, rep := range alpha.Reps {
				set := map[int]bool{}
				for _, q := range cons {
					in := &c.prog.Inst[q]
					if in.MatchRune(rep) {
						set[1+int(in.Out)] = true
					}
				}
				var tg []int
				for t := range set {
					tg = append(tg, t)
				}
				sort.Ints(tg)
				n.Delta[st][ci] = tg
			}
		}
		out = append(out, n)
	}
	return out, alpha, nil
}

// Word renders a sequence of class indices (1-based, as TLC prints them) as a string.
func (a *Alphabet) Word(classes []int) string {
	var sb strings.Builder
	for _, c := range classes {
		sb.WriteRune(a.Reps[c-1])
	}
	return sb.String()
}

// TLA renders the NFAs as a TLA+ module defining NFAs (sequence of records [n, delta, final])
// and NClasses. States are 1-based in TLA+ (state s here is s+1 there).
func TLA(module string, nfas []*NFA, a *Alphabet, pairFilter [][2]int) string {
	var sb strings.Builder
	fmt.Fprintf(&sb, "---- MODULE %s ----\n\\* generated from the real matcher regexes by relang (Go's regexp/syntax NFAs)\n", module)
	fmt.Fprintf(&sb, "NClasses == %d\n", len(a.Reps))
	sb.WriteString("PairFilter == {")
	for i, p := range pairFilter {
		if i > 0 {
			sb.WriteString(", ")
		}
		fmt.Fprintf(&sb, "<<%d, %d>>", p[0], p[1])
	}
	sb.WriteString("}\n")
	sb.WriteString("NFAs == <<\n")
	for i, n := range nfas {
		if i > 0 {
			sb.WriteString(",\n")
		}
		fmt.Fprintf(&sb, " [n |-> %d, final |-> {", n.N)
		first := true
		for s, f := range n.Final {
			if f {
				if !first {
					sb.WriteString(", ")
				}
				fmt.Fprintf(&sb, "%d", s+1)
				first = false
			}
		}
		sb.WriteString("}, delta |-> <<")
		for s := 0; s < n.N; s++ {
			if s > 0 {
				sb.WriteString(", ")
			}
			sb.WriteString("<<")
			for c := range a.Reps {
				if c > 0 {
					sb.WriteString(", ")
				}
				sb.WriteString("{")
				for k, t := range n.Delta[s][c] {
					if k > 0 {
						sb.WriteString(", ")
					}
					fmt.Fprintf(&sb, "%d", t+1)
				}
				sb.WriteString("}")
			}
			sb.WriteString(">>")
		}
		sb.WriteString(">>]")
	}
	sb.WriteString("\n>>\n====\n")
	return sb.String()
}

// Variants returns strings obtained from w by replacing characters with other members of their
// alphabet class (class membership is what both automata see, so every variant is accepted by
// exactly the same notations as w).  At most max variants, chosen by the pseudo random source.
func (a *Alphabet) Variants(w string, max int, intn func(int) int) []string {
	rs := []rune(w)
	classHi := func(r rune) (lo, hi rune) {
		lo, hi = 0, 0x10FFFF
		for i, b := range a.Reps {
			if b <= r {
				lo = b
				if i+1 < len(a.Reps) {
					hi = a.Reps[i+1] - 1
				} else {
					hi = 0x10FFFF
				}
			}
		}
		return
	}
	seen := map[string]bool{w: true}
	var out []string
	for try := 0; try < max*4 && len(out) < max; try++ {
		v := make([]rune, len(rs))
		copy(v, rs)
		for i, r := range rs {
			lo, hi := classHi(r)
			if hi > lo && hi-lo < 64 && intn(2) == 0 {
				v[i] = lo + rune(intn(int(hi-lo)+1))
			}
		}
		s := string(v)
		if !seen[s] {
			seen[s] = true
			out = append(out, s)
		}
	}
	return out
}
