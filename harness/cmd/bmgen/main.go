// bmgen: development helper — assemble a .basm file and write its Verilog file set to a dir.
package main

import (
	"fmt"
	"os"
	"path/filepath"

	"github.com/BondMachineHQ/BondMachine/pkg/bondmachine"
	"verif/harness/bmgen"
)

func main() {
	src, err := os.ReadFile(os.Args[1])
	if err != nil {
		panic(err)
	}
	bm, _, err := bmgen.AssembleBasm(string(src))
	if err != nil {
		fmt.Println("assemble:", err)
		os.Exit(1)
	}
	conf := new(bondmachine.Config)
	files, order, err := bmgen.VerilogFiles(bm, conf, "iverilog")
	if err != nil {
		fmt.Println("verilog:", err)
		os.Exit(1)
	}
	os.MkdirAll(os.Args[2], 0o755)
	for _, n := range order {
		os.WriteFile(filepath.Join(os.Args[2], n), []byte(files[n]), 0o644)
		fmt.Println(n, len(files[n]))
	}
}
