package main

// C04, the environment of a single-shot simulation as a producer.  SinglePipelineSimulate offers one
// value on every machine input and completes the four-phase handshake with whoever reads it: that is a
// bond whose produced sequence has length one.  The run is recorded through the simulator's hook (the
// state at the beginning of every tick) and written in BMBond's vocabulary, one log per machine input;
// TLC judges the logs with the rest of C04's executions (BMBondTrace).

import (
	"fmt"
	"strings"

	"github.com/BondMachineHQ/BondMachine/pkg/bondmachine"
)

type shotSnap struct {
	valid []bool
	pc    []uint64
	regs  [][]uint64
}

// singleShotLogs runs the family of two-input machines under SinglePipelineSimulate: processor 0 reads
// its input once and publishes it after `wait` nops; processor 1 reads its input again and again (after
// `lead` nops the first time), adds what it reads and publishes the sum.  firstIn tells which machine
// input feeds processor 0.
func singleShotLogs(record func(bc *bondCase, ticks []bondTick)) error {
	for _, firstIn := range []int{0, 1} {
		for _, lead := range []int{0, 1, 2, 6} {
			for _, wait := range []int{4, 30} {
				first := "i2rw r0 i0\n" + strings.Repeat("nop\n", wait) + "r2owa r0 o0\n"
				repeat := strings.Repeat("nop\n", lead) + "i2rw r1 i0\nadd r0 r1\nr2owa r0 o0\n" + fmt.Sprintf("j %d\n", lead)
				bm := newBM(8)
				for _, prog := range []string{first, repeat} {
					m, err := mkMachine(8, 3, 1, 1, 0, []string{"add", "i2rw", "j", "nop", "r2owa"}, prog)
					if err != nil {
						return err
					}
					addProc(bm, m)
				}
				for k := 0; k < 2; k++ {
					bm.Add_input()
					bm.Add_output()
				}
				bm.Add_bond([]string{fmt.Sprintf("i%d", firstIn), "p0i0"})
				bm.Add_bond([]string{fmt.Sprintf("i%d", 1-firstIn), "p1i0"})
				bm.Add_bond([]string{"p0o0", "o1"})
				bm.Add_bond([]string{"p1o0", "o0"})
				var snaps []shotSnap
				bondmachine.VerifHook = func(kind string, vm *bondmachine.VM, proc int) {
					if kind != "pre" {
						return
					}
					sn := shotSnap{valid: append([]bool{}, vm.InputsValid...)}
					for _, p := range vm.Processors {
						sn.pc = append(sn.pc, p.Pc)
						var rs []uint64
						for _, x := range p.Registers {
							rs = append(rs, u64(x))
						}
						sn.regs = append(sn.regs, rs)
					}
					snaps = append(snaps, sn)
				}
				values := []string{"3", "5"}
				_, err := bm.SinglePipelineSimulate("unsigned", values, nil)
				bondmachine.VerifHook = nil
				if err != nil {
					return fmt.Errorf("SinglePipelineSimulate (first on i%d, lead %d, wait %d): %v", firstIn, lead, wait, err)
				}
				// one log per machine input: the environment is the producer, the processor the consumer
				for q := 0; q < 2; q++ {
					in := firstIn
					recvPc, capReg := uint64(0), 0
					if q == 1 {
						in, recvPc, capReg = 1-firstIn, uint64(lead), 1
					}
					val := uint64(3)
					if in == 1 {
						val = 5
					}
					ticks := []bondTick{{Ev: "reset", K: 1, Iss: []uint64{}, Crs: []bondCR{}}}
					wasValid := false
					for t := 0; t+1 < len(snaps); t++ {
						a, b := snaps[t], snaps[t+1]
						bt := bondTick{Ev: "tick", Iss: []uint64{}, Crs: []bondCR{}, Cause: "other"}
						if a.valid[in] && !wasValid {
							bt.Iss = append(bt.Iss, val) // the offer is up at the beginning of this tick
						}
						wasValid = a.valid[in]
						if a.pc[q] == recvPc && b.pc[q] == recvPc+1 {
							bt.Crs = append(bt.Crs, bondCR{C: 1, V: b.regs[q][capReg]})
						}
						if a.valid[in] && !b.valid[in] {
							bt.Pr = true // the environment withdrew the offer: its send is over
						}
						ticks = append(ticks, bt)
					}
					prog := bondProg{Prod: []string{fmt.Sprintf("single-shot environment, machine input i%d = %d", in, val)}, Cons: [][]string{strings.Fields(strings.ReplaceAll([]string{first, repeat}[q], "\n", " ; "))}}
					record(&bondCase{Backend: "sim-single-shot", Source: fmt.Sprintf("first-on-i%d:lead=%d:wait=%d:processor=%d", firstIn, lead, wait, q), Prog: prog, Ticks: len(ticks) - 1}, ticks)
				}
			}
		}
	}
	return nil
}
