package main

// A protocol-abiding environment around the real whole-machine simulator: it offers a stream of
// values on every external input with the four-phase valid/received handshake and consumes every
// external output the same way.  Used by the source-level checks (C05, C06) that compare the
// streams a machine produces with a reference.

import (
	"fmt"

	"github.com/BondMachineHQ/BondMachine/pkg/bondmachine"
	"github.com/BondMachineHQ/BondMachine/pkg/simbox"

	"verif/harness/vlog"
)

// envSimTick, when set, is called before (pre = true) and after every tick of runEnvTimed.
var envSimTick func(vm *bondmachine.VM, pre bool)

// hdlPreClockHook, when set, is called before every clock of runEnvHdl.
var hdlPreClockHook func(*vlog.Sim)

// envSimDelays, when set, gives the simulator of runEnv / runEnvTimed per-opcode delays.
var envSimDelays *simbox.SimDelays

type envResult struct {
	Outs     [][]uint64 // values consumed on each external output, in order
	Consumed []int      // number of values the machine took from each external input
	Ticks    int
}

// runEnv simulates bm for at most maxTicks ticks (stopping early once every output has delivered
// `want` values, when want > 0). input(port, k) is the k-th (0-based) value offered on a port.
func runEnv(bm *bondmachine.Bondmachine, input func(port, k int) uint64, maxTicks, want int) (res envResult, err error) {
	return runEnvTimed(bm, input, maxTicks, want, 0, 0)
}

// runEnvTimed is runEnv with a slower environment: it keeps valid high for hold more ticks after it
// has seen received, and waits ackDelay ticks before it acknowledges an output (both legal).
func runEnvTimed(bm *bondmachine.Bondmachine, input func(port, k int) uint64, maxTicks, want, hold, ackDelay int) (res envResult, err error) {
	defer func() {
		if e := recover(); e != nil {
			err = fmt.Errorf("panic: %v", e)
		}
	}()
	vm, err := startVM(bm, envSimDelays)
	if err != nil {
		return res, err
	}
	defer vm.Stop()
	rsize := int(bm.Rsize)
	nin, nout := bm.Inputs, bm.Outputs
	res.Outs = make([][]uint64, nout)
	res.Consumed = make([]int, nin)
	inPhase := make([]int, nin) // 0: offering (valid high), 1: withdrawn, waiting for recv to fall, 2: idle (serial environment)
	inWait := make([]int, nin)
	outWait := make([]int, nout)
	gate := &serialGate{}
	offering := make([]bool, nin)
	for i := 0; i < nin; i++ {
		if envSerial && i != 0 {
			inPhase[i] = 2
			continue
		}
		vm.Inputs_regs[i] = regVal(rsize, input(i, 0))
		vm.InputsValid[i] = true
		offering[i] = true
	}
	for t := 0; t < maxTicks; t++ {
		if envSimTick != nil {
			envSimTick(vm, true)
		}
		if _, err := vm.Step(nil); err != nil {
			return res, fmt.Errorf("tick %d: %v", t, err)
		}
		if envSimTick != nil {
			envSimTick(vm, false)
		}
		res.Ticks = t + 1
		finished := -1
		for i := 0; i < nin; i++ {
			switch inPhase[i] {
			case 0:
				if vm.InputsRecv[i] {
					if inWait[i] < hold {
						inWait[i]++
						break
					}
					inWait[i] = 0
					vm.InputsValid[i] = false
					offering[i] = false
					res.Consumed[i]++
					inPhase[i] = 1
				}
			case 1:
				if !vm.InputsRecv[i] {
					inPhase[i] = 2
					finished = i
				}
			}
		}
		gate.tick(inPhase, offering, finished)
		for i := 0; i < nin; i++ {
			if inPhase[i] == 2 && gate.mayOffer(i, inPhase, offering) {
				vm.Inputs_regs[i] = regVal(rsize, input(i, res.Consumed[i]))
				vm.InputsValid[i] = true
				offering[i] = true
				inPhase[i] = 0
			}
		}
		done := want > 0
		for o := 0; o < nout; o++ {
			if vm.OutputsValid[o] && !vm.OutputsRecv[o] {
				if outWait[o] < ackDelayOf(o, ackDelay) {
					outWait[o]++
				} else {
					outWait[o] = 0
					res.Outs[o] = append(res.Outs[o], u64(vm.Outputs_regs[o]))
					vm.OutputsRecv[o] = true
				}
			} else if !vm.OutputsValid[o] && vm.OutputsRecv[o] {
				vm.OutputsRecv[o] = false
			}
			if len(res.Outs[o]) < want {
				done = false
			}
		}
		if done {
			break
		}
	}
	return res, nil
}

// envSerial: the environment offers its inputs one at a time.  Input `turn` is offered first; an offer
// that is not taken within serialPatience ticks stays up and the turn passes on, but while an accepted
// value's handshake is being completed (valid lowered, waiting for received to fall) nothing new is
// offered: a protocol-abiding environment may wait for that as long as it takes.
var envSerial bool

// envAckOddOnly: the acknowledge delay applies to the odd-numbered external outputs only (the even
// ones are acknowledged at once): consumers of one producer that are not in lock step.
var envAckOddOnly bool

func ackDelayOf(o, ackDelay int) int {
	if envAckOddOnly && o%2 == 0 {
		return 0
	}
	return ackDelay
}

const serialPatience = 40

// serialGate decides, for the serial environment, which inputs may start a new offer in this tick.
type serialGate struct {
	turn, waited int
}

func (g *serialGate) mayOffer(i int, phase []int, offering []bool) bool {
	if !envSerial {
		return true
	}
	for _, ph := range phase {
		if ph == 1 { // some handshake is being completed
			return false
		}
	}
	return i == g.turn
}

// tick advances the turn: past an input whose offer is up and untaken for too long, or whose handshake is over.
func (g *serialGate) tick(phase []int, offering []bool, finished int) {
	if !envSerial || len(phase) == 0 {
		return
	}
	if finished >= 0 && finished == g.turn {
		g.turn, g.waited = (g.turn+1)%len(phase), 0
		return
	}
	if offering[g.turn] {
		g.waited++
		if g.waited > serialPatience {
			g.turn, g.waited = (g.turn+1)%len(phase), 0
		}
	}
}

// hdlClockHook, when set, is called after every clock of runEnvHdl (used to record per-clock state).
var hdlClockHook func(*vlog.Sim)

// runEnvHdl is the same environment around the generated top-level Verilog of bm, executed clock by
// clock in the Verilog interpreter (ports iK / iK_valid / iK_received, oK / oK_valid / oK_received).
func runEnvHdl(sim *vlog.Sim, nin, nout int, input func(port, k int) uint64, maxClocks, want, hold, ackDelay int) (res envResult, err error) {
	res.Outs = make([][]uint64, nout)
	res.Consumed = make([]int, nin)
	for o := 0; o < nout; o++ {
		sim.Set(fmt.Sprintf("o%d_received", o), 0)
	}
	for i := 0; i < nin; i++ {
		sim.Set(fmt.Sprintf("i%d", i), 0)
		sim.Set(fmt.Sprintf("i%d_valid", i), 0)
	}
	sim.Set("reset", 1)
	if err := sim.Step("clk"); err != nil {
		return res, err
	}
	sim.Set("reset", 0)
	if err := powerUpZero(sim); err != nil {
		return res, err
	}
	get := func(n string) uint64 { v, _ := sim.Get(n); return v }
	inPhase := make([]int, nin)
	inWait := make([]int, nin)
	outWait := make([]int, nout)
	outRecv := make([]bool, nout)
	gate := &serialGate{}
	offering := make([]bool, nin)
	for i := 0; i < nin; i++ {
		if envSerial && i != 0 {
			inPhase[i] = 2
			continue
		}
		sim.Set(fmt.Sprintf("i%d", i), input(i, 0))
		sim.Set(fmt.Sprintf("i%d_valid", i), 1)
		offering[i] = true
	}
	for t := 0; t < maxClocks; t++ {
		if hdlPreClockHook != nil {
			hdlPreClockHook(sim)
		}
		if err := sim.Step("clk"); err != nil {
			return res, fmt.Errorf("clock %d: %v", t, err)
		}
		res.Ticks = t + 1
		if hdlClockHook != nil {
			hdlClockHook(sim)
		}
		finished := -1
		for i := 0; i < nin; i++ {
			recv := get(fmt.Sprintf("i%d_received", i)) == 1
			switch inPhase[i] {
			case 0:
				if recv {
					if inWait[i] < hold {
						inWait[i]++
						break
					}
					inWait[i] = 0
					sim.Set(fmt.Sprintf("i%d_valid", i), 0)
					offering[i] = false
					res.Consumed[i]++
					inPhase[i] = 1
				}
			case 1:
				if !recv {
					inPhase[i] = 2
					finished = i
				}
			}
		}
		gate.tick(inPhase, offering, finished)
		for i := 0; i < nin; i++ {
			if inPhase[i] == 2 && gate.mayOffer(i, inPhase, offering) {
				sim.Set(fmt.Sprintf("i%d", i), input(i, res.Consumed[i]))
				sim.Set(fmt.Sprintf("i%d_valid", i), 1)
				offering[i] = true
				inPhase[i] = 0
			}
		}
		done := want > 0
		for o := 0; o < nout; o++ {
			valid := get(fmt.Sprintf("o%d_valid", o)) == 1
			if valid && !outRecv[o] {
				if outWait[o] < ackDelayOf(o, ackDelay) {
					outWait[o]++
				} else {
					outWait[o] = 0
					v, known := sim.Get(fmt.Sprintf("o%d", o))
					if !known {
						v = 1<<63 + 0xbad
					}
					res.Outs[o] = append(res.Outs[o], v)
					outRecv[o] = true
					sim.Set(fmt.Sprintf("o%d_received", o), 1)
				}
			} else if !valid && outRecv[o] {
				outRecv[o] = false
				sim.Set(fmt.Sprintf("o%d_received", o), 0)
			}
			if len(res.Outs[o]) < want {
				done = false
			}
		}
		if done {
			break
		}
	}
	return res, nil
}
