package main

// A protocol-abiding environment around the real whole-machine simulator: it offers a stream of
// values on every external input with the four-phase valid/received handshake and consumes every
// external output the same way.  Used by the source-level checks (C05, C06) that compare the
// streams a machine produces with a reference.

import (
	"fmt"

	"github.com/BondMachineHQ/BondMachine/pkg/bondmachine"
)

type envResult struct {
	Outs     [][]uint64 // values consumed on each external output, in order
	Consumed []int      // number of values the machine took from each external input
	Ticks    int
}

// runEnv simulates bm for at most maxTicks ticks (stopping early once every output has delivered
// `want` values, when want > 0). input(port, k) is the k-th (0-based) value offered on a port.
func runEnv(bm *bondmachine.Bondmachine, input func(port, k int) uint64, maxTicks, want int) (res envResult, err error) {
	defer func() {
		if e := recover(); e != nil {
			err = fmt.Errorf("panic: %v", e)
		}
	}()
	vm, err := startVM(bm, nil)
	if err != nil {
		return res, err
	}
	defer vm.Stop()
	rsize := int(bm.Rsize)
	nin, nout := bm.Inputs, bm.Outputs
	res.Outs = make([][]uint64, nout)
	res.Consumed = make([]int, nin)
	inPhase := make([]int, nin) // 0: offering (valid high), 1: withdrawn, waiting for recv to fall
	for i := 0; i < nin; i++ {
		vm.Inputs_regs[i] = regVal(rsize, input(i, 0))
		vm.InputsValid[i] = true
	}
	for t := 0; t < maxTicks; t++ {
		if _, err := vm.Step(nil); err != nil {
			return res, fmt.Errorf("tick %d: %v", t, err)
		}
		res.Ticks = t + 1
		for i := 0; i < nin; i++ {
			switch inPhase[i] {
			case 0:
				if vm.InputsRecv[i] {
					vm.InputsValid[i] = false
					res.Consumed[i]++
					inPhase[i] = 1
				}
			case 1:
				if !vm.InputsRecv[i] {
					vm.Inputs_regs[i] = regVal(rsize, input(i, res.Consumed[i]))
					vm.InputsValid[i] = true
					inPhase[i] = 0
				}
			}
		}
		done := want > 0
		for o := 0; o < nout; o++ {
			if vm.OutputsValid[o] && !vm.OutputsRecv[o] {
				res.Outs[o] = append(res.Outs[o], u64(vm.Outputs_regs[o]))
				vm.OutputsRecv[o] = true
			} else if !vm.OutputsValid[o] && vm.OutputsRecv[o] {
				vm.OutputsRecv[o] = false
			}
			if len(res.Outs[o]) < want {
				done = false
			}
		}
		if done {
			break
		}
	}
	return res, nil
}
