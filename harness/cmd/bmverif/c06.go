package main

// C06 — mapping a fragment graph onto more or fewer processors keeps its result.
//
// FragGraph gives a graph of fragment instances its meaning (Eval, the dataflow value of every
// external output) without mentioning processors; Remap changes the mapping and leaves the result
// untouched (MappingIrrelevant, checked by TLC).  TLC -simulate builds graphs and walks through
// mappings; the harness prints each (graph, mapping) as .basm text with fragments, fidef,
// filinkatt and cpdef fragcollapse lines, assembles it with the real assembler, simulates the
// machine with the external inputs held at each input vector and compares the external outputs
// with the specification's result.

import (
	"fmt"
	"os"
	"path/filepath"
	"sort"
	"strconv"
	"strings"
	"time"

	"verif/harness/evid"
	"verif/harness/tlaval"
	"verif/harness/tlc"
)

func init() { register("C06", "model_checking", runC06) }

// the bodies of the fragment library of FragGraph (meaning: FragGraph!Sem)
const fragLibrary = `%fragment incf resin:r0 resout:r0
	inc r0
%endfragment
%fragment dblf resin:r0 resout:r1
	cpy r1,r0
	add r1,r0
%endfragment
%fragment addf resin:r0:r1 resout:r0
	add r0,r1
%endfragment
%fragment trif resin:r0 resout:r0
	cpy r2,r0
	add r0,r2
	add r0,r2
%endfragment
%fragment splf resin:r0 resout:r0:r1
	cpy r1,r0
	inc r1
%endfragment
%fragment swpf resin:r1 resout:r0
	cpy r0,r1
	dec r0
%endfragment
%fragment dczf resin:r0 resout:r0
	jz r0,skip
	dec r0
skip:
	nop
%endfragment
%fragment sbff resin:r1:r0 resout:r2:r0
	cpy r2,r1
	add r2,r0
%endfragment
%fragment sclf resin:r0 resout:r0
	clr r2
	inc r2
	add r0,r2
%endfragment
%fragment gapf resin:r0 resout:r0
	cpy r3,r0
	add r0,r3
%endfragment
`

type fragSrc struct {
	Ext  bool
	I, P int
}

type fragInst struct {
	F   string
	Src []fragSrc
}

type fragGraph struct {
	RSize  int
	Inst   []fragInst
	Outs   []fragSrc
	Result [][]uint64 // per input vector, per external output
}

type fragMapping struct {
	Group []int // group of each instance (1-based, canonical)
	Perm  []int // name of each group
}

func parseSrc(v tlaval.Value) fragSrc {
	rec := tlaval.AsRec(v)
	return fragSrc{Ext: tlaval.Str(rec["k"]) == "ext", I: int(tlaval.Int(rec["i"])), P: int(tlaval.Int(rec["p"]))}
}

func ints(v tlaval.Value) (out []int) {
	for _, x := range tlaval.AsSeq(v) {
		out = append(out, int(tlaval.Int(x)))
	}
	return
}

// fragText prints a graph under a mapping as .basm source.
func fragText(g fragGraph, m fragMapping) string {
	var sb strings.Builder
	fmt.Fprintf(&sb, "%%meta bmdef global registersize:%d\n", g.RSize)
	sb.WriteString(fragLibrary)
	for i, in := range g.Inst {
		fmt.Fprintf(&sb, "%%meta fidef n%d fragment:%s\n", i+1, in.F)
	}
	link := 0
	src := func(s fragSrc) string {
		if s.Ext {
			return fmt.Sprintf("fi:ext, type:input, index:%d", s.I)
		}
		return fmt.Sprintf("fi:n%d, type:output, index:%d", s.I, s.P)
	}
	for i, in := range g.Inst {
		for j, s := range in.Src {
			fmt.Fprintf(&sb, "%%meta filinkatt l%d %s\n%%meta filinkatt l%d fi:n%d, type:input, index:%d\n", link, src(s), link, i+1, j)
			link++
		}
	}
	for o, s := range g.Outs {
		fmt.Fprintf(&sb, "%%meta filinkatt l%d %s\n%%meta filinkatt l%d fi:ext, type:output, index:%d\n", link, src(s), link, o)
		link++
	}
	groups := map[int][]string{}
	var order []int
	for i, gidx := range m.Group {
		if _, ok := groups[gidx]; !ok {
			order = append(order, gidx)
		}
		groups[gidx] = append(groups[gidx], "n"+strconv.Itoa(i+1))
	}
	for _, gidx := range order {
		fmt.Fprintf(&sb, "%%meta cpdef p%d fragcollapse:%s\n", m.Perm[gidx-1], strings.Join(groups[gidx], ":"))
	}
	return sb.String()
}

// fragRun simulates the assembled machine with the external inputs held at vec until the external
// outputs have been stable for a while, and returns them.
func fragRun(src string, rsize int, vec []uint64) (outs []uint64, err error) {
	defer func() {
		if e := recover(); e != nil {
			err = fmt.Errorf("panic: %v", e)
		}
	}()
	bm, err := assembleForC05(src)
	if err != nil {
		return nil, fmt.Errorf("assembler: %v", err)
	}
	vm, err := startVM(bm, nil)
	if err != nil {
		return nil, fmt.Errorf("simulator: %v", err)
	}
	defer vm.Stop()
	for i := range vm.Inputs_regs {
		if i < len(vec) {
			vm.Inputs_regs[i] = regVal(rsize, vec[i])
			vm.InputsValid[i] = true
		}
	}
	// settled: the outputs have not changed for several complete passes of the longest program (a value
	// crosses from one processor to another once per pass, and a graph of n instances needs up to n crossings)
	longest, ninst := 1, strings.Count(src, "%meta fidef ")
	for _, d := range bm.Domains {
		if n := len(d.Program.Slocs); n > longest {
			longest = n
		}
	}
	window := 4*longest + 150
	last, stable := "", 0
	for t := 0; t < window*(ninst+8) && stable < window; t++ {
		if _, err := vm.Step(nil); err != nil {
			return nil, fmt.Errorf("simulator tick %d: %v", t, err)
		}
		cur := fmt.Sprint(vm.Outputs_regs)
		if cur == last {
			stable++
		} else {
			last, stable = cur, 0
		}
	}
	for _, v := range vm.Outputs_regs {
		outs = append(outs, u64(v))
	}
	return outs, nil
}

type fragItem struct {
	g fragGraph
	m []fragMapping
}

func fragVectors(rsize int) [][]uint64 {
	mod := uint64(1) << uint(rsize)
	return [][]uint64{{5, 7}, {0, mod - 1}, {mod - 56, 100}}
}

// genFragGraphs runs TLC -simulate on FragGraph and returns the graphs with the mappings visited.
func genFragGraphs(r *evid.Run, scratch string, rsize, ninst, nout, nremap, n int, seed int64) (items []fragItem, transitions int64, ok bool) {
	return genFragGraphsOf(r, scratch, nil, false, rsize, ninst, nout, nremap, n, seed)
}

// genFragGraphsOf draws the graphs from a subset of the fragment library (nil: all of it).
func genFragGraphsOf(r *evid.Run, scratch string, frags []string, forkJoin bool, rsize, ninst, nout, nremap, n int, seed int64) (items []fragItem, transitions int64, ok bool) {
	big := ninst > 6
	if frags == nil {
		frags = []string{"incf", "dblf", "addf", "trif", "splf", "swpf", "dczf", "sbff", "sclf", "gapf"}
	}
	dir := filepath.Join(scratch, fmt.Sprintf("g_%d_%d_%d_%d_%v", rsize, ninst, nout, len(frags), forkJoin))
	os.MkdirAll(dir, 0o755)
	cfg := fmt.Sprintf("SPECIFICATION Spec\nCONSTANTS\n RSize = %d\n NInst = %d\n NExtOut = %d\n NRemap = %d\n BigGraph = %s\n ForkJoin = %s\n FragSet = {\"%s\"}\nINVARIANT TypeOK\nPROPERTY MappingIrrelevant\nCHECK_DEADLOCK FALSE\n", rsize, ninst, nout, nremap, strings.ToUpper(fmt.Sprint(big)), strings.ToUpper(fmt.Sprint(forkJoin)), strings.Join(frags, "\", \""))
	res, err := tlc.Run(tlc.Options{SpecDir: specDir, Module: "FragGraph", CfgText: cfg, Workers: 1, Timeout: 20 * time.Minute,
		Args: []string{"-simulate", fmt.Sprintf("file=%s/b,num=%d", dir, n), "-depth", strconv.Itoa(ninst + nout + nremap + 3), "-seed", strconv.FormatInt(seed, 10)}})
	if err != nil {
		r.Inconclusive("tlc simulate: %v", err)
		return nil, 0, false
	}
	if res.Violation != "" {
		r.Inconclusive("TLC rejects FragGraph: %s %s", res.Violation, res.ViolationName)
		return nil, 0, false
	}
	files, _ := filepath.Glob(filepath.Join(dir, "b_*"))
	sort.Strings(files)
	for _, f := range files {
		beh, err := tlc.ParseSimFile(f)
		if err != nil || len(beh) == 0 {
			r.Inconclusive("parse %s: %v", f, err)
			return nil, 0, false
		}
		last := beh[len(beh)-1].Vars
		if tlaval.Str(last["phase"]) != "mapped" {
			continue
		}
		it := fragItem{g: fragGraph{RSize: rsize}}
		for _, iv := range tlaval.AsSeq(last["inst"]) {
			rec := tlaval.AsRec(iv)
			in := fragInst{F: tlaval.Str(rec["f"])}
			for _, s := range tlaval.AsSeq(rec["src"]) {
				in.Src = append(in.Src, parseSrc(s))
			}
			it.g.Inst = append(it.g.Inst, in)
		}
		for _, s := range tlaval.AsSeq(last["outs"]) {
			it.g.Outs = append(it.g.Outs, parseSrc(s))
		}
		for _, rv := range tlaval.AsSeq(last["result"]) {
			var row []uint64
			for _, x := range tlaval.AsSeq(rv) {
				row = append(row, uint64(tlaval.Int(x)))
			}
			it.g.Result = append(it.g.Result, row)
		}
		seen := map[string]bool{}
		for _, st := range beh {
			if tlaval.Str(st.Vars["phase"]) != "mapped" {
				continue
			}
			m := fragMapping{Group: ints(st.Vars["group"]), Perm: ints(st.Vars["perm"])}
			key := fmt.Sprint(m)
			if !seen[key] {
				seen[key] = true
				it.m = append(it.m, m)
			}
		}
		items = append(items, it)
		transitions += int64(len(beh))
	}
	os.RemoveAll(dir)
	return items, transitions, true
}

func runC06(r *evid.Run) {
	scratch, err := os.MkdirTemp("", "bmverif-c06-")
	if err != nil {
		r.Inconclusive("mktemp: %v", err)
		return
	}
	defer os.RemoveAll(scratch)
	var items []fragItem
	var transitions int64
	vectors := fragVectors
	gen := func(rsize, ninst, nout, nremap, n int, seed int64) bool {
		its, tr, ok := genFragGraphs(r, scratch, rsize, ninst, nout, nremap, n, seed)
		items = append(items, its...)
		transitions += tr
		return ok
	}
	if !gen(8, 3, 2, 4, r.Pick(40, 300), r.Seed*5+1) || !gen(16, 4, 2, 5, r.Pick(25, 250), r.Seed*5+2) || !gen(8, 5, 3, 6, r.Pick(10, 150), r.Seed*5+3) ||
		!gen(16, 26, 2, 4, r.Pick(16, 150), r.Seed*5+4) {
		return
	}
	// graphs over sub-libraries whose register names leave a hole (r0, r1, r3) or overlap in one scratch register
	// (fork-join graphs: a result stays live while another fragment of the same processor runs)
	for i, sub := range [][]string{{"addf", "gapf", "incf"}, {"addf", "gapf", "incf", "dblf", "swpf"}, {"addf", "sclf", "trif", "sbff", "dczf"}} {
		its, tr, ok := genFragGraphsOf(r, scratch, sub, true, 16, 4, 1, 5, r.Pick(24, 200), r.Seed*5+10+int64(i))
		if !ok {
			return
		}
		items = append(items, its...)
		transitions += tr
	}
	r.Set("states", int64(len(items)))
	r.Set("transitions", transitions)
	var mappings, runs, agree, maxPorts int64
	for _, it := range items {
		used := map[[2]int]bool{}
		for _, in := range it.g.Inst {
			for _, s := range in.Src {
				if !s.Ext {
					used[[2]int{s.I, s.P}] = true
				}
			}
		}
		if int64(len(used)) > maxPorts {
			maxPorts = int64(len(used))
		}
		for _, m := range it.m {
			mappings++
			src := fragText(it.g, m)
			class := fragClass(it.g, m)
			for k, vec := range vectors(it.g.RSize) {
				ctx := map[string]interface{}{"source": src, "inputs": vec, "direct_evaluation": it.g.Result[k], "mapping": m}
				got, err := fragRun(src, it.g.RSize, vec)
				runs++
				if err != nil {
					r.Violate("error:"+class, fmt.Sprintf("a fragment graph under a mapping (%s) is rejected or cannot be simulated: %v", class, err), ctx)
					break
				}
				ctx["outputs"] = got
				if fmt.Sprint(got) != fmt.Sprint(it.g.Result[k]) {
					r.Violate("wrong-result:"+class, fmt.Sprintf("inputs %v: the mapped graph (%s) outputs %v, direct evaluation of the graph gives %v", vec, class, got, it.g.Result[k]), ctx)
					break
				}
				agree++
			}
			r.Distinct(src)
			if mappings%41 == 1 {
				r.Sample(map[string]interface{}{"source": src, "result": it.g.Result})
			}
		}
	}
	r.Set("graphs", int64(len(items)))
	r.Set("max_output_ports_with_internal_consumers", maxPorts)
	r.Set("mappings", mappings)
	r.Set("simulations", runs)
	r.Set("simulations_agreeing", agree)
	r.Set("evaluations", mappings)
}

// fragClass describes the shape of a mapping (for telling findings apart).
func fragClass(g fragGraph, m fragMapping) string {
	ng := 0
	for _, x := range m.Group {
		if x > ng {
			ng = x
		}
	}
	switch {
	case ng == 1:
		return "all-on-one-processor"
	case ng == len(g.Inst):
		return "one-processor-each"
	}
	return "partial-collapse"
}
