package main

// C07 — every build step is a function of its inputs.
//
// BuildFn is the design-level model (a pass that appends while walking a collection in hash-map
// order is not a function; TLC shows which combinations are).  BuildFnTrace validates the real
// tools: every tool (basm, bondgo, neuralbond, bmqsim, Verilog generation) is run several times on
// each input of the specifications' catalogues, every run in a fresh process with a different
// GOMAXPROCS, each run is logged as [tool, input, env, digest of every artefact written] and TLC
// rejects a run whose digest differs from an earlier run of the same tool on the same input.

import (
	"crypto/sha1"
	"encoding/hex"
	"encoding/json"
	"fmt"
	"github.com/BondMachineHQ/BondMachine/pkg/bmcluster"
	"github.com/BondMachineHQ/BondMachine/pkg/etherbond"
	"os"
	"path/filepath"
	"regexp"
	"sort"
	"strconv"
	"strings"
	"sync"
	"time"

	"github.com/BondMachineHQ/BondMachine/pkg/bondmachine"

	"verif/harness/bmgen"
	"verif/harness/evid"
	"verif/harness/tlc"
)

func init() { register("C07", "model_checking", runC07) }

type buildJob struct {
	tool  string
	input string // identifier of the input within the run
	desc  string // human-readable description (source text or a summary)
	files map[string]string
	run   func(dir string, env []string) (map[string][]byte, error) // artefacts by name
	runs  int
}

type buildEvent struct {
	Tool   string `json:"tool"`
	Input  string `json:"input"`
	Env    string `json:"env"`
	Digest string `json:"digest"`
}

func digestArtefacts(a map[string][]byte) string {
	names := make([]string, 0, len(a))
	for n := range a {
		names = append(names, n)
	}
	sort.Strings(names)
	h := sha1.New()
	for _, n := range names {
		fmt.Fprintf(h, "%s:%d:", n, len(a[n]))
		h.Write(a[n])
	}
	return hex.EncodeToString(h.Sum(nil)[:10])
}

// firstDifference names the first artefact and line in which two runs differ.
func firstDifference(a, b map[string][]byte) string {
	names := map[string]bool{}
	for n := range a {
		names[n] = true
	}
	for n := range b {
		names[n] = true
	}
	var sorted []string
	for n := range names {
		sorted = append(sorted, n)
	}
	sort.Strings(sorted)
	for _, n := range sorted {
		x, okx := a[n]
		y, oky := b[n]
		if okx != oky {
			return n + ": written by one run only"
		}
		if string(x) == string(y) {
			continue
		}
		lx, ly := strings.Split(string(x), "\n"), strings.Split(string(y), "\n")
		for i := 0; i < len(lx) && i < len(ly); i++ {
			if lx[i] != ly[i] {
				return fmt.Sprintf("%s line %d: %q vs %q", n, i+1, tailStr(lx[i], 160), tailStr(ly[i], 160))
			}
		}
		return fmt.Sprintf("%s: %d vs %d lines", n, len(lx), len(ly))
	}
	return ""
}

// c07Child: `bmverif C07-child verilog <machine.json> <out>` renders the Verilog file set of a
// machine in this (fresh) process.
func c07Child(mode, in, out string) int {
	b, err := os.ReadFile(in)
	if err != nil {
		fmt.Fprintln(os.Stderr, err)
		return 2
	}
	bm, err := loadMachine(b)
	if err != nil {
		fmt.Fprintln(os.Stderr, err)
		return 2
	}
	var sb strings.Builder
	for _, flavor := range []string{"iverilog", "basys3"} {
		files, order, err := bmgen.VerilogFiles(bm, new(bondmachine.Config), flavor)
		if err != nil {
			fmt.Fprintln(os.Stderr, err)
			return 2
		}
		for _, n := range order {
			sb.WriteString("// ==== " + flavor + "/" + n + "\n" + files[n])
		}
	}
	// board-level top levels (Write_verilog_board): the I/O of the machine resolved in several ways
	board := func(name string, f func() string) {
		defer func() {
			if e := recover(); e != nil {
				sb.WriteString("// ==== " + name + "\n// generator panic: " + fmt.Sprint(e) + "\n")
			}
		}()
		sb.WriteString("// ==== " + name + "\n" + f())
	}
	ioAssoc := func(pins bool) map[string]string {
		m := map[string]string{"clk": "clk", "reset": "btnC"}
		if pins {
			for i := 0; i < bm.Inputs; i++ {
				m["i"+strconv.Itoa(i)] = fmt.Sprintf("[%d:%d] sw", 8*i+7, 8*i)
			}
			for i := 1; i < bm.Outputs; i++ {
				m["o"+strconv.Itoa(i)] = fmt.Sprintf("[%d:%d] led", 8*i+7, 8*i)
			}
		}
		return m
	}
	board("board basys3: inputs on pins, output 0 on the 7-segment module, the others on pins", func() string {
		var mods []bondmachine.ExtraModule
		if bm.Outputs > 0 {
			mods = append(mods, &bondmachine.B37s{Mapped_output: "o0"})
		}
		return bm.Write_verilog_board(new(bondmachine.Config), "bondmachine", "basys3", &bondmachine.IOmap{Assoc: ioAssoc(true)}, mods)
	})
	for _, flavor := range []string{"aximm", "axist"} {
		flavor := flavor
		board("board zedboard: every input and output through BMAPI "+flavor, func() string {
			api := map[string]string{}
			for i := 0; i < bm.Inputs; i++ {
				api["i"+strconv.Itoa(i)] = strconv.Itoa(i)
			}
			for i := 0; i < bm.Outputs; i++ {
				api["o"+strconv.Itoa(i)] = strconv.Itoa(i)
			}
			ex := &bondmachine.BMAPIExtra{Maps: &bondmachine.IOmap{Assoc: api}, Rsize: uint8(bm.Rsize), Language: "c", Flavor: flavor, DataType: "float32"}
			return bm.Write_verilog_board(new(bondmachine.Config), "bondmachine", "zedboard", &bondmachine.IOmap{Assoc: ioAssoc(false)}, []bondmachine.ExtraModule{ex})
		})
	}
	// every input and output of the machine carried by an etherbond peer (the parameters of the extra
	// module, its Verilog and the top level that instantiates it)
	board("board basys3: every input and output on an etherbond peer", func() string {
		assoc := map[string]string{}
		peerA := bmcluster.Peer{PeerId: 1, PeerName: "a"}
		peerB := bmcluster.Peer{PeerId: 2, PeerName: "b"}
		for i := 0; i < bm.Inputs; i++ {
			assoc["i"+strconv.Itoa(i)] = strconv.Itoa(20 + i)
			peerA.Inputs = append(peerA.Inputs, uint32(20+i))
			peerB.Outputs = append(peerB.Outputs, uint32(20+i))
		}
		for i := 0; i < bm.Outputs; i++ {
			assoc["o"+strconv.Itoa(i)] = strconv.Itoa(10 + i)
			peerA.Outputs = append(peerA.Outputs, uint32(10+i))
			peerB.Inputs = append(peerB.Inputs, uint32(10+i))
		}
		ethb := &bondmachine.Etherbond_extra{Config: &etherbond.Config{Rsize: uint8(bm.Rsize)}, Flavor: "enc60j28",
			Cluster: &bmcluster.Cluster{ClusterId: 1, Peers: []bmcluster.Peer{peerA, peerB}}, Macs: new(etherbond.Macs),
			Maps: &bondmachine.IOmap{Assoc: assoc}, PeerID: 1, Mac: "028800000001"}
		mods := []bondmachine.ExtraModule{ethb}
		p := ethb.Get_Params().Params
		text := "// parameters: outputs=" + p["outputs"] + " output_ids=" + p["output_ids"] + " destinations=" + p["destinations"] + " inputs=" + p["inputs"] + " input_ids=" + p["input_ids"] + "\n"
		ev, err := bm.Write_verilog_etherbond("etherbond", "basys3", &bondmachine.IOmap{Assoc: ioAssoc(false)}, mods)
		if err != nil {
			return text + "// etherbond module: " + err.Error() + "\n"
		}
		return text + ev + bm.Write_verilog_board(new(bondmachine.Config), "bondmachine", "basys3", &bondmachine.IOmap{Assoc: ioAssoc(false)}, mods)
	})
	if err := os.WriteFile(out, []byte(sb.String()), 0o644); err != nil {
		return 2
	}
	return 0
}

const c07Handwritten1 = `%meta bmdef global registersize:8
%fragment incr
	inc r0
	inc r0
%endfragment
%section prog1 .romtext iomode:async
	entry _start
_start:
	i2r r0, i0
	call4s incr
	r2o r0, o0
	j _start
%endsection
%section prog2 .romtext iomode:async
	entry _start
_start:
	i2r r0, i0
	dec r0
	r2o r0, o0
	j _start
%endsection
%section prog3 .romtext iomode:async
	entry _start
_start:
	i2r r0, i0
	call4s incr
	call4s incr
	r2o r0, o0
	j _start
%endsection
%meta cpdef cpa romcode:prog1
%meta cpdef cpb romcode:prog2
%meta cpdef cpc romcode:prog3
%meta ioatt in0 cp:bm, type:input, index:0
%meta ioatt in0 cp:cpa, type:input, index:0
%meta ioatt mid cp:cpa, type:output, index:0
%meta ioatt mid cp:cpb, type:input, index:0
%meta ioatt mid2 cp:cpb, type:output, index:0
%meta ioatt mid2 cp:cpc, type:input, index:0
%meta ioatt out0 cp:cpc, type:output, index:0
%meta ioatt out0 cp:bm, type:output, index:0
`

const c07Handwritten2 = `%meta bmdef global registersize:8
%section prog1 .romtext iomode:async
	entry _start
_start:
	i2r r0, i0
	rset r1, 0x3
	multfps8f4 r0, r1
	addfps8f4 r0, r1
	divfps8f4 r0, r1
	r2o r0, o0
	j _start
%endsection
%section prog2 .romtext iomode:async
	entry _start
_start:
	i2r r0, i0
	rset r1, 0u100
	divfps8f4 r0, r1
	addfps8f4 r0, r1
	multfps8f4 r0, r1
	r2o r0, o0
	j _start
%endsection
%section prog3 .romtext iomode:async
	entry _start
_start:
	i2r r0, i0
	rset r1, 0d10
	addfps8f4 r0, r1
	r2o r0, o0
	j _start
%endsection
%meta cpdef cpa romcode:prog1
%meta cpdef cpb romcode:prog2
%meta cpdef cpc romcode:prog3
%meta ioatt in0 cp:bm, type:input, index:0
%meta ioatt in0 cp:cpa, type:input, index:0
%meta ioatt mid cp:cpa, type:output, index:0
%meta ioatt mid cp:cpb, type:input, index:0
%meta ioatt mid2 cp:cpb, type:output, index:0
%meta ioatt mid2 cp:cpc, type:input, index:0
%meta ioatt out0 cp:cpc, type:output, index:0
%meta ioatt out0 cp:bm, type:output, index:0
`

// c07Handwritten3: a literal load whose code alternatives (rsets5/6/7) all have the width of the widest
// instruction, next to explicit uses of two of them in different sections: which alternative is taken
// must not depend on the order in which the sections are visited.
const c07Handwritten3 = `%meta bmdef global registersize:8
%section proga .romtext iomode:async
	entry _start
_start:
	mov r0, 5
	rsets7 r1, 100
loop:
	i2r r2, i0
	add r0, r2
	r2o r0, o0
	j loop
%endsection
%section progb .romtext iomode:async
	entry _start
_start:
	rsets6 r0, 2
loop:
	i2r r1, i0
	add r0, r1
	r2o r0, o0
	j loop
%endsection
%meta cpdef cpa romcode:proga, execmode:ha
%meta cpdef cpb romcode:progb, execmode:ha
%meta iodef in0 type:io
%meta iodef mid type:io
%meta iodef out0 type:io
%meta ioatt in0 cp:bm, type:input, index:0
%meta ioatt in0 cp:cpa, type:input, index:0
%meta ioatt mid cp:cpa, type:output, index:0
%meta ioatt mid cp:cpb, type:input, index:0
%meta ioatt out0 cp:cpb, type:output, index:0
%meta ioatt out0 cp:bm, type:output, index:0
`

// c07SizedFloats: float literals with and without an explicit width, next to a hexadecimal literal that
// begins like one (which importer takes a literal must not depend on the order of a map of matchers).
const c07SizedFloats = `%meta bmdef global registersize:32
%section code .romtext iomode:async
	entry _start
_start:
	rset r1, 0f<16>1.5
	rset r2, 0f<32>2.5
	rset r3, 0f1.25
	rset r0, 0x0f
	r2o r1, o0
	j _start
%endsection
%meta cpdef cpu romcode: code, execmode: ha
%meta ioatt out0 cp: cpu, index:0, type:output
%meta ioatt out0 cp: bm, index:0, type:output
`

// c07GoTwoChannels: a goroutine started with two channel arguments (what the new processor is attached
// to, and in which order, must not depend on the order of a map of arguments).
const c07GoTwoChannels = `package main

import (
	"bondgo"
)

func worker(a chan uint8, b chan uint8) {
	var x uint8
	var y uint8
	for {
		x = <-a
		y = <-b
		x = x + y
	}
}

func main() {
	var in0 bondgo.Input
	var out0 bondgo.Output
	var v uint8
	var a chan uint8
	var b chan uint8
	in0 = bondgo.Make(bondgo.Input, 3)
	out0 = bondgo.Make(bondgo.Output, 5)
	go worker(a, b)
	for {
		v = bondgo.IORead(in0)
		a <- v
		b <- v
		bondgo.IOWrite(out0, v)
	}
}
`

// c07GoTwoValues: the same with two arguments passed by value.
const c07GoTwoValues = `package main

import (
	"bondgo"
)

func worker(a uint8, b uint8) {
	var out1 bondgo.Output
	out1 = bondgo.Make(bondgo.Output, 7)
	for {
		a = a + b
		bondgo.IOWrite(out1, a)
	}
}

func main() {
	var in0 bondgo.Input
	var out0 bondgo.Output
	var v uint8
	var w uint8
	in0 = bondgo.Make(bondgo.Input, 3)
	out0 = bondgo.Make(bondgo.Output, 5)
	v = 3
	w = 5
	go worker(v, w)
	for {
		v = bondgo.IORead(in0)
		bondgo.IOWrite(out0, v)
	}
}
`

// callSections is a source of two or three code sections (three when mask >= 4); section k calls a
// fragment when bit k of mask is set (bit 2 makes the third section exist and call).
func callSections(mask int) string {
	n := 2
	if mask >= 4 {
		n = 3
	}
	var sb strings.Builder
	sb.WriteString("%meta bmdef global registersize:8\n%fragment incr\n\tinc r0\n\tinc r0\n%endfragment\n")
	for k := 0; k < n; k++ {
		fmt.Fprintf(&sb, "%%section prog%d .romtext iomode:async\n\tentry _start\n_start:\n\ti2r r0, i0\n", k)
		if mask&(1<<uint(k)) != 0 {
			sb.WriteString("\tcall4s incr\n")
		} else {
			sb.WriteString("\tdec r0\n")
		}
		sb.WriteString("\tr2o r0, o0\n\tj _start\n%endsection\n")
	}
	for k := 0; k < n; k++ {
		fmt.Fprintf(&sb, "%%meta cpdef cp%d romcode:prog%d\n", k, k)
	}
	sb.WriteString("%meta ioatt in0 cp:bm, type:input, index:0\n%meta ioatt in0 cp:cp0, type:input, index:0\n")
	for k := 0; k+1 < n; k++ {
		fmt.Fprintf(&sb, "%%meta ioatt mid%d cp:cp%d, type:output, index:0\n%%meta ioatt mid%d cp:cp%d, type:input, index:0\n", k, k, k, k+1)
	}
	fmt.Fprintf(&sb, "%%meta ioatt out0 cp:cp%d, type:output, index:0\n%%meta ioatt out0 cp:bm, type:output, index:0\n", n-1)
	return sb.String()
}

func goWorkers(n int) string {
	var sb strings.Builder
	sb.WriteString("package main\n\nimport (\n\t\"bondgo\"\n)\n\n")
	for w := 1; w <= n; w++ {
		fmt.Fprintf(&sb, "func worker%d() {\n\tvar in1 bondgo.Input\n\tvar out1 bondgo.Output\n\tin1 = bondgo.Make(bondgo.Input, %d)\n\tout1 = bondgo.Make(bondgo.Output, %d)\n\tfor {\n\t\tbondgo.IOWrite(out1, bondgo.IORead(in1))\n\t}\n}\n\n", w, 10+w, 20+w)
	}
	sb.WriteString("func main() {\n\tvar in0 bondgo.Input\n\tvar out0 bondgo.Output\n\tin0 = bondgo.Make(bondgo.Input, 3)\n\tout0 = bondgo.Make(bondgo.Output, 4)\n")
	for w := 1; w <= n; w++ {
		fmt.Fprintf(&sb, "\tgo worker%d()\n", w)
	}
	sb.WriteString("\tfor {\n\t\tbondgo.IOWrite(out0, bondgo.IORead(in0))\n\t}\n}\n")
	return sb.String()
}

func runC07(r *evid.Run) {
	scratch, err := os.MkdirTemp("", "bmverif-c07-")
	if err != nil {
		r.Inconclusive("mktemp: %v", err)
		return
	}
	defer os.RemoveAll(scratch)
	var states, transitions int64

	// ---- design level -----------------------------------------------------------------------------------------
	for _, c := range []struct {
		ordered, appends, functional bool
	}{{true, true, true}, {true, false, true}, {false, false, true}, {false, true, false}} {
		cfg := fmt.Sprintf("SPECIFICATION Spec\nCONSTANTS\n Keys = {1, 2, 3, 4}\n Ordered = %s\n Appends = %s\nINVARIANT Functional\nCHECK_DEADLOCK FALSE\n",
			strings.ToUpper(fmt.Sprint(c.ordered)), strings.ToUpper(fmt.Sprint(c.appends)))
		res, err := tlc.Run(tlc.Options{SpecDir: specDir, Module: "BuildFn", CfgText: cfg, Workers: 2, Timeout: 5 * time.Minute})
		if err != nil {
			r.Inconclusive("tlc BuildFn: %v", err)
			return
		}
		states += res.Distinct
		transitions += res.Generated
		if res.OK() != c.functional {
			r.Inconclusive("BuildFn: ordered=%v appends=%v expected functional=%v, TLC says %v", c.ordered, c.appends, c.functional, res.OK())
			return
		}
	}

	// ---- the inputs ---------------------------------------------------------------------------------------------
	var jobs []buildJob
	nRuns := r.Pick(8, 40)
	basmRuns := nRuns
	basmJob := func(id, src string, extra ...string) {
		jobs = append(jobs, buildJob{tool: "basm", input: id, desc: src, runs: basmRuns, run: func(dir string, env []string) (map[string][]byte, error) {
			os.WriteFile(filepath.Join(dir, "in.basm"), []byte(src), 0o644)
			mj, err := basmCLI(scratch, dir, env, append([]string{"in.basm"}, extra...)...)
			if err != nil {
				return map[string][]byte{"error": []byte(firstLine(err.Error()))}, nil
			}
			res := map[string][]byte{"bm.json": mj}
			if req, err := os.ReadFile(filepath.Join(dir, "requirements.json")); err == nil {
				res["requirements.json"] = req
			}
			return res, nil
		}})
	}
	// BasmSem programs: two processors, every literal notation, macros
	progs, tr, ok := genBasmPrograms(r, scratch, 16, 8, 2, 2, false, true, true, r.Pick(10, 60), r.Seed*23+1)
	if !ok {
		return
	}
	transitions += tr
	for i, p := range progs {
		if src, _, wired := basmText(p); wired {
			basmJob(fmt.Sprintf("BasmSem-%d", i), src)
		}
	}
	items, tr, ok := genFragGraphs(r, scratch, 16, 5, 3, 5, r.Pick(5, 30), r.Seed*23+2)
	if !ok {
		return
	}
	transitions += tr
	for i, it := range items {
		for k, m := range it.m {
			if k%2 == 1 {
				basmJob(fmt.Sprintf("FragGraph-%d-%d", i, k), fragText(it.g, m))
			}
		}
	}
	rowPath := filepath.Join(scratch, "rows.ndjson")
	if sres, err := tlc.Run(tlc.Options{SpecDir: specDir, Module: "BasmShapes", Cfg: "BasmShapes.cfg", Workers: 2, Timeout: 10 * time.Minute, Env: map[string]string{"ROWS": rowPath}}); err != nil || !sres.OK() {
		r.Inconclusive("tlc BasmShapes: %v", err)
		return
	}
	k := 0
	readNDJSON(rowPath, func(b []byte) error {
		var s shapeRow
		if json.Unmarshal(b, &s) != nil {
			return nil
		}
		k++
		if s.Kind == "hybrid" && s.What == "rom0" {
			src, _ := shapeText(s)
			basmRuns = r.Pick(32, 120)
			basmJob(fmt.Sprintf("shape-%d-hybrid-rom0", k), src)
			basmRuns = nRuns
			return nil
		}
		if (s.Kind == "hybrid" && len(s.Ram) >= 3) || (s.Kind == "romdata" && s.NData == 5 && s.NCode == 7) || (r.Thorough() && k%5 == 0) {
			src, _ := shapeText(s)
			basmJob(fmt.Sprintf("shape-%d", k), src)
		}
		return nil
	})
	// hand-written sources with the features the grammars lack: fragment calls from some sections and
	// not from others, dynamically created opcodes met in different orders by different sections.
	// They are cheap and their failure modes are order-of-visit dependent: many runs each.
	basmRuns = r.Pick(32, 120)
	basmJob("fragment-calls-in-three-sections", c07Handwritten1)
	basmJob("dynamic-opcodes-in-three-orders", c07Handwritten2)
	basmRuns = r.Pick(48, 120)
	basmJob("literal-load-with-tied-alternatives", c07Handwritten3)
	basmJob("sized-float-literals", c07SizedFloats)
	basmJob("sized-float-literals-16-bit-registers", strings.Replace(strings.Replace(c07SizedFloats, "registersize:32", "registersize:16", 1), "\trset r2, 0f<32>2.5\n\trset r3, 0f1.25\n", "", 1))
	basmRuns = nRuns
	for mask := 1; mask < 8; mask++ {
		basmJob(fmt.Sprintf("fragment-calls-mask-%d", mask), callSections(mask))
	}
	basmRuns = nRuns

	// bondgo
	bondgoBin, err := buildTool(scratch, "bondgo")
	if err != nil {
		r.Inconclusive("%v", err)
		return
	}
	bondgoJob := func(id, src string, rsize, runs int) {
		jobs = append(jobs, buildJob{tool: "bondgo", input: id, desc: src, runs: runs, run: func(dir string, env []string) (map[string][]byte, error) {
			os.WriteFile(filepath.Join(dir, "p.go"), []byte(src), 0o644)
			out, err := runTool(dir, env, 30*time.Second, bondgoBin, "-input-file", "p.go", "-register-size", strconv.Itoa(rsize), "-save-assembly", "out.asm", "-save-bondmachine", "bm.json", "-mpm")
			if err != nil {
				return map[string][]byte{"error": []byte(firstLine(out))}, nil
			}
			res := map[string][]byte{}
			files, _ := filepath.Glob(filepath.Join(dir, "out.asm*"))
			for _, f := range append(files, filepath.Join(dir, "bm.json")) {
				if b, err := os.ReadFile(f); err == nil {
					res[filepath.Base(f)] = b
				}
			}
			return res, nil
		}})
	}
	gdir := filepath.Join(scratch, "gs")
	os.MkdirAll(gdir, 0o755)
	gcfg := "SPECIFICATION Spec\nCONSTANTS\n RSize = 8\n MaxLen = 7\n WithIf = TRUE\n NoAssign = FALSE\n Repeat = 1\n WithCalls = FALSE\nINVARIANT TypeOK\nCHECK_DEADLOCK FALSE\n"
	if _, err := tlc.Run(tlc.Options{SpecDir: specDir, Module: "GoSubset", CfgText: gcfg, Workers: 1, Timeout: 15 * time.Minute,
		Args: []string{"-simulate", fmt.Sprintf("file=%s/b,num=%d", gdir, r.Pick(4, 24)), "-depth", "8", "-seed", strconv.FormatInt(r.Seed*29+3, 10)}}); err != nil {
		r.Inconclusive("tlc simulate GoSubset: %v", err)
		return
	}
	gfiles, _ := filepath.Glob(filepath.Join(gdir, "b_*"))
	sort.Strings(gfiles)
	for i, f := range gfiles {
		beh, err := tlc.ParseSimFile(f)
		if err != nil || len(beh) == 0 {
			continue
		}
		transitions += int64(len(beh))
		bondgoJob(fmt.Sprintf("GoSubset-%d", i), goProgram(beh[len(beh)-1].Vars["prog"], 8), 8, nRuns)
	}
	for w := 1; w <= 3; w++ {
		// goroutines on their own processors: the numbering of external ports must not depend on the run
		bondgoJob(fmt.Sprintf("main-and-%d-workers", w), goWorkers(w), 8, r.Pick(40, 120))
	}
	// a goroutine started with two arguments (channels, values): the attachments and the order of the
	// transfers must not depend on the run
	bondgoJob("go-statement-with-two-channel-arguments", c07GoTwoChannels, 8, r.Pick(48, 120))
	bondgoJob("go-statement-with-two-value-arguments", c07GoTwoValues, 8, r.Pick(48, 120))

	// neuralbond and bmqsim
	netPath, circPath := filepath.Join(scratch, "nets.ndjson"), filepath.Join(scratch, "circs.ndjson")
	if fres, err := tlc.Run(tlc.Options{SpecDir: specDir, Module: "FrontendShapes", Cfg: "FrontendShapes.cfg", Workers: 2, Timeout: 10 * time.Minute, Env: map[string]string{"NETS": netPath, "CIRCS": circPath}}); err != nil || !fres.OK() {
		r.Inconclusive("tlc FrontendShapes: %v", err)
		return
	}
	n := 0
	readNDJSON(netPath, func(b []byte) error {
		var nr netRow
		if json.Unmarshal(b, &nr) != nil {
			return nil
		}
		n++
		if n%r.Pick(21, 5) != int(r.Seed)%r.Pick(21, 5) {
			return nil
		}
		nj := netJSON(nr)
		jobs = append(jobs, buildJob{tool: "neuralbond", input: "net-" + strconv.Itoa(n), desc: nr.String(), runs: nRuns, run: func(dir string, env []string) (map[string][]byte, error) {
			src, err := neuralbondToBasm(scratch, dir, nj, env)
			if err != nil {
				return map[string][]byte{"error": []byte(firstLine(err.Error()))}, nil
			}
			return map[string][]byte{"out.basm": []byte(src)}, nil
		}})
		jobs = append(jobs, buildJob{tool: "neuralbond", input: "net-" + strconv.Itoa(n) + "-fragment-mode", desc: nr.String() + " (operating mode: fragment)", runs: nRuns, run: func(dir string, env []string) (map[string][]byte, error) {
			src, err := neuralbondToBasm(scratch, dir, nj, env, "-operating-mode", "fragment")
			if err != nil {
				return map[string][]byte{"error": []byte(firstLine(err.Error()))}, nil
			}
			return map[string][]byte{"out.basm": []byte(src)}, nil
		}})
		// the assembler on a fixed neuralbond output (one run's file) with the neuron library
		if src, err := neuralbondToBasm(scratch, filepath.Join(scratch, "nbfix"), nj, nil); err == nil {
			basmJob("neuralbond-output-"+strconv.Itoa(n), src, neuronLibFiles()...)
		}
		return nil
	})
	n = 0
	readNDJSON(circPath, func(b []byte) error {
		var c circRow
		if json.Unmarshal(b, &c) != nil {
			return nil
		}
		n++
		if n%r.Pick(17, 4) != int(r.Seed)%r.Pick(17, 4) {
			return nil
		}
		text := circText(c)
		jobs = append(jobs, buildJob{tool: "bmqsim", input: "circuit-" + strconv.Itoa(n), desc: text, runs: nRuns, run: func(dir string, env []string) (map[string][]byte, error) {
			src, err := bmqsimToBasm(scratch, dir, text, env)
			if err != nil {
				return map[string][]byte{"error": []byte(firstLine(err.Error()))}, nil
			}
			return map[string][]byte{"q.basm": []byte(src)}, nil
		}})
		if src, err := bmqsimToBasm(scratch, filepath.Join(scratch, "bqfix"), text, nil); err == nil {
			basmJob("bmqsim-output-"+strconv.Itoa(n), src)
		}
		return nil
	})

	// Verilog generation from machines assembled once
	self, _ := os.Executable()
	vcount := 0
	for _, j := range append([]buildJob{}, jobs...) {
		if j.tool != "basm" || vcount >= r.Pick(6, 30) {
			continue
		}
		dir := filepath.Join(scratch, "vsrc"+strconv.Itoa(vcount))
		os.MkdirAll(dir, 0o755)
		arts, err := j.run(dir, nil)
		if err != nil || arts["bm.json"] == nil {
			continue
		}
		mpath := filepath.Join(dir, "machine.json")
		os.WriteFile(mpath, arts["bm.json"], 0o644)
		vcount++
		jobs = append(jobs, buildJob{tool: "verilog", input: "machine-of-" + j.input, desc: j.desc, runs: nRuns, run: func(dir string, env []string) (map[string][]byte, error) {
			outp := filepath.Join(dir, "all.v")
			os.Remove(outp)
			out, err := runTool(dir, env, 60*time.Second, self, "C07-child", "verilog", mpath, outp)
			if err != nil {
				return nil, fmt.Errorf("verilog child: %v: %s", err, tailStr(out, 300))
			}
			b, err := os.ReadFile(outp)
			return map[string][]byte{"all.v": b}, err
		}})
	}

	// ---- run everything, each run in a fresh process ----------------------------------------------------------------
	type runOut struct {
		job, k int
		env    string
		arts   map[string][]byte
		err    error
	}
	type task struct{ job, k int }
	tasks := make(chan task)
	results := make(chan runOut)
	var wg sync.WaitGroup
	for w := 0; w < 12; w++ {
		wg.Add(1)
		go func(w int) {
			defer wg.Done()
			for t := range tasks {
				dir := filepath.Join(scratch, fmt.Sprintf("w%d", w))
				os.RemoveAll(dir)
				os.MkdirAll(dir, 0o755)
				procs := []int{1, 2, 16, 4}[t.k%4]
				env := []string{"GOMAXPROCS=" + strconv.Itoa(procs)}
				arts, err := jobs[t.job].run(dir, env)
				results <- runOut{t.job, t.k, fmt.Sprintf("run %d, GOMAXPROCS=%d", t.k, procs), arts, err}
			}
		}(w)
	}
	go func() {
		for j := range jobs {
			for k := 0; k < jobs[j].runs; k++ {
				tasks <- task{j, k}
			}
		}
		close(tasks)
		wg.Wait()
		close(results)
	}()
	byJob := map[int][]runOut{}
	for ro := range results {
		byJob[ro.job] = append(byJob[ro.job], ro)
	}
	tracePath := filepath.Join(scratch, "trace.ndjson")
	tf, _ := os.Create(tracePath)
	enc := json.NewEncoder(tf)
	type lineInfo struct{ job, idx int }
	var lines []lineInfo
	perTool := map[string]int64{}
	var totalRuns, errored int64
	for j := range jobs {
		outs := byJob[j]
		sort.Slice(outs, func(a, b int) bool { return outs[a].k < outs[b].k })
		byJob[j] = outs
		for i, ro := range outs {
			if ro.err != nil {
				r.Inconclusive("%s on %s (%s): %v", jobs[j].tool, jobs[j].input, ro.env, ro.err)
				return
			}
			if _, isErr := ro.arts["error"]; isErr {
				errored++
			}
			enc.Encode(buildEvent{jobs[j].tool, jobs[j].input, ro.env, digestArtefacts(ro.arts)})
			lines = append(lines, lineInfo{j, i})
			totalRuns++
			perTool[jobs[j].tool]++
		}
		r.Distinct(jobs[j].tool + "|" + jobs[j].input)
	}
	tf.Close()
	vres, err := tlc.Run(tlc.Options{SpecDir: specDir, Module: "BuildFnTrace", Cfg: "BuildFnTrace.cfg", Workers: 1, Timeout: 30 * time.Minute, Env: map[string]string{"TRACE": tracePath}})
	if err != nil {
		r.Inconclusive("tlc BuildFnTrace: %v", err)
		return
	}
	rej := reReject.FindAllStringSubmatch(vres.Stdout, -1)
	reported := map[int]bool{}
	for _, m := range rej {
		ln, _ := strconv.Atoi(m[1])
		li := lines[ln-1]
		if reported[li.job] {
			continue
		}
		reported[li.job] = true
		j := jobs[li.job]
		first, this := byJob[li.job][0], byJob[li.job][li.idx]
		diff := firstDifference(first.arts, this.arts)
		r.Violate("not-a-function:"+j.tool+":"+c07Class(j, diff), fmt.Sprintf("%s on input %s: %s differs from %s: %s", j.tool, j.input, this.env, first.env, diff),
			map[string]interface{}{"tool": j.tool, "input": j.desc, "first_difference": diff, "runs": len(byJob[li.job])})
	}
	if vres.Violation != "" || !strings.Contains(vres.Stdout, "No error has been found") {
		if len(rej) == 0 {
			r.Inconclusive("BuildFnTrace did not complete (%s %s): %s", vres.Violation, vres.ViolationName, tailStr(vres.Stdout, 1200))
			return
		}
	}
	states += vres.Distinct
	r.Set("states", states)
	r.Set("transitions", transitions)
	r.Set("inputs", int64(len(jobs)))
	r.Set("runs_in_fresh_processes", totalRuns)
	r.Set("traces_validated_against_impl", totalRuns)
	r.Set("runs_ending_in_a_tool_error", errored)
	for t, v := range perTool {
		r.Set("runs:"+t, v)
	}
	r.Set("evaluations", totalRuns)
}

var reTimestamp = regexp.MustCompile(`\d{4}/\d\d/\d\d \d\d:\d\d:\d\d ?`)

// firstLine is the first line of a tool's error output without the logger's timestamp.
func firstLine(s string) string {
	s = strings.TrimSpace(reTimestamp.ReplaceAllString(s, ""))
	if i := strings.Index(s, "\n"); i >= 0 {
		return s[:i]
	}
	return s
}

// c07Class tells the recorded findings apart by the kind of input and the artefact that differs.
func c07Class(j buildJob, diff string) string {
	switch {
	case j.tool == "neuralbond" && strings.HasSuffix(j.input, "-fragment-mode"):
		return "fragment-mode"
	case j.tool == "neuralbond":
		return "out.basm"
	case strings.HasPrefix(j.input, "neuralbond-output"):
		return "neuralbond-output"
	}
	if i := strings.Index(diff, " "); i > 0 {
		return strings.TrimSuffix(diff[:i], ":")
	}
	return "artefact"
}
