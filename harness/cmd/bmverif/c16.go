package main

// C16 — every machine a front-end emits is well formed.
//
// Every machine emitted by the real front-ends for the sources of the specifications' grammars
// (BasmSem programs, FragGraph graphs under their mappings, the BasmShapes catalogue, GoSubset
// programs through bondgo) is projected to a record and logged; TLC judges every line of the log
// with BMWellFormed (opcode list sorted and duplicate-free, ROM large enough, every ROM word of
// the architecture's width and decoding — with the field table of BMIsa — to an opcode of the
// processor with every operand in range, register sizes agreeing) and every emitted bond graph
// with BMTopologyTrace (the machine the source names, on names, and well formed).  A source that
// cannot fit must be rejected.

import (
	"encoding/json"
	"fmt"
	"github.com/BondMachineHQ/BondMachine/pkg/bondgo"
	"os"
	"os/exec"
	"path/filepath"
	"regexp"
	"sort"
	"strconv"
	"strings"
	"time"

	"github.com/BondMachineHQ/BondMachine/pkg/bondmachine"

	"verif/harness/evid"
	"verif/harness/tlaval"
	"verif/harness/tlc"
)

func init() { register("C16", "model_checking", runC16) }

type wfOp struct {
	Name string `json:"name"`
	Rank int    `json:"rank"`
}

type wfDom struct {
	RSize int     `json:"rsize"`
	R     int     `json:"R"`
	N     int     `json:"N"`
	M     int     `json:"M"`
	L     int     `json:"L"`
	O     int     `json:"O"`
	Mode  string  `json:"mode"`
	Ws    int     `json:"ws"`
	Ops   []wfOp  `json:"ops"`
	Prog  [][]int `json:"prog"`
	Data  [][]int `json:"data"`
}

type wfWant struct {
	NProcs int `json:"nprocs"`
	MinRom int `json:"minrom"`
	NBonds int `json:"nbonds"` // -1: no demand
	NSo    int `json:"nso"`    // -1: no demand
	// per processor, in cpdef order: the registers, inputs and outputs its code mentions (empty: no demand)
	MinRegs []int `json:"minregs"`
	MinIns  []int `json:"minins"`
	MinOuts []int `json:"minouts"`
}

var (
	reSection = regexp.MustCompile(`(?ms)^%section\s+(\w+)\s+\.(romtext|ramtext)[^\n]*\n(.*?)^%endsection`)
	reMacro   = regexp.MustCompile(`(?ms)^%macro\s+(\w+)[^\n]*\n(.*?)^%endmacro`)
	reCpdef   = regexp.MustCompile(`(?m)^%meta\s+cpdef\s+\w+\s+(.*)$`)
	reCodeRef = regexp.MustCompile(`\b(?:romcode|ramcode)\s*:\s*(\w+)`)
)

// basmDemands reads from a .basm source what the code of every processor (in cpdef order) mentions:
// the highest register, input and output index plus one, over its ROM and RAM code sections and the
// macros they call.  Sources with fragments leave the numbering to the assembler: no demand.
func basmDemands(src string) (regs, ins, outs []int) {
	regs, ins, outs = []int{}, []int{}, []int{}
	if strings.Contains(src, "%fragment") {
		return
	}
	macros := map[string]string{}
	for _, m := range reMacro.FindAllStringSubmatch(src, -1) {
		macros[m[1]] = m[2]
	}
	sections := map[string]string{}
	for _, m := range reSection.FindAllStringSubmatch(src, -1) {
		body := m[3]
		for _, line := range strings.Split(m[3], "\n") {
			if f := strings.Fields(line); len(f) > 0 {
				body += macros[f[0]]
			}
		}
		sections[m[1]] = body
	}
	count := func(text, letter string) int {
		max := -1
		for _, m := range regexp.MustCompile(`\b`+letter+`([0-9]+)\b`).FindAllStringSubmatch(text, -1) {
			if n, _ := strconv.Atoi(m[1]); n > max {
				max = n
			}
		}
		return max + 1
	}
	for _, c := range reCpdef.FindAllStringSubmatch(src, -1) {
		text := ""
		for _, ref := range reCodeRef.FindAllStringSubmatch(c[1], -1) {
			text += sections[ref[1]]
		}
		regs, ins, outs = append(regs, count(text, "r")), append(ins, count(text, "i")), append(outs, count(text, "o"))
	}
	return
}

type wfMachine struct {
	ID      int     `json:"id"`
	BmRSize int     `json:"bmrsize"`
	NProcs  int     `json:"nprocs"`
	NBonds  int     `json:"nbonds"`
	NSo     []int   `json:"nso"`
	NCons   []int   `json:"ncons"`
	Doms    []wfDom `json:"doms"`
	Want    wfWant  `json:"want"`
}

func bitsOf(s string) []int {
	out := make([]int, 0, len(s))
	for _, c := range s {
		if c == '1' {
			out = append(out, 1)
		} else {
			out = append(out, 0)
		}
	}
	return out
}

// wfRecord projects an emitted machine to the record BMWellFormed judges.
func wfRecord(id int, bm *bondmachine.Bondmachine, want wfWant) wfMachine {
	m := wfMachine{ID: id, BmRSize: int(bm.Rsize), NProcs: len(bm.Processors), Doms: []wfDom{}, Want: want, NSo: []int{}, NCons: []int{}}
	for _, l := range bm.Links {
		if l != -1 {
			m.NBonds++
		}
	}
	for p, d := range bm.Processors {
		n := 0
		if p < len(bm.Shared_links) {
			n = len(bm.Shared_links[p])
		}
		m.NSo = append(m.NSo, n)
		c := 0
		if d < len(bm.Domains) {
			for _, part := range strings.Split(bm.Domains[d].Shared_constraints, ",") {
				if strings.TrimSpace(part) != "" {
					c++
				}
			}
		}
		m.NCons = append(m.NCons, c)
	}
	for _, d := range bm.Domains {
		wd := wfDom{RSize: int(d.Rsize), R: int(d.R), N: int(d.N), M: int(d.M), L: int(d.L), O: int(d.O), Mode: "ha", Ws: int(d.WordSize), Ops: []wfOp{}, Prog: [][]int{}, Data: [][]int{}}
		if len(d.Modes) > 0 {
			wd.Mode = d.Modes[0]
		}
		names := map[string]bool{}
		for _, op := range d.Op {
			names[op.Op_get_name()] = true
		}
		sorted := make([]string, 0, len(names))
		for n := range names {
			sorted = append(sorted, n)
		}
		sort.Strings(sorted)
		rank := map[string]int{}
		for i, n := range sorted {
			rank[n] = i
		}
		for _, op := range d.Op {
			wd.Ops = append(wd.Ops, wfOp{op.Op_get_name(), rank[op.Op_get_name()]})
		}
		for _, w := range d.Program.Slocs {
			wd.Prog = append(wd.Prog, bitsOf(w))
		}
		for _, w := range d.Data.Vars {
			wd.Data = append(wd.Data, bitsOf(w))
		}
		m.Doms = append(m.Doms, wd)
	}
	return m
}

type shapeRow struct {
	Kind      string   `json:"kind"`
	RSize     int      `json:"rsize"`
	NCode     int      `json:"ncode"`
	NData     int      `json:"ndata"`
	Ram       []string `json:"ram"`
	NPass     int      `json:"npass"`
	High      bool     `json:"high"`
	PassFirst bool     `json:"passfirst"`
	CpuIn     bool     `json:"cpuin"`
	What      string   `json:"what"`
	MinRom    int      `json:"minrom"`
	NIn       int      `json:"nin"`
	NOut      int      `json:"nout"`
}

func shapeWant(s shapeRow) wfWant {
	w := wfWant{NProcs: 1, MinRom: s.MinRom, NBonds: -1, NSo: 0}
	switch s.Kind {
	case "pass":
		w.NBonds = s.NPass + 1
		if s.CpuIn {
			w.NBonds++
		}
	case "so":
		w.NProcs, _ = strconv.Atoi(s.What)
		w.NSo = s.NPass
		w.NBonds = 1
		w.MinRom = 0
	case "romscan":
		w.NBonds = 1
	}
	return w
}

// shapeText prints a BasmShapes row as .basm source; want is the bond graph the source names.
func shapeText(s shapeRow) (src string, want *topoState) {
	var sb strings.Builder
	code := []string{"\tclr r0", "\trset r1, 5", "\tadd r0, r1", "\tr2o r0, o0", "\tj _start"}
	extra := ""
	switch s.Kind {
	case "romdata":
		code = []string{"\tclr r0", "\tmov r1, rom:mydata", "\tmov r2, rom:[r1]", "\tadd r0, r2"}
		for len(code) < s.NCode-2 {
			code = append(code, "\tinc r0")
		}
		code = append(code, "\tr2o r0, o0", "\tj _start")
		var vals []string
		for i := 0; i < s.NData; i++ {
			vals = append(vals, fmt.Sprintf("0x%02x", i+1))
		}
		extra = "%section mydata .romdata\n\tmydata db " + strings.Join(vals, ", ") + "\n%endsection\n"
	case "misfit":
		wide := strconv.Itoa(1 << uint(s.RSize))
		switch s.What {
		case "rset-wide":
			code[1] = "\trset r1, " + wide
		case "mov-wide":
			code[1] = "\tmov r1, " + wide
		case "rset-wide-hex":
			code[1] = "\trset r1, 0x1" + strings.Repeat("0", s.RSize/4)
		case "mov-max":
			code[1] = "\tmov r1, " + strconv.Itoa(1<<uint(s.RSize)-1) // fits exactly
		case "rset-wide-bin":
			code[1] = "\trset r1, 0b1" + strings.Repeat("0", s.RSize)
		case "j-beyond-rom": // five instructions: a ROM of eight words; the numeric target does not fit the location field
			code[4] = "\tj 12"
		case "jz-beyond-rom":
			code[4] = "\tjz r0, 12"
		case "j-last-word": // the control: the last word of the ROM is a legal target
			code[4] = "\tj 7"
		}
	}
	if s.Kind == "romscan" {
		// no immediates: the jumps are the widest instructions; the data lines hold several words each
		wpl, _ := strconv.Atoi(s.What)
		var sb2 strings.Builder
		sb2.WriteString("%section code .romtext iomode:async\n\tentry _start\n_start:\n\tclr r1\nloop:\n\tmov r2, rom:[r1]\n\tinc r1\n\tjz r2, _start\n\tr2o r2, o0\n\tj loop\n%endsection\n%section mydata .romdata\n")
		v := 1
		for l := 0; l < s.NPass; l++ {
			var ws []string
			for k := 0; k < wpl; k++ {
				ws = append(ws, fmt.Sprintf("0x%02x", v))
				v++
			}
			fmt.Fprintf(&sb2, "\ttab%d db %s\n", l, strings.Join(ws, ", "))
		}
		sb2.WriteString("%endsection\n%meta cpdef cpu romcode: code, romdata: mydata, execmode: ha\n%meta ioatt out0 cp: cpu, index:0, type:output\n%meta ioatt out0 cp: bm, index:0, type:output\n")
		fmt.Fprintf(&sb2, "%%meta bmdef global registersize:%d\n", s.RSize)
		return sb2.String(), nil
	}
	if s.Kind == "so" {
		np, _ := strconv.Atoi(s.What)
		var sb2 strings.Builder
		for p := 0; p < np; p++ {
			fmt.Fprintf(&sb2, "%%section code%d .romtext iomode:sync\n\tentry _start\n_start:\n\tclr r0\nloop:\n\tinc r0\n", p)
			for q := 0; q < s.NPass; q++ {
				if (p+q)%2 == 0 {
					fmt.Fprintf(&sb2, "\tr2q r0, q%d\n", q)
				} else {
					fmt.Fprintf(&sb2, "\tq2r r1, q%d\n", q)
				}
			}
			if p == 0 {
				sb2.WriteString("\tr2o r1, o0\n")
			}
			fmt.Fprintf(&sb2, "\tj loop\n%%endsection\n%%meta cpdef cpu%d romcode: code%d, execmode: ha\n", p, p)
		}
		for q := 0; q < s.NPass; q++ {
			fmt.Fprintf(&sb2, "%%meta sodef queue%d constraint:queue:%d\n", q, 4+q)
		}
		for p := 0; p < np; p++ {
			for q := 0; q < s.NPass; q++ {
				fmt.Fprintf(&sb2, "%%meta soatt queue%d cp: cpu%d, index:%d\n", q, p, q)
			}
		}
		sb2.WriteString("%meta ioatt out0 cp: cpu0, index:0, type:output\n%meta ioatt out0 cp: bm, index:0, type:output\n")
		fmt.Fprintf(&sb2, "%%meta bmdef global registersize:%d\n", s.RSize)
		return sb2.String(), nil
	}
	if s.Kind == "dynops" {
		fp := fmt.Sprintf("fps%df4", s.RSize)
		mid := map[string][]string{
			"rsets4":            {"\trsets4 r1, 5", "\tadd r0, r1"},
			"rsets4+sub":        {"\trsets4 r1, 5", "\tadd r0, r1", "\tsub r0, r1"},
			"addfps":            {"\trset r1, 5", "\tadd" + fp + " r0, r1"},
			"addfps+rsets4+sub": {"\trsets4 r1, 5", "\tadd" + fp + " r0, r1", "\tsub r0, r1"},
			"multfps+sub":       {"\trset r1, 5", "\tmult" + fp + " r0, r1", "\tsub r0, r1"},
			"divfps+rsets4+sub": {"\trsets4 r1, 5", "\tdiv" + fp + " r0, r1", "\tsub r0, r1"},
		}[s.What]
		code = append(append([]string{"\tclr r0"}, mid...), "\tr2o r0, o0", "\tj _start")
	}
	if s.CpuIn {
		code[0] = "\ti2r r0, i0"
	}
	sb.WriteString("%section code .romtext iomode:async\n\tentry _start\n_start:\n" + strings.Join(code, "\n") + "\n%endsection\n" + extra)
	cpdef := "%meta cpdef cpu romcode: code, execmode: ha\n"
	if extra != "" {
		cpdef = "%meta cpdef cpu romcode: code, romdata: mydata, execmode: ha\n"
	}
	if s.Kind == "hybrid" && s.What == "rom0" {
		// (the ROM program was printed above from `code`; replace it by one that uses r0 only)
		sb.Reset()
		sb.WriteString("%section code .romtext iomode:async\n\tentry _start\n_start:\n\tclr r0\n\tinc r0\n\tr2o r0, o0\n\tj _start\n%endsection\n")
	}
	if s.Kind == "hybrid" {
		sb.WriteString("%section rcode .ramtext iomode:async\n\tentry _rstart\n_rstart:\n")
		for _, l := range s.Ram {
			switch l {
			case "inc":
				sb.WriteString("\tinc r2\n")
			case "inc1":
				sb.WriteString("\tinc r1\n")
			case "dec":
				sb.WriteString("\tdec r1\n")
			case "add":
				sb.WriteString("\tadd r2, r1\n")
			case "clr":
				sb.WriteString("\tclr r3\n")
			case "j":
				sb.WriteString("\tj _rstart\n")
			case "in1":
				sb.WriteString("\ti2r r1, i1\n")
			case "out1":
				sb.WriteString("\tr2o r1, o1\n")
			case "inc5":
				sb.WriteString("\tinc r5\n")
			}
		}
		sb.WriteString("%endsection\n")
		cpdef = "%meta cpdef cpu romcode: code, ramcode: rcode, execmode: hy\n"
	}
	sb.WriteString(cpdef)
	// external ports: the pass-through bonds take the low indexes (the processor's ports come after
	// them) or the high ones (the processor's ports are index 0)
	cpuInIdx, cpuOutIdx := s.NPass, s.NPass
	passIdx := func(k int) int { return k }
	inIdx := passIdx
	if s.High {
		cpuInIdx, cpuOutIdx = 0, 0
		passIdx = func(k int) int { return k + 1 }
		inIdx = passIdx
		if !s.CpuIn {
			inIdx = func(k int) int { return k }
		}
	}
	var cpuAtt, passAtt strings.Builder
	if s.CpuIn {
		fmt.Fprintf(&cpuAtt, "%%meta ioatt in0 cp: cpu, index:0, type:input\n%%meta ioatt in0 cp: bm, index:%d, type:input\n", cpuInIdx)
	}
	fmt.Fprintf(&cpuAtt, "%%meta ioatt out0 cp: cpu, index:0, type:output\n%%meta ioatt out0 cp: bm, index:%d, type:output\n", cpuOutIdx)
	for k := 0; k < s.NPass; k++ {
		fmt.Fprintf(&passAtt, "%%meta ioatt pass%d cp: bm, index:%d, type:input\n%%meta ioatt pass%d cp: bm, index:%d, type:output\n", k, inIdx(k), k, passIdx(k))
	}
	if s.PassFirst {
		sb.WriteString(passAtt.String() + cpuAtt.String())
	} else {
		sb.WriteString(cpuAtt.String() + passAtt.String())
	}
	fmt.Fprintf(&sb, "%%meta bmdef global registersize:%d\n", s.RSize)
	n := 0
	if s.CpuIn {
		n = 1
	}
	want = &topoState{Nin: s.NIn, Nout: s.NOut, Procs: []int{0}, Doms: []topoDom{{n, 1}}, Bonds: [][2]string{}}
	if s.CpuIn {
		want.Bonds = append(want.Bonds, [2]string{"i" + strconv.Itoa(cpuInIdx), "p0i0"})
	}
	want.Bonds = append(want.Bonds, [2]string{"p0o0", "o" + strconv.Itoa(cpuOutIdx)})
	for k := 0; k < s.NPass; k++ {
		want.Bonds = append(want.Bonds, [2]string{"i" + strconv.Itoa(inIdx(k)), "o" + strconv.Itoa(passIdx(k))})
	}
	return sb.String(), want
}

// basmWant is the bond graph a BasmSem program's ioatt lines name.
func basmWant(p basmProg, outMap []int) *topoState {
	ncp := len(p.Progs)
	w := &topoState{Procs: []int{}, Doms: []topoDom{}, Bonds: [][2]string{}, Nout: len(outMap)}
	uses := make([]bool, ncp)
	maxOut := make([]int, ncp)
	for c, prog := range p.Progs {
		maxOut[c] = -1
		for _, l := range prog {
			if l.Op == "recv" {
				uses[c] = true
			}
			if l.Op == "send" && l.A > maxOut[c] {
				maxOut[c] = l.A
			}
		}
		n := 0
		if uses[c] {
			n = 1
		}
		w.Procs = append(w.Procs, c)
		w.Doms = append(w.Doms, topoDom{n, maxOut[c] + 1})
	}
	if uses[0] {
		w.Nin = 1
		w.Bonds = append(w.Bonds, [2]string{"i0", "p0i0"})
	}
	if ncp == 2 && uses[1] && maxOut[0] >= 1 {
		linked := false
		for _, l := range p.Progs[0] {
			if l.Op == "send" && l.A == 1 {
				linked = true
			}
		}
		if linked {
			w.Bonds = append(w.Bonds, [2]string{"p0o1", "p1i0"})
		}
	}
	for k, spec := range outMap {
		cp, port := 0, spec
		if ncp == 2 && spec >= 1 {
			cp, port = 1, spec-1
		}
		w.Bonds = append(w.Bonds, [2]string{fmt.Sprintf("p%do%d", cp, port), "o" + strconv.Itoa(k)})
	}
	return w
}

func runC16(r *evid.Run) {
	scratch, err := os.MkdirTemp("", "bmverif-c16-")
	if err != nil {
		r.Inconclusive("mktemp: %v", err)
		return
	}
	if os.Getenv("VERIF_KEEP") == "" {
		defer os.RemoveAll(scratch)
	} else {
		fmt.Fprintln(os.Stderr, "scratch kept:", scratch)
	}
	logPath := filepath.Join(scratch, "machines.ndjson")
	lf, _ := os.Create(logPath)
	lenc := json.NewEncoder(lf)
	tracePath := filepath.Join(scratch, "trace.ndjson")
	tf, _ := os.Create(tracePath)
	tenc := json.NewEncoder(tf)
	type origin struct {
		kind, source string
		extra        interface{}
	}
	var origins []origin // one per machine-log line
	lineOf := map[int]topoEvent{}
	segStart := map[int]int{}
	originOfTrace := map[int]int{}
	nEvents := 0
	var states, transitions, rejected, emitted int64
	perKind := map[string]int64{}
	emit := func(kind, src string, bm *bondmachine.Bondmachine, want wfWant, topo *topoState, extra interface{}) {
		emitted++
		perKind[kind]++
		origins = append(origins, origin{kind, src, extra})
		want.MinRegs, want.MinIns, want.MinOuts = []int{}, []int{}, []int{}
		if kind == "basm-program" || strings.HasPrefix(kind, "shape:") {
			want.MinRegs, want.MinIns, want.MinOuts = basmDemands(src)
		}
		if kind == "abstract-assembly" {
			count := func(letter string) int {
				max := -1
				for _, m := range regexp.MustCompile(`\b`+letter+`([0-9]+)\b`).FindAllStringSubmatch(src, -1) {
					if n, _ := strconv.Atoi(m[1]); n > max {
						max = n
					}
				}
				return max + 1
			}
			want.MinRegs, want.MinIns, want.MinOuts = []int{count("r")}, []int{count("i")}, []int{count("o")}
		}
		lenc.Encode(wfRecord(len(origins), bm, want))
		actual := readTopo(bm)
		if topo == nil {
			topo = actual
		} else {
			// the processor port counts are the emitted ones when the source leaves them open
			topo.Iin, topo.Ion, topo.Links = []string{}, []string{}, []int{}
		}
		seg := nEvents + 1
		for _, ev := range []topoEvent{{Ev: "set", Post: topo}, {Ev: "Emit", Post: actual}} {
			tenc.Encode(ev)
			nEvents++
			lineOf[nEvents], segStart[nEvents] = ev, seg
			originOfTrace[nEvents] = len(origins) - 1
		}
		r.Distinct(kind + "|" + src)
	}

	// ---- 1. BasmSem programs ---------------------------------------------------------------------------
	for i, a := range []struct {
		rsize, len0, ncp int
		entryAny, dirAny bool
		n                int
	}{{8, 10, 1, false, false, r.Pick(60, 600)}, {16, 8, 1, true, true, r.Pick(40, 400)}, {8, 8, 2, false, true, r.Pick(60, 600)}} {
		progs, tr, ok := genBasmPrograms(r, scratch, a.rsize, a.len0, 4, a.ncp, a.entryAny, a.dirAny, i == 1, a.n, r.Seed*13+int64(i))
		if !ok {
			return
		}
		transitions += tr
		states += int64(len(progs))
		for _, p := range progs {
			src, outMap, wired := basmText(p)
			if !wired {
				continue
			}
			bm, err := assembleForC05(src)
			if err != nil {
				rejected++
				continue // C05 judges rejections of well-formed sources
			}
			emit("basm-program", src, bm, wfWant{NProcs: len(p.Progs), MinRom: a.len0, NBonds: len(basmWant(p, outMap).Bonds), NSo: 0}, basmWant(p, outMap), nil)
		}
	}

	// ---- 2. FragGraph graphs under their mappings -------------------------------------------------------
	for i, a := range []struct{ rsize, ninst, nout, nremap, n int }{{8, 3, 2, 4, r.Pick(20, 200)}, {16, 5, 3, 5, r.Pick(10, 120)}, {16, 26, 2, 4, r.Pick(4, 40)}} {
		items, tr, ok := genFragGraphs(r, scratch, a.rsize, a.ninst, a.nout, a.nremap, a.n, r.Seed*17+int64(i))
		if !ok {
			return
		}
		transitions += tr
		states += int64(len(items))
		for _, it := range items {
			for _, m := range it.m {
				src := fragText(it.g, m)
				bm, err := assembleForC05(src)
				if err != nil {
					rejected++
					continue // C06 judges
				}
				ng := map[int]bool{}
				for _, g := range m.Group {
					ng[g] = true
				}
				emit("fragment-graph", src, bm, wfWant{NProcs: len(ng), NBonds: -1, NSo: 0}, nil, m)
			}
		}
	}

	// ---- 3. the BasmShapes catalogue ---------------------------------------------------------------------
	rowPath := filepath.Join(scratch, "rows.ndjson")
	sres, err := tlc.Run(tlc.Options{SpecDir: specDir, Module: "BasmShapes", Cfg: "BasmShapes.cfg", Workers: 2, Timeout: 10 * time.Minute, Env: map[string]string{"ROWS": rowPath}})
	if err != nil || !sres.OK() {
		r.Inconclusive("tlc BasmShapes: %v", err)
		return
	}
	states += sres.Distinct
	transitions += sres.Generated
	var misfitRejected, misfitEmitted int64
	err = readNDJSON(rowPath, func(b []byte) error {
		var s shapeRow
		if err := json.Unmarshal(b, &s); err != nil {
			return err
		}
		src, want := shapeText(s)
		bm, err := assembleForC05(src)
		ctx := map[string]interface{}{"shape": s, "source": src}
		if s.Kind == "misfit" && s.What != "mov-max" && s.What != "j-last-word" {
			if err != nil {
				misfitRejected++
				return nil
			}
			misfitEmitted++
			r.Violate("misfit-emitted:"+s.What, fmt.Sprintf("a source with an operand that cannot fit (%s, %d-bit registers) is not rejected: a machine is emitted", s.What, s.RSize), ctx)
			_ = bm
			return nil
		}
		if err != nil {
			r.Violate("rejected:"+s.Kind, fmt.Sprintf("a source that fits (%s) is rejected: %v", s.Kind, err), ctx)
			return nil
		}
		if s.Kind != "pass" {
			want = nil
		}
		emit("shape:"+s.Kind, src, bm, shapeWant(s), want, s)
		return nil
	})
	if err != nil {
		r.Inconclusive("rows: %v", err)
		return
	}

	// ---- 4. bondgo ------------------------------------------------------------------------------------------
	bin := filepath.Join(scratch, "bondgo")
	build := exec.Command("go", "build", "-tags", "verif", "-o", bin, "./cmd/bondgo")
	build.Dir = repoDir()
	if out, err := build.CombinedOutput(); err != nil {
		r.Inconclusive("cannot build cmd/bondgo: %v\n%s", err, tailStr(string(out), 600))
		return
	}
	for i, a := range []struct {
		rsize  int
		withIf bool
		n      int
	}{{8, false, r.Pick(12, 120)}, {16, false, r.Pick(6, 60)}, {8, true, r.Pick(6, 60)}} {
		dir := filepath.Join(scratch, fmt.Sprintf("gs_%d", i))
		os.MkdirAll(dir, 0o755)
		cfg := fmt.Sprintf("SPECIFICATION Spec\nCONSTANTS\n RSize = %d\n MaxLen = 7\n WithIf = %s\n NoAssign = FALSE\n Repeat = 1\n WithCalls = FALSE\nINVARIANT TypeOK\nCHECK_DEADLOCK FALSE\n", a.rsize, strings.ToUpper(fmt.Sprint(a.withIf)))
		if _, err := tlc.Run(tlc.Options{SpecDir: specDir, Module: "GoSubset", CfgText: cfg, Workers: 1, Timeout: 15 * time.Minute,
			Args: []string{"-simulate", fmt.Sprintf("file=%s/b,num=%d", dir, a.n), "-depth", "8", "-seed", strconv.FormatInt(r.Seed*19+int64(i), 10)}}); err != nil {
			r.Inconclusive("tlc simulate GoSubset: %v", err)
			return
		}
		files, _ := filepath.Glob(filepath.Join(dir, "b_*"))
		sort.Strings(files)
		for _, f := range files {
			beh, err := tlc.ParseSimFile(f)
			if err != nil || len(beh) == 0 {
				continue
			}
			transitions += int64(len(beh))
			states++
			src := goProgram(beh[len(beh)-1].Vars["prog"], a.rsize)
			res := runBondgo(bin, filepath.Join(scratch, "cc"), src, a.rsize, "", 20*time.Second)
			if res.status != "ok" || len(res.bmJSON) == 0 {
				rejected++
				continue // C12 judges
			}
			bj := new(bondmachine.Bondmachine_json)
			if err := json.Unmarshal(res.bmJSON, bj); err != nil {
				r.Violate("bondgo-json", fmt.Sprintf("bondgo emitted a machine file that does not parse: %v", err), map[string]interface{}{"source": src})
				continue
			}
			bm := bj.Dejsoner()
			bm.Init()
			emit("bondgo-program", src, bm, wfWant{NProcs: -1, NBonds: -1, NSo: -1}, nil, nil)
		}
		os.RemoveAll(dir)
	}
	// ---- 5. neuralbond and bmqsim (through the assembler) -----------------------------------------------------
	netPath, circPath := filepath.Join(scratch, "nets.ndjson"), filepath.Join(scratch, "circs.ndjson")
	fres, err := tlc.Run(tlc.Options{SpecDir: specDir, Module: "FrontendShapes", Cfg: "FrontendShapes.cfg", Workers: 2, Timeout: 10 * time.Minute, Env: map[string]string{"NETS": netPath, "CIRCS": circPath}})
	if err != nil || !fres.OK() {
		r.Inconclusive("tlc FrontendShapes: %v", err)
		return
	}
	states += fres.Distinct
	transitions += fres.Generated
	nNets, nCircs := 0, 0
	err = readNDJSON(netPath, func(b []byte) error {
		var n netRow
		if err := json.Unmarshal(b, &n); err != nil {
			return err
		}
		nNets++
		if !r.Thorough() && nNets%4 != int(r.Seed)%4 {
			return nil
		}
		dir := filepath.Join(scratch, "nb")
		ctx := map[string]interface{}{"network": n}
		src, err := neuralbondToBasm(scratch, dir, netJSON(n), nil)
		if err != nil {
			r.Violate("rejected:neuralbond", fmt.Sprintf("neuralbond fails on a network (%s): %v", n, err), ctx)
			return nil
		}
		ctx["basm"] = src
		mj, err := basmCLI(scratch, dir, nil, append([]string{"out.basm"}, neuronLibFiles()...)...)
		if err != nil {
			r.Violate("rejected:neuralbond-basm", fmt.Sprintf("the assembler rejects what neuralbond wrote for a network (%s): %v", n, err), ctx)
			return nil
		}
		bm, err := loadMachine(mj)
		if err != nil {
			r.Violate("unloadable:neuralbond", fmt.Sprintf("the machine emitted for a network (%s) cannot be loaded: %v", n, err), ctx)
			return nil
		}
		if bm.Inputs != n.Nin || bm.Outputs != n.Nout {
			r.Violate("ports:neuralbond", fmt.Sprintf("the machine emitted for a network (%s) has %d inputs and %d outputs, the network has %d and %d", n, bm.Inputs, bm.Outputs, n.Nin, n.Nout), ctx)
			return nil
		}
		emit("neuralbond-network", src, bm, wfWant{NProcs: -1, NBonds: -1, NSo: -1}, nil, n)
		return nil
	})
	if err != nil {
		r.Inconclusive("nets: %v", err)
		return
	}
	err = readNDJSON(circPath, func(b []byte) error {
		var c circRow
		if err := json.Unmarshal(b, &c); err != nil {
			return err
		}
		nCircs++
		if !r.Thorough() && nCircs%4 != int(r.Seed)%4 {
			return nil
		}
		dir := filepath.Join(scratch, "bq")
		text := circText(c)
		ctx := map[string]interface{}{"circuit": text}
		src, err := bmqsimToBasm(scratch, dir, text, nil)
		if err != nil {
			r.Violate("rejected:bmqsim", fmt.Sprintf("bmqsim fails on a circuit: %v", err), ctx)
			return nil
		}
		ctx["basm"] = src
		mj, err := basmCLI(scratch, dir, nil, "q.basm")
		if err != nil {
			r.Violate("rejected:bmqsim-basm", fmt.Sprintf("the assembler rejects what bmqsim wrote for a circuit: %v", err), ctx)
			return nil
		}
		bm, err := loadMachine(mj)
		if err != nil {
			r.Violate("unloadable:bmqsim", fmt.Sprintf("the machine emitted for a circuit cannot be loaded: %v", err), ctx)
			return nil
		}
		emit("bmqsim-circuit", text, bm, wfWant{NProcs: -1, NBonds: -1, NSo: -1}, nil, c)
		return nil
	})
	if err != nil {
		r.Inconclusive("circuits: %v", err)
		return
	}
	// goroutines on their own processors, linked to each other and to the outside: the ordinal of the
	// link among main's outputs and among the worker's inputs varies
	for mainFirst := 0; mainFirst < 2; mainFirst++ {
		for workerExtra := 0; workerExtra < 2; workerExtra++ {
			src := goLinked(mainFirst == 1, workerExtra == 1)
			res := runBondgo(bin, filepath.Join(scratch, "cc"), src, 8, "", 20*time.Second)
			if res.status != "ok" || len(res.bmJSON) == 0 {
				r.Violate("rejected:bondgo-linked-goroutines", fmt.Sprintf("bondgo fails on two linked goroutines: %s", tailStr(res.out, 300)), map[string]interface{}{"source": src})
				continue
			}
			bm, err := loadMachine(res.bmJSON)
			if err != nil {
				r.Violate("bondgo-json", fmt.Sprintf("bondgo emitted a machine file that cannot be loaded: %v", err), map[string]interface{}{"source": src})
				continue
			}
			// bonds: in0 -> main, main -> out0, main -> worker (the link), worker -> its output, and the
			// worker's second input when it has one
			emit("bondgo-linked-goroutines", src, bm, wfWant{NProcs: 2, NBonds: 4 + workerExtra, NSo: -1}, nil, nil)
		}
	}
	// memory variables (not registers) in one scope and in nested blocks that release and re-use cells
	for _, gs := range goBlockSources() {
		res := runBondgo(bin, filepath.Join(scratch, "cc"), gs[1], 8, "", 20*time.Second)
		if res.status != "ok" || len(res.bmJSON) == 0 {
			r.Violate("rejected:bondgo-memory-variables", fmt.Sprintf("bondgo fails on a program with %s: %s", gs[0], tailStr(res.out, 300)), map[string]interface{}{"source": gs[1]})
			continue
		}
		bm, err := loadMachine(res.bmJSON)
		if err != nil {
			r.Violate("bondgo-json", fmt.Sprintf("bondgo emitted a machine file that cannot be loaded: %v", err), map[string]interface{}{"source": gs[1]})
			continue
		}
		emit("bondgo-memory-variables", gs[1], bm, wfWant{NProcs: 1, NBonds: 2, NSo: -1}, nil, gs[0])
	}
	// the abstract-assembly front-end of bondgo (one program text per processor plus bonds): programs in
	// which the highest register is mentioned once, as the source or as the destination of one instruction
	for _, op := range []string{"add", "cpy", "mult", "and", "or", "xor"} {
		for _, form := range []string{"%s r0 r2", "%s r2 r0", "%s r0 r4", "%s r4 r1"} {
			line := fmt.Sprintf(form, op)
			prog := "clr r0\nrset r1 3\n" + line + "\nr2o r0 o0\n"
			var bm *bondmachine.Bondmachine
			err := func() (err error) {
				defer func() {
					if e := recover(); e != nil {
						err = fmt.Errorf("panic: %v", e)
					}
				}()
				bm, err = bondgo.MultiAsm2BondMachine(8, &bondgo.Abs_assembly{ProcProgs: []string{prog}, Bonds: []string{"p0o0,o0"}})
				return err
			}()
			if err != nil || bm == nil {
				if op == "cpy" {
					rejected++ // this front-end does not know cpy: outside its accepted sources (rejected, as it must be)
					continue
				}
				r.Violate("rejected:abstract-assembly", fmt.Sprintf("the abstract-assembly front-end rejects a program that fits (%s): %v", line, err), map[string]interface{}{"source": prog})
				continue
			}
			want := wfWant{NProcs: 1, NBonds: 1, NSo: -1, MinRom: 4}
			emit("abstract-assembly", prog, bm, want, nil, line)
			// (emit fills the demands for basm sources only)
			_ = want
		}
	}
	lf.Close()
	tf.Close()

	// ---- TLC judges the log ---------------------------------------------------------------------------------
	wres, err := tlc.Run(tlc.Options{SpecDir: specDir, Module: "BMWellFormed", Cfg: "BMWellFormed.cfg", Workers: 1, Timeout: 40 * time.Minute, Env: map[string]string{"MACHINES": logPath}})
	if err != nil {
		r.Inconclusive("tlc BMWellFormed: %v", err)
		return
	}
	rej := reReject.FindAllStringSubmatch(wres.Stdout, -1)
	for _, m := range rej {
		line, _ := strconv.Atoi(m[1])
		o := origins[line-1]
		reason := m[2]
		r.Violate("ill-formed:"+o.kind+":"+reason, fmt.Sprintf("the machine emitted for a %s source is not well formed: %s", o.kind, reason), map[string]interface{}{"source": o.source, "detail": o.extra})
	}
	if wres.Violation != "" || !strings.Contains(wres.Stdout, "No error has been found") {
		if len(rej) == 0 {
			r.Inconclusive("BMWellFormed did not complete (%s %s): %s", wres.Violation, wres.ViolationName, tailStr(wres.Stdout, 1500))
			return
		}
	}
	states += wres.Distinct
	// topology: like validateTopoTrace, with the origin of each line
	vres, err := tlc.Run(tlc.Options{SpecDir: specDir, Module: "BMTopologyTrace", Cfg: "BMTopologyTrace.cfg", Workers: 1, Env: map[string]string{"TRACE": tracePath}, Timeout: 40 * time.Minute})
	if err != nil {
		r.Inconclusive("tlc BMTopologyTrace: %v", err)
		return
	}
	trej := reReject.FindAllStringSubmatch(vres.Stdout, -1)
	for _, m := range trej {
		line, _ := strconv.Atoi(m[1])
		o := origins[originOfTrace[line]]
		r.Violate("bond-graph:"+o.kind+":"+m[2], fmt.Sprintf("the bond graph emitted for a %s source is not the one the source names or is not well formed: %s", o.kind, m[2]),
			map[string]interface{}{"source": o.source, "named_by_source": lineOf[segStart[line]].Post, "emitted": lineOf[line].Post})
	}
	if vres.Violation != "" || !strings.Contains(vres.Stdout, "No error has been found") {
		if len(trej) == 0 {
			r.Inconclusive("BMTopologyTrace did not complete (%s %s): %s", vres.Violation, vres.ViolationName, tailStr(vres.Stdout, 1500))
			return
		}
	}
	states += vres.Distinct
	r.Set("states", states)
	r.Set("transitions", transitions)
	r.Set("machines_judged", emitted)
	r.Set("traces_validated_against_impl", emitted)
	for k, v := range perKind {
		r.Set("machines:"+k, v)
	}
	r.Set("sources_rejected_by_front_end", rejected)
	r.Set("misfit_sources_rejected", misfitRejected)
	r.Set("misfit_sources_emitted", misfitEmitted)
	r.Set("evaluations", emitted)
	_ = tlaval.Int
}

// goBlockSources: programs whose variables live in memory cells (no reg_ prefix), declared in one
// scope or in bare nested blocks with every combination of 1..4 locals in the first block and 1..2 in
// the second (the second block re-uses the cells the first one released).
func goBlockSources() [][2]string {
	head := "package main\n\nimport \"bondgo\"\n\nfunc main() {\n\tvar in0 bondgo.Input\n\tvar out0 bondgo.Output\n\tin0 = bondgo.Make(bondgo.Input, 3)\n\tout0 = bondgo.Make(bondgo.Output, 5)\n\tvar a uint8\n"
	out := [][2]string{{"three memory variables in one scope", head + "\tvar x uint8\n\tvar y uint8\n\tfor {\n\t\ta = bondgo.IORead(in0)\n\t\tx = a + 1\n\t\ty = x + a\n\t\tbondgo.IOWrite(out0, y)\n\t}\n}\n"}}
	block := func(names []string) string {
		var sb strings.Builder
		sb.WriteString("\t\t{\n")
		for _, n := range names {
			sb.WriteString("\t\t\tvar " + n + " uint8\n")
		}
		prev := "a"
		for _, n := range names {
			sb.WriteString("\t\t\t" + n + " = " + prev + " + 1\n")
			prev = n
		}
		sb.WriteString("\t\t\tbondgo.IOWrite(out0, " + prev + ")\n\t\t}\n")
		return sb.String()
	}
	for first := 1; first <= 4; first++ {
		for second := 1; second <= 2; second++ {
			out = append(out, [2]string{fmt.Sprintf("a block of %d memory variables followed by a block of %d", first, second),
				head + "\tfor {\n\t\ta = bondgo.IORead(in0)\n" + block([]string{"x", "y", "u", "v"}[:first]) + block([]string{"z", "w"}[:second]) + "\t}\n}\n"})
		}
	}
	return out
}

// goLinked is a Go source with main and a worker goroutine on their own processors, joined by a
// bondgo link (an Output of main and an Input of the worker made with the same id).  linkFirst:
// the link is the first of main's two outputs; workerExtra: the worker has another input before it.
func goLinked(linkFirst, workerExtra bool) string {
	var sb strings.Builder
	sb.WriteString("package main\n\nimport \"bondgo\"\n\nfunc worker() {\n")
	if workerExtra {
		sb.WriteString("\tvar wother bondgo.Input\n")
	}
	sb.WriteString("\tvar win bondgo.Input\n\tvar wout bondgo.Output\n")
	if workerExtra {
		sb.WriteString("\twother = bondgo.Make(bondgo.Input, 9)\n")
	}
	sb.WriteString("\twin = bondgo.Make(bondgo.Input, 5)\n\twout = bondgo.Make(bondgo.Output, 2)\n\tfor {\n")
	if workerExtra {
		sb.WriteString("\t\tbondgo.IOWrite(wout, bondgo.IORead(win)+bondgo.IORead(wother))\n")
	} else {
		sb.WriteString("\t\tbondgo.IOWrite(wout, bondgo.IORead(win)+1)\n")
	}
	sb.WriteString("\t}\n}\n\nfunc main() {\n\tvar in0 bondgo.Input\n")
	if linkFirst {
		sb.WriteString("\tvar link bondgo.Output\n\tvar out0 bondgo.Output\n\tin0 = bondgo.Make(bondgo.Input, 3)\n\tlink = bondgo.Make(bondgo.Output, 5)\n\tout0 = bondgo.Make(bondgo.Output, 1)\n")
	} else {
		sb.WriteString("\tvar out0 bondgo.Output\n\tvar link bondgo.Output\n\tin0 = bondgo.Make(bondgo.Input, 3)\n\tout0 = bondgo.Make(bondgo.Output, 1)\n\tlink = bondgo.Make(bondgo.Output, 5)\n")
	}
	sb.WriteString("\tgo worker()\n\tfor {\n\t\tbondgo.IOWrite(out0, bondgo.IORead(in0))\n\t\tbondgo.IOWrite(link, bondgo.IORead(in0))\n\t}\n}\n")
	return sb.String()
}
