package main

// C13 — generated stacks and queues never lose, duplicate or reorder an element.
//
//  1. TLC explores BMStack (register-exact transcription of stackfile.go + protocol-abiding
//     nondeterministic environment) exhaustively for small parameters, checking the refinement to
//     the abstract sequence (StepOK, FlagsOK) and bounded response.
//  2. For every instance the REAL text returned by BmStack.WriteHDL() is loaded in the Verilog
//     interpreter and EVERY transition of the dumped state graph is replayed: registers and input
//     lines set from the pre-state, one clock, registers compared with the post-state.
//  3. Protocol-abiding random environments drive real modules with larger parameters.
//  4. Verdict: the interface signals of everything executed are validated by TLC against the
//     property level (BMStackTrace), which knows nothing about the module's registers.

import (
	"encoding/json"
	"fmt"
	"math/rand"
	"os"
	"path/filepath"
	"strconv"
	"strings"
	"sync"
	"time"

	"github.com/BondMachineHQ/BondMachine/pkg/bmstack"
	"github.com/BondMachineHQ/BondMachine/pkg/procbuilder"

	"verif/harness/evid"
	"verif/harness/tlaval"
	"verif/harness/tlc"
	"verif/harness/vlog"
)

func init() { register("C13", "model_checking", runC13) }

type stackParams struct {
	Kind     string `json:"kind"`
	Depth    int    `json:"depth"`
	NS       int    `json:"ns"`
	NR       int    `json:"nr"`
	DataSize int    `json:"datasize"`
	ViaSO    bool   `json:"-"` // the module is the one a Bondmachine's queue / stack shared object renders
}

type stackEvent struct {
	Ev    string   `json:"ev"`
	Kind  string   `json:"kind,omitempty"`
	Depth int      `json:"depth,omitempty"`
	NS    int      `json:"ns,omitempty"`
	NR    int      `json:"nr,omitempty"`
	Bound int      `json:"bound"`
	W     []bool   `json:"w,omitempty"`
	D     []uint64 `json:"d,omitempty"`
	R     []bool   `json:"r,omitempty"`
	WAck  []bool   `json:"wack,omitempty"`
	RAck  []bool   `json:"rack,omitempty"`
	RData []uint64 `json:"rdata,omitempty"`
	Empty bool     `json:"empty"`
	Full  bool     `json:"full"`
}

// stackSim is the real generated module loaded in the interpreter.
type stackSim struct {
	p   stackParams
	sim *vlog.Sim
	sn  []string
	rn  []string
}

// soModule renders the module of a queue (FIFO) or stack (LIFO) shared object of a real Bondmachine
// with NS processors that send to it and NR processors that receive from it.
func soModule(p stackParams) (text string, sn, rn []string, err error) {
	defer func() {
		if e := recover(); e != nil {
			err = fmt.Errorf("panic: %v", e)
		}
	}()
	kind, sendOp, recvOp := "queue", "r2q", "q2r"
	if p.Kind == "LIFO" {
		kind, sendOp, recvOp = "stack", "r2t", "t2r"
	}
	bm := newBM(p.DataSize)
	mk := func(op string) *procbuilder.Machine {
		m := new(procbuilder.Machine)
		m.Rsize = uint8(p.DataSize)
		m.R, m.Modes = 1, []string{"ha"}
		for _, o := range procbuilder.Allopcodes {
			if o.Op_get_name() == op || o.Op_get_name() == "j" {
				m.Op = append(m.Op, o)
			}
		}
		return m
	}
	for i := 0; i < p.NS; i++ {
		addProc(bm, mk(sendOp))
		sn = append(sn, fmt.Sprintf("p%d%s_send", i, kind))
	}
	for i := 0; i < p.NR; i++ {
		addProc(bm, mk(recvOp))
		rn = append(rn, fmt.Sprintf("p%d%s_recv", p.NS+i, kind))
	}
	bm.Add_shared_objects([]string{kind + ":" + strconv.Itoa(p.Depth)})
	if len(bm.Shared_objects) != 1 {
		return "", nil, nil, fmt.Errorf("shared object %s:%d was not instantiated", kind, p.Depth)
	}
	for i := 0; i < p.NS+p.NR; i++ {
		bm.Connect_processor_shared_object([]string{strconv.Itoa(i), "0"})
	}
	return bm.Shared_objects[0].Write_verilog(bm, 0, "bmstack", "iverilog"), sn, rn, nil
}

// storageShape compares the storage of the generated module with its parameters (BMStack: mem is a
// function from Depth slots to DataSize-bit words); "" when it is Depth words of DataSize bits.
func (ss *stackSim) storageShape() string {
	depth, isMem := ss.sim.IsMem("memory")
	if !isMem {
		return "the module has no memory array `memory`"
	}
	if w := ss.sim.Width("memory"); depth != ss.p.Depth || w != ss.p.DataSize {
		return fmt.Sprintf("`memory` is %d words of %d bits, the parameters demand %d words of %d bits", depth, w, ss.p.Depth, ss.p.DataSize)
	}
	return ""
}

func newStackSim(p stackParams) (*stackSim, error) {
	if p.ViaSO {
		text, sn, rn, err := soModule(p)
		if err != nil {
			return nil, err
		}
		d, err := vlog.Parse(text)
		if err != nil {
			return nil, fmt.Errorf("generated Verilog does not parse: %v", err)
		}
		sim, err := vlog.Elaborate(d, "bmstack")
		if err != nil {
			return nil, fmt.Errorf("generated Verilog does not elaborate: %v", err)
		}
		return &stackSim{p: p, sim: sim, sn: sn, rn: rn}, nil
	}
	s := bmstack.CreateBasicStack()
	s.ModuleName = "bmstack"
	s.DataSize = p.DataSize
	s.Depth = p.Depth
	s.MemType = p.Kind
	ss := &stackSim{p: p}
	for i := 0; i < p.NS; i++ {
		ss.sn = append(ss.sn, "s"+strconv.Itoa(i))
	}
	for i := 0; i < p.NR; i++ {
		ss.rn = append(ss.rn, "r"+strconv.Itoa(i))
	}
	s.Senders = ss.sn
	s.Receivers = ss.rn
	text, err := s.WriteHDL()
	if err != nil {
		return nil, fmt.Errorf("WriteHDL: %v", err)
	}
	d, err := vlog.Parse(text)
	if err != nil {
		return nil, fmt.Errorf("generated Verilog does not parse: %v", err)
	}
	sim, err := vlog.Elaborate(d, "bmstack")
	if err != nil {
		return nil, fmt.Errorf("generated Verilog does not elaborate: %v", err)
	}
	ss.sim = sim
	return ss, nil
}

func b2u(b bool) uint64 {
	if b {
		return 1
	}
	return 0
}

func (ss *stackSim) reset() error {
	ss.sim.Set("reset", 1)
	for _, n := range ss.sn {
		ss.sim.Set(n+"Write", 0)
		ss.sim.Set(n+"Data", 0)
	}
	for _, n := range ss.rn {
		ss.sim.Set(n+"Read", 0)
	}
	if err := ss.sim.Step("clk"); err != nil {
		return err
	}
	ss.sim.Set("reset", 0)
	return ss.sim.Settle()
}

func (ss *stackSim) setInputs(w []bool, d []uint64, r []bool) {
	for i, n := range ss.sn {
		ss.sim.Set(n+"Write", b2u(w[i]))
		ss.sim.Set(n+"Data", d[i])
	}
	for i, n := range ss.rn {
		ss.sim.Set(n+"Read", b2u(r[i]))
	}
}

func (ss *stackSim) get(name string) (uint64, error) {
	v, ok := ss.sim.Get(name)
	if !ok {
		return 0, fmt.Errorf("signal %s is unknown (X) or missing", name)
	}
	return v, nil
}

// clock applies the inputs, runs one clock and returns the interface event.
func (ss *stackSim) clock(w []bool, d []uint64, r []bool) (stackEvent, error) {
	ss.setInputs(w, d, r)
	if err := ss.sim.Step("clk"); err != nil {
		return stackEvent{}, err
	}
	ev := stackEvent{Ev: "clk", W: w, D: d, R: r}
	for _, n := range ss.sn {
		v, err := ss.get(n + "Ack")
		if err != nil {
			return ev, err
		}
		ev.WAck = append(ev.WAck, v == 1)
	}
	for _, n := range ss.rn {
		v, err := ss.get(n + "Ack")
		if err != nil {
			return ev, err
		}
		ev.RAck = append(ev.RAck, v == 1)
		dv, err := ss.get(n + "Data")
		if err != nil {
			return ev, err
		}
		ev.RData = append(ev.RData, dv)
	}
	e, err := ss.get("empty")
	if err != nil {
		return ev, err
	}
	f, err := ss.get("full")
	if err != nil {
		return ev, err
	}
	ev.Empty, ev.Full = e == 1, f == 1
	return ev, nil
}

func funInts(v tlaval.Value, n int) []uint64 {
	out := make([]uint64, n)
	for _, kv := range tlaval.AsFun(v) {
		out[tlaval.Int(kv.K)-keyBase(v)] = uint64(tlaval.Int(kv.V))
	}
	return out
}

func funBools(v tlaval.Value, n int) []bool {
	out := make([]bool, n)
	for _, kv := range tlaval.AsFun(v) {
		out[tlaval.Int(kv.K)-keyBase(v)] = tlaval.Bool(kv.V)
	}
	return out
}

// keyBase: TLC prints a function over 0..n-1 as (0 :> ..), over 1..n as a tuple.
func keyBase(v tlaval.Value) int {
	if _, ok := v.(tlaval.Seq); ok {
		return 1
	}
	return 0
}

// setRegs forces the module's registers to the model state.
func (ss *stackSim) setRegs(st map[string]tlaval.Value) error {
	p := ss.p
	for i, v := range funInts(st["mem"], p.Depth) {
		if err := ss.sim.SetMem("memory", i, v); err != nil {
			return err
		}
	}
	set := func(n string, v uint64) error { return ss.sim.Set(n, v) }
	if err := set("sp", uint64(tlaval.Int(st["sp"]))); err != nil {
		return err
	}
	if p.Kind == "FIFO" {
		set("readsp", uint64(tlaval.Int(st["readsp"])))
		set("writesp", uint64(tlaval.Int(st["writesp"])))
	}
	set("sendSM", uint64(tlaval.Int(st["sendSM"])))
	set("recvSM", uint64(tlaval.Int(st["recvSM"])))
	for i, b := range funBools(st["sAck"], p.NS) {
		set(ss.sn[i]+"Ack", b2u(b))
	}
	for i, b := range funBools(st["rAck"], p.NR) {
		set(ss.rn[i]+"Ack", b2u(b))
	}
	for i, v := range funInts(st["rData"], p.NR) {
		set(ss.rn[i]+"Data", v)
	}
	return nil
}

// regsDiff compares the module's registers with the model state; "" when equal.
func (ss *stackSim) regsDiff(st map[string]tlaval.Value) string {
	p := ss.p
	chk := func(name string, want uint64) string {
		v, ok := ss.sim.Get(name)
		if !ok || v != want {
			return fmt.Sprintf("%s model=%d real=%d(known=%v)", name, want, v, ok)
		}
		return ""
	}
	for i, v := range funInts(st["mem"], p.Depth) {
		got, ok := ss.sim.GetMem("memory", i)
		if !ok || got != v {
			return fmt.Sprintf("memory[%d] model=%d real=%d", i, v, got)
		}
	}
	if d := chk("sp", uint64(tlaval.Int(st["sp"]))); d != "" {
		return d
	}
	if p.Kind == "FIFO" {
		if d := chk("readsp", uint64(tlaval.Int(st["readsp"]))); d != "" {
			return d
		}
		if d := chk("writesp", uint64(tlaval.Int(st["writesp"]))); d != "" {
			return d
		}
	}
	if d := chk("sendSM", uint64(tlaval.Int(st["sendSM"]))); d != "" {
		return d
	}
	if d := chk("recvSM", uint64(tlaval.Int(st["recvSM"]))); d != "" {
		return d
	}
	for i, b := range funBools(st["sAck"], p.NS) {
		if d := chk(ss.sn[i]+"Ack", b2u(b)); d != "" {
			return d
		}
	}
	for i, b := range funBools(st["rAck"], p.NR) {
		if d := chk(ss.rn[i]+"Ack", b2u(b)); d != "" {
			return d
		}
	}
	for i, v := range funInts(st["rData"], p.NR) {
		if d := chk(ss.rn[i]+"Data", v); d != "" {
			return d
		}
	}
	return ""
}

func stackCfg(p stackParams, dmax, waitBound int, prompt bool, dump bool) string {
	var sb strings.Builder
	fmt.Fprintf(&sb, "SPECIFICATION Spec\nCONSTANTS\n Kind = \"%s\"\n Depth = %d\n NS = %d\n NR = %d\n DMax = %d\n WaitBound = %d\n Prompt = %s\n",
		p.Kind, p.Depth, p.NS, p.NR, dmax, waitBound, strings.ToUpper(fmt.Sprint(prompt)))
	sb.WriteString("INVARIANT TypeOK\nINVARIANT FlagsOK\nPROPERTY StepOK\nCHECK_DEADLOCK FALSE\n")
	if prompt {
		sb.WriteString("INVARIANT BoundedResponse\n")
	}
	return sb.String()
}

// responseBound is the number of clocks within which an eligible, continuously requesting agent
// must be acknowledged when the other agents drop their requests as soon as they are
// acknowledged: every other agent can be served once (2 clocks each: transfer + ack turn-around)
// and reads have priority until the store is drained.
func responseBound(p stackParams) int { return 2*(p.NS+p.NR) + 2*p.Depth + 2 }

func runC13(r *evid.Run) {
	scratch, err := os.MkdirTemp("", "bmverif-c13-")
	if err != nil {
		r.Inconclusive("mktemp: %v", err)
		return
	}
	defer os.RemoveAll(scratch)
	rng := rand.New(rand.NewSource(r.Seed))

	tracePath := filepath.Join(scratch, "trace.ndjson")
	tf, _ := os.Create(tracePath)
	enc := json.NewEncoder(tf)
	nLines := 0
	type seg struct {
		first, last int
		p           stackParams
		source      string
	}
	var segs []seg
	var lineEv []stackEvent
	emit := func(ev stackEvent) {
		enc.Encode(ev)
		nLines++
		lineEv = append(lineEv, ev)
	}

	// ---- 1/2. exhaustive models + transition replay ------------------------------------------
	type inst struct {
		p      stackParams
		prompt bool
	}
	var insts []inst
	for _, k := range []string{"LIFO", "FIFO"} {
		for d := 1; d <= 3; d++ {
			insts = append(insts, inst{stackParams{k, d, 1, 1, 1, false}, false})
		}
		insts = append(insts, inst{stackParams{k, 2, 2, 1, 1, false}, false}, inst{stackParams{k, 2, 1, 2, 1, false}, false})
		insts = append(insts, inst{stackParams{k, 2, 1, 1, 1, false}, true}, inst{stackParams{k, 2, 2, 2, 1, false}, true})
		// the same module as the queue / stack shared object of a Bondmachine renders it
		insts = append(insts, inst{stackParams{k, 2, 1, 1, 1, true}, false}, inst{stackParams{k, 3, 2, 1, 1, true}, true})
	}
	if r.Thorough() {
		for _, k := range []string{"LIFO", "FIFO"} {
			insts = append(insts,
				inst{stackParams{k, 2, 2, 2, 1, false}, false}, inst{stackParams{k, 3, 2, 2, 1, false}, true},
				inst{stackParams{k, 4, 1, 1, 1, false}, false}, inst{stackParams{k, 3, 3, 1, 1, false}, true}, inst{stackParams{k, 3, 1, 3, 1, false}, true},
				inst{stackParams{k, 2, 3, 2, 1, false}, true})
		}
	}
	type mcOut struct {
		res *tlc.Result
		err error
	}
	outs := make([]mcOut, len(insts))
	sem := make(chan struct{}, 4)
	var wg sync.WaitGroup
	for i, in := range insts {
		wg.Add(1)
		go func(i int, in inst) {
			defer wg.Done()
			sem <- struct{}{}
			defer func() { <-sem }()
			res, err := tlc.Run(tlc.Options{SpecDir: specDir, Module: "BMStack", CfgText: stackCfg(in.p, 1, responseBound(in.p), in.prompt, true),
				Workers: 4, DumpDot: true, Scratch: filepath.Join(scratch, "mc"+strconv.Itoa(i)), KeepDir: true, Timeout: 30 * time.Minute})
			outs[i] = mcOut{res, err}
		}(i, in)
	}
	wg.Wait()
	var states, transitions, replayed, lockMismatch int64
	var firstMismatch interface{}
	for i, in := range insts {
		o := outs[i]
		if o.err != nil {
			r.Inconclusive("tlc %v: %v", in.p, o.err)
			return
		}
		if !o.res.OK() {
			r.Inconclusive("TLC did not accept BMStack for %v prompt=%v (%s %s): the model is inconsistent with the property; no verdict about the code\n%s", in.p, in.prompt, o.res.Violation, o.res.ViolationName, tailStr(o.res.Stdout, 800))
			return
		}
		states += o.res.Distinct
		g, err := tlc.ParseDot(o.res.DotPath)
		os.RemoveAll(o.res.Dir)
		if err != nil {
			r.Inconclusive("dot: %v", err)
			return
		}
		transitions += int64(len(g.Edges))
		ss, err := newStackSim(in.p)
		if err != nil {
			r.Inconclusive("real module %v is not executable: %v", in.p, err)
			return
		}
		if err := ss.reset(); err != nil {
			r.Inconclusive("real module %v: %v", in.p, err)
			return
		}
		if shape := ss.storageShape(); shape != "" {
			r.Violate("storage-shape", fmt.Sprintf("%v: %s", in.p, shape), map[string]interface{}{"params": in.p})
			continue
		}
		bound := 0
		if in.prompt {
			bound = responseBound(in.p)
		}
		// Replay: walk the graph edge by edge.  Each transition is executed in isolation: registers
		// forced to the pre-state, inputs = the pre-state's input lines, one clock.
		for _, e := range g.Edges {
			pre, post := g.Nodes[e.From], g.Nodes[e.To]
			if pre == nil || post == nil {
				continue
			}
			if err := ss.setRegs(pre); err != nil {
				r.Inconclusive("cannot set registers of %v: %v", in.p, err)
				return
			}
			w, d, rd := funBools(pre["sWrite"], in.p.NS), funInts(pre["sData"], in.p.NS), funBools(pre["rRead"], in.p.NR)
			if _, err := ss.clock(w, d, rd); err != nil {
				r.Inconclusive("real module %v: %v", in.p, err)
				return
			}
			replayed++
			if diff := ss.regsDiff(post); diff != "" {
				lockMismatch++
				if firstMismatch == nil {
					firstMismatch = map[string]interface{}{"params": in.p, "pre": tlaval.ToJSONable(tlaval.Rec(pre)), "spec_post": tlaval.ToJSONable(tlaval.Rec(post)), "diff": diff}
				}
			}
		}
		// Behaviours for the verdict: random walks through the same graph executed on the real
		// module from reset (interface signals only are recorded).
		succ := map[string][]string{}
		for _, e := range g.Edges {
			succ[e.From] = append(succ[e.From], e.To)
		}
		nWalks := r.Pick(12, 60)
		for wk := 0; wk < nWalks && len(g.Init) > 0; wk++ {
			if err := ss.reset(); err != nil {
				r.Inconclusive("reset: %v", err)
				return
			}
			first := nLines + 1
			emit(stackEvent{Ev: "reset", Kind: in.p.Kind, Depth: in.p.Depth, NS: in.p.NS, NR: in.p.NR, Bound: bound})
			cur := g.Init[0]
			for step := 0; step < 60; step++ {
				st := g.Nodes[cur]
				ev, err := ss.clock(funBools(st["sWrite"], in.p.NS), funInts(st["sData"], in.p.NS), funBools(st["rRead"], in.p.NR))
				if err != nil {
					r.Inconclusive("real module %v: %v", in.p, err)
					return
				}
				ev.Bound = bound
				emit(ev)
				nx := succ[cur]
				if len(nx) == 0 {
					break
				}
				// follow the model successor whose registers the real module actually reached
				var cands []string
				for _, n := range nx {
					if ss.regsDiff(g.Nodes[n]) == "" {
						cands = append(cands, n)
					}
				}
				if len(cands) == 0 {
					// the real module's registers left the model's graph: keep driving it with the inputs of
					// some model successor, so that the interface trace shows what the divergence does
					cands = nx
				}
				cur = cands[rng.Intn(len(cands))]
			}
			segs = append(segs, seg{first, nLines, in.p, "model-walk"})
			r.Distinct(fmt.Sprintf("walk|%v|%d", in.p, wk))
		}
	}
	r.Set("states", states)
	r.Set("transitions", transitions)
	r.Set("transitions_replayed", replayed)
	r.Set("lockstep_mismatches", lockMismatch)
	if firstMismatch != nil {
		r.Set("first_lockstep_mismatch", firstMismatch)
	}
	r.Set("exhaustive", lockMismatch == 0)
	r.Set("instances_model_checked", int64(len(insts)))

	// ---- 3. random protocol-abiding environments on larger real modules ----------------------
	nRand := r.Pick(120, 1500)
	for i := 0; i < nRand; i++ {
		p := stackParams{Kind: []string{"LIFO", "FIFO"}[rng.Intn(2)], Depth: 1 + rng.Intn(5), NS: 1 + rng.Intn(3), NR: 1 + rng.Intn(3), DataSize: 1 + rng.Intn(4)}
		ss, err := newStackSim(p)
		if err != nil {
			r.Inconclusive("real module %v is not executable: %v", p, err)
			return
		}
		if err := ss.reset(); err != nil {
			r.Inconclusive("reset: %v", err)
			return
		}
		if shape := ss.storageShape(); shape != "" {
			r.Violate("storage-shape", fmt.Sprintf("%v: %s", p, shape), map[string]interface{}{"params": p})
			continue
		}
		prompt := rng.Intn(2) == 0
		bound := 0
		if prompt {
			bound = responseBound(p)
		}
		first := nLines + 1
		emit(stackEvent{Ev: "reset", Kind: p.Kind, Depth: p.Depth, NS: p.NS, NR: p.NR, Bound: bound})
		w, d, rd := make([]bool, p.NS), make([]uint64, p.NS), make([]bool, p.NR)
		wack, rack := make([]bool, p.NS), make([]bool, p.NR)
		pw, pr := 1+rng.Intn(4), 1+rng.Intn(4) // request probabilities 1/pw, 1/pr
		for step := 0; step < 150; step++ {
			ev, err := ss.clock(append([]bool{}, w...), append([]uint64{}, d...), append([]bool{}, rd...))
			if err != nil {
				r.Inconclusive("real module %v: %v", p, err)
				return
			}
			ev.Bound = bound
			emit(ev)
			copy(wack, ev.WAck)
			copy(rack, ev.RAck)
			// environment move (same protocol as BMStack!EnvMove)
			for s := 0; s < p.NS; s++ {
				switch {
				case w[s] && !wack[s]: // hold
				case w[s] && wack[s]:
					if prompt || rng.Intn(2) == 0 {
						w[s], d[s] = false, 0
					}
				case !w[s] && wack[s]: // wait for the ack to fall
				default:
					if rng.Intn(pw) == 0 {
						w[s], d[s] = true, uint64(rng.Intn(1<<p.DataSize))
					}
				}
			}
			for q := 0; q < p.NR; q++ {
				switch {
				case rd[q] && !rack[q]:
				case rd[q] && rack[q]:
					if prompt || rng.Intn(2) == 0 {
						rd[q] = false
					}
				case !rd[q] && rack[q]:
				default:
					if rng.Intn(pr) == 0 {
						rd[q] = true
					}
				}
			}
		}
		segs = append(segs, seg{first, nLines, p, "random-env"})
		r.Distinct(fmt.Sprintf("rand|%v|%d", p, i))
		if i%(nRand/3+1) == 0 {
			r.Sample(map[string]interface{}{"kind": "random-env", "params": p, "prompt": prompt, "clocks": 150})
		}
	}
	tf.Close()
	r.Set("trace_events", int64(nLines))

	// ---- 4. verdict -------------------------------------------------------------------------------
	vres, err := tlc.Run(tlc.Options{SpecDir: specDir, Module: "BMStackTrace", Cfg: "BMStackTrace.cfg", Workers: 1,
		Env: map[string]string{"TRACE": tracePath}, Timeout: 30 * time.Minute})
	if err != nil {
		r.Inconclusive("tlc trace validation: %v", err)
		return
	}
	for _, m := range reReject.FindAllStringSubmatch(vres.Stdout, -1) {
		line, _ := strconv.Atoi(m[1])
		var sg *seg
		for i := range segs {
			if line >= segs[i].first && line <= segs[i].last {
				sg = &segs[i]
				break
			}
		}
		if sg == nil {
			r.Inconclusive("reject at unknown line %d", line)
			continue
		}
		from := line - 8
		if from < sg.first {
			from = sg.first
		}
		r.Violate(sg.p.Kind+":"+m[2], fmt.Sprintf("generated %s depth=%d senders=%d receivers=%d datasize=%d: clock %d of a real execution breaks the property: %s", sg.p.Kind, sg.p.Depth, sg.p.NS, sg.p.NR, sg.p.DataSize, line-sg.first, m[2]),
			map[string]interface{}{"params": sg.p, "source": sg.source, "clock": line - sg.first, "reason": m[2], "last_events": lineEv[from-1 : line]})
	}
	if vres.Violation != "" || !strings.Contains(vres.Stdout, "No error has been found") {
		r.Inconclusive("trace validation did not complete (%s %s): %s", vres.Violation, vres.ViolationName, tailStr(vres.Stdout, 1500))
		return
	}
	r.Set("traces_validated_against_impl", int64(len(segs)))
	r.Set("evaluations", int64(len(segs))+replayed)
	r.Sample(map[string]interface{}{"kind": "transition-replay", "instances": len(insts), "transitions": replayed})
}
