package main

// C09 — simulation results do not depend on scheduling or on other simulations.
//
//  1. TLC explores BMSimSched (coordinator/worker goroutines over unbuffered channels, opcode
//     singletons) exhaustively: no deadlock, refinement of the per-tick barrier BMSimBarrier,
//     Deterministic; with the pipeline phase per processor and, as a candidate generator, shared
//     as the opcode singletons would make it.
//  2. Child processes (this binary, built with -race, GOMAXPROCS 1..16) run real simulations
//     alone and concurrently with schedules perturbed from a seed through the verif hooks; the
//     hooks record the barrier events, the driver a digest of the full VM state after every tick.
//  3. TLC validates every recorded run against BMSimBarrier and the determinism statement
//     (BMSimSchedTrace).  A data race reported by the race detector fails the run.

import (
	"bytes"
	"context"
	"crypto/sha1"
	"encoding/hex"
	"encoding/json"
	"fmt"
	"math/rand"
	"os"
	"os/exec"
	"path/filepath"
	"runtime"
	"sort"
	"strconv"
	"strings"
	"sync"
	"time"

	"github.com/BondMachineHQ/BondMachine/pkg/bondmachine"
	"github.com/BondMachineHQ/BondMachine/pkg/simbox"

	"verif/harness/evid"
	"verif/harness/tlc"
)

func init() {
	register("C09", "model_checking", runC09)
}

type schedEvent struct {
	Ev   string `json:"ev"`
	NP   []int  `json:"np,omitempty"`
	T0   []int  `json:"t0,omitempty"`
	Sim  int    `json:"sim,omitempty"`
	P    int    `json:"p"`
	Tick int    `json:"tick"`
	D    string `json:"d,omitempty"`
	Ref  string `json:"ref,omitempty"`
	Note string `json:"note,omitempty"`
}

// ---- machines --------------------------------------------------------------------------------

type schedMachine struct {
	name  string
	build func() (*bondmachine.Bondmachine, error)
}

func schedMachines() []schedMachine {
	return []schedMachine{
		{"pipeline", func() (*bondmachine.Bondmachine, error) {
			bm := newBM(8)
			ops := []string{"inc", "r2owa", "i2rw", "j", "add", "nop"}
			p0, err := mkMachine(8, 2, 0, 1, 0, ops, "inc r0\nr2owa r0 o0\nj 0\n")
			if err != nil {
				return nil, err
			}
			p1, err := mkMachine(8, 2, 1, 1, 0, ops, "i2rw r0 i0\nadd r1 r0\nnop\nr2owa r1 o0\nj 0\n")
			if err != nil {
				return nil, err
			}
			addProc(bm, p0)
			addProc(bm, p1)
			bm.Add_output()
			bm.Add_bond([]string{"p1i0", "p0o0"})
			bm.Add_bond([]string{"o0", "p1o0"})
			return bm, nil
		}},
		{"arith3", func() (*bondmachine.Bondmachine, error) {
			bm := newBM(16)
			ops := []string{"inc", "add", "mult", "j", "cpy", "dec"}
			for i := 0; i < 3; i++ {
				p, err := mkMachine(16, 2, 0, 0, 0, ops, "inc r0\nadd r1 r0\nmult r2 r1\ninc r2\ncpy r3 r2\ndec r3\nj 0\n")
				if err != nil {
					return nil, err
				}
				addProc(bm, p)
			}
			return bm, nil
		}},
		{"addp2", func() (*bondmachine.Bondmachine, error) {
			bm := newBM(8)
			ops := []string{"rset", "addp", "multp", "j", "inc"}
			for i := 0; i < 2; i++ {
				p, err := mkMachine(8, 2, 0, 0, 0, ops, "rset r1 3\nrset r2 2\naddp r0 r1\ninc r3\nmultp r2 r1\nj 2\n")
				if err != nil {
					return nil, err
				}
				addProc(bm, p)
			}
			return bm, nil
		}},
		// a consumer that reads three inputs back to back: several deferred actions (the recv drops) are
		// pending on one processor at the same time and become ready in different ticks
		{"gather3", func() (*bondmachine.Bondmachine, error) {
			bm := newBM(8)
			ops := []string{"inc", "r2owa", "i2rw", "j", "add", "nop"}
			for i, prog := range []string{"inc r0\nr2owa r0 o0\nj 0\n", "inc r0\ninc r0\nnop\nr2owa r0 o0\nj 0\n", "inc r0\nnop\nnop\nnop\nnop\nr2owa r0 o0\nj 0\n"} {
				p, err := mkMachine(8, 2, 0, 1, 0, ops, prog)
				if err != nil {
					return nil, fmt.Errorf("producer %d: %v", i, err)
				}
				addProc(bm, p)
			}
			c, err := mkMachine(8, 2, 3, 1, 0, ops, "i2rw r0 i0\ni2rw r1 i1\ni2rw r2 i2\nadd r0 r1\nadd r0 r2\nr2owa r0 o0\nj 0\n")
			if err != nil {
				return nil, err
			}
			addProc(bm, c)
			bm.Add_output()
			for i := 0; i < 3; i++ {
				bm.Add_bond([]string{"p3i" + strconv.Itoa(i), "p" + strconv.Itoa(i) + "o0"})
			}
			bm.Add_bond([]string{"o0", "p3o0"})
			return bm, nil
		}},
		{"addp1", func() (*bondmachine.Bondmachine, error) {
			bm := newBM(8)
			p, err := mkMachine(8, 2, 0, 0, 0, []string{"rset", "addp", "divp", "j"}, "rset r1 3\nrset r2 200\naddp r0 r1\ndivp r2 r1\nj 2\n")
			if err != nil {
				return nil, err
			}
			addProc(bm, p)
			return bm, nil
		}},
	}
}

func vmDigest(vm *bondmachine.VM) string {
	h := sha1.New()
	for _, p := range vm.Processors {
		fmt.Fprint(h, p.Pc, p.Registers, p.Memory, p.Inputs, p.Outputs, p.InputsValid, p.OutputsValid, p.InputsRecv, p.OutputsRecv, p.DelayCounter, len(p.DeferredInstructions), "|")
	}
	fmt.Fprint(h, vm.Inputs_regs, vm.Outputs_regs, vm.Internal_inputs_regs, vm.Internal_outputs_regs, vm.InputsValid, vm.OutputsValid, vm.InternalInputsValid,
		vm.InternalOutputsValid, vm.InputsRecv, vm.OutputsRecv, vm.InternalInputsRecv, vm.InternalOutputsRecv)
	return hex.EncodeToString(h.Sum(nil)[:8])
}

// reportingBox is a simulation box that asks every processor for its register and port dumps.
func reportingBox() *simbox.Simbox {
	sb := new(simbox.Simbox)
	for _, rule := range []string{"config:show_proc_regs_pre", "config:show_proc_io_pre"} {
		sb.Add(rule)
	}
	return sb
}

// tickLoop runs n ticks under the environment protocol of the simulation loops and returns the
// digest after each tick.
func tickLoop(vm *bondmachine.VM, n int, each func(t int, d string)) error {
	for t := 0; t < n; t++ {
		for i, rc := range vm.InputsRecv {
			if rc {
				vm.InputsValid[i] = false
			}
		}
		text, err := vm.Step(nil)
		if err != nil {
			return err
		}
		for i, v := range vm.OutputsValid {
			vm.OutputsRecv[i] = v
		}
		// what the processors reported in this tick (register and port dumps, when the simulation box asks
		// for them) belongs to the outcome; the order in which the workers hand their lines over does not
		lines := strings.Split(text, "\n")
		sort.Strings(lines)
		h := sha1.Sum([]byte(strings.Join(lines, "\n")))
		each(t, vmDigest(vm)+"/"+hex.EncodeToString(h[:4]))
	}
	return nil
}

// ---- child: records real runs --------------------------------------------------------------------

func c09Child(outPath string) int {
	seed := int64(1)
	if s := os.Getenv("VERIF_SEED"); s != "" {
		seed, _ = strconv.ParseInt(s, 10, 64)
	}
	ticks := 40
	if os.Getenv("VERIF_TIER") == "thorough" {
		ticks = 120
	}
	f, err := os.Create(outPath)
	if err != nil {
		fmt.Fprintln(os.Stderr, err)
		return 2
	}
	defer f.Close()
	enc := json.NewEncoder(f)
	var mu sync.Mutex
	simOf := map[*bondmachine.VM]int{}
	rng := rand.New(rand.NewSource(seed*1000003 + int64(runtime.GOMAXPROCS(0))))
	perturb := false
	emit := func(e schedEvent) {
		enc.Encode(e)
	}
	bondmachine.VerifHook = func(kind string, vm *bondmachine.VM, proc int) {
		mu.Lock()
		s, ok := simOf[vm]
		var nap int
		if perturb {
			nap = rng.Intn(6)
		}
		if ok {
			emit(schedEvent{Ev: kind, Sim: s, P: proc})
		}
		mu.Unlock()
		// schedule perturbation: outside the lock, after the event has been recorded
		switch nap {
		case 1, 2:
			runtime.Gosched()
		case 3:
			time.Sleep(time.Duration(20+nap*15) * time.Microsecond)
		}
	}
	machines := schedMachines()
	// reference digests: every machine alone, no perturbation, nothing recorded
	refs := map[string][]string{}
	for _, m := range machines {
		bm, err := m.build()
		if err != nil {
			fmt.Fprintln(os.Stderr, "build", m.name, err)
			return 2
		}
		startVMRules = []string{"config:show_proc_regs_pre", "config:show_proc_io_pre"}
		vm, err := startVM(bm, nil)
		startVMRules = nil
		if err != nil {
			fmt.Fprintln(os.Stderr, err)
			return 2
		}
		var ds []string
		if err := tickLoop(vm, ticks, func(t int, d string) { ds = append(ds, d) }); err != nil {
			fmt.Fprintln(os.Stderr, err)
			return 2
		}
		refs[m.name] = ds
	}
	runGroup := func(note string, names []string) bool {
		var vms []*bondmachine.VM
		var nps []int
		mu.Lock()
		for k := range simOf {
			delete(simOf, k)
		}
		for i, n := range names {
			var m schedMachine
			for _, c := range machines {
				if c.name == n {
					m = c
				}
			}
			bm, err := m.build()
			if err != nil {
				mu.Unlock()
				return false
			}
			vm := new(bondmachine.VM)
			vm.Bmach = bm
			if err := vm.Init(); err != nil {
				mu.Unlock()
				return false
			}
			simOf[vm] = i + 1
			vms = append(vms, vm)
			nps = append(nps, len(bm.Processors))
		}
		emit(schedEvent{Ev: "run", NP: nps, T0: make([]int, len(nps)), Note: note + ":" + strings.Join(names, "+")})
		perturb = true
		mu.Unlock()
		var wg sync.WaitGroup
		okAll := true
		for i, vm := range vms {
			wg.Add(1)
			go func(i int, vm *bondmachine.VM) {
				defer wg.Done()
				if err := vm.Launch_processors(reportingBox()); err != nil {
					okAll = false
					return
				}
				ref := refs[names[i]]
				err := tickLoop(vm, ticks, func(t int, d string) {
					mu.Lock()
					emit(schedEvent{Ev: "digest", Sim: i + 1, Tick: int(vm.VerifTick()), D: d, Ref: ref[t]})
					mu.Unlock()
				})
				if err != nil {
					okAll = false
				}
			}(i, vm)
		}
		wg.Wait()
		mu.Lock()
		perturb = false
		mu.Unlock()
		return okAll
	}
	reps := 3
	if os.Getenv("VERIF_TIER") == "thorough" {
		reps = 12
	}
	for rep := 0; rep < reps; rep++ {
		for _, m := range machines {
			if !runGroup("alone", []string{m.name}) {
				return 2
			}
		}
		groups := [][]string{{"pipeline", "pipeline"}, {"arith3", "pipeline", "arith3"}, {"addp1", "addp1"}, {"addp2", "addp1"}, {"addp2", "addp2", "pipeline"}, {"arith3", "addp2", "pipeline", "addp1"}}
		for _, g := range groups {
			if !runGroup("concurrent", g) {
				return 2
			}
		}
		if !runFork(machines, refs, ticks, &mu, simOf, emit, &perturb) {
			return 2
		}
		if !runCalls(&mu, emit) {
			return 2
		}
	}
	return 0
}

// runFork steps a simulation for a few ticks, forks it with VM.CopyState into a second VM and
// then runs the original and the fork concurrently: both must follow the trace of the
// simulation run alone.
func runFork(machines []schedMachine, refs map[string][]string, ticks int, mu *sync.Mutex, simOf map[*bondmachine.VM]int, emit func(schedEvent), perturb *bool) bool {
	for _, name := range []string{"addp2", "pipeline"} {
		var m schedMachine
		for _, c := range machines {
			if c.name == name {
				m = c
			}
		}
		bm, err := m.build()
		if err != nil {
			return false
		}
		const forkAt = 3
		mk := func() *bondmachine.VM {
			vm := new(bondmachine.VM)
			vm.Bmach = bm
			vm.SimDelayMap = simbox.NewSimDelays()
			if err := vm.Init(); err != nil {
				return nil
			}
			return vm
		}
		orig := mk()
		if orig == nil || orig.Launch_processors(reportingBox()) != nil {
			return false
		}
		if err := tickLoop(orig, forkAt, func(int, string) {}); err != nil {
			return false
		}
		fork := mk()
		if fork == nil || fork.CopyState(orig) != nil || fork.Launch_processors(reportingBox()) != nil {
			return false
		}
		mu.Lock()
		for k := range simOf {
			delete(simOf, k)
		}
		simOf[orig], simOf[fork] = 1, 2
		np := len(bm.Processors)
		emit(schedEvent{Ev: "run", NP: []int{np, np}, T0: []int{forkAt, forkAt}, Note: "fork:" + name})
		*perturb = true
		mu.Unlock()
		ref := refs[name]
		var wg sync.WaitGroup
		ok := true
		for i, vm := range []*bondmachine.VM{orig, fork} {
			wg.Add(1)
			go func(i int, vm *bondmachine.VM) {
				defer wg.Done()
				err := tickLoop(vm, ticks-forkAt, func(t int, d string) {
					mu.Lock()
					emit(schedEvent{Ev: "digest", Sim: i + 1, Tick: int(vm.VerifTick()), D: d, Ref: ref[forkAt+t]})
					mu.Unlock()
				})
				if err != nil {
					ok = false
				}
				vm.Stop()
			}(i, vm)
		}
		wg.Wait()
		mu.Lock()
		*perturb = false
		mu.Unlock()
		if !ok {
			return false
		}
	}
	return true
}

// runCalls runs the repository's single-shot entry point from several goroutines at once (the
// simfinetune pattern), with a dynamically created number type for the first output, and compares
// every result with the same call made alone.
func runCalls(mu *sync.Mutex, emit func(schedEvent)) bool {
	mk := func() *bondmachine.Bondmachine {
		bm := newBM(8)
		p, err := mkMachine(8, 2, 0, 2, 0, []string{"inc", "r2o", "r2owa", "j"}, "inc r0\nr2o r0 o0\ninc r0\ninc r0\nr2owa r0 o1\nj 0\n")
		if err != nil {
			return nil
		}
		addProc(bm, p)
		bm.Add_output()
		bm.Add_output()
		bm.Add_bond([]string{"o0", "p0o0"})
		bm.Add_bond([]string{"o1", "p0o1"})
		return bm
	}
	types := []string{"fps8f4", "unsigned", "fxps8f4", "hex"}
	refs := map[string]string{}
	for _, ty := range types {
		bm := mk()
		if bm == nil {
			return false
		}
		res, err := bm.SinglePipelineSimulate(ty, []string{}, nil)
		if err != nil {
			return false
		}
		refs[ty] = strings.Join(res, ",")
	}
	var wg sync.WaitGroup
	ok := true
	for g := 0; g < 8; g++ {
		wg.Add(1)
		go func(g int) {
			defer wg.Done()
			for k := 0; k < 3; k++ {
				ty := types[(g+k)%len(types)]
				bm := mk()
				if bm == nil {
					ok = false
					return
				}
				res, err := bm.SinglePipelineSimulate(ty, []string{}, nil)
				d := strings.Join(res, ",")
				if err != nil {
					d = "error: " + err.Error()
				}
				mu.Lock()
				emit(schedEvent{Ev: "call", D: d, Ref: refs[ty], Note: "SinglePipelineSimulate:" + ty})
				mu.Unlock()
			}
		}(g)
	}
	wg.Wait()
	if !ok {
		return false
	}
	// the same call repeated, with its stimuli written in every spelling of a 32-bit float: every
	// repetition gives the report of the first one (no concurrency involved: what may differ from run to
	// run is the order in which a map is walked)
	mkIn := func() *bondmachine.Bondmachine {
		bm := newBM(32)
		p, err := mkMachine(32, 1, 1, 1, 0, []string{"i2rw", "r2owa", "j"}, "i2rw r0 i0\nr2owa r0 o0\nj 0\n")
		if err != nil {
			return nil
		}
		addProc(bm, p)
		bm.Add_input()
		bm.Add_output()
		bm.Add_bond([]string{"i0", "p0i0"})
		bm.Add_bond([]string{"o0", "p0o0"})
		return bm
	}
	for _, lit := range []string{"0f<32>1.5", "0f1.5", "0x3fc00000", "0f<32>-0.25"} {
		ref := ""
		for k := 0; k < 40; k++ {
			bm := mkIn()
			if bm == nil {
				return false
			}
			res, err := bm.SinglePipelineSimulate("float32", []string{lit}, nil)
			d := strings.Join(res, ",")
			if err != nil {
				d = "error: " + err.Error()
			}
			if k == 0 {
				ref = d
				continue
			}
			mu.Lock()
			emit(schedEvent{Ev: "call", D: d, Ref: ref, Note: "SinglePipelineSimulate:repeated:stimulus-" + lit})
			mu.Unlock()
		}
	}
	// concurrent calls that share one delay table (as the fine tuner's workers do): the table is an
	// argument, a simulation may read it but not change it, and the draws of concurrent simulations
	// (and of the two processors of one simulation) must not share unsynchronised state
	mk2 := func() *bondmachine.Bondmachine {
		bm := newBM(8)
		for i := 0; i < 2; i++ {
			p, err := mkMachine(8, 2, 0, 1, 0, []string{"inc", "r2owa", "j"}, "inc r0\ninc r0\ninc r0\nr2owa r0 o0\nj 0\n") // (the call ends when the last output is valid)
			if err != nil {
				return nil
			}
			addProc(bm, p)
			bm.Add_output()
			bm.Add_bond([]string{"o" + strconv.Itoa(i), "p" + strconv.Itoa(i) + "o0"})
		}
		return bm
	}
	table := func() *simbox.SimDelays {
		sd := simbox.NewSimDelays()
		sd.OpcodeDelays["inc"] = simbox.DelayDistribution{2: 2.0} // one outcome, weight not normalised
		sd.OpcodeDelays["j"] = simbox.DelayDistribution{1: 0.5}
		return sd
	}
	bm0 := mk2()
	if bm0 == nil {
		return false
	}
	refRes, err := bm0.SinglePipelineSimulate("unsigned", []string{}, table())
	if err != nil {
		return false
	}
	ref := strings.Join(refRes, ",")
	shared := table()
	before := fmt.Sprint(shared.OpcodeDelays)
	for g := 0; g < 6; g++ {
		wg.Add(1)
		go func() {
			defer wg.Done()
			for k := 0; k < 2; k++ {
				bm := mk2()
				if bm == nil {
					ok = false
					return
				}
				res, err := bm.SinglePipelineSimulate("unsigned", []string{}, shared)
				d := strings.Join(res, ",")
				if err != nil {
					d = "error: " + err.Error()
				}
				mu.Lock()
				emit(schedEvent{Ev: "call", D: d, Ref: ref, Note: "SinglePipelineSimulate:shared-delay-table"})
				mu.Unlock()
			}
		}()
	}
	wg.Wait()
	if after := fmt.Sprint(shared.OpcodeDelays); after != before {
		mu.Lock()
		emit(schedEvent{Ev: "call", D: "delay table after the calls: " + after, Ref: "delay table before the calls: " + before, Note: "SinglePipelineSimulate:argument-delay-table-modified"})
		mu.Unlock()
	}
	return ok
}

// ---- parent ------------------------------------------------------------------------------------------

func schedCfg(nsims, np, maxTick int, shared bool) string {
	return fmt.Sprintf("SPECIFICATION Spec\nCONSTANTS\n NSims = %d\n NP = %d\n MaxTick = %d\n SharedOp = %s\nINVARIANT DeadlockFree\nINVARIANT Deterministic\nPROPERTY BarrierOK\nCHECK_DEADLOCK FALSE\n",
		nsims, np, maxTick, strings.ToUpper(fmt.Sprint(shared)))
}

func runC09(r *evid.Run) {
	scratch, err := os.MkdirTemp("", "bmverif-c09-")
	if err != nil {
		r.Inconclusive("mktemp: %v", err)
		return
	}
	defer os.RemoveAll(scratch)

	// ---- 1. the goroutine protocol, exhaustively ---------------------------------------------------
	type mc struct{ ns, np, mt int }
	cfgs := []mc{{1, 2, 2}, {1, 3, 2}, {2, 2, 2}}
	if r.Thorough() {
		cfgs = append(cfgs, mc{2, 3, 2}, mc{1, 4, 3}, mc{3, 2, 2})
	}
	var states, transitions int64
	for _, c := range cfgs {
		res, err := tlc.Run(tlc.Options{SpecDir: specDir, Module: "BMSimSched", CfgText: schedCfg(c.ns, c.np, c.mt, false), Workers: 8, Timeout: 25 * time.Minute})
		if err != nil {
			r.Inconclusive("tlc: %v", err)
			return
		}
		if !res.OK() {
			r.Inconclusive("TLC rejects the goroutine protocol model BMSimSched (%d sims, %d procs): %s %s %s", c.ns, c.np, res.Violation, res.ViolationName, tailStr(res.Stdout, 600))
			return
		}
		states += res.Distinct
		transitions += res.Generated
	}
	// the opcode singletons as shared state: a candidate generator, judged on the real code below
	res, err := tlc.Run(tlc.Options{SpecDir: specDir, Module: "BMSimSched", CfgText: schedCfg(1, 2, 2, true), Workers: 4, Timeout: 10 * time.Minute})
	if err == nil {
		states += res.Distinct
		transitions += res.Generated
		if res.Violation == "invariant" {
			r.Set("model_candidate", "with the pipeline phase of addp/multp/divp shared between processors (opcode singletons) BMSimSched violates "+res.ViolationName+" after "+strconv.Itoa(len(res.Trace)-1)+" steps")
		}
	}
	r.Set("states", states)
	r.Set("transitions", transitions)

	// ---- 2. real runs in child processes -------------------------------------------------------------
	self, _ := os.Executable()
	procsList := []int{1, 2, 4, 16}
	tracePath := filepath.Join(scratch, "trace.ndjson")
	tf, _ := os.Create(tracePath)
	var all []schedEvent
	var runs int64
	for _, gmp := range procsList {
		out := filepath.Join(scratch, fmt.Sprintf("child_%d.ndjson", gmp))
		cctx, ccancel := context.WithTimeout(context.Background(), 20*time.Minute)
		defer ccancel()
		cmd := exec.CommandContext(cctx, self, "C09-child", "quick", out)
		cmd.Env = append(os.Environ(), "GOMAXPROCS="+strconv.Itoa(gmp), "VERIF_TIER="+r.Tier, "GORACE=halt_on_error=0")
		var stderr bytes.Buffer
		cmd.Stderr = &stderr
		cmd.Stdout = &stderr
		err := cmd.Run()
		if strings.Contains(stderr.String(), "DATA RACE") {
			rep := stderr.String()
			i := strings.Index(rep, "WARNING: DATA RACE")
			rep = rep[i:]
			if len(rep) > 3000 {
				rep = rep[:3000]
			}
			r.Violate("data-race:"+raceSite(rep), fmt.Sprintf("the race detector reports a data race during simulation (GOMAXPROCS=%d): %s", gmp, raceSite(rep)), rep)
		} else if err != nil {
			r.Inconclusive("child (GOMAXPROCS=%d) failed: %v %s", gmp, err, tailStr(stderr.String(), 500))
			return
		}
		b, err := os.ReadFile(out)
		if err != nil {
			r.Inconclusive("child output: %v", err)
			return
		}
		tf.Write(b)
		for _, ln := range bytes.Split(b, []byte("\n")) {
			if len(ln) == 0 {
				continue
			}
			var e schedEvent
			if json.Unmarshal(ln, &e) == nil {
				all = append(all, e)
				if e.Ev == "run" {
					runs++
					r.Distinct(fmt.Sprintf("%d|%s|%d", gmp, e.Note, runs))
				}
			}
		}
	}
	tf.Close()
	r.Set("recorded_runs", runs)
	r.Set("trace_events", int64(len(all)))
	r.Set("gomaxprocs", procsList)

	// ---- 3. verdict ------------------------------------------------------------------------------------
	vres, err := tlc.Run(tlc.Options{SpecDir: specDir, Module: "BMSimSchedTrace", Cfg: "BMSimSchedTrace.cfg", Workers: 1,
		Env: map[string]string{"TRACE": tracePath}, Timeout: 30 * time.Minute})
	if err != nil {
		r.Inconclusive("tlc trace validation: %v", err)
		return
	}
	for _, m := range reReject.FindAllStringSubmatch(vres.Stdout, -1) {
		line, _ := strconv.Atoi(m[1])
		// find the run this line belongs to
		start := line - 1
		for start > 0 && all[start].Ev != "run" {
			start--
		}
		note := all[start].Note
		if all[line-1].Ev == "call" {
			note = "call:" + all[line-1].Note
		}
		kind := note
		if i := strings.Index(note, ":"); i >= 0 {
			kind = note[i+1:]
		}
		from := line - 12
		if from < start {
			from = start
		}
		r.Violate(m[2]+":"+kind, fmt.Sprintf("real simulation run %q: event %d is rejected: %s", note, line-start, m[2]),
			map[string]interface{}{"run": note, "reason": m[2], "events_before": all[from:line]})
	}
	if vres.Violation != "" || !strings.Contains(vres.Stdout, "No error has been found") {
		r.Inconclusive("trace validation did not complete (%s %s): %s", vres.Violation, vres.ViolationName, tailStr(vres.Stdout, 1500))
		return
	}
	r.Set("traces_validated_against_impl", runs)
	r.Set("evaluations", runs)
	r.Sample(map[string]interface{}{"kind": "recorded run", "first_events": all[:minInt(12, len(all))]})
}

func minInt(a, b int) int {
	if a < b {
		return a
	}
	return b
}

// raceSite extracts the first repository source location of a race report.
func raceSite(rep string) string {
	for _, ln := range strings.Split(rep, "\n") {
		ln = strings.TrimSpace(ln)
		if strings.Contains(ln, "/pkg/") && strings.Contains(ln, ".go:") {
			if i := strings.Index(ln, "/pkg/"); i >= 0 {
				s := ln[i+1:]
				if j := strings.Index(s, " "); j >= 0 {
					s = s[:j]
				}
				if k := strings.LastIndex(s, ":"); k > 0 {
					s = s[:k] // drop the line number: robust to unrelated edits
				}
				return s
			}
		}
	}
	return "unknown"
}
