package main

// Helpers shared by the simulator-facing checks: building real processors/machines through the
// public API and running the real bondmachine.VM tick by tick.

import (
	"fmt"
	"sort"
	"strings"

	"github.com/BondMachineHQ/BondMachine/pkg/bondmachine"
	"github.com/BondMachineHQ/BondMachine/pkg/procbuilder"
	"github.com/BondMachineHQ/BondMachine/pkg/simbox"
)

// neededBits mirrors bondmachine.Needed_bits (used only to size ROM address space generously).
func romBits(n int) int {
	b := 1
	for (1 << b) < n+1 {
		b++
	}
	return b
}

// mkMachine builds a real procbuilder.Machine in "ha" mode with the named opcodes and assembles
// prog (one instruction per line, real assembler syntax) with the real Arch.Assembler.
func mkMachine(rsize, R, N, M, L int, ops []string, prog string) (*procbuilder.Machine, error) {
	m := new(procbuilder.Machine)
	a := &m.Arch
	a.Rsize = uint8(rsize)
	a.Modes = []string{"ha"}
	want := map[string]bool{}
	for _, o := range ops {
		want[o] = true
	}
	opcodes := []procbuilder.Opcode{}
	for _, op := range procbuilder.Allopcodes {
		if want[op.Op_get_name()] {
			opcodes = append(opcodes, op)
			delete(want, op.Op_get_name())
		}
	}
	if len(want) != 0 {
		return nil, fmt.Errorf("unknown opcodes %v", want)
	}
	sort.Sort(procbuilder.ByName(opcodes))
	a.Op = opcodes
	a.R = uint8(R)
	a.L = uint8(L)
	a.N = uint8(N)
	a.M = uint8(M)
	lines := strings.Count(strings.TrimSpace(prog), "\n") + 1
	a.O = uint8(romBits(lines))
	p, err := a.Assembler([]byte(prog))
	if err != nil {
		return nil, err
	}
	m.Program = p
	return m, nil
}

// newBM returns an empty real Bondmachine of the given register size.
func newBM(rsize int) *bondmachine.Bondmachine {
	bm := new(bondmachine.Bondmachine)
	bm.Rsize = uint8(rsize)
	bm.Init()
	return bm
}

func addProc(bm *bondmachine.Bondmachine, m *procbuilder.Machine) int {
	bm.Domains = append(bm.Domains, m)
	bm.Add_processor(len(bm.Domains) - 1)
	return len(bm.Processors) - 1
}

// startVMRules: simulation box rules of the VMs that startVM launches (set by a check around its calls).
var startVMRules []string

// startVM creates, initialises and launches a real simulator VM for bm.
func startVM(bm *bondmachine.Bondmachine, delays *simbox.SimDelays) (*bondmachine.VM, error) {
	vm := new(bondmachine.VM)
	vm.Bmach = bm
	vm.SimDelayMap = delays
	if err := vm.Init(); err != nil {
		return nil, err
	}
	sbox := new(simbox.Simbox)
	for _, rule := range startVMRules {
		if err := sbox.Add(rule); err != nil {
			return nil, err
		}
	}
	if err := vm.Launch_processors(sbox); err != nil {
		return nil, err
	}
	return vm, nil
}

// u64 converts a simulator register value (uint8/16/32/64 behind interface{}) to uint64.
func u64(v interface{}) uint64 {
	switch x := v.(type) {
	case uint8:
		return uint64(x)
	case uint16:
		return uint64(x)
	case uint32:
		return uint64(x)
	case uint64:
		return x
	case int:
		return uint64(x)
	case nil:
		return 0
	}
	panic(fmt.Sprintf("u64: unexpected register type %T", v))
}

// regVal converts v to the simulator's register representation for rsize.
func regVal(rsize int, v uint64) interface{} {
	switch {
	case rsize <= 8:
		return uint8(v)
	case rsize <= 16:
		return uint16(v)
	case rsize <= 32:
		return uint32(v)
	}
	return v
}

// onePoint returns a SimDelays giving each listed opcode a fixed delay.
func onePoint(d map[string]int) *simbox.SimDelays {
	sd := simbox.NewSimDelays()
	for op, n := range d {
		sd.OpcodeDelays[op] = simbox.DelayDistribution{int32(n): 1.0}
	}
	return sd
}
