package main

// C08 — a numeric literal has one meaning, and printing then parsing returns it.
//
// Part 1 (NumLex): every pair of the REAL matcher regexes (keys of bmnumbers.AllMatchers after
// init and after the dynamic notations have been created), compiled to NFAs by Go's own
// regexp/syntax, is explored by TLC as a synchronous product; a reachable common accepting state
// is a string two notations claim.  Every witness is replayed on the real regexes and import
// functions.
// Part 2 (NumLit): denotation and printers of the integer-like notations, tabulated by TLC and
// replayed row by row on ImportString / Export*.
// Part 3: round trip law on bit patterns of the float / fixed-point / FloPoCo / quantiser types
// (the specification states the law and which patterns denote values; the library does the
// arithmetic).

import (
	"encoding/json"
	"fmt"
	"github.com/BondMachineHQ/BondMachine/pkg/procbuilder"
	"math"
	"math/big"
	"math/rand"
	"os"
	"path/filepath"
	"regexp"
	"sort"
	"strconv"
	"strings"
	"time"

	"github.com/BondMachineHQ/BondMachine/pkg/bmnumbers"

	"verif/harness/evid"
	"verif/harness/relang"
	"verif/harness/tlc"
)

func init() { register("C08", "model_checking", runC08) }

type numLit struct {
	Nt     string `json:"nt"`
	Size   int    `json:"size"`
	Digits []int  `json:"digits"`
}

type numDen struct {
	Ok    bool   `json:"ok"`
	Value int64  `json:"value"`
	Width int    `json:"width"`
	Type  string `json:"type"`
}

type numRow struct {
	Lit     numLit `json:"lit"`
	Den     numDen `json:"den"`
	MinBin  []int  `json:"minbin"`
	Verilog []int  `json:"verilog"`
	Str     numLit `json:"str"`
	NBits   []struct {
		N    int   `json:"n"`
		Ok   bool  `json:"ok"`
		Bits []int `json:"bits"`
	} `json:"nbits"`
}

func renderLit(l numLit, upper bool) string {
	var ds strings.Builder
	for _, d := range l.Digits {
		c := strconv.FormatInt(int64(d), 16)
		if upper {
			c = strings.ToUpper(c)
		}
		ds.WriteString(c)
	}
	switch l.Nt {
	case "dec":
		return ds.String()
	case "0u", "0d", "0b", "0x":
		return l.Nt + ds.String()
	case "0uS", "0dS", "0bS", "0xS":
		return l.Nt[:2] + "<" + strconv.Itoa(l.Size) + ">" + ds.String()
	}
	return "?"
}

func bitsStr(b []int) string {
	var sb strings.Builder
	for _, x := range b {
		sb.WriteByte(byte('0' + x))
	}
	return sb.String()
}

// numInfo reads (value as binary string without leading zeros, width, type) from a real BMNumber
// through its public exports.
func numInfo(n *bmnumbers.BMNumber) (bin string, width int, typ string, err error) {
	bin, err = n.ExportBinary(false)
	if err != nil {
		return
	}
	v, err := n.ExportVerilogBinary()
	if err != nil {
		return
	}
	i := strings.Index(v, "'b")
	if i < 0 {
		err = fmt.Errorf("ExportVerilogBinary gave %q", v)
		return
	}
	width, err = strconv.Atoi(v[:i])
	typ = n.GetTypeName()
	return
}

func runC08(r *evid.Run) {
	scratch, err := os.MkdirTemp("", "bmverif-c08-")
	if err != nil {
		r.Inconclusive("mktemp: %v", err)
		return
	}
	defer os.RemoveAll(scratch)
	var states, transitions int64

	// ---------------- part 1: ambiguity between notations -----------------------------------------
	for _, dyn := range []string{"flpe5f10", "lqs16t1", "fps16f8", "fxps16f8"} {
		bmnumbers.EventuallyCreateType(dyn, nil)
	}
	var keys []string
	for k := range bmnumbers.AllMatchers {
		keys = append(keys, k)
	}
	sort.Strings(keys)
	nfas, alpha, err := relang.Build(keys)
	if err != nil {
		r.Inconclusive("cannot turn the matcher regexes into NFAs: %v", err)
		return
	}
	reAmbig := regexp.MustCompile(`<<"AMBIG", (\d+), (\d+), <<([0-9, ]*)>>>>`)
	type wit struct {
		i, j int
		word string
	}
	witSet := map[string]wit{}
	runLex := func(filter [][2]int, cfg string) bool {
		gen := relang.TLA("NumLexGen", nfas, alpha, filter)
		res, err := tlc.Run(tlc.Options{SpecDir: specDir, Module: "NumLex", Workers: 8, Timeout: 20 * time.Minute,
			CfgText: cfg, ExtraTLA: map[string]string{"NumLexGen.tla": gen}})
		if err != nil {
			r.Inconclusive("tlc: %v", err)
			return false
		}
		if !res.OK() {
			r.Inconclusive("TLC failed on NumLex: %s %s", res.Violation, res.Error)
			return false
		}
		states += res.Distinct
		transitions += res.Generated
		for _, m := range reAmbig.FindAllStringSubmatch(res.Stdout, -1) {
			i, _ := strconv.Atoi(m[1])
			j, _ := strconv.Atoi(m[2])
			var cls []int
			for _, f := range strings.Split(m[3], ",") {
				f = strings.TrimSpace(f)
				if f != "" {
					c, _ := strconv.Atoi(f)
					cls = append(cls, c)
				}
			}
			w := wit{i, j, alpha.Word(cls)}
			witSet[fmt.Sprintf("%d|%d|%s", i, j, w.word)] = w
		}
		return true
	}
	// pass 1: all pairs, subset-pair state space (word hidden)
	if !runLex(nil, "SPECIFICATION Spec\nCONSTANT MaxLen = 100000\nVIEW view\nCHECK_DEADLOCK FALSE\n") {
		return
	}
	r.Set("matchers", int64(len(keys)))
	r.Set("matcher_pairs", int64(len(keys)*(len(keys)-1)/2))
	r.Set("alphabet_classes", int64(len(alpha.Reps)))
	// pass 2: for the pairs that overlap, every common word up to a length bound
	pairSeen := map[[2]int]bool{}
	var filter [][2]int
	for _, w := range witSet {
		if !pairSeen[[2]int{w.i, w.j}] {
			pairSeen[[2]int{w.i, w.j}] = true
			filter = append(filter, [2]int{w.i, w.j})
		}
	}
	sort.Slice(filter, func(a, b int) bool { return filter[a][0]*1000+filter[a][1] < filter[b][0]*1000+filter[b][1] })
	if len(filter) > 0 {
		if !runLex(filter, fmt.Sprintf("SPECIFICATION Spec\nCONSTANT MaxLen = %d\nCHECK_DEADLOCK FALSE\n", r.Pick(11, 12))) {
			return
		}
	}
	var wits []wit
	for _, w := range witSet {
		wits = append(wits, w)
	}
	sort.Slice(wits, func(a, b int) bool {
		if wits[a].i != wits[b].i {
			return wits[a].i < wits[b].i
		}
		if wits[a].j != wits[b].j {
			return wits[a].j < wits[b].j
		}
		return wits[a].word < wits[b].word
	})
	// enrich: other members of the same alphabet classes (e.g. other digits) are common words too
	vrng := rand.New(rand.NewSource(r.Seed))
	base := append([]wit{}, wits...)
	for _, w := range base {
		for _, v := range alpha.Variants(w.word, r.Pick(12, 60), vrng.Intn) {
			wits = append(wits, wit{w.i, w.j, v})
		}
	}
	r.Set("overlapping_pairs", int64(len(filter)))
	r.Set("common_words_replayed", int64(len(wits)))
	var overlapsBenign, overlapsReal int64
	for _, w := range wits {
		ka, kb := keys[w.i-1], keys[w.j-1]
		ra, rb := regexp.MustCompile(ka), regexp.MustCompile(kb)
		if !ra.MatchString(w.word) || !rb.MatchString(w.word) {
			r.Inconclusive("model drift: TLC witness %q is not matched by both %q and %q", w.word, ka, kb)
			continue
		}
		na, ea := bmnumbers.AllMatchers[ka](ra, w.word)
		nb, eb := bmnumbers.AllMatchers[kb](rb, w.word)
		desc := func(n *bmnumbers.BMNumber, e error) string {
			if e != nil || n == nil {
				return "error"
			}
			b, wd, t, err := numInfo(n)
			if err != nil {
				return "error"
			}
			return fmt.Sprintf("%s/%d/%s", b, wd, t)
		}
		da, db := desc(na, ea), desc(nb, eb)
		r.Distinct("ambig|" + ka + "|" + kb + "|" + w.word)
		if da == db {
			overlapsBenign++
			continue
		}
		overlapsReal++
		r.Violate("ambiguous:"+ka+"|"+kb, fmt.Sprintf("the literal %q is claimed by two notations with different meanings: %s gives %s, %s gives %s", w.word, ka, da, kb, db),
			map[string]interface{}{"literal": w.word, "matcher_a": ka, "meaning_a": da, "matcher_b": kb, "meaning_b": db})
	}
	if len(wits) > 0 {
		var ex []string
		for i := 0; i < len(wits) && i < 8; i++ {
			w := wits[i*len(wits)/8]
			ex = append(ex, fmt.Sprintf("%s | %s | %q", keys[w.i-1], keys[w.j-1], w.word))
		}
		r.Set("common_word_examples", ex)
	}
	r.Set("common_words_same_meaning", overlapsBenign)
	r.Set("common_words_different_meaning", overlapsReal)
	r.Sample(map[string]interface{}{"kind": "matcher-pair-product", "matchers": keys})

	// ---------------- part 2: denotation and printers of the integer notations --------------------
	cfg := "NumLit_quick.cfg"
	if r.Thorough() {
		cfg = "NumLit_thorough.cfg"
	}
	rowPath, widePath, lqPath := filepath.Join(scratch, "rows.ndjson"), filepath.Join(scratch, "widerows.ndjson"), filepath.Join(scratch, "lqrows.ndjson")
	notPath := filepath.Join(scratch, "notlits.ndjson")
	res2, err := tlc.Run(tlc.Options{SpecDir: specDir, Module: "NumLit", Cfg: cfg, Workers: 8, Timeout: 20 * time.Minute, Env: map[string]string{"ROWS": rowPath, "WIDEROWS": widePath, "LQROWS": lqPath, "NOTLITS": notPath}})
	if err != nil {
		r.Inconclusive("tlc: %v", err)
		return
	}
	if !res2.OK() {
		r.Inconclusive("TLC did not accept the laws of NumLit (%s %s): %s", res2.Violation, res2.ViolationName, res2.Error)
		return
	}
	states += res2.Distinct
	transitions += res2.Generated
	// the same laws beyond TLC's integers: rows on bit sequences, digits written here with big integers
	var wideRows int64
	werr := readNDJSON(widePath, func(b []byte) error {
		var row struct {
			Nt   string `json:"nt"`
			Size int    `json:"size"`
			Bits []int  `json:"bits"`
			Den  struct {
				Ok    bool   `json:"ok"`
				Width int    `json:"width"`
				Type  string `json:"type"`
			} `json:"den"`
			Padded []int `json:"padded"`
		}
		if err := json.Unmarshal(b, &row); err != nil {
			return err
		}
		wideRows++
		v, _ := new(big.Int).SetString(bitsStr(row.Bits), 2)
		digits := ""
		switch row.Nt {
		case "0uS", "0dS":
			digits = v.Text(10)
		case "0bS":
			digits = bitsStr(row.Bits)
		case "0xS":
			digits = v.Text(16)
			for len(digits) < (len(row.Bits)+3)/4 {
				digits = "0" + digits
			}
		}
		text := row.Nt[:2] + "<" + strconv.Itoa(row.Size) + ">" + digits
		n, ierr := bmnumbers.ImportString(text)
		ctx := map[string]interface{}{"literal": text, "spec": row.Den}
		if !row.Den.Ok {
			if ierr == nil {
				bin, wd, t, _ := numInfo(n)
				ctx["real"] = fmt.Sprintf("%s/%d/%s", bin, wd, t)
				r.Violate("accepted-invalid:wide:"+row.Nt, fmt.Sprintf("%q states a width its digits do not fit and is accepted as %v", text, ctx["real"]), ctx)
			}
			return nil
		}
		if ierr != nil {
			r.Violate("rejected-valid:wide:"+row.Nt, fmt.Sprintf("%q fits the width it states and is rejected: %v", text, ierr), ctx)
			return nil
		}
		r.Distinct("wide|" + text)
		bin, wd, typ, err := numInfo(n)
		if err != nil {
			r.Violate("export-error:wide:"+row.Nt, fmt.Sprintf("%q imports but cannot be exported: %v", text, err), ctx)
			return nil
		}
		ctx["real"] = fmt.Sprintf("%s/%d/%s", bin, wd, typ)
		want := strings.TrimLeft(bitsStr(row.Bits), "0")
		if want == "" {
			want = "0"
		}
		if bin != want || typ != row.Den.Type {
			r.Violate("denotation:wide:"+row.Nt, fmt.Sprintf("%q denotes %s (binary) of type %s but imports as %s of type %s", text, want, row.Den.Type, bin, typ), ctx)
			return nil
		}
		if wd != row.Den.Width {
			r.Violate("width:wide:"+row.Nt, fmt.Sprintf("%q states width %d but the imported pattern has width %d", text, row.Den.Width, wd), ctx)
			return nil
		}
		if len(row.Bits) <= 64 && row.Nt == "0uS" {
			// the same value handed over as a machine word (what the simulator does with a register)
			if nu, err := bmnumbers.ImportUint(v.Uint64(), 0); err != nil {
				r.Violate("import-uint-error", fmt.Sprintf("ImportUint(%d) fails: %v", v.Uint64(), err), ctx)
			} else if bu, _ := nu.ExportBinary(false); strings.TrimLeft(bu, "0") != strings.TrimLeft(want, "0") {
				r.Violate("import-uint-value", fmt.Sprintf("ImportUint(%d) holds %s (binary), the number is %s", v.Uint64(), bu, want), ctx)
			}
		}
		if len(row.Padded) > 0 {
			if s, err := n.ExportBinaryNBits(row.Size); err != nil || s != bitsStr(row.Padded) {
				r.Violate("nbits-value:wide:"+row.Nt, fmt.Sprintf("ExportBinaryNBits(%d) of %q = %q (%v), expected %s", row.Size, text, s, err, bitsStr(row.Padded)), ctx)
			}
			if vb, err := n.ExportVerilogBinary(); err != nil || vb != strconv.Itoa(row.Size)+"'b"+bitsStr(row.Padded) {
				r.Violate("verilog-value:wide:"+row.Nt, fmt.Sprintf("ExportVerilogBinary of %q = %q (%v), expected %d'b%s", text, vb, err, row.Size, bitsStr(row.Padded)), ctx)
			}
		}
		s, err := n.ExportString(nil)
		if err != nil {
			r.Violate("export-error:wide:"+row.Nt, fmt.Sprintf("%q imports but ExportString fails: %v", text, err), ctx)
			return nil
		}
		n2, err := bmnumbers.ImportString(s)
		if err != nil {
			r.Violate("roundtrip:wide:"+row.Nt, fmt.Sprintf("%q exports as %q which cannot be imported: %v", text, s, err), ctx)
			return nil
		}
		if bin2, wd2, typ2, _ := numInfo(n2); bin2 != bin || typ2 != typ || (typ != "unsigned" && wd2 != wd) {
			r.Violate("roundtrip:wide:"+row.Nt, fmt.Sprintf("%q exports as %q which imports as %s/%d/%s, not %v", text, s, bin2, wd2, typ2, ctx["real"]), ctx)
		}
		return nil
	})
	if werr != nil {
		r.Inconclusive("wide rows: %v", werr)
		return
	}
	r.Set("wide_literal_rows", wideRows)
	var notLits int64
	nerr := readNDJSON(notPath, func(b []byte) error {
		var row struct {
			Text string `json:"text"`
		}
		if err := json.Unmarshal(b, &row); err != nil {
			return err
		}
		notLits++
		ctx := map[string]interface{}{"text": row.Text}
		if n, err := bmnumbers.ImportString(row.Text); err == nil {
			bin, wd, t, _ := numInfo(n)
			r.Violate("accepted-not-a-literal:importer", fmt.Sprintf("%q is no literal of any notation and is imported as %s/%d/%s", row.Text, bin, wd, t), ctx)
		}
		if pb, err := procbuilder.Process_number(row.Text); err == nil {
			r.Violate("accepted-not-a-literal:assembler", fmt.Sprintf("%q is no literal of any notation and the assembler's Process_number reads it as %s (binary)", row.Text, pb), ctx)
		}
		return nil
	})
	if nerr != nil {
		r.Inconclusive("not-literals rows: %v", nerr)
		return
	}
	r.Set("non_literal_strings_refused", notLits)
	// the linear quantiser: band numbers as two's complement patterns of the stated width
	const lqRange, lqMax = 7, 8.0
	for _, d := range bmnumbers.AllDynamicalTypes {
		if lq, ok := d.(bmnumbers.DynLinearQuantizer); ok {
			(*lq.Ranges)[lqRange] = bmnumbers.LinearDataRange{Max: lqMax}
		}
	}
	var lqRows int64
	lerr := readNDJSON(lqPath, func(b []byte) error {
		var row struct {
			Size int   `json:"size"`
			Band int64 `json:"band"`
			Bits []int `json:"bits"`
		}
		if err := json.Unmarshal(b, &row); err != nil {
			return err
		}
		lqRows++
		x := float64(row.Band) * lqMax / float64(int64(1)<<uint(row.Size-1))
		text := fmt.Sprintf("0lq<%d.%d>%s", row.Size, lqRange, strconv.FormatFloat(x, 'f', -1, 64))
		ctx := map[string]interface{}{"literal": text, "band": row.Band, "bits": bitsStr(row.Bits)}
		n, err := bmnumbers.ImportString(text)
		if err != nil {
			r.Violate("rejected-valid:lq", fmt.Sprintf("%q (band %d of a %d-bit quantiser) is rejected: %v", text, row.Band, row.Size, err), ctx)
			return nil
		}
		r.Distinct("lq|" + text)
		want := bitsStr(row.Bits)
		if s, err := n.ExportBinaryNBits(row.Size); err != nil || s != want {
			r.Violate("nbits-value:lq", fmt.Sprintf("ExportBinaryNBits(%d) of %q = %q (%v), expected %s", row.Size, text, s, err, want), ctx)
			return nil
		}
		if vb, err := n.ExportVerilogBinary(); err != nil || vb != strconv.Itoa(row.Size)+"'b"+want {
			r.Violate("verilog-value:lq", fmt.Sprintf("ExportVerilogBinary of %q = %q (%v), expected %d'b%s", text, vb, err, row.Size, want), ctx)
			return nil
		}
		s, err := n.ExportString(nil)
		if err != nil {
			r.Violate("export-error:lq", fmt.Sprintf("%q imports but ExportString fails: %v", text, err), ctx)
			return nil
		}
		n2, err := bmnumbers.ImportString(s)
		if err != nil {
			r.Violate("roundtrip:lq", fmt.Sprintf("%q exports as %q which cannot be imported: %v", text, s, err), ctx)
			return nil
		}
		b1, _ := n.ExportBinary(true)
		b2, _ := n2.ExportBinary(true)
		if b1 != b2 || n.GetTypeName() != n2.GetTypeName() {
			r.Violate("roundtrip:lq", fmt.Sprintf("%q exports as %q which imports as %s/%s, not %s/%s", text, s, b2, n2.GetTypeName(), b1, n.GetTypeName()), ctx)
		}
		return nil
	})
	if lerr != nil {
		r.Inconclusive("lq rows: %v", lerr)
		return
	}
	r.Set("linear_quantizer_rows", lqRows)
	var rows, lock int64
	lockKinds := map[string]int{}
	noteLock := func(kind string) { lock++; lockKinds[kind]++ }
	err = readNDJSON(rowPath, func(b []byte) error {
		var row numRow
		if err := json.Unmarshal(b, &row); err != nil {
			return err
		}
		rows++
		for _, upper := range []bool{false, true} {
			if upper && !strings.HasPrefix(row.Lit.Nt, "0x") {
				continue
			}
			text := renderLit(row.Lit, upper)
			n, ierr := bmnumbers.ImportString(text)
			ctx := map[string]interface{}{"literal": text, "spec": row.Den}
			if !row.Den.Ok {
				if ierr == nil {
					bin, wd, t, _ := numInfo(n)
					ctx["real"] = fmt.Sprintf("%s/%d/%s", bin, wd, t)
					r.Violate("accepted-invalid:"+row.Lit.Nt, fmt.Sprintf("%q states a width its digits do not fit (or an invalid width) and is accepted as %v", text, ctx["real"]), ctx)
				}
				continue
			}
			if ierr != nil {
				noteLock("rejected-valid:" + row.Lit.Nt)
				continue
			}
			bin, wd, typ, err := numInfo(n)
			if err != nil {
				r.Violate("export-error:"+row.Lit.Nt, fmt.Sprintf("%q imports but cannot be exported: %v", text, err), ctx)
				continue
			}
			r.Distinct("lit|" + text)
			ctx["real"] = fmt.Sprintf("%s/%d/%s", bin, wd, typ)
			if bin != bitsStr(row.MinBin) || typ != row.Den.Type {
				r.Violate("denotation:"+row.Lit.Nt, fmt.Sprintf("%q denotes value %d of type %s but imports as %s (binary) of type %s", text, row.Den.Value, row.Den.Type, bin, typ), ctx)
				continue
			}
			// the assembler reads its numeric operands through procbuilder.Process_number: one meaning
			if pb, perr := procbuilder.Process_number(text); perr != nil || strings.TrimLeft(pb, "0") != strings.TrimLeft(bin, "0") {
				r.Violate("assembler-reads-another-number:"+row.Lit.Nt, fmt.Sprintf("%q is %s (binary) for the importer and %q (%v) for the assembler's Process_number", text, bin, pb, perr), ctx)
				continue
			}
			sized := strings.HasSuffix(row.Lit.Nt, "S")
			if wd != row.Den.Width {
				if sized {
					r.Violate("width:"+row.Lit.Nt, fmt.Sprintf("%q states width %d but the imported pattern has width %d", text, row.Den.Width, wd), ctx)
					continue
				}
				noteLock("width:" + row.Lit.Nt)
			}
			// binary exports have exactly the stated width
			for _, nb := range row.NBits {
				s, err := n.ExportBinaryNBits(nb.N)
				if err == nil && len(s) != nb.N {
					r.Violate("nbits-width:"+row.Lit.Nt, fmt.Sprintf("ExportBinaryNBits(%d) of %q has %d digits", nb.N, text, len(s)), ctx)
				} else if err == nil && nb.Ok && s != bitsStr(nb.Bits) {
					r.Violate("nbits-value:"+row.Lit.Nt, fmt.Sprintf("ExportBinaryNBits(%d) of %q = %s, expected %s", nb.N, text, s, bitsStr(nb.Bits)), ctx)
				} else if (err == nil) != nb.Ok {
					noteLock("nbits-ok:" + row.Lit.Nt)
				}
			}
			if vb, err := n.ExportVerilogBinary(); err == nil {
				i := strings.Index(vb, "'b")
				if i < 0 || len(vb[i+2:]) != wd {
					r.Violate("verilog-width:"+row.Lit.Nt, fmt.Sprintf("ExportVerilogBinary of %q = %s: digits do not match the stated width", text, vb), ctx)
				} else if len(row.Verilog) > 0 && wd == row.Den.Width && vb[i+2:] != bitsStr(row.Verilog) {
					r.Violate("verilog-value:"+row.Lit.Nt, fmt.Sprintf("ExportVerilogBinary of %q = %s, expected %s", text, vb, bitsStr(row.Verilog)), ctx)
				}
			}
			// print, then parse
			s, err := n.ExportString(nil)
			if err != nil {
				r.Violate("export-error:"+row.Lit.Nt, fmt.Sprintf("%q imports but ExportString fails: %v", text, err), ctx)
				continue
			}
			if s != renderLit(row.Str, false) {
				noteLock("exportstring:" + row.Lit.Nt)
			}
			n2, err := bmnumbers.ImportString(s)
			if err != nil {
				r.Violate("roundtrip:"+row.Lit.Nt, fmt.Sprintf("%q exports as %q which cannot be imported: %v", text, s, err), ctx)
				continue
			}
			bin2, wd2, typ2, _ := numInfo(n2)
			if bin2 != bin || typ2 != typ || (typ != "unsigned" && wd2 != wd) {
				ctx["exported"] = s
				ctx["reimported"] = fmt.Sprintf("%s/%d/%s", bin2, wd2, typ2)
				r.Violate("roundtrip:"+row.Lit.Nt, fmt.Sprintf("%q exports as %q which imports as %v, not %v", text, s, ctx["reimported"], ctx["real"]), ctx)
			}
			if rows%701 == 1 {
				r.Sample(map[string]interface{}{"literal": text, "imported": ctx["real"], "exported": s})
			}
		}
		return nil
	})
	if err != nil {
		r.Inconclusive("rows: %v", err)
		return
	}
	r.Set("literal_rows", rows)

	// ---------------- part 3: round-trip law on bit patterns of the other types --------------------
	rng := rand.New(rand.NewSource(r.Seed))
	var patterns, nonvalues int64
	roundTrip := func(typeName string, bits int, pattern uint64, isValue bool) {
		t := bmnumbers.GetType(typeName)
		if t == nil {
			r.Inconclusive("type %s not registered", typeName)
			return
		}
		if !isValue {
			nonvalues++
			return
		}
		var n *bmnumbers.BMNumber
		nbytes := (bits + 7) / 8
		buf := make([]byte, nbytes)
		for i := 0; i < nbytes; i++ {
			buf[nbytes-1-i] = byte(pattern >> (8 * uint(i)))
		}
		n, _ = bmnumbers.ImportBytes(buf, bits)
		if err := bmnumbers.CastType(n, t); err != nil {
			r.Inconclusive("cannot build a %s from a bit pattern: %v", typeName, err)
			return
		}
		patterns++
		s, err := n.ExportString(nil)
		ctx := map[string]interface{}{"type": typeName, "pattern": fmt.Sprintf("%#x", pattern)}
		if err != nil {
			r.Violate("export-error:"+typeName, fmt.Sprintf("%s pattern %#x cannot be exported: %v", typeName, pattern, err), ctx)
			return
		}
		ctx["exported"] = s
		n2, err := bmnumbers.ImportString(s)
		if err != nil {
			r.Violate("roundtrip:"+typeName, fmt.Sprintf("%s pattern %#x exports as %q which cannot be imported: %v", typeName, pattern, s, err), ctx)
			return
		}
		b1, _ := n.ExportBinaryNBits(bits)
		b2, err2 := n2.ExportBinaryNBits(bits)
		if err2 != nil || b1 != b2 || n2.GetTypeName() != typeName {
			ctx["reimported"] = b2 + "/" + n2.GetTypeName()
			// classify: which class of values fails
			r.Violate("roundtrip:"+typeName+":"+classify(typeName, bits, pattern), fmt.Sprintf("%s pattern %#x (%s) exports as %q which imports as %s of type %s", typeName, pattern, b1, s, b2, n2.GetTypeName()), ctx)
		}
		r.Distinct(typeName + "|" + strconv.FormatUint(pattern, 16))
	}
	// float16: every pattern that denotes a value (exponent field not all ones)
	step := uint64(r.Pick(7, 1))
	for p := uint64(0); p < 65536; p += step {
		roundTrip("float16", 16, p, (p>>10)&31 != 31)
	}
	// float32: boundaries and seeded random patterns
	f32 := []uint64{0, 1, 0x007fffff, 0x00800000, 0x3f800000, 0xbf800000, 0x7f7fffff, 0x80000000, 0x40490fdb, 0x3eaaaaab, 0x4b800000, 0x33800000}
	for i := 0; i < r.Pick(3000, 60000); i++ {
		f32 = append(f32, uint64(rng.Uint32()))
	}
	for _, p := range f32 {
		roundTrip("float32", 32, p, (p>>23)&255 != 255)
	}
	// fixed point <s.f>: every pattern for s = 8
	for p := uint64(0); p < 256; p++ {
		roundTrip("fps8f4", 8, p, true)
		roundTrip("fxps8f4", 8, p, true)
	}
	for i := 0; i < r.Pick(500, 20000); i++ {
		p := uint64(rng.Intn(65536))
		roundTrip("fps16f8", 16, p, true)
		roundTrip("fxps16f8", 16, p, true)
	}
	// fixed point of widths that are not multiples of 8 (the top byte of the pattern is partial)
	for _, ty := range []struct {
		name string
		bits int
	}{{"fps11f5", 11}, {"fxps11f5", 11}, {"fps12f6", 12}, {"fxps12f6", 12}, {"fps20f10", 20}, {"fxps20f10", 20}, {"fxps9f4", 9}, {"fxps27f13", 27}} {
		if created, err := bmnumbers.EventuallyCreateType(ty.name, nil); err != nil || !created {
			if bmnumbers.GetType(ty.name) == nil {
				continue // the type family is not available in this tree
			}
		}
		for i := 0; i < r.Pick(120, 3000); i++ {
			roundTrip(ty.name, ty.bits, uint64(rng.Int63())&(1<<uint(ty.bits)-1), true)
		}
		roundTrip(ty.name, ty.bits, 1<<uint(ty.bits)-1, true)
		roundTrip(ty.name, ty.bits, 1<<uint(ty.bits-1), true)
	}
	r.Set("bit_patterns_round_tripped", patterns)
	r.Set("patterns_that_are_not_values", nonvalues)
	r.Set("states", states)
	r.Set("transitions", transitions)
	r.Set("traces_validated_against_impl", rows+int64(len(wits)))
	r.Set("evaluations", rows+patterns+int64(len(wits)))
	r.Set("lockstep_mismatches", lock)
	r.Set("lockstep_kinds", lockKinds)
}

// classify names the class of values a failing pattern belongs to, so that a known finding is
// identified by the kind of value that fails and not by the single pattern.
func classify(typeName string, bits int, p uint64) string {
	switch typeName {
	case "float32":
		f := math.Abs(float64(math.Float32frombits(uint32(p))))
		switch {
		case f == 0:
			return "zero"
		case f < 1e-20:
			return "magnitude-below-1e-20"
		case f < 1e-6:
			return "magnitude-below-1e-6"
		}
		return "other"
	case "float16":
		if p&0x7fff == 0 {
			return "zero"
		}
		if (p>>10)&31 == 0 {
			return "subnormal"
		}
		return "normal"
	}
	if p>>(uint(bits)-1) == 1 {
		return "negative"
	}
	return "non-negative"
}
