package main

// C12 — compiled Go programs do what the source does; compilation always terminates.
//
// Concurrency half: BondgoSync (visitor / Var_assigner / Usage_Monitor over unbuffered channels)
// is explored by TLC for both orders of the assigner's answer/notify pair: the order that admits
// a deadlock gives the schedule to force.  The REAL compiler (cmd/bondgo built with -tags verif)
// is run under schedules forced by delays at each hook point; the hook log and the way each
// process ended are judged by TLC (BondgoSyncTrace): termination under every schedule, identical
// artefacts.
// Semantic half: GoSubset (reference semantics with wrap-around) under TLC -simulate builds
// random programs with their expected output streams; each is printed as Go, compiled by the real
// bondgo, the emitted machine is simulated by the real VM and the output streams compared.

import (
	"bytes"
	"context"
	"crypto/sha1"
	"encoding/hex"
	"encoding/json"
	"fmt"
	"os"
	"os/exec"
	"path/filepath"
	"sort"
	"strconv"
	"strings"
	"time"

	"github.com/BondMachineHQ/BondMachine/pkg/bondmachine"

	"verif/harness/evid"
	"verif/harness/tlaval"
	"verif/harness/tlc"
)

func init() { register("C12", "model_checking", runC12) }

// ---- Go source from a GoSubset program ----------------------------------------------------------

func goAtom(v tlaval.Value) string {
	r := tlaval.AsRec(v)
	if tlaval.Str(r["k"]) == "const" {
		return strconv.Itoa(tlaval.Int(r["n"]))
	}
	return "reg_" + tlaval.Str(r["v"])
}

func goExpr(v tlaval.Value) string {
	r := tlaval.AsRec(v)
	switch tlaval.Str(r["k"]) {
	case "add":
		return goAtom(r["l"]) + " + " + goAtom(r["r"])
	case "mul":
		return goAtom(r["l"]) + " * " + goAtom(r["r"])
	case "twice":
		return "twice(" + goAtom(r["l"]) + ")"
	case "addmul":
		return "addmul(" + goAtom(r["l"]) + ", " + goAtom(r["r"]) + ")"
	}
	return goAtom(v)
}

func goStmt(v tlaval.Value, ind string) string {
	r := tlaval.AsRec(v)
	switch tlaval.Str(r["k"]) {
	case "decl":
		return ind + "var reg_" + tlaval.Str(r["v"]) + " uint" + strconv.Itoa(goRsize) + "\n"
	case "set":
		return ind + "reg_" + tlaval.Str(r["v"]) + " = " + goExpr(r["e"]) + "\n"
	case "tuple":
		goTupleCount++
		return ind + "reg_" + tlaval.Str(r["v"]) + ", reg_" + tlaval.Str(r["w"]) + " = " + goExpr(r["e"]) + ", " + goExpr(r["f"]) + "\n"
	case "inc":
		return ind + "reg_" + tlaval.Str(r["v"]) + "++\n"
	case "dec":
		return ind + "reg_" + tlaval.Str(r["v"]) + "--\n"
	case "out":
		return ind + "bondgo.IOWrite(o" + strconv.Itoa(tlaval.Int(r["o"])) + ", " + goExpr(r["e"]) + ")\n"
	case "ifeq":
		return ind + "if " + goAtom(r["l"]) + " == " + goAtom(r["r"]) + " {\n" + goStmt(r["t"], ind+"\t") + ind + "} else {\n" + goStmt(r["f"], ind+"\t") + ind + "}\n"
	}
	return ind + "// ?\n"
}

var goRsize = 8
var goGenCalls bool // the generated expressions may call functions (GoSubset.WithCalls)
var goTupleCount int64 // tuple assignments printed (coverage)

func goProgram(prog tlaval.Value, rsize int) string {
	goRsize = rsize
	typ := "uint" + strconv.Itoa(rsize)
	var sb strings.Builder
	sb.WriteString("package main\n\nimport (\n\t\"bondgo\"\n)\n\n")
	var body strings.Builder
	for _, s := range tlaval.AsSeq(prog) {
		body.WriteString(goStmt(s, "\t"))
	}
	if strings.Contains(body.String(), "twice(") {
		sb.WriteString("func twice(v " + typ + ") " + typ + " {\n\treturn v + v\n}\n\n")
	}
	if strings.Contains(body.String(), "addmul(") {
		sb.WriteString("func addmul(a " + typ + ", b " + typ + ") " + typ + " {\n\tvar t " + typ + "\n\tt = a + b\n\treturn t * b\n}\n\n")
	}
	sb.WriteString("func main() {\n")
	sb.WriteString("\tvar o0 bondgo.Output\n\tvar o1 bondgo.Output\n")
	for _, v := range []string{"a", "b", "c"} {
		sb.WriteString("\tvar reg_" + v + " " + typ + "\n")
	}
	sb.WriteString("\to0 = bondgo.Make(bondgo.Output, 1)\n\to1 = bondgo.Make(bondgo.Output, 2)\n")
	for _, s := range tlaval.AsSeq(prog) {
		sb.WriteString(goStmt(s, "\t"))
	}
	sb.WriteString("\tfor {\n\t}\n}\n")
	return sb.String()
}

type bgRun struct {
	status  string // ok | timeout | crash
	out     string
	points  []string
	digest  string
	asmText string
	bmJSON  []byte
}

// runBondgo compiles src with the real compiler under the given hook delays.
func runBondgo(bin, dir, src string, rsize int, delays string, deadline time.Duration) bgRun {
	os.MkdirAll(dir, 0o755)
	for _, f := range []string{"out.asm_0", "out.asm_1", "bm.json", "hook.log"} {
		os.Remove(filepath.Join(dir, f))
	}
	os.WriteFile(filepath.Join(dir, "p.go"), []byte(src), 0o644)
	ctx, cancel := context.WithTimeout(context.Background(), deadline)
	defer cancel()
	cmd := exec.CommandContext(ctx, bin, "-input-file", "p.go", "-register-size", strconv.Itoa(rsize), "-save-assembly", "out.asm", "-save-bondmachine", "bm.json", "-mpm")
	cmd.Dir = dir
	cmd.Env = append(os.Environ(), "BM_VERIF_LOG="+filepath.Join(dir, "hook.log"), "BM_VERIF_DELAY="+delays)
	var buf bytes.Buffer
	cmd.Stdout, cmd.Stderr = &buf, &buf
	err := cmd.Run()
	var res bgRun
	res.out = buf.String()
	switch {
	case ctx.Err() == context.DeadlineExceeded:
		res.status = "timeout"
	case err != nil:
		res.status = "crash"
	default:
		res.status = "ok"
	}
	if b, err := os.ReadFile(filepath.Join(dir, "hook.log")); err == nil {
		for _, ln := range strings.Split(strings.TrimSpace(string(b)), "\n") {
			f := strings.Fields(ln)
			if len(f) == 2 {
				res.points = append(res.points, f[1])
			}
		}
	}
	a, _ := os.ReadFile(filepath.Join(dir, "out.asm_0"))
	res.asmText = string(a)
	res.bmJSON, _ = os.ReadFile(filepath.Join(dir, "bm.json"))
	h := sha1.Sum(append(append([]byte{}, a...), res.bmJSON...))
	res.digest = hex.EncodeToString(h[:8])
	return res
}

// simulateOutputs runs the emitted machine on the real VM and returns the values written by r2o.
func simulateOutputs(bmJSON []byte, ticks int) (outs [][2]uint64, err error) {
	defer func() {
		if e := recover(); e != nil {
			err = fmt.Errorf("panic: %v", e)
		}
	}()
	bj := new(bondmachine.Bondmachine_json)
	if err := json.Unmarshal(bmJSON, bj); err != nil {
		return nil, err
	}
	bm := bj.Dejsoner()
	bm.Init()
	vm, err := startVM(bm, nil)
	if err != nil {
		return nil, err
	}
	defer vm.Stop()
	p := vm.Processors[0]
	opBits := p.Mach.Opcodes_bits()
	for t := 0; t < ticks; t++ {
		pc := p.Pc
		var port = -1
		if int(pc) < len(p.Mach.Program.Slocs) {
			instr := p.Mach.Program.Slocs[pc]
			idx, _ := p.Mach.Conproc.Decode_opcode(instr)
			op := p.Mach.Arch.Conproc.Op[idx]
			if op.Op_get_name() == "r2o" {
				dis, _ := op.Disassembler(&p.Mach.Arch, instr[opBits:])
				f := strings.Fields(dis)
				if len(f) == 2 && strings.HasPrefix(f[1], "o") {
					port, _ = strconv.Atoi(f[1][1:])
				}
			}
		}
		if _, err := vm.Step(nil); err != nil {
			return outs, err
		}
		if port >= 0 && p.Pc == pc+1 {
			outs = append(outs, [2]uint64{uint64(port), u64(p.Outputs[port])})
		}
	}
	return outs, nil
}

func runC12(r *evid.Run) {
	scratch, err := os.MkdirTemp("", "bmverif-c12-")
	if err != nil {
		r.Inconclusive("mktemp: %v", err)
		return
	}
	defer os.RemoveAll(scratch)
	var states, transitions int64

	// ---- concurrency half: the protocol model -------------------------------------------------------
	for _, order := range []string{"notify-first", "answer-first"} {
		cfg := fmt.Sprintf("SPECIFICATION FairSpec\nCONSTANTS\n MaxOps = %d\n Order = \"%s\"\nINVARIANT DeadlockFree\nINVARIANT NotifiedBeforeExit\nINVARIANT SameRequirements\nPROPERTY Termination\nCHECK_DEADLOCK FALSE\n", r.Pick(4, 7), order)
		res, err := tlc.Run(tlc.Options{SpecDir: specDir, Module: "BondgoSync", CfgText: cfg, Workers: 4, Timeout: 15 * time.Minute})
		if err != nil {
			r.Inconclusive("tlc: %v", err)
			return
		}
		states += res.Distinct
		transitions += res.Generated
		if order == "notify-first" && !res.OK() {
			r.Inconclusive("TLC rejects BondgoSync with the assigner notifying before it answers (%s %s): the protocol model is wrong", res.Violation, res.ViolationName)
			return
		}
		if order == "answer-first" && res.Violation != "" {
			r.Set("model_candidate", fmt.Sprintf("with the assigner answering before it notifies BondgoSync violates %s after %d steps: the schedule to force is a late assigner notification", res.ViolationName, len(res.Trace)-1))
		}
	}

	// ---- build the real compiler with hooks ----------------------------------------------------------
	bin := filepath.Join(scratch, "bondgo")
	build := exec.Command("go", "build", "-tags", "verif", "-o", bin, "./cmd/bondgo")
	build.Dir = repoDir()
	if out, err := build.CombinedOutput(); err != nil {
		r.Inconclusive("cannot build cmd/bondgo: %v\n%s", err, tailStr(string(out), 600))
		return
	}

	// ---- programs from the reference semantics (TLC -simulate) ------------------------------------------
	type gprog struct {
		prog   tlaval.Value
		outs   [][2]uint64
		rsize  int
		withIf bool
		repeat int // > 1: the program is the body of a loop, outs are those of `repeat` iterations
	}
	var progs []gprog
	var genR func(rsize int, withIf, noAssign bool, repeat, n, depth int, seed int64) bool
	gen := func(rsize int, withIf, noAssign bool, n, depth int, seed int64) bool {
		return genR(rsize, withIf, noAssign, 1, n, depth, seed)
	}
	genR = func(rsize int, withIf, noAssign bool, repeat, n, depth int, seed int64) bool {
		dir := filepath.Join(scratch, fmt.Sprintf("gs_%d_%v_%v_%d_%v", rsize, withIf, noAssign, repeat, goGenCalls))
		os.MkdirAll(dir, 0o755)
		cfg := fmt.Sprintf("SPECIFICATION Spec\nCONSTANTS\n RSize = %d\n MaxLen = %d\n WithIf = %s\n NoAssign = %s\n Repeat = %d\n WithCalls = %s\nINVARIANT TypeOK\nCHECK_DEADLOCK FALSE\n", rsize, depth, strings.ToUpper(fmt.Sprint(withIf)), strings.ToUpper(fmt.Sprint(noAssign)), repeat, strings.ToUpper(fmt.Sprint(goGenCalls)))
		_, err := tlc.Run(tlc.Options{SpecDir: specDir, Module: "GoSubset", CfgText: cfg, Workers: 1, Timeout: 15 * time.Minute,
			Args: []string{"-simulate", fmt.Sprintf("file=%s/b,num=%d", dir, n), "-depth", strconv.Itoa(depth + repeat + 1), "-seed", strconv.FormatInt(seed, 10)}})
		if err != nil {
			r.Inconclusive("tlc simulate: %v", err)
			return false
		}
		files, _ := filepath.Glob(filepath.Join(dir, "b_*"))
		sort.Strings(files)
		for _, f := range files {
			beh, err := tlc.ParseSimFile(f)
			if err != nil || len(beh) == 0 {
				r.Inconclusive("parse %s: %v", f, err)
				return false
			}
			last := beh[len(beh)-1].Vars
			g := gprog{prog: last["prog"], rsize: rsize, withIf: withIf, repeat: repeat}
			for _, o := range tlaval.AsSeq(last["outs"]) {
				t := tlaval.AsSeq(o)
				g.outs = append(g.outs, [2]uint64{uint64(tlaval.Int(t[0])), uint64(tlaval.Int(t[1]))})
			}
			progs = append(progs, g)
			transitions += int64(len(beh))
		}
		os.RemoveAll(dir)
		return true
	}
	// programs whose expressions call functions (twice: registers only; addmul: a local in memory)
	goGenCalls = true
	okCalls := gen(8, false, false, r.Pick(30, 300), 7, r.Seed*11+7)
	goGenCalls = false
	if !okCalls {
		return
	}
	if !gen(8, false, false, r.Pick(40, 400), 8, r.Seed*11+1) || !gen(16, false, false, r.Pick(15, 200), 8, r.Seed*11+2) ||
		!gen(8, false, true, r.Pick(15, 120), 6, r.Seed*11+4) || !gen(8, true, false, r.Pick(25, 150), 5, r.Seed*11+3) {
		return
	}
	// loop bodies: the generated program is the body of an endless loop (three iterations are executed in
	// the specification), compiled once inside main and once inside a goroutine of its own
	nStraight := len(progs)
	if !genR(8, false, false, 3, r.Pick(24, 200), 4, r.Seed*11+5) || !genR(16, false, false, 3, r.Pick(10, 100), 5, r.Seed*11+6) {
		return
	}
	loopProgs := append([]gprog{}, progs[nStraight:]...)
	progs = progs[:nStraight]
	states += int64(len(progs) + len(loopProgs))

	// ---- concurrency half on the real compiler: forced schedules ------------------------------------------
	tracePath := filepath.Join(scratch, "trace.ndjson")
	tf, _ := os.Create(tracePath)
	enc := json.NewEncoder(tf)
	nLines := 0
	type runInfo struct {
		first, last int
		note        string
		src         string
		delays      string
		status      string
		out         string
	}
	var runInfos []runInfo
	schedules := []string{"", "", "assigner-notify=12ms", "assigner-answer=12ms", "monitor-recv=4ms", "main-exit-monitor=40ms", "main-exit-assigner=40ms", "assigner-notify=12ms,monitor-recv=3ms", "assigner-answer=6ms,assigner-notify=6ms"}
	nSched := r.Pick(4, 10)
	for i := 0; i < nSched && i < len(progs); i++ {
		// a final write of a plain variable makes a variable request the compiler's last one,
		// which is the situation the protocol model singles out
		src := strings.Replace(goProgram(progs[i].prog, progs[i].rsize), "\tfor {\n", "\tbondgo.IOWrite(o0, reg_a)\n\tfor {\n", 1)
		ref := ""
		for _, d := range schedules {
			res := runBondgo(bin, filepath.Join(scratch, "cc"), src, progs[i].rsize, d, 15*time.Second)
			if ref == "" && res.status == "ok" {
				ref = res.digest
			}
			first := nLines + 1
			enc.Encode(map[string]interface{}{"ev": "run", "note": fmt.Sprintf("prog %d delays %q", i, d)})
			nLines++
			for _, p := range res.points {
				enc.Encode(map[string]interface{}{"ev": "point", "p": p})
				nLines++
			}
			rf := ref
			if rf == "" {
				rf = res.digest
			}
			enc.Encode(map[string]interface{}{"ev": "end", "status": res.status, "digest": res.digest, "ref": rf})
			nLines++
			runInfos = append(runInfos, runInfo{first, nLines, fmt.Sprintf("prog %d", i), src, d, res.status, tailStr(res.out, 400)})
			r.Distinct(fmt.Sprintf("sched|%d|%s", i, d))
		}
	}
	tf.Close()
	vres, err := tlc.Run(tlc.Options{SpecDir: specDir, Module: "BondgoSyncTrace", Cfg: "BondgoSyncTrace.cfg", Workers: 1,
		Env: map[string]string{"TRACE": tracePath}, Timeout: 20 * time.Minute})
	if err != nil {
		r.Inconclusive("tlc trace validation: %v", err)
		return
	}
	for _, m := range reReject.FindAllStringSubmatch(vres.Stdout, -1) {
		line, _ := strconv.Atoi(m[1])
		for _, ri := range runInfos {
			if line >= ri.first && line <= ri.last {
				forced := "unforced"
				if ri.delays != "" {
					forced = "forced:" + ri.delays
				}
				r.Violate(m[2], fmt.Sprintf("the real compiler run (%s, schedule %s) ended with status %s: %s", ri.note, forced, ri.status, m[2]),
					map[string]interface{}{"source": ri.src, "delays": ri.delays, "status": ri.status, "output_tail": ri.out})
				break
			}
		}
	}
	if vres.Violation != "" || !strings.Contains(vres.Stdout, "No error has been found") {
		r.Inconclusive("trace validation did not complete (%s %s): %s", vres.Violation, vres.ViolationName, tailStr(vres.Stdout, 1200))
		return
	}
	r.Set("scheduled_compilations", int64(len(runInfos)))

	// ---- semantic half -----------------------------------------------------------------------------------
	var compiled, compared, rejectedSrc, hdlCompared, memoryPrograms int64
	hdlBudget := int64(r.Pick(60, 400))
	rejectKinds := map[string]int{}
	for i, g := range progs {
		src := goProgram(g.prog, g.rsize)
		res := runBondgo(bin, filepath.Join(scratch, "sem"), src, g.rsize, "", 20*time.Second)
		if res.status != "ok" {
			r.Violate("no-termination:unforced-compilation", fmt.Sprintf("bondgo does not terminate normally (%s) on a generated program", res.status), map[string]interface{}{"source": src, "status": res.status, "output_tail": tailStr(res.out, 400)})
			continue
		}
		if strings.Contains(res.out, "Error:") || len(res.bmJSON) == 0 {
			// the compiler does not accept this form: outside "the subset the compiler accepts"
			rejectedSrc++
			first := strings.SplitN(strings.TrimSpace(res.out), "\n", 2)[0]
			rejectKinds[first]++
			continue
		}
		compiled++
		nInstr := strings.Count(res.asmText, "\n") + 1
		ctx := map[string]interface{}{"source": src, "assembly": res.asmText, "expected": g.outs}
		// the generated hardware of the requested machine: the values each external output shows, in order
		// (a value written twice in a row shows once)
		usesMemory := strings.Contains(src, "addmul(")
		if hdlCompared < hdlBudget || usesMemory {
			shown, herr := hdlOutputChanges(res.bmJSON, 60*nInstr+300)
			want := [][]uint64{{0}, {0}}
			for _, ov := range g.outs {
				if o := int(ov[0]); o < 2 && want[o][len(want[o])-1] != ov[1] {
					want[o] = append(want[o], ov[1])
				}
			}
			ctx["hardware_shows"], ctx["source_shows"] = shown, want
			switch {
			case herr != nil && strings.Contains(herr.Error(), "unsupported"):
				r.Add("programs_whose_hardware_the_interpreter_cannot_run", 1)
			case herr != nil:
				r.Violate("emitted-machine-hardware-not-executable", fmt.Sprintf("the generated hardware of the machine bondgo emitted cannot be executed: %v", herr), ctx)
			case len(shown) < 2 || fmt.Sprint(shown[0]) != fmt.Sprint(want[0]) || fmt.Sprint(shown[1]) != fmt.Sprint(want[1]):
				sig := "wrong-output:hardware"
				if g.withIf {
					sig = "wrong-output:program-uses-=="
				}
				r.Violate(sig, fmt.Sprintf("the generated hardware of the compiled program shows %v on its outputs, the source writes %v (rsize %d)", shown, want, g.rsize), ctx)
				hdlCompared++
			default:
				hdlCompared++
			}
		}
		if usesMemory {
			// (the simulator has no RAM, recorded under C01: such programs are judged on the hardware only)
			memoryPrograms++
			r.Distinct("sem|" + src)
			continue
		}
		got, err := simulateOutputs(res.bmJSON, 3*nInstr+20)
		ctx["simulated"] = got
		if err != nil {
			r.Violate("emitted-machine-not-simulable", fmt.Sprintf("the machine bondgo emitted cannot be simulated: %v", err), ctx)
			continue
		}
		compared++
		if g.withIf {
			r.Add("programs_with_if_compared", 1)
		}
		if fmt.Sprint(got) != fmt.Sprint(g.outs) {
			sig := "wrong-output"
			if g.withIf {
				sig = "wrong-output:program-uses-=="
			}
			r.Violate(sig, fmt.Sprintf("compiled program writes %v, the source writes %v (rsize %d)", got, g.outs, g.rsize), ctx)
		}
		r.Distinct("sem|" + src)
		if i%(len(progs)/4+1) == 0 {
			r.Sample(map[string]interface{}{"source": src, "expected_outputs": g.outs, "assembly_lines": nInstr})
		}
	}
	// ---- loops, in main and in a goroutine ------------------------------------------------------------------
	var loopsCompared int64
	for _, g := range loopProgs {
		if len(g.outs) == 0 {
			continue
		}
		for mode := 0; mode < 3; mode++ {
			src := goLoopProgram(g.prog, g.rsize, mode)
			where := [3]string{"main", "goroutine", "one-of-two-goroutines"}[mode]
			res := runBondgo(bin, filepath.Join(scratch, "sem"), src, g.rsize, "", 20*time.Second)
			if res.status != "ok" {
				r.Violate("no-termination:unforced-compilation", fmt.Sprintf("bondgo does not terminate normally (%s) on a generated loop in %s", res.status, where), map[string]interface{}{"source": src, "status": res.status, "output_tail": tailStr(res.out, 400)})
				continue
			}
			if strings.Contains(res.out, "Error:") || len(res.bmJSON) == 0 {
				rejectedSrc++
				rejectKinds[strings.SplitN(strings.TrimSpace(res.out), "\n", 2)[0]]++
				continue
			}
			nInstr := strings.Count(res.asmText, "\n") + 40
			streams, err := simulateAllOutputs(res.bmJSON, (g.repeat+3)*4*nInstr+100)
			ctx := map[string]interface{}{"source": src, "expected_first_iterations": g.outs, "simulated_by_processor": streams}
			if err != nil {
				r.Violate("emitted-machine-not-simulable", fmt.Sprintf("the machine bondgo emitted for a loop in %s cannot be simulated: %v", where, err), ctx)
				continue
			}
			// the processor that runs the body writes the specification's stream (a prefix: the loop goes on)
			found := false
			for _, st := range streams {
				if len(st) >= len(g.outs) && fmt.Sprint(st[:len(g.outs)]) == fmt.Sprint(g.outs) {
					found = true
				}
			}
			loopsCompared++
			if mode == 2 {
				// main launches two goroutines: three processors, and the second goroutine counts in threes
				counts := false
				for _, st := range streams {
					if len(st) >= 3 && fmt.Sprint(st[:3]) == fmt.Sprint([][2]uint64{{0, 3}, {0, 6}, {0, 9}}) {
						counts = true
					}
				}
				if len(streams) != 3 || !counts {
					r.Violate("wrong-output:second-goroutine-of-one-launcher", fmt.Sprintf("main launches two goroutines: the machine has %d processors (the source has 3 goroutines) and the counting goroutine's stream 3,6,9 is %s", len(streams), map[bool]string{true: "written", false: "not written by any processor"}[counts]), ctx)
					continue
				}
			}
			if !found {
				sig := "wrong-output:loop-in-" + where
				if g.withIf {
					sig += ":program-uses-=="
				}
				r.Violate(sig, fmt.Sprintf("a loop in %s: no processor writes the stream of the source %v (rsize %d)", where, g.outs, g.rsize), ctx)
			}
			r.Distinct("loop|" + src)
		}
	}
	r.Set("loop_programs_compared", loopsCompared)
	r.Set("tuple_assignments_printed", goTupleCount)

	// ---- linked goroutines: settled outputs (GoLinked) ---------------------------------------------------------
	rowPath := filepath.Join(scratch, "linked.ndjson")
	lres, err := tlc.Run(tlc.Options{SpecDir: specDir, Module: "GoLinked", Cfg: "GoLinked.cfg", Workers: 1, Timeout: 5 * time.Minute, Env: map[string]string{"ROWS": rowPath}})
	if err != nil || !lres.OK() {
		r.Inconclusive("tlc GoLinked: %v", err)
		return
	}
	states += lres.Distinct
	var linkedCompared, linkedHdl int64
	readNDJSON(rowPath, func(b []byte) error {
		var row struct {
			LinkFirst bool   `json:"linkfirst"`
			Extra     bool   `json:"extra"`
			In0       uint64 `json:"in0"`
			Inx       uint64 `json:"inx"`
			Out0      uint64 `json:"out0"`
			Wout      uint64 `json:"wout"`
		}
		if json.Unmarshal(b, &row) != nil {
			return nil
		}
		src := goLinkedValues(row.LinkFirst, row.Extra)
		res := runBondgo(bin, filepath.Join(scratch, "sem"), src, 8, "", 20*time.Second)
		ctx := map[string]interface{}{"source": src, "row": row}
		if res.status != "ok" || len(res.bmJSON) == 0 {
			r.Violate("no-termination:linked-goroutines", fmt.Sprintf("bondgo does not compile two linked goroutines (%s): %s", res.status, tailStr(res.out, 300)), ctx)
			return nil
		}
		bm, err := loadMachine(res.bmJSON)
		if err != nil {
			r.Violate("emitted-machine-not-simulable", fmt.Sprintf("the machine emitted for two linked goroutines cannot be loaded: %v", err), ctx)
			return nil
		}
		got, err := settledOutputs(bm, []uint64{row.In0, row.Inx}, 8)
		if err != nil {
			r.Violate("emitted-machine-not-simulable", fmt.Sprintf("the machine emitted for two linked goroutines cannot be simulated: %v", err), ctx)
			return nil
		}
		linkedCompared++
		want := []uint64{row.Out0, row.Wout}
		ctx["settled_outputs"], ctx["expected"] = got, want
		if fmt.Sprint(got) != fmt.Sprint(want) {
			r.Violate("wrong-output:linked-goroutines", fmt.Sprintf("two linked goroutines: the external outputs settle to %v, the source gives %v", got, want), ctx)
		}
		// the same on the generated hardware of the requested machine
		hw, herr := hdlSettledOutputs(res.bmJSON, []uint64{row.In0, row.Inx}, 1500)
		ctx["hardware_settles_to"] = hw
		if herr != nil {
			r.Violate("emitted-machine-hardware-not-executable", fmt.Sprintf("the generated hardware of the machine emitted for two linked goroutines cannot be executed: %v", herr), ctx)
		} else if fmt.Sprint(hw) != fmt.Sprint(want) {
			r.Violate("wrong-output:linked-goroutines:hardware", fmt.Sprintf("two linked goroutines: the external outputs of the generated hardware settle to %v, the source gives %v", hw, want), ctx)
		} else {
			linkedHdl++
		}
		return nil
	})
	r.Set("linked_goroutine_programs_compared", linkedCompared)
	r.Set("linked_goroutine_programs_compared_on_the_generated_hardware", linkedHdl)

	// ---- goroutines joined by an unbuffered channel (GoChan): the streams on both sides ------------------------
	chanRows := filepath.Join(scratch, "chan.ndjson")
	cres, err := tlc.Run(tlc.Options{SpecDir: specDir, Module: "GoChan", Cfg: "GoChan.cfg", Workers: 1, Timeout: 5 * time.Minute, Env: map[string]string{"ROWS": chanRows}})
	if err != nil || !cres.OK() {
		r.Inconclusive("tlc GoChan: %v", err)
		return
	}
	states += cres.Distinct
	transitions += cres.Generated
	var chanCompared int64
	readNDJSON(chanRows, func(b []byte) error {
		var row struct {
			Expr   string   `json:"expr"`
			WAdd   int      `json:"wadd"`
			Main   []uint64 `json:"main"`
			Worker []uint64 `json:"worker"`
		}
		if json.Unmarshal(b, &row) != nil {
			return nil
		}
		src := goChanSource(row.Expr, row.WAdd)
		res := runBondgo(bin, filepath.Join(scratch, "sem"), src, 8, "", 20*time.Second)
		ctx := map[string]interface{}{"source": src, "row": row}
		if res.status != "ok" || len(res.bmJSON) == 0 {
			r.Violate("no-termination:channel", fmt.Sprintf("bondgo does not compile two goroutines joined by a channel (%s): %s", res.status, tailStr(res.out, 300)), ctx)
			return nil
		}
		streams, err := simulateAllOutputs(res.bmJSON, 800)
		if err != nil {
			r.Violate("emitted-machine-not-simulable", fmt.Sprintf("the machine bondgo emitted for two goroutines joined by a channel cannot be simulated: %v", err), ctx)
			return nil
		}
		ctx["simulated_by_processor"] = streams
		has := func(want []uint64) bool {
			for _, st := range streams {
				if len(st) < len(want) {
					continue
				}
				ok := true
				for i, w := range want {
					ok = ok && st[i][1] == w
				}
				if ok {
					return true
				}
			}
			return false
		}
		chanCompared++
		if !has(row.Worker) || !has(row.Main) {
			r.Violate("wrong-output:channel-transfer", fmt.Sprintf("main sends %s on a channel and the worker writes what it receives plus %d: no processor writes the worker's stream %v (main's stream %v written: %v)", row.Expr, row.WAdd, row.Worker, row.Main, has(row.Main)), ctx)
		}
		return nil
	})
	r.Set("channel_programs_compared", chanCompared)

	// ---- a catalogue of language features: compilation terminates and does not depend on the schedule -----------
	var featureRuns int64
	for _, ft := range goFeatureSources() {
		ref := ""
		for _, d := range []string{"", "assigner-notify=12ms", "monitor-recv=4ms", "assigner-answer=12ms"} {
			res := runBondgo(bin, filepath.Join(scratch, "cc"), ft[1], 8, d, 15*time.Second)
			featureRuns++
			ctx := map[string]interface{}{"feature": ft[0], "source": ft[1], "delays": d, "output_tail": tailStr(res.out, 300)}
			if res.status != "ok" {
				r.Violate("no-termination:feature:"+ft[0], fmt.Sprintf("bondgo does not terminate normally (%s) on a program with %s (delays %q)", res.status, ft[0], d), ctx)
				break
			}
			if ref == "" {
				ref = res.digest
			} else if res.digest != ref {
				r.Violate("output-depends-on-schedule:feature:"+ft[0], fmt.Sprintf("bondgo emits different artefacts for a program with %s under delays %q", ft[0], d), ctx)
				break
			}
		}
	}
	r.Set("feature_catalogue_compilations", featureRuns)
	r.Set("programs", int64(len(progs)+len(loopProgs)))
	r.Set("programs_compiled", compiled)
	r.Set("programs_compared_on_the_generated_hardware", hdlCompared)
	r.Set("programs_with_a_local_in_memory", memoryPrograms)
	r.Set("programs_compared", compared)
	r.Set("programs_rejected_by_compiler", rejectedSrc)
	r.Set("compiler_rejections", rejectKinds)
	r.Set("states", states)
	r.Set("transitions", transitions)
	r.Set("traces_validated_against_impl", int64(len(runInfos))+compared)
	r.Set("evaluations", int64(len(runInfos))+int64(len(progs)))
	if compared == 0 {
		r.Inconclusive("no generated program was compiled and compared: the semantic half is vacuous")
	}
}

// goLoopProgram prints a GoSubset program as the body of an endless loop, in main or in a goroutine
// (main then counts on an output of its own).
func goLoopProgram(prog tlaval.Value, rsize int, mode int) string {
	inWorker := mode > 0
	goRsize = rsize
	typ := "uint" + strconv.Itoa(rsize)
	var sb strings.Builder
	sb.WriteString("package main\n\nimport (\n\t\"bondgo\"\n)\n\n")
	body := func(id0, id1 int) {
		sb.WriteString("\tvar o0 bondgo.Output\n\tvar o1 bondgo.Output\n")
		for _, v := range []string{"a", "b", "c"} {
			sb.WriteString("\tvar reg_" + v + " " + typ + "\n")
		}
		fmt.Fprintf(&sb, "\to0 = bondgo.Make(bondgo.Output, %d)\n\to1 = bondgo.Make(bondgo.Output, %d)\n\tfor {\n", id0, id1)
		for _, s := range tlaval.AsSeq(prog) {
			sb.WriteString(goStmt(s, "\t\t"))
		}
		sb.WriteString("\t}\n")
	}
	if inWorker {
		sb.WriteString("func worker() {\n")
		body(3, 4)
		second := ""
		if mode == 2 {
			sb.WriteString("}\n\nfunc counter() {\n\tvar k0 bondgo.Output\n\tvar reg_k " + typ + "\n\tk0 = bondgo.Make(bondgo.Output, 5)\n\tfor {\n\t\treg_k = reg_k + 3\n\t\tbondgo.IOWrite(k0, reg_k)\n\t}\n")
			second = "\tgo counter()\n"
		}
		sb.WriteString("}\n\nfunc main() {\n\tvar m0 bondgo.Output\n\tvar reg_m " + typ + "\n\tm0 = bondgo.Make(bondgo.Output, 1)\n\tgo worker()\n" + second + "\tfor {\n\t\treg_m++\n\t\tbondgo.IOWrite(m0, reg_m)\n\t}\n}\n")
	} else {
		sb.WriteString("func main() {\n")
		body(1, 2)
		sb.WriteString("}\n")
	}
	return sb.String()
}

// simulateAllOutputs runs the emitted machine and returns, per processor, the values written by r2o.
func simulateAllOutputs(bmJSON []byte, ticks int) (outs [][][2]uint64, err error) {
	defer func() {
		if e := recover(); e != nil {
			err = fmt.Errorf("panic: %v", e)
		}
	}()
	bm, err := loadMachine(bmJSON)
	if err != nil {
		return nil, err
	}
	vm, err := startVM(bm, nil)
	if err != nil {
		return nil, err
	}
	defer vm.Stop()
	outs = make([][][2]uint64, len(vm.Processors))
	pcs := make([]uint64, len(vm.Processors))
	ports := make([]int, len(vm.Processors))
	for t := 0; t < ticks; t++ {
		for i, p := range vm.Processors {
			pcs[i], ports[i] = p.Pc, -1
			if int(p.Pc) < len(p.Mach.Program.Slocs) {
				instr := p.Mach.Program.Slocs[p.Pc]
				idx, _ := p.Mach.Conproc.Decode_opcode(instr)
				op := p.Mach.Arch.Conproc.Op[idx]
				if op.Op_get_name() == "r2o" {
					dis, _ := op.Disassembler(&p.Mach.Arch, instr[p.Mach.Opcodes_bits():])
					f := strings.Fields(dis)
					if len(f) == 2 && strings.HasPrefix(f[1], "o") {
						ports[i], _ = strconv.Atoi(f[1][1:])
					}
				}
			}
		}
		if _, err := vm.Step(nil); err != nil {
			return outs, err
		}
		for i, p := range vm.Processors {
			if ports[i] >= 0 && p.Pc == pcs[i]+1 {
				outs[i] = append(outs[i], [2]uint64{uint64(ports[i]), u64(p.Outputs[ports[i]])})
			}
		}
	}
	return outs, nil
}

// goLinkedValues is the GoLinked family as Go source.
func goLinkedValues(linkFirst, workerExtra bool) string {
	var sb strings.Builder
	sb.WriteString("package main\n\nimport \"bondgo\"\n\nfunc worker() {\n")
	if workerExtra {
		sb.WriteString("\tvar wother bondgo.Input\n")
	}
	sb.WriteString("\tvar win bondgo.Input\n\tvar wout bondgo.Output\n")
	if workerExtra {
		sb.WriteString("\twother = bondgo.Make(bondgo.Input, 9)\n")
	}
	sb.WriteString("\twin = bondgo.Make(bondgo.Input, 5)\n\twout = bondgo.Make(bondgo.Output, 2)\n\tfor {\n")
	if workerExtra {
		sb.WriteString("\t\tbondgo.IOWrite(wout, bondgo.IORead(win)+bondgo.IORead(wother))\n")
	} else {
		sb.WriteString("\t\tbondgo.IOWrite(wout, bondgo.IORead(win)+1)\n")
	}
	sb.WriteString("\t}\n}\n\nfunc main() {\n\tvar in0 bondgo.Input\n")
	if linkFirst {
		sb.WriteString("\tvar link bondgo.Output\n\tvar out0 bondgo.Output\n\tin0 = bondgo.Make(bondgo.Input, 3)\n\tlink = bondgo.Make(bondgo.Output, 5)\n\tout0 = bondgo.Make(bondgo.Output, 1)\n")
	} else {
		sb.WriteString("\tvar out0 bondgo.Output\n\tvar link bondgo.Output\n\tin0 = bondgo.Make(bondgo.Input, 3)\n\tout0 = bondgo.Make(bondgo.Output, 1)\n\tlink = bondgo.Make(bondgo.Output, 5)\n")
	}
	sb.WriteString("\tgo worker()\n\tfor {\n\t\tbondgo.IOWrite(out0, bondgo.IORead(in0))\n\t\tbondgo.IOWrite(link, bondgo.IORead(in0)+5)\n\t}\n}\n")
	return sb.String()
}

// settledOutputs simulates a machine with its external inputs held and returns the external
// outputs once they have been stable for a while.
func settledOutputs(bm *bondmachine.Bondmachine, inputs []uint64, rsize int) (outs []uint64, err error) {
	defer func() {
		if e := recover(); e != nil {
			err = fmt.Errorf("panic: %v", e)
		}
	}()
	vm, err := startVM(bm, nil)
	if err != nil {
		return nil, err
	}
	defer vm.Stop()
	for i := range vm.Inputs_regs {
		if i < len(inputs) {
			vm.Inputs_regs[i] = regVal(rsize, inputs[i])
			vm.InputsValid[i] = true
		}
	}
	last, stable := "", 0
	for t := 0; t < 3000 && stable < 150; t++ {
		if _, err := vm.Step(nil); err != nil {
			return nil, err
		}
		cur := fmt.Sprint(vm.Outputs_regs)
		if cur == last {
			stable++
		} else {
			last, stable = cur, 0
		}
	}
	for _, v := range vm.Outputs_regs {
		outs = append(outs, u64(v))
	}
	return outs, nil
}

// goFeatureSources is a catalogue of Go sources, one per language feature of the accepted subset that
// the generated programs do not reach (channels and where they are declared, functions, goroutines).
func goFeatureSources() [][2]string {
	worker := "func worker(c chan uint8) {\n\tvar o1 bondgo.Output\n\tvar reg_v uint8\n\to1 = bondgo.Make(bondgo.Output, 2)\n\tfor {\n\t\treg_v = <-c\n\t\tbondgo.IOWrite(o1, reg_v)\n\t}\n}\n\n"
	head := "package main\n\nimport \"bondgo\"\n\n"
	return [][2]string{
		{"a channel declared at the top of main", head + worker + "func main() {\n\tvar o0 bondgo.Output\n\tvar reg_a uint8\n\tvar c chan uint8\n\to0 = bondgo.Make(bondgo.Output, 1)\n\tgo worker(c)\n\tfor {\n\t\treg_a++\n\t\tc <- reg_a\n\t\tbondgo.IOWrite(o0, reg_a)\n\t}\n}\n"},
		{"a channel declared in an inner block", head + worker + "func main() {\n\tvar o0 bondgo.Output\n\tvar reg_a uint8\n\to0 = bondgo.Make(bondgo.Output, 1)\n\t{\n\t\tvar c chan uint8\n\t\tgo worker(c)\n\t\tc <- 5\n\t}\n\tfor {\n\t\treg_a++\n\t\tbondgo.IOWrite(o0, reg_a)\n\t}\n}\n"},
		{"a channel passed to a function", head + worker + "func push(c chan uint8, v uint8) uint8 {\n\tc <- v\n\treturn v + 1\n}\n\nfunc main() {\n\tvar o0 bondgo.Output\n\tvar reg_a uint8\n\tvar c chan uint8\n\to0 = bondgo.Make(bondgo.Output, 1)\n\tgo worker(c)\n\tfor {\n\t\treg_a = push(c, reg_a)\n\t\tbondgo.IOWrite(o0, reg_a)\n\t}\n}\n"},
		{"a function called from a goroutine's loop", head + "func twice(v uint8) uint8 {\n\treturn v + v\n}\n\nfunc worker() {\n\tvar o1 bondgo.Output\n\tvar reg_v uint8\n\to1 = bondgo.Make(bondgo.Output, 2)\n\tfor {\n\t\treg_v++\n\t\treg_v = twice(reg_v)\n\t\tbondgo.IOWrite(o1, reg_v)\n\t}\n}\n\nfunc main() {\n\tvar o0 bondgo.Output\n\tvar reg_a uint8\n\to0 = bondgo.Make(bondgo.Output, 1)\n\tgo worker()\n\tfor {\n\t\treg_a++\n\t\tbondgo.IOWrite(o0, reg_a)\n\t}\n}\n"},
		{"variables declared in nested blocks", head + "func main() {\n\tvar o0 bondgo.Output\n\tvar reg_a uint8\n\to0 = bondgo.Make(bondgo.Output, 1)\n\tfor {\n\t\t{\n\t\t\tvar reg_b uint8\n\t\t\treg_b = reg_a + 1\n\t\t\t{\n\t\t\t\tvar reg_c uint8\n\t\t\t\treg_c = reg_b + 1\n\t\t\t\treg_a = reg_c\n\t\t\t}\n\t\t}\n\t\tbondgo.IOWrite(o0, reg_a)\n\t}\n}\n"},
	}
}

// goChanSource is a row of GoChan as Go source.
func goChanSource(expr string, wadd int) string {
	e := map[string]string{"x": "reg_x", "x+x": "reg_x + reg_x", "x+5": "reg_x + 5"}[expr]
	w := "reg_v"
	if wadd != 0 {
		w = fmt.Sprintf("reg_v + %d", wadd)
	}
	return "package main\n\nimport \"bondgo\"\n\nfunc worker(c chan uint8) {\n\tvar o1 bondgo.Output\n\tvar reg_v uint8\n\to1 = bondgo.Make(bondgo.Output, 2)\n\tfor {\n\t\treg_v = <-c\n\t\tbondgo.IOWrite(o1, " + w + ")\n\t}\n}\n\n" +
		"func main() {\n\tvar o0 bondgo.Output\n\tvar reg_x uint8\n\tvar c chan uint8\n\to0 = bondgo.Make(bondgo.Output, 1)\n\tgo worker(c)\n\tfor {\n\t\treg_x++\n\t\tc <- " + e + "\n\t\tbondgo.IOWrite(o0, reg_x)\n\t}\n}\n"
}

// goRunCmd (development aid): compiles a Go source with the real bondgo, simulates the emitted machine
// and prints the values every processor writes to its outputs.
func goRunCmd(path string) int {
	src, err := os.ReadFile(path)
	if err != nil {
		fmt.Println(err)
		return 2
	}
	scratch, _ := os.MkdirTemp("", "bmverif-gorun-")
	defer os.RemoveAll(scratch)
	bin := filepath.Join(scratch, "bondgo")
	build := exec.Command("go", "build", "-tags", "verif", "-o", bin, "./cmd/bondgo")
	build.Dir = repoDir()
	if out, err := build.CombinedOutput(); err != nil {
		fmt.Println(string(out), err)
		return 2
	}
	res := runBondgo(bin, filepath.Join(scratch, "cc"), string(src), 8, "", 20*time.Second)
	fmt.Println("status:", res.status)
	fmt.Println(tailStr(res.out, 800))
	fmt.Println(res.asmText)
	if len(res.bmJSON) == 0 {
		return 1
	}
	streams, err := simulateAllOutputs(res.bmJSON, 600)
	fmt.Println("streams:", streams, "err:", err)
	hs, err := hdlOutputChanges(res.bmJSON, 1500)
	fmt.Println("hdl output changes:", hs, "err:", err)
	return 0
}

// hdlSettledOutputs runs the generated Verilog of an emitted machine with its external inputs held and
// returns the values on the external outputs after nclk clocks.
func hdlSettledOutputs(bmJSON []byte, inputs []uint64, nclk int) (outs []uint64, err error) {
	defer func() {
		if e := recover(); e != nil {
			err = fmt.Errorf("panic: %v", e)
		}
	}()
	bm, err := loadMachine(bmJSON)
	if err != nil {
		return nil, err
	}
	sim, _, err := elaborateBM(bm)
	if err != nil {
		return nil, err
	}
	hold := func() {
		for i := 0; i < bm.Inputs; i++ {
			v := uint64(0)
			if i < len(inputs) {
				v = inputs[i]
			}
			sim.Set(fmt.Sprintf("i%d", i), v)
			sim.Set(fmt.Sprintf("i%d_valid", i), 1)
		}
		for o := 0; o < bm.Outputs; o++ {
			sim.Set(fmt.Sprintf("o%d_received", o), 0)
		}
	}
	hold()
	sim.Set("reset", 1)
	if err := sim.Step("clk"); err != nil {
		return nil, err
	}
	sim.Set("reset", 0)
	if err := powerUpZero(sim); err != nil {
		return nil, err
	}
	for t := 0; t < nclk; t++ {
		hold()
		if err := sim.Step("clk"); err != nil {
			return nil, fmt.Errorf("clock %d: %v", t, err)
		}
	}
	for o := 0; o < bm.Outputs; o++ {
		v, _ := sim.Get(fmt.Sprintf("o%d", o))
		outs = append(outs, v)
	}
	return outs, nil
}

// hdlOutputChanges runs the generated Verilog of an emitted machine for nclk clocks and returns, for
// every external output, the successive values it shows (a new entry whenever the value changes).
func hdlOutputChanges(bmJSON []byte, nclk int) (outs [][]uint64, err error) {
	defer func() {
		if e := recover(); e != nil {
			err = fmt.Errorf("panic: %v", e)
		}
	}()
	bm, err := loadMachine(bmJSON)
	if err != nil {
		return nil, err
	}
	sim, _, err := elaborateBM(bm)
	if err != nil {
		return nil, err
	}
	for i := 0; i < bm.Inputs; i++ {
		sim.Set(fmt.Sprintf("i%d", i), 0)
	}
	sim.Set("reset", 1)
	if err := sim.Step("clk"); err != nil {
		return nil, err
	}
	sim.Set("reset", 0)
	if err := powerUpZero(sim); err != nil {
		return nil, err
	}
	outs = make([][]uint64, bm.Outputs)
	for t := 0; t < nclk; t++ {
		if err := sim.Step("clk"); err != nil {
			return outs, fmt.Errorf("clock %d: %v", t, err)
		}
		for o := 0; o < bm.Outputs; o++ {
			v, known := sim.Get(fmt.Sprintf("o%d", o))
			if !known {
				continue
			}
			if n := len(outs[o]); n == 0 || outs[o][n-1] != v {
				outs[o] = append(outs[o], v)
			}
		}
	}
	return outs, nil
}
