package main

// C12 — compiled Go programs do what the source does; compilation always terminates.
//
// Concurrency half: BondgoSync (visitor / Var_assigner / Usage_Monitor over unbuffered channels)
// is explored by TLC for both orders of the assigner's answer/notify pair: the order that admits
// a deadlock gives the schedule to force.  The REAL compiler (cmd/bondgo built with -tags verif)
// is run under schedules forced by delays at each hook point; the hook log and the way each
// process ended are judged by TLC (BondgoSyncTrace): termination under every schedule, identical
// artefacts.
// Semantic half: GoSubset (reference semantics with wrap-around) under TLC -simulate builds
// random programs with their expected output streams; each is printed as Go, compiled by the real
// bondgo, the emitted machine is simulated by the real VM and the output streams compared.

import (
	"bytes"
	"context"
	"crypto/sha1"
	"encoding/hex"
	"encoding/json"
	"fmt"
	"os"
	"os/exec"
	"path/filepath"
	"sort"
	"strconv"
	"strings"
	"time"

	"github.com/BondMachineHQ/BondMachine/pkg/bondmachine"

	"verif/harness/evid"
	"verif/harness/tlaval"
	"verif/harness/tlc"
)

func init() { register("C12", "model_checking", runC12) }

// ---- Go source from a GoSubset program ----------------------------------------------------------

func goAtom(v tlaval.Value) string {
	r := tlaval.AsRec(v)
	if tlaval.Str(r["k"]) == "const" {
		return strconv.Itoa(tlaval.Int(r["n"]))
	}
	return "reg_" + tlaval.Str(r["v"])
}

func goExpr(v tlaval.Value) string {
	r := tlaval.AsRec(v)
	switch tlaval.Str(r["k"]) {
	case "add":
		return goAtom(r["l"]) + " + " + goAtom(r["r"])
	case "mul":
		return goAtom(r["l"]) + " * " + goAtom(r["r"])
	}
	return goAtom(v)
}

func goStmt(v tlaval.Value, ind string) string {
	r := tlaval.AsRec(v)
	switch tlaval.Str(r["k"]) {
	case "decl":
		return ind + "var reg_" + tlaval.Str(r["v"]) + " uint" + strconv.Itoa(goRsize) + "\n"
	case "set":
		return ind + "reg_" + tlaval.Str(r["v"]) + " = " + goExpr(r["e"]) + "\n"
	case "inc":
		return ind + "reg_" + tlaval.Str(r["v"]) + "++\n"
	case "dec":
		return ind + "reg_" + tlaval.Str(r["v"]) + "--\n"
	case "out":
		return ind + "bondgo.IOWrite(o" + strconv.Itoa(tlaval.Int(r["o"])) + ", " + goExpr(r["e"]) + ")\n"
	case "ifeq":
		return ind + "if " + goAtom(r["l"]) + " == " + goAtom(r["r"]) + " {\n" + goStmt(r["t"], ind+"\t") + ind + "} else {\n" + goStmt(r["f"], ind+"\t") + ind + "}\n"
	}
	return ind + "// ?\n"
}

var goRsize = 8

func goProgram(prog tlaval.Value, rsize int) string {
	goRsize = rsize
	typ := "uint" + strconv.Itoa(rsize)
	var sb strings.Builder
	sb.WriteString("package main\n\nimport (\n\t\"bondgo\"\n)\n\nfunc main() {\n")
	sb.WriteString("\tvar o0 bondgo.Output\n\tvar o1 bondgo.Output\n")
	for _, v := range []string{"a", "b", "c"} {
		sb.WriteString("\tvar reg_" + v + " " + typ + "\n")
	}
	sb.WriteString("\to0 = bondgo.Make(bondgo.Output, 1)\n\to1 = bondgo.Make(bondgo.Output, 2)\n")
	for _, s := range tlaval.AsSeq(prog) {
		sb.WriteString(goStmt(s, "\t"))
	}
	sb.WriteString("\tfor {\n\t}\n}\n")
	return sb.String()
}

type bgRun struct {
	status  string // ok | timeout | crash
	out     string
	points  []string
	digest  string
	asmText string
	bmJSON  []byte
}

// runBondgo compiles src with the real compiler under the given hook delays.
func runBondgo(bin, dir, src string, rsize int, delays string, deadline time.Duration) bgRun {
	os.MkdirAll(dir, 0o755)
	for _, f := range []string{"out.asm_0", "out.asm_1", "bm.json", "hook.log"} {
		os.Remove(filepath.Join(dir, f))
	}
	os.WriteFile(filepath.Join(dir, "p.go"), []byte(src), 0o644)
	ctx, cancel := context.WithTimeout(context.Background(), deadline)
	defer cancel()
	cmd := exec.CommandContext(ctx, bin, "-input-file", "p.go", "-register-size", strconv.Itoa(rsize), "-save-assembly", "out.asm", "-save-bondmachine", "bm.json", "-mpm")
	cmd.Dir = dir
	cmd.Env = append(os.Environ(), "BM_VERIF_LOG="+filepath.Join(dir, "hook.log"), "BM_VERIF_DELAY="+delays)
	var buf bytes.Buffer
	cmd.Stdout, cmd.Stderr = &buf, &buf
	err := cmd.Run()
	var res bgRun
	res.out = buf.String()
	switch {
	case ctx.Err() == context.DeadlineExceeded:
		res.status = "timeout"
	case err != nil:
		res.status = "crash"
	default:
		res.status = "ok"
	}
	if b, err := os.ReadFile(filepath.Join(dir, "hook.log")); err == nil {
		for _, ln := range strings.Split(strings.TrimSpace(string(b)), "\n") {
			f := strings.Fields(ln)
			if len(f) == 2 {
				res.points = append(res.points, f[1])
			}
		}
	}
	a, _ := os.ReadFile(filepath.Join(dir, "out.asm_0"))
	res.asmText = string(a)
	res.bmJSON, _ = os.ReadFile(filepath.Join(dir, "bm.json"))
	h := sha1.Sum(append(append([]byte{}, a...), res.bmJSON...))
	res.digest = hex.EncodeToString(h[:8])
	return res
}

// simulateOutputs runs the emitted machine on the real VM and returns the values written by r2o.
func simulateOutputs(bmJSON []byte, ticks int) (outs [][2]uint64, err error) {
	defer func() {
		if e := recover(); e != nil {
			err = fmt.Errorf("panic: %v", e)
		}
	}()
	bj := new(bondmachine.Bondmachine_json)
	if err := json.Unmarshal(bmJSON, bj); err != nil {
		return nil, err
	}
	bm := bj.Dejsoner()
	bm.Init()
	vm, err := startVM(bm, nil)
	if err != nil {
		return nil, err
	}
	defer vm.Stop()
	p := vm.Processors[0]
	opBits := p.Mach.Opcodes_bits()
	for t := 0; t < ticks; t++ {
		pc := p.Pc
		var port = -1
		if int(pc) < len(p.Mach.Program.Slocs) {
			instr := p.Mach.Program.Slocs[pc]
			idx, _ := p.Mach.Conproc.Decode_opcode(instr)
			op := p.Mach.Arch.Conproc.Op[idx]
			if op.Op_get_name() == "r2o" {
				dis, _ := op.Disassembler(&p.Mach.Arch, instr[opBits:])
				f := strings.Fields(dis)
				if len(f) == 2 && strings.HasPrefix(f[1], "o") {
					port, _ = strconv.Atoi(f[1][1:])
				}
			}
		}
		if _, err := vm.Step(nil); err != nil {
			return outs, err
		}
		if port >= 0 && p.Pc == pc+1 {
			outs = append(outs, [2]uint64{uint64(port), u64(p.Outputs[port])})
		}
	}
	return outs, nil
}

func runC12(r *evid.Run) {
	scratch, err := os.MkdirTemp("", "bmverif-c12-")
	if err != nil {
		r.Inconclusive("mktemp: %v", err)
		return
	}
	defer os.RemoveAll(scratch)
	var states, transitions int64

	// ---- concurrency half: the protocol model -------------------------------------------------------
	for _, order := range []string{"notify-first", "answer-first"} {
		cfg := fmt.Sprintf("SPECIFICATION FairSpec\nCONSTANTS\n MaxOps = %d\n Order = \"%s\"\nINVARIANT DeadlockFree\nINVARIANT NotifiedBeforeExit\nINVARIANT SameRequirements\nPROPERTY Termination\nCHECK_DEADLOCK FALSE\n", r.Pick(4, 7), order)
		res, err := tlc.Run(tlc.Options{SpecDir: specDir, Module: "BondgoSync", CfgText: cfg, Workers: 4, Timeout: 15 * time.Minute})
		if err != nil {
			r.Inconclusive("tlc: %v", err)
			return
		}
		states += res.Distinct
		transitions += res.Generated
		if order == "notify-first" && !res.OK() {
			r.Inconclusive("TLC rejects BondgoSync with the assigner notifying before it answers (%s %s): the protocol model is wrong", res.Violation, res.ViolationName)
			return
		}
		if order == "answer-first" && res.Violation != "" {
			r.Set("model_candidate", fmt.Sprintf("with the assigner answering before it notifies BondgoSync violates %s after %d steps: the schedule to force is a late assigner notification", res.ViolationName, len(res.Trace)-1))
		}
	}

	// ---- build the real compiler with hooks ----------------------------------------------------------
	bin := filepath.Join(scratch, "bondgo")
	build := exec.Command("go", "build", "-tags", "verif", "-o", bin, "./cmd/bondgo")
	build.Dir = repoDir()
	if out, err := build.CombinedOutput(); err != nil {
		r.Inconclusive("cannot build cmd/bondgo: %v\n%s", err, tailStr(string(out), 600))
		return
	}

	// ---- programs from the reference semantics (TLC -simulate) ------------------------------------------
	type gprog struct {
		prog   tlaval.Value
		outs   [][2]uint64
		rsize  int
		withIf bool
	}
	var progs []gprog
	gen := func(rsize int, withIf, noAssign bool, n, depth int, seed int64) bool {
		dir := filepath.Join(scratch, fmt.Sprintf("gs_%d_%v_%v", rsize, withIf, noAssign))
		os.MkdirAll(dir, 0o755)
		cfg := fmt.Sprintf("SPECIFICATION Spec\nCONSTANTS\n RSize = %d\n MaxLen = %d\n WithIf = %s\n NoAssign = %s\nINVARIANT TypeOK\nCHECK_DEADLOCK FALSE\n", rsize, depth, strings.ToUpper(fmt.Sprint(withIf)), strings.ToUpper(fmt.Sprint(noAssign)))
		_, err := tlc.Run(tlc.Options{SpecDir: specDir, Module: "GoSubset", CfgText: cfg, Workers: 1, Timeout: 15 * time.Minute,
			Args: []string{"-simulate", fmt.Sprintf("file=%s/b,num=%d", dir, n), "-depth", strconv.Itoa(depth + 1), "-seed", strconv.FormatInt(seed, 10)}})
		if err != nil {
			r.Inconclusive("tlc simulate: %v", err)
			return false
		}
		files, _ := filepath.Glob(filepath.Join(dir, "b_*"))
		sort.Strings(files)
		for _, f := range files {
			beh, err := tlc.ParseSimFile(f)
			if err != nil || len(beh) == 0 {
				r.Inconclusive("parse %s: %v", f, err)
				return false
			}
			last := beh[len(beh)-1].Vars
			g := gprog{prog: last["prog"], rsize: rsize, withIf: withIf}
			for _, o := range tlaval.AsSeq(last["outs"]) {
				t := tlaval.AsSeq(o)
				g.outs = append(g.outs, [2]uint64{uint64(tlaval.Int(t[0])), uint64(tlaval.Int(t[1]))})
			}
			progs = append(progs, g)
			transitions += int64(len(beh))
		}
		os.RemoveAll(dir)
		return true
	}
	if !gen(8, false, false, r.Pick(40, 400), 8, r.Seed*11+1) || !gen(16, false, false, r.Pick(15, 200), 8, r.Seed*11+2) ||
		!gen(8, false, true, r.Pick(15, 120), 6, r.Seed*11+4) || !gen(8, true, false, r.Pick(25, 150), 5, r.Seed*11+3) {
		return
	}
	states += int64(len(progs))

	// ---- concurrency half on the real compiler: forced schedules ------------------------------------------
	tracePath := filepath.Join(scratch, "trace.ndjson")
	tf, _ := os.Create(tracePath)
	enc := json.NewEncoder(tf)
	nLines := 0
	type runInfo struct {
		first, last int
		note        string
		src         string
		delays      string
		status      string
		out         string
	}
	var runInfos []runInfo
	schedules := []string{"", "", "assigner-notify=12ms", "assigner-answer=12ms", "monitor-recv=4ms", "main-exit-monitor=40ms", "main-exit-assigner=40ms", "assigner-notify=12ms,monitor-recv=3ms", "assigner-answer=6ms,assigner-notify=6ms"}
	nSched := r.Pick(4, 10)
	for i := 0; i < nSched && i < len(progs); i++ {
		// a final write of a plain variable makes a variable request the compiler's last one,
		// which is the situation the protocol model singles out
		src := strings.Replace(goProgram(progs[i].prog, progs[i].rsize), "\tfor {\n", "\tbondgo.IOWrite(o0, reg_a)\n\tfor {\n", 1)
		ref := ""
		for _, d := range schedules {
			res := runBondgo(bin, filepath.Join(scratch, "cc"), src, progs[i].rsize, d, 15*time.Second)
			if ref == "" && res.status == "ok" {
				ref = res.digest
			}
			first := nLines + 1
			enc.Encode(map[string]interface{}{"ev": "run", "note": fmt.Sprintf("prog %d delays %q", i, d)})
			nLines++
			for _, p := range res.points {
				enc.Encode(map[string]interface{}{"ev": "point", "p": p})
				nLines++
			}
			rf := ref
			if rf == "" {
				rf = res.digest
			}
			enc.Encode(map[string]interface{}{"ev": "end", "status": res.status, "digest": res.digest, "ref": rf})
			nLines++
			runInfos = append(runInfos, runInfo{first, nLines, fmt.Sprintf("prog %d", i), src, d, res.status, tailStr(res.out, 400)})
			r.Distinct(fmt.Sprintf("sched|%d|%s", i, d))
		}
	}
	tf.Close()
	vres, err := tlc.Run(tlc.Options{SpecDir: specDir, Module: "BondgoSyncTrace", Cfg: "BondgoSyncTrace.cfg", Workers: 1,
		Env: map[string]string{"TRACE": tracePath}, Timeout: 20 * time.Minute})
	if err != nil {
		r.Inconclusive("tlc trace validation: %v", err)
		return
	}
	for _, m := range reReject.FindAllStringSubmatch(vres.Stdout, -1) {
		line, _ := strconv.Atoi(m[1])
		for _, ri := range runInfos {
			if line >= ri.first && line <= ri.last {
				forced := "unforced"
				if ri.delays != "" {
					forced = "forced:" + ri.delays
				}
				r.Violate(m[2], fmt.Sprintf("the real compiler run (%s, schedule %s) ended with status %s: %s", ri.note, forced, ri.status, m[2]),
					map[string]interface{}{"source": ri.src, "delays": ri.delays, "status": ri.status, "output_tail": ri.out})
				break
			}
		}
	}
	if vres.Violation != "" || !strings.Contains(vres.Stdout, "No error has been found") {
		r.Inconclusive("trace validation did not complete (%s %s): %s", vres.Violation, vres.ViolationName, tailStr(vres.Stdout, 1200))
		return
	}
	r.Set("scheduled_compilations", int64(len(runInfos)))

	// ---- semantic half -----------------------------------------------------------------------------------
	var compiled, compared, rejectedSrc int64
	rejectKinds := map[string]int{}
	for i, g := range progs {
		src := goProgram(g.prog, g.rsize)
		res := runBondgo(bin, filepath.Join(scratch, "sem"), src, g.rsize, "", 20*time.Second)
		if res.status != "ok" {
			r.Violate("no-termination:unforced-compilation", fmt.Sprintf("bondgo does not terminate normally (%s) on a generated program", res.status), map[string]interface{}{"source": src, "status": res.status, "output_tail": tailStr(res.out, 400)})
			continue
		}
		if strings.Contains(res.out, "Error:") || len(res.bmJSON) == 0 {
			// the compiler does not accept this form: outside "the subset the compiler accepts"
			rejectedSrc++
			first := strings.SplitN(strings.TrimSpace(res.out), "\n", 2)[0]
			rejectKinds[first]++
			continue
		}
		compiled++
		nInstr := strings.Count(res.asmText, "\n") + 1
		got, err := simulateOutputs(res.bmJSON, 3*nInstr+20)
		ctx := map[string]interface{}{"source": src, "assembly": res.asmText, "expected": g.outs, "simulated": got}
		if err != nil {
			r.Violate("emitted-machine-not-simulable", fmt.Sprintf("the machine bondgo emitted cannot be simulated: %v", err), ctx)
			continue
		}
		compared++
		if g.withIf {
			r.Add("programs_with_if_compared", 1)
		}
		if fmt.Sprint(got) != fmt.Sprint(g.outs) {
			sig := "wrong-output"
			if g.withIf {
				sig = "wrong-output:program-uses-=="
			}
			r.Violate(sig, fmt.Sprintf("compiled program writes %v, the source writes %v (rsize %d)", got, g.outs, g.rsize), ctx)
		}
		r.Distinct("sem|" + src)
		if i%(len(progs)/4+1) == 0 {
			r.Sample(map[string]interface{}{"source": src, "expected_outputs": g.outs, "assembly_lines": nInstr})
		}
	}
	r.Set("programs", int64(len(progs)))
	r.Set("programs_compiled", compiled)
	r.Set("programs_compared", compared)
	r.Set("programs_rejected_by_compiler", rejectedSrc)
	r.Set("compiler_rejections", rejectKinds)
	r.Set("states", states)
	r.Set("transitions", transitions)
	r.Set("traces_validated_against_impl", int64(len(runInfos))+compared)
	r.Set("evaluations", int64(len(runInfos))+int64(len(progs)))
	if compared == 0 {
		r.Inconclusive("no generated program was compiled and compared: the semantic half is vacuous")
	}
}
