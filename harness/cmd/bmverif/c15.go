package main

// C15 — simulation rules are applied exactly as written.
//
//  A. grammar: TLC checks Parse(Print(r)) = r on the Simbox spec and exports every rule of the
//     bounded domain with its printed tokens; each is pushed through the real Rule.String() and
//     Simbox.Add(); rule files through json.Marshal/Unmarshal.
//  B. edit histories: every transition of the bounded Add/Del/Suspend/Reactivate graph explored
//     by TLC is replayed on a real Simbox.
//  C. effects: every scenario of SimboxScen is run on the real `bondmachine -sim` binary (built
//     from /repo); what it printed (show lines, CSV report) is judged by TLC against
//     Simbox!Expect (SimboxTrace), given the rule-free reference trace of the same machine.

import (
	"bytes"
	"context"
	"encoding/csv"
	"encoding/json"
	"fmt"
	"os"
	"os/exec"
	"path/filepath"
	"strconv"
	"strings"
	"time"

	"github.com/BondMachineHQ/BondMachine/pkg/bondmachine"
	"github.com/BondMachineHQ/BondMachine/pkg/simbox"

	"verif/harness/evid"
	"verif/harness/tlaval"
	"verif/harness/tlc"
)

func init() { register("C15", "model_checking", runC15) }

type sbRule struct {
	Timec     string `json:"timec"`
	Tick      int    `json:"tick"`
	Action    string `json:"action"`
	Object    string `json:"object"`
	Extra     string `json:"extra"`
	Suspended bool   `json:"suspended"`
}

var sbTimec = map[string]uint8{"absolute": simbox.TIMEC_ABS, "config": simbox.TIMEC_NONE, "relative": simbox.TIMEC_REL,
	"onvalid": simbox.TIMEC_ON_VALID, "onrecv": simbox.TIMEC_ON_RECV, "onexit": simbox.TIMEC_ON_EXIT}
var sbAction = map[string]uint8{"set": simbox.ACTION_SET, "get": simbox.ACTION_GET, "show": simbox.ACTION_SHOW, "config": simbox.ACTION_CONFIG}

func (r sbRule) real() simbox.Rule {
	return simbox.Rule{Timec: sbTimec[r.Timec], Tick: uint64(r.Tick), Action: sbAction[r.Action], Object: r.Object, Extra: r.Extra, Suspended: r.Suspended}
}

func sbFromTLA(v tlaval.Value) sbRule {
	r := tlaval.AsRec(v)
	return sbRule{tlaval.Str(r["timec"]), tlaval.Int(r["tick"]), tlaval.Str(r["action"]), tlaval.Str(r["object"]), tlaval.Str(r["extra"]), tlaval.Bool(r["suspended"])}
}

func sbList(v tlaval.Value) []simbox.Rule {
	out := []simbox.Rule{}
	for _, e := range tlaval.AsSeq(v) {
		out = append(out, sbFromTLA(e).real())
	}
	return out
}

type sbScenario struct {
	Label string   `json:"label"`
	Mode  string   `json:"mode"`
	Rules []sbRule `json:"rules"`
}

type sbGet struct {
	Obj string `json:"obj"`
	V   int64  `json:"v"`
}

type sbEvent struct {
	Ev    string             `json:"ev"`
	Label string             `json:"label,omitempty"`
	Rules []sbRule           `json:"rules,omitempty"`
	Ref   []map[string]int64 `json:"ref,omitempty"`
	Val   map[string]int64   `json:"val,omitempty"`
	T     int                `json:"t"`
	TVal  int                `json:"tval"`
	Exit  bool               `json:"exit"`
	VRise []string           `json:"vrise"`
	Shows []int64            `json:"shows"`
	Gets  []sbGet            `json:"gets"`
}

const sbProgram = "inc r0\nr2owa r0 o0\nj 0\n"

var sbObjs = []string{"o0", "p0r0", "p0r1", "p0r2", "p0r3", "i0", "i1"}

func runC15(r *evid.Run) {
	scratch, err := os.MkdirTemp("", "bmverif-c15-")
	if err != nil {
		r.Inconclusive("mktemp: %v", err)
		return
	}
	defer os.RemoveAll(scratch)

	scenPath, gramPath := filepath.Join(scratch, "scen.ndjson"), filepath.Join(scratch, "gram.ndjson")
	res, err := tlc.Run(tlc.Options{SpecDir: specDir, Module: "SimboxScen", Cfg: "SimboxScen.cfg", Workers: 4, DumpDot: true, KeepDir: true,
		Scratch: filepath.Join(scratch, "mc"), Timeout: 15 * time.Minute, Env: map[string]string{"SCEN": scenPath, "GRAMMAR": gramPath}})
	if err != nil {
		r.Inconclusive("tlc: %v", err)
		return
	}
	if !res.OK() {
		r.Inconclusive("TLC did not accept the Simbox spec (%s %s): %s", res.Violation, res.ViolationName, tailStr(res.Stdout, 800))
		return
	}
	r.Set("states", res.Distinct)
	var lock int64
	lockKinds := map[string]int{}

	// ---- A. grammar ------------------------------------------------------------------------------
	var gramRows int64
	err = readNDJSON(gramPath, func(b []byte) error {
		var row struct {
			Rule   sbRule   `json:"rule"`
			Fields []string `json:"fields"`
		}
		if err := json.Unmarshal(b, &row); err != nil {
			return err
		}
		gramRows++
		want := row.Rule.real()
		text := strings.Join(row.Fields, ":")
		ctx := map[string]interface{}{"rule": row.Rule, "text": text}
		printed := want.String()
		short := len(row.Fields) < map[string]int{"absolute": 5, "relative": 5, "onvalid": 4, "onrecv": 4, "onexit": 4, "config": 0}[row.Rule.Timec]
		if !short && printed != text {
			lock++
			lockKinds["print:"+row.Rule.Timec]++
		}
		// the documented text form must parse to the rule
		sb := new(simbox.Simbox)
		if err := sb.Add(text); err != nil || len(sb.Rules) != 1 {
			r.Violate("parse-rejects:"+row.Rule.Timec+":"+row.Rule.Action, fmt.Sprintf("Simbox.Add(%q) fails (%v)", text, err), ctx)
			return nil
		}
		if sb.Rules[0] != want {
			ctx["parsed"] = fmt.Sprintf("%+v", sb.Rules[0])
			sig := "parse:" + row.Rule.Timec + ":" + row.Rule.Action
			if short {
				sig = "short-form-default:" + row.Rule.Timec
			}
			r.Violate(sig, fmt.Sprintf("Simbox.Add(%q) gives %+v, expected %+v", text, sb.Rules[0], want), ctx)
			return nil
		}
		// print then parse on the real code
		sb2 := new(simbox.Simbox)
		if err := sb2.Add(printed); err != nil || len(sb2.Rules) != 1 || sb2.Rules[0] != want {
			ctx["printed"] = printed
			r.Violate("print-parse:"+row.Rule.Timec+":"+row.Rule.Action, fmt.Sprintf("rule %+v prints as %q which does not parse back to it (%v)", want, printed, err), ctx)
			return nil
		}
		r.Distinct("gram|" + text)
		if gramRows%301 == 1 {
			r.Sample(map[string]interface{}{"kind": "grammar", "text": text, "rule": row.Rule})
		}
		return nil
	})
	if err != nil {
		r.Inconclusive("grammar rows: %v", err)
		return
	}
	r.Set("grammar_rows", gramRows)

	// ---- B. edit histories ---------------------------------------------------------------------------
	g, err := tlc.ParseDot(res.DotPath)
	os.RemoveAll(res.Dir)
	if err != nil {
		r.Inconclusive("dot: %v", err)
		return
	}
	r.Set("transitions", int64(len(g.Edges)))
	var replayed int64
	for _, e := range g.Edges {
		pre, post := g.Nodes[e.From], g.Nodes[e.To]
		name, args, err := tlc.ActionArgs(e.Action)
		if err != nil || pre == nil || post == nil {
			r.Inconclusive("edge %q: %v", e.Action, err)
			return
		}
		sb := &simbox.Simbox{Rules: sbList(pre["rules"])}
		idx := 0
		if len(args) > 0 {
			idx = tlaval.Int(args[0])
		}
		switch name {
		case "Add":
			// the rule being added is EditRuleSeq[k]: by the spec, the last element of the post-state
			postRules := tlaval.AsSeq(post["rules"])
			rule := sbFromTLA(postRules[len(postRules)-1])
			sb.Add(rule.real().String())
		case "Del":
			sb.Del(idx)
		case "Suspend":
			sb.Suspend(idx)
		case "Reactivate":
			sb.Reactivate(idx)
		case "SaveLoad":
			b, _ := json.Marshal(sb)
			sb = new(simbox.Simbox)
			if err := json.Unmarshal(b, sb); err != nil {
				r.Violate("saveload:error", fmt.Sprintf("rule file cannot be reloaded: %v", err), string(b))
				continue
			}
		default:
			r.Inconclusive("unknown action %s", name)
			return
		}
		replayed++
		want := sbList(post["rules"])
		if fmt.Sprintf("%+v", sb.Rules) != fmt.Sprintf("%+v", want) && !(len(sb.Rules) == 0 && len(want) == 0) {
			r.Violate("history:"+name, fmt.Sprintf("%s on %+v gives %+v, expected %+v", e.Action, sbList(pre["rules"]), sb.Rules, want),
				map[string]interface{}{"action": e.Action, "pre": tlaval.ToJSONable(pre["rules"]), "real": fmt.Sprintf("%+v", sb.Rules), "expected": tlaval.ToJSONable(post["rules"])})
		}
		r.Distinct("edit|" + e.Action + "|" + tlaval.String(pre["rules"]))
	}
	r.Set("transitions_replayed", replayed)

	// ---- C. effects on the real simulator binary -----------------------------------------------------
	bin := filepath.Join(scratch, "bondmachine")
	build := exec.Command("go", "build", "-tags", "verif", "-o", bin, "./cmd/bondmachine")
	build.Dir = repoDir()
	if out, err := build.CombinedOutput(); err != nil {
		r.Inconclusive("cannot build cmd/bondmachine: %v\n%s", err, tailStr(string(out), 600))
		return
	}
	bm := newBM(8)
	m, err := mkMachine(8, 2, 2, 1, 0, []string{"inc", "r2owa", "j"}, sbProgram)
	if err != nil {
		r.Inconclusive("machine: %v", err)
		return
	}
	bm.Add_input()
	bm.Add_input()
	bm.Add_output()
	addProc(bm, m)
	bm.Add_bond([]string{"p0i0", "i0"})
	bm.Add_bond([]string{"p0i1", "i1"})
	bm.Add_bond([]string{"o0", "p0o0"})
	mj, err := json.Marshal(bm.Jsoner())
	if err != nil {
		r.Inconclusive("machine json: %v", err)
		return
	}
	mPath := filepath.Join(scratch, "m.json")
	os.WriteFile(mPath, mj, 0o644)
	const N = 14
	// rule-free reference trace from the real VM under the same environment protocol
	ref, ovalid, err := sbReference(bm, N)
	if err != nil {
		r.Inconclusive("reference run: %v", err)
		return
	}
	exitIter := -1
	for t := 0; t < N; t++ {
		if ovalid[t] {
			exitIter = t + 1
			break
		}
	}
	tracePath := filepath.Join(scratch, "trace.ndjson")
	tf, _ := os.Create(tracePath)
	enc := json.NewEncoder(tf)
	nLines := 0
	type seg struct {
		first, last int
		sc          sbScenario
		out         string
	}
	var segs []seg
	sentinel := sbRule{"relative", 1, "show", "p0r3", "unsigned", false}
	var runs int64
	err = readNDJSON(scenPath, func(b []byte) error {
		var sc sbScenario
		if err := json.Unmarshal(b, &sc); err != nil {
			return err
		}
		rules := append([]sbRule{sentinel}, sc.Rules...)
		sb := new(simbox.Simbox)
		sb.Add("config:get_ticks")
		for _, ru := range rules {
			sb.Rules = append(sb.Rules, ru.real())
		}
		sbj, _ := json.Marshal(sb)
		sPath := filepath.Join(scratch, "s.json")
		os.WriteFile(sPath, sbj, 0o644)
		rep := filepath.Join(scratch, "r.csv")
		os.Remove(rep)
		args := []string{"-bondmachine-file", mPath, "-sim", "-simbox-file", sPath, "-sim-interactions", strconv.Itoa(N), "-sim-report", rep}
		if sc.Mode == "stop" {
			args = append(args, "-sim-stop-on-valid-of", "0")
		}
		cctx, ccancel := context.WithTimeout(context.Background(), 2*time.Minute)
		cmd := exec.CommandContext(cctx, bin, args...)
		defer ccancel()
		cmd.Dir = scratch
		var stdout, stderr bytes.Buffer
		cmd.Stdout, cmd.Stderr = &stdout, &stderr
		if err := cmd.Run(); err != nil {
			r.Violate("run-fails:"+sc.Label, fmt.Sprintf("bondmachine -sim fails on scenario %s: %v %s", sc.Label, err, tailStr(stderr.String(), 300)), sc)
			return nil
		}
		runs++
		// stdout: one line of shown values per iteration (the sentinel rule shows every iteration)
		var showLines [][]int64
		for _, ln := range strings.Split(strings.TrimSpace(stdout.String()), "\n") {
			var vals []int64
			ok := true
			for _, f := range strings.Fields(ln) {
				v, err := strconv.ParseInt(f, 10, 64)
				if err != nil {
					ok = false
					break
				}
				vals = append(vals, v)
			}
			if ok {
				showLines = append(showLines, vals)
			}
		}
		getsBy := map[int][]sbGet{}
		if f, err := os.Open(rep); err == nil {
			recs, _ := csv.NewReader(f).ReadAll()
			f.Close()
			if len(recs) > 0 {
				hdr := recs[0]
				for _, rec := range recs[1:] {
					if len(rec) == 0 {
						continue
					}
					tick, err := strconv.Atoi(rec[0])
					if err != nil {
						continue
					}
					for c := 1; c < len(rec) && c < len(hdr); c++ {
						if rec[c] == "" {
							continue
						}
						v, err := strconv.ParseInt(rec[c], 10, 64)
						if err == nil {
							getsBy[tick] = append(getsBy[tick], sbGet{hdr[c], v})
						}
					}
				}
			}
		}
		iters := N
		if sc.Mode == "stop" && exitIter >= 0 && exitIter < N {
			iters = exitIter + 1
		}
		first := nLines + 1
		enc.Encode(sbEvent{Ev: "run", Label: sc.Label + "/" + sc.Mode, Rules: rules, Ref: ref, Val: map[string]int64{"5": 5, "9": 9, "unsigned": 0}, VRise: []string{}, Shows: []int64{}, Gets: []sbGet{}})
		nLines++
		for t := 0; t < iters; t++ {
			ev := sbEvent{Ev: "iter", T: t, TVal: t, VRise: []string{}, Shows: []int64{}, Gets: []sbGet{}}
			isExitIter := sc.Mode == "stop" && t == exitIter
			if isExitIter {
				ev.TVal = t - 1
				ev.Exit = true
			} else {
				// valid rises observed in the reference run (outputs) and caused by the rules (inputs)
				if ovalid[t] && (t == 0 || !ovalid[t-1]) {
					ev.VRise = append(ev.VRise, "o0")
				}
				for _, ru := range rules {
					if !ru.Suspended && ru.Timec == "absolute" && ru.Action == "set" && (ru.Object == "i0" || ru.Object == "i1") && ru.Tick == t {
						ev.VRise = append(ev.VRise, ru.Object)
					}
				}
				if sc.Mode == "exhaust" && t == N-1 {
					ev.Exit = true // the run ends after this iteration
				}
			}
			if t < len(showLines) {
				ev.Shows = showLines[t]
			}
			if g, ok := getsBy[t]; ok {
				ev.Gets = g
			}
			enc.Encode(ev)
			nLines++
		}
		segs = append(segs, seg{first, nLines, sc, stdout.String()})
		r.Distinct("scen|" + sc.Label + "|" + sc.Mode)
		if runs%17 == 1 {
			r.Sample(map[string]interface{}{"kind": "effects", "scenario": sc, "stdout_first_lines": strings.SplitN(stdout.String(), "\n", 6)})
		}
		return nil
	})
	tf.Close()
	if err != nil {
		r.Inconclusive("scenarios: %v", err)
		return
	}
	r.Set("scenario_runs", runs)
	vres, err := tlc.Run(tlc.Options{SpecDir: specDir, Module: "SimboxTrace", Cfg: "SimboxTrace.cfg", Workers: 1,
		Env: map[string]string{"TRACE": tracePath}, Timeout: 20 * time.Minute})
	if err != nil {
		r.Inconclusive("tlc trace validation: %v", err)
		return
	}
	for _, mm := range reReject.FindAllStringSubmatch(vres.Stdout, -1) {
		line, _ := strconv.Atoi(mm[1])
		for _, sg := range segs {
			if line >= sg.first && line <= sg.last {
				iter := line - sg.first - 1
				r.Violate(sg.sc.Label+"/"+sg.sc.Mode+":"+mm[2], fmt.Sprintf("scenario %s (%s): iteration %d of the real simulation does not match the rules: %s", sg.sc.Label, sg.sc.Mode, iter, mm[2]),
					map[string]interface{}{"scenario": sg.sc, "iteration": iter, "reason": mm[2], "stdout": sg.out})
				break
			}
		}
	}
	if vres.Violation != "" || !strings.Contains(vres.Stdout, "No error has been found") {
		r.Inconclusive("trace validation did not complete (%s %s): %s", vres.Violation, vres.ViolationName, tailStr(vres.Stdout, 1500))
		return
	}
	r.Set("traces_validated_against_impl", runs)
	r.Set("evaluations", gramRows+replayed+runs)
	r.Set("lockstep_mismatches", lock)
	r.Set("lockstep_kinds", lockKinds)
}

// sbReference runs the machine rule-free on the real VM under the environment protocol of the
// simulation loops (withdraw an input's valid once received; echo recv := valid on outputs) and
// returns, per tick, the value of every observed object after the step and o0's valid line.
func sbReference(bm *bondmachine.Bondmachine, n int) ([]map[string]int64, []bool, error) {
	vm, err := startVM(bm, nil)
	if err != nil {
		return nil, nil, err
	}
	var ref []map[string]int64
	var ov []bool
	for t := 0; t < n; t++ {
		for i, rc := range vm.InputsRecv {
			if rc {
				vm.InputsValid[i] = false
			}
		}
		if _, err := vm.Step(nil); err != nil {
			return nil, nil, err
		}
		for i, v := range vm.OutputsValid {
			vm.OutputsRecv[i] = v
		}
		m := map[string]int64{}
		for _, o := range sbObjs {
			loc, err := vm.GetElementLocation(o)
			if err != nil {
				return nil, nil, err
			}
			m[o] = int64(u64(*loc))
		}
		ref = append(ref, m)
		ov = append(ov, vm.OutputsValid[0])
	}
	return ref, ov, nil
}

func repoDir() string {
	if d := os.Getenv("VERIF_REPO"); d != "" {
		return d
	}
	return "/repo"
}
