package main

// C05 — an assembled BASM program means what its source says.
//
// BasmSem is the reference semantics of a BASM SOURCE program (labels, entry directive, macro,
// mov pseudo-instructions, literals in every notation, synchronous I/O).  TLC -simulate builds
// programs and runs them in the specification; the harness prints each program as .basm text,
// assembles it with the real assembler, simulates the emitted machine inside a handshaking
// environment and compares every external output stream with the stream of the specification.

import (
	"fmt"
	"io"
	"log"
	"os"
	"path/filepath"
	"sort"
	"strconv"
	"strings"
	"time"

	"github.com/BondMachineHQ/BondMachine/pkg/bmconfig"
	"github.com/BondMachineHQ/BondMachine/pkg/bondmachine"

	"verif/harness/bmgen"
	"verif/harness/evid"
	"verif/harness/tlaval"
	"verif/harness/tlc"
)

func init() { register("C05", "model_checking", runC05) }

type basmLine struct {
	Op   string
	A, B int
	T    int
	Nt   string
}

// basmVar is one ROM data variable: the declared values and the repetition count (`d 3:db a, b`).
type basmVar struct {
	Vals []int
	Rep  int
}

type basmProg struct {
	RSize       int
	Progs       [][]basmLine // one section per processor
	Entry, Epos int
	Lbd         bool        // the label of line Epos is written before the entry directive
	Gio         string      // machine-wide default iomode written in the bmdef line
	AttFirst    bool        // which end of every ioatt pair is written first
	Data        [][]basmVar // the ROM data variables of each processor
	ShareCode   bool        // both processors are defined on one code section
	Outs        [][2]uint64 // expected <<external output, value>> in order
	AscOuts     [][2]uint64 // the stream of the as-coded interpreter (known deviations of the pinned tree)
	Steps       int
}

func basmLiteral(v int, nt string) string {
	switch nt {
	case "0x":
		return "0x" + strconv.FormatInt(int64(v), 16)
	case "0b":
		return "0b" + strconv.FormatInt(int64(v), 2)
	case "0d":
		return "0d" + strconv.Itoa(v)
	case "0u":
		return "0u" + strconv.Itoa(v)
	}
	return strconv.Itoa(v)
}

// basmText prints the program as .basm source; outMap[k] is the specification's external output
// wired to external output k of the machine.  ok is false when the source would leave one end of
// the inter-processor bond without a port (only one of the two programs uses it).
func basmText(p basmProg) (src string, outMap []int, ok bool) {
	var sb strings.Builder
	ncp := len(p.Progs)
	bmdef := fmt.Sprintf("%%meta bmdef global registersize:%d", p.RSize)
	if p.Gio != "none" && p.Gio != "" {
		bmdef += ", iomode:" + p.Gio
	}
	if p.AttFirst {
		sb.WriteString(bmdef + "\n")
	}
	sb.WriteString("%macro twice 0\n\tinc r1\n\tinc r1\n%endmacro\n")
	usesIn := make([]bool, ncp)
	ports := make([]map[int]bool, ncp)
	// the second section is named like an alternative the assembler would generate for the first
	secName := func(c int) string {
		if c == 0 || p.ShareCode {
			return "code"
		}
		return "code_" + strconv.Itoa(c-1)
	}
	for c, prog := range p.Progs {
		if c > 0 && p.ShareCode {
			// one code section for both processors (the usage of the ports is still collected)
			ports[c] = map[int]bool{}
			for _, l := range prog {
				if l.Op == "send" {
					ports[c][l.A] = true
				}
				if l.Op == "recv" {
					usesIn[c] = true
				}
			}
			continue
		}
		fmt.Fprintf(&sb, "%%section %s .romtext iomode:sync\n", secName(c))
		target := map[int]bool{p.Entry: true}
		ports[c] = map[int]bool{}
		for _, l := range prog {
			if l.Op == "j" || l.Op == "jz" {
				target[l.T] = true
			}
			if l.Op == "send" {
				ports[c][l.A] = true
			}
			if l.Op == "recv" {
				usesIn[c] = true
			}
		}
		for i, l := range prog {
			if i == p.Epos && !p.Lbd {
				fmt.Fprintf(&sb, "\tentry L%d\n", p.Entry)
			}
			if target[i] && l.Op != "asend" {
				fmt.Fprintf(&sb, "L%d:\n", i)
			}
			if i == p.Epos && p.Lbd {
				fmt.Fprintf(&sb, "\tentry L%d\n", p.Entry)
			}
			switch l.Op {
			case "clr", "inc", "dec":
				fmt.Fprintf(&sb, "\t%s r%d\n", l.Op, l.A)
			case "add", "cpy":
				fmt.Fprintf(&sb, "\t%s r%d, r%d\n", l.Op, l.A, l.B)
			case "movrr":
				fmt.Fprintf(&sb, "\tmov r%d, r%d\n", l.A, l.B)
			case "rset":
				fmt.Fprintf(&sb, "\trset r%d, %s\n", l.A, basmLiteral(l.B, l.Nt))
			case "movri":
				fmt.Fprintf(&sb, "\tmov r%d, %s\n", l.A, basmLiteral(l.B, l.Nt))
			case "nop", "twice":
				fmt.Fprintf(&sb, "\t%s\n", l.Op)
			case "j":
				fmt.Fprintf(&sb, "\tj L%d\n", l.T)
			case "jz":
				fmt.Fprintf(&sb, "\tjz r%d, L%d\n", l.A, l.T)
			case "asend":
				// the label line of this instruction carries the metadata (and is the jump target, if it is one)
				name := fmt.Sprintf("A%d", i)
				if target[i] {
					name = fmt.Sprintf("L%d", i)
				}
				fmt.Fprintf(&sb, "%s: iomode:async\n\tmov o%d, r%d\n", name, l.A, l.B)
			case "send":
				fmt.Fprintf(&sb, "\tmov o%d, r%d\n", l.A, l.B)
			case "recv":
				fmt.Fprintf(&sb, "\tmov r%d, i0\n", l.A)
			case "ldk":
				off, _ := strconv.Atoi(l.Nt)
				fmt.Fprintf(&sb, "\tmov r%d, rom:d%d\n%s\tmov r%d, rom:[r%d]\n", l.B, l.T, strings.Repeat(fmt.Sprintf("\tinc r%d\n", l.B), off), l.A, l.B)
			}
		}
		sb.WriteString("%endsection\n")
	}
	for c := range p.Progs {
		if c < len(p.Data) && len(p.Data[c]) > 0 {
			fmt.Fprintf(&sb, "%%section data%d .romdata\n", c)
			if p.ShareCode && c == 1 {
				sb.WriteString("\tpad db 0x77\n")
			}
			for k, v := range p.Data[c] {
				var vals []string
				for _, x := range v.Vals {
					vals = append(vals, fmt.Sprintf("0x%02x", x))
				}
				rep := ""
				if v.Rep > 1 {
					rep = strconv.Itoa(v.Rep) + ":"
				}
				fmt.Fprintf(&sb, "\td%d %sdb %s\n", k, rep, strings.Join(vals, ", "))
			}
			sb.WriteString("%endsection\n")
		}
	}
	for c := range p.Progs {
		if c < len(p.Data) && len(p.Data[c]) > 0 {
			fmt.Fprintf(&sb, "%%meta cpdef cpu%d romcode:%s, romdata:data%d, ramsize:8\n", c, secName(c), c)
		} else {
			fmt.Fprintf(&sb, "%%meta cpdef cpu%d romcode:%s, ramsize:8\n", c, secName(c))
		}
	}
	pair := func(name, a, b string) {
		if p.AttFirst {
			a, b = b, a
		}
		fmt.Fprintf(&sb, "%%meta ioatt %s %s\n%%meta ioatt %s %s\n", name, a, name, b)
	}
	if usesIn[0] {
		pair("in0", "cp:bm, index:0, type:input", "cp:cpu0, index:0, type:input")
	}
	ok = true
	type ext struct{ spec, cp, port int }
	var exts []ext
	if ncp == 1 {
		for o := range ports[0] {
			exts = append(exts, ext{o, 0, o})
		}
	} else {
		if ports[0][1] != usesIn[1] {
			ok = false
		}
		if ports[0][1] && usesIn[1] {
			pair("link", "cp:cpu0, index:1, type:output", "cp:cpu1, index:0, type:input")
		}
		if ports[0][0] {
			exts = append(exts, ext{0, 0, 0})
		}
		for o := range ports[1] {
			exts = append(exts, ext{1 + o, 1, o})
		}
	}
	sort.Slice(exts, func(i, j int) bool { return exts[i].spec < exts[j].spec })
	for k, e := range exts {
		outMap = append(outMap, e.spec)
		pair(fmt.Sprintf("out%d", e.spec), fmt.Sprintf("cp:bm, index:%d, type:output", k), fmt.Sprintf("cp:cpu%d, index:%d, type:output", e.cp, e.port))
	}
	if !p.AttFirst {
		sb.WriteString(bmdef + "\n")
	}
	return sb.String(), outMap, ok
}

func assembleForC05(src string) (bm *bondmachine.Bondmachine, err error) {
	defer func() {
		if e := recover(); e != nil {
			err = fmt.Errorf("panic: %v", e)
		}
	}()
	// the assembler reports warnings on the standard streams
	so, lo := os.Stdout, log.Writer()
	if dn, e := os.OpenFile(os.DevNull, os.O_WRONLY, 0); e == nil {
		os.Stdout = dn
		defer func() { os.Stdout = so; dn.Close() }()
	}
	log.SetOutput(io.Discard)
	defer log.SetOutput(lo)
	bm, _, err = bmgen.AssembleBasmOpts(src, bmconfig.ChooserMinWordSize, bmconfig.ChooserForceSameName)
	return
}

// basmRunCmd: development helper — assemble a .basm file, run it in the handshaking environment
// (input stream 1, 2, 3, ... on every port) and print the output streams.
func basmRunCmd(path string) int {
	src, _ := os.ReadFile(path)
	bm, err := assembleForC05(string(src))
	if err != nil {
		fmt.Println("ERROR:", err)
		return 1
	}
	for i, d := range bm.Domains {
		dis, _ := d.Disassembler()
		fmt.Printf("-- domain %d R=%d N=%d M=%d L=%d O=%d rsize=%d ops=%d\n%s", i, d.R, d.N, d.M, d.L, d.O, d.Rsize, len(d.Op), dis)
	}
	res, err := runEnv(bm, func(port, k int) uint64 { return uint64(k + 1) }, 400, 0)
	fmt.Println(res.Outs, res.Consumed, res.Ticks, err)
	return 0
}

// genBasmPrograms runs TLC -simulate on BasmSem and returns the programs of the behaviours with
// their expected output streams; ok is false (and the run marked inconclusive) when TLC fails.
func genBasmPrograms(r *evid.Run, scratch string, rsize, len0, budget, ncp int, entryAny, dirAny, macroHeavy bool, n int, seed int64) (progs []basmProg, transitions int64, ok bool) {
	return genBasmProgramsData(r, scratch, rsize, len0, budget, ncp, 0, entryAny, dirAny, macroHeavy, n, seed)
}

// genBasmProgramsData is genBasmPrograms for sources with a ROM data section of ndata words.
func genBasmProgramsData(r *evid.Run, scratch string, rsize, len0, budget, ncp, ndata int, entryAny, dirAny, macroHeavy bool, n int, seed int64) (progs []basmProg, transitions int64, ok bool) {
	return genBasmProgramsOpt(r, scratch, rsize, len0, budget, ncp, ndata, entryAny, dirAny, macroHeavy, false, n, seed)
}

// basmGenWide: the generated data variables hold several words and repetitions (BasmSem.WideData).
var basmGenWide bool

// basmGenAsync: the generated programs contain sends whose label line says iomode:async (BasmSem.WithAsync).
var basmGenAsync bool

// genBasmProgramsOpt: smallMov restricts literal loads to `mov` of numbers below 32.
func genBasmProgramsOpt(r *evid.Run, scratch string, rsize, len0, budget, ncp, ndata int, entryAny, dirAny, macroHeavy, smallMov bool, n int, seed int64) (progs []basmProg, transitions int64, ok bool) {
	nout := 2
	dir := filepath.Join(scratch, fmt.Sprintf("g_%d_%d_%d_%d_%v_%v_%v_%v_%v_%v", rsize, len0, ncp, ndata, entryAny, dirAny, macroHeavy, smallMov, basmGenWide, basmGenAsync))
	os.MkdirAll(dir, 0o755)
	up := func(b bool) string { return strings.ToUpper(fmt.Sprint(b)) }
	cfg := fmt.Sprintf("SPECIFICATION Spec\nCONSTANTS\n RSize = %d\n Len0 = %d\n Budget = %d\n NOut = %d\n NCP = %d\n NData = %d\n EntryAnywhere = %s\n DirectiveAnywhere = %s\n MacroHeavy = %s\n SmallMovOnly = %s\n WideData = %s\n WithAsync = %s\nINVARIANT TypeOK\nCHECK_DEADLOCK FALSE\n",
		rsize, len0, budget, nout, ncp, ndata, up(entryAny), up(dirAny), up(macroHeavy), up(smallMov), up(basmGenWide), up(basmGenAsync))
	res, err := tlc.Run(tlc.Options{SpecDir: specDir, Module: "BasmSem", CfgText: cfg, Workers: 1, Timeout: 20 * time.Minute,
		Args: []string{"-simulate", fmt.Sprintf("file=%s/b,num=%d", dir, n), "-depth", strconv.Itoa(ncp*(len0+1) + budget + 2), "-seed", strconv.FormatInt(seed, 10)}})
	if err != nil {
		r.Inconclusive("tlc simulate: %v", err)
		return nil, 0, false
	}
	if res.Violation != "" {
		r.Inconclusive("TLC rejects BasmSem: %s %s\n%s\n%s", res.Violation, res.ViolationName, cfg, tailStr(res.Stdout, 1500))
		return nil, 0, false
	}
	files, _ := filepath.Glob(filepath.Join(dir, "b_*"))
	sort.Strings(files)
	for _, f := range files {
		beh, err := tlc.ParseSimFile(f)
		if err != nil || len(beh) == 0 {
			r.Inconclusive("parse %s: %v", f, err)
			return nil, 0, false
		}
		last := beh[len(beh)-1].Vars
		p := basmProg{RSize: rsize, Entry: int(tlaval.Int(last["entry"])), Epos: int(tlaval.Int(last["epos"])), Lbd: tlaval.Bool(last["lbd"]),
			Gio: tlaval.Str(last["gio"]), AttFirst: tlaval.Bool(last["attfirst"]), Steps: int(tlaval.Int(last["steps"]))}
		p.ShareCode = tlaval.Bool(last["sharecode"])
		for c := 0; c < ncp && ndata > 0; c++ {
			var words []basmVar
			if dv, ok := tlaval.Get(last["data"], int64(c)); ok {
				for k := 0; k < ndata; k++ {
					if v, ok := tlaval.Get(dv, int64(k)); ok {
						rec := tlaval.AsRec(v)
						bv := basmVar{Rep: int(tlaval.Int(rec["rep"]))}
						for _, x := range tlaval.AsSeq(rec["vals"]) {
							bv.Vals = append(bv.Vals, int(tlaval.Int(x)))
						}
						words = append(words, bv)
					}
				}
			}
			p.Data = append(p.Data, words)
		}
		complete := true
		for _, pv := range tlaval.AsSeq(last["progs"]) {
			var lines []basmLine
			for _, lv := range tlaval.AsSeq(pv) {
				rec := tlaval.AsRec(lv)
				lines = append(lines, basmLine{Op: tlaval.Str(rec["op"]), A: int(tlaval.Int(rec["a"])), B: int(tlaval.Int(rec["b"])), T: int(tlaval.Int(rec["t"])), Nt: tlaval.Str(rec["nt"])})
			}
			if len(lines) != len0 {
				complete = false
			}
			p.Progs = append(p.Progs, lines)
		}
		if !complete || len(p.Progs) != ncp {
			continue // behaviour cut before the programs were complete
		}
		pairs := func(v tlaval.Value) (out [][2]uint64) {
			for _, o := range tlaval.AsSeq(v) {
				t := tlaval.AsSeq(o)
				out = append(out, [2]uint64{uint64(tlaval.Int(t[0])), uint64(tlaval.Int(t[1]))})
			}
			return
		}
		p.Outs = pairs(tlaval.AsRec(last["ref"])["outs"])
		p.AscOuts = pairs(tlaval.AsRec(last["asc"])["outs"])
		progs = append(progs, p)
		transitions += int64(len(beh))
	}
	os.RemoveAll(dir)
	return progs, transitions, true
}

func runC05(r *evid.Run) {
	scratch, err := os.MkdirTemp("", "bmverif-c05-")
	if err != nil {
		r.Inconclusive("mktemp: %v", err)
		return
	}
	defer os.RemoveAll(scratch)
	var progs []basmProg
	var transitions int64
	gen := func(rsize, len0, budget, ncp int, entryAny, dirAny, macroHeavy bool, n int, seed int64) bool {
		ps, tr, ok := genBasmPrograms(r, scratch, rsize, len0, budget, ncp, entryAny, dirAny, macroHeavy, n, seed)
		progs = append(progs, ps...)
		transitions += tr
		return ok
	}
	if !gen(8, 10, 40, 1, false, false, false, r.Pick(120, 1500), r.Seed*7+1) || !gen(8, 8, 40, 1, false, true, false, r.Pick(60, 600), r.Seed*7+2) ||
		!gen(8, 8, 40, 1, true, true, false, r.Pick(60, 600), r.Seed*7+3) || !gen(8, 8, 40, 1, false, false, true, r.Pick(40, 300), r.Seed*7+4) ||
		!gen(16, 8, 40, 1, false, false, false, r.Pick(60, 400), r.Seed*7+5) || !gen(8, 8, 60, 2, false, false, false, r.Pick(100, 1000), r.Seed*7+6) ||
		!gen(16, 6, 60, 2, false, true, true, r.Pick(40, 400), r.Seed*7+7) {
		return
	}
	// sources with ROM data sections
	for i, a := range []struct{ rsize, ncp, n int }{{8, 1, r.Pick(60, 500)}, {16, 2, r.Pick(40, 300)}} {
		ps, tr, ok := genBasmProgramsData(r, scratch, a.rsize, 8, 50, a.ncp, 3, false, i == 1, true, a.n, r.Seed*7+10+int64(i))
		if !ok {
			return
		}
		progs = append(progs, ps...)
		transitions += tr
	}
	// data variables of several words, with repetitions (`d 3:db a, b`), read at every offset; programs
	// long enough for the data words to decide the width of the ROM addresses
	basmGenWide = true
	for i, a := range []struct{ rsize, len0, ncp, n int }{{8, 8, 1, r.Pick(50, 400)}, {16, 12, 1, r.Pick(40, 300)}, {8, 8, 2, r.Pick(30, 300)}} {
		ps, tr, ok := genBasmProgramsData(r, scratch, a.rsize, a.len0, 50, a.ncp, 3, false, false, i == 0, a.n, r.Seed*7+30+int64(i))
		if !ok {
			basmGenWide = false
			return
		}
		progs = append(progs, ps...)
		transitions += tr
	}
	basmGenWide = false
	// sends annotated for one line only (`X: iomode:async`) between synchronous ones
	basmGenAsync = true
	for i, a := range []struct{ rsize, ncp, n int }{{8, 1, r.Pick(50, 400)}, {16, 2, r.Pick(30, 300)}} {
		ps, tr, ok := genBasmPrograms(r, scratch, a.rsize, 8, 50, a.ncp, false, false, false, a.n, r.Seed*7+40+int64(i))
		if !ok {
			basmGenAsync = false
			return
		}
		progs = append(progs, ps...)
		transitions += tr
	}
	basmGenAsync = false
	// long programs whose literals are all small `mov`s: the short load instruction the assembler
	// chooses is narrower than the jumps
	{
		ps, tr, ok := genBasmProgramsOpt(r, scratch, 8, 36, 90, 1, 0, false, false, false, true, r.Pick(25, 200), r.Seed*7+20)
		if !ok {
			return
		}
		progs = append(progs, ps...)
		transitions += tr
	}
	if false {
		return
	}
	r.Set("states", int64(len(progs)))
	r.Set("transitions", transitions)
	var assembled, compared, values, withOutputs, skipped, twoCP, narrow, withData int64
	for _, p := range progs {
		src, outMap, wired := basmText(p)
		if !wired {
			skipped++
			continue
		}
		ctx := map[string]interface{}{"source": src, "expected": p.Outs}
		bm, err := assembleForC05(src)
		if err != nil && len(p.Data) > 0 && strings.Contains(err.Error(), "word size is too small") {
			// a ROM data byte does not fit the instruction word the program needs (fewer than 8 bits):
			// the source cannot be fitted and is rejected with an error, which is what C16 asks for
			narrow++
			continue
		}
		if err != nil {
			r.Violate("assemble-error:"+c05Class(p), fmt.Sprintf("the assembler rejects a well-formed source: %v", err), ctx)
			continue
		}
		assembled++
		res, err := runEnv(bm, func(port, k int) uint64 { return uint64(k+1) % (1 << uint(p.RSize)) }, p.Steps*10+100, 0)
		if err != nil {
			r.Violate("simulation-error:"+c05Class(p), fmt.Sprintf("the assembled machine cannot be simulated: %v", err), ctx)
			continue
		}
		split := func(outs [][2]uint64) [][]uint64 {
			exp := make([][]uint64, len(outMap))
			for _, o := range outs {
				for k, port := range outMap {
					if port == int(o[0]) {
						exp[k] = append(exp[k], o[1])
					}
				}
			}
			return exp
		}
		differs := func(exp [][]uint64, count bool) string {
			for k := range outMap {
				var got []uint64
				if k < len(res.Outs) {
					got = res.Outs[k]
				}
				for i, v := range exp[k] {
					if i >= len(got) {
						return fmt.Sprintf("output o%d delivers %d values, the source sends at least %d", outMap[k], len(got), len(exp[k]))
					}
					if got[i] != v {
						return fmt.Sprintf("value %d on output o%d is %d, the source sends %d", i, outMap[k], got[i], v)
					}
					if count {
						values++
					}
				}
			}
			return ""
		}
		exp := split(p.Outs)
		ctx["simulated"] = res.Outs
		ctx["expected_by_output"] = exp
		if bad := differs(exp, true); bad != "" {
			class := "unclassified"
			if differs(split(p.AscOuts), false) == "" {
				// the machine does what the as-coded interpreter does: one of the modelled deviations
				class = c05Class(p)
			}
			r.Violate("wrong-output:"+class, "assembled program differs from its source: "+bad, ctx)
			continue
		}
		compared++
		for _, prog := range p.Progs {
			for _, l := range prog {
				if l.Op == "ldk" {
					withData++
					break
				}
			}
		}
		if len(p.Progs) > 1 {
			twoCP++
		}
		if len(p.Outs) > 0 {
			withOutputs++
		}
		r.Distinct(src)
		if compared%37 == 1 {
			r.Sample(map[string]interface{}{"source": src, "outputs": res.Outs})
		}
	}
	r.Set("programs", int64(len(progs)))
	r.Set("programs_assembled", assembled)
	r.Set("programs_agreeing", compared)
	r.Set("output_values_compared", values)
	r.Set("programs_agreeing_with_outputs", withOutputs)
	r.Set("two_processor_programs_agreeing", twoCP)
	r.Set("sections_reading_rom_data_in_agreeing_programs", withData)
	r.Set("data_sources_rejected_because_the_word_is_narrower_than_a_byte", narrow)
	r.Set("programs_skipped_bond_used_at_one_end_only", skipped)
	r.Set("evaluations", int64(len(progs)))
}

// c05Class names the source features of a program (used to tell known findings apart).
func c05Class(p basmProg) string {
	if p.Entry != 0 {
		return "entry-not-first-line"
	}
	return "unclassified"
}
