package main

// C14 — compiled quantum circuits implement the circuit's unitary.
//
// TLC computes, with the exact ring arithmetic of QCircuit, the unitary of every circuit of the
// bounded family QCircuitEnum (every gate on every placement; all two-gate circuits over a gate
// subset; ...) and checks on the specification that every column has norm 1.  The harness builds
// the same circuit with the public API, calls the real QasmToBmMatrices, multiplies the emitted
// matrices with the real bmmatrix product and compares entrywise with the reference; checks that
// every emitted matrix is unitary; runs RunSoftwareSimulation on every basis state.

import (
	"encoding/json"
	"fmt"
	"math"
	"math/cmplx"
	"os"
	"path/filepath"
	"strconv"
	"strings"
	"time"

	"github.com/BondMachineHQ/BondMachine/pkg/bmline"
	"github.com/BondMachineHQ/BondMachine/pkg/bmmatrix"
	"github.com/BondMachineHQ/BondMachine/pkg/bmqsim"

	"verif/harness/evid"
	"verif/harness/tlc"
)

func init() { register("C14", "translation_validation", runC14) }

type qRing struct {
	A, B, C, D, K int
}

func (r *qRing) UnmarshalJSON(b []byte) error {
	var m map[string]int
	if err := json.Unmarshal(b, &m); err != nil {
		return err
	}
	r.A, r.B, r.C, r.D, r.K = m["a"], m["b"], m["c"], m["d"], m["k"]
	return nil
}

func (r qRing) c() complex128 {
	w := cmplx.Exp(complex(0, math.Pi/4))
	v := complex(float64(r.A), 0) + complex(float64(r.B), 0)*w + complex(float64(r.C), 0)*w*w + complex(float64(r.D), 0)*w*w*w
	return v / complex(math.Pow(math.Sqrt2, float64(r.K)), 0)
}

type qGate struct {
	G  string `json:"g"`
	P  int    `json:"p"`
	Qs []int  `json:"qs"`
}

type qRow struct {
	N    int       `json:"n"`
	Circ []qGate   `json:"circ"`
	Cols [][]qRing `json:"cols"`
}

func qLine(g qGate) string {
	parts := []string{g.G}
	for _, q := range g.Qs {
		parts = append(parts, "q"+strconv.Itoa(q))
	}
	switch g.G {
	case "rx", "ry", "rz":
		parts = append(parts, strconv.FormatFloat(float64(g.P)*math.Pi/2, 'f', 12, 64))
	case "r":
		parts = append(parts, strconv.FormatFloat(float64(g.P)*math.Pi/4, 'f', 12, 64))
	}
	return strings.Join(parts, "::")
}

func c32(c bmmatrix.Complex32) complex128 { return complex(float64(c.Real), float64(c.Imag)) }

func runC14(r *evid.Run) {
	scratch, err := os.MkdirTemp("", "bmverif-c14-")
	if err != nil {
		r.Inconclusive("mktemp: %v", err)
		return
	}
	defer os.RemoveAll(scratch)
	cfg := "QCircuitEnum_quick.cfg"
	if r.Thorough() {
		cfg = "QCircuitEnum_thorough.cfg"
	}
	rowPath := filepath.Join(scratch, "rows.ndjson")
	res, err := tlc.Run(tlc.Options{SpecDir: specDir, Module: "QCircuitEnum", Cfg: cfg, Workers: 8, Timeout: 40 * time.Minute, Env: map[string]string{"ROWS": rowPath}})
	if err != nil {
		r.Inconclusive("tlc: %v", err)
		return
	}
	if !res.OK() {
		r.Inconclusive("TLC rejects the reference semantics QCircuit (%s %s): %s", res.Violation, res.ViolationName, tailStr(res.Stdout, 600))
		return
	}
	r.Set("states", res.Distinct)
	r.Set("transitions", res.Generated)
	var programs, disagreements, matrices, simulations int64
	err = readNDJSON(rowPath, func(b []byte) error {
		var row qRow
		if err := json.Unmarshal(b, &row); err != nil {
			return err
		}
		programs++
		dim := 1 << row.N
		tol := 2e-5 * float64(dim)
		var lines []string
		for _, g := range row.Circ {
			lines = append(lines, qLine(g))
		}
		desc := strings.Join(lines, " ; ")
		sig := func(kind string) string {
			// two two-qubit gates sharing a layer: classified by how their qubit pairs interlock
			if len(row.Circ) == 2 && len(row.Circ[0].Qs) == 2 && len(row.Circ[1].Qs) == 2 {
				a, b := row.Circ[0].Qs, row.Circ[1].Qs
				lo := func(x []int) int { return minInt(x[0], x[1]) }
				hi := func(x []int) int {
					if x[0] > x[1] {
						return x[0]
					}
					return x[1]
				}
				if !(a[0] == b[0] || a[0] == b[1] || a[1] == b[0] || a[1] == b[1]) {
					class := "side-by-side"
					if !(hi(a) < lo(b) || hi(b) < lo(a)) {
						class = "interlocked"
					}
					return kind + ":same-layer-two-qubit-gates-" + class
				}
			}
			var names []string
			for _, g := range row.Circ {
				names = append(names, g.G)
			}
			return kind + ":" + strings.Join(names, "+")
		}
		ctx := map[string]interface{}{"qubits": row.N, "circuit": lines}
		body := new(bmline.BasmBody)
		body.BasmMeta = nil
		var qb []string
		for q := 0; q < row.N; q++ {
			qb = append(qb, "q"+strconv.Itoa(q))
		}
		body.BasmMeta = body.BasmMeta.SetMeta("qbits", strings.Join(qb, ":"))
		for _, l := range lines {
			bl, err := bmline.Text2BasmLine(l)
			if err != nil {
				r.Inconclusive("cannot build line %q: %v", l, err)
				return nil
			}
			body.Lines = append(body.Lines, bl)
		}
		sim := new(bmqsim.BmQSimulator)
		sim.BmQSimulatorInit()
		var mats []*bmmatrix.BmMatrixSquareComplex
		func() {
			defer func() {
				if e := recover(); e != nil {
					err = fmt.Errorf("panic: %v", e)
				}
			}()
			mats, err = sim.QasmToBmMatrices(body)
		}()
		if err != nil {
			r.Violate(sig("compile-error"), fmt.Sprintf("QasmToBmMatrices fails on %d-qubit circuit %s: %v", row.N, desc, err), ctx)
			return nil
		}
		// every emitted matrix is unitary and of the right size
		total := bmmatrix.IdentityComplex(dim)
		for mi, m := range mats {
			matrices++
			if len(m.Data) != dim {
				r.Violate(sig("matrix-size"), fmt.Sprintf("matrix %d of circuit %s has dimension %d, expected %d", mi, desc, len(m.Data), dim), ctx)
				return nil
			}
			for i := 0; i < dim; i++ {
				for j := 0; j < dim; j++ {
					var s complex128
					for k := 0; k < dim; k++ {
						s += c32(m.Data[i][k]) * cmplx.Conj(c32(m.Data[j][k]))
					}
					want := complex(0, 0)
					if i == j {
						want = 1
					}
					if cmplx.Abs(s-want) > tol {
						r.Violate(sig("not-unitary"), fmt.Sprintf("matrix %d emitted for circuit %s is not unitary: (M M^dagger)[%d][%d] = %v", mi, desc, i, j, s), ctx)
						return nil
					}
				}
			}
			total = bmmatrix.MatrixProductComplex(m, total) // applied in emission order
		}
		disagreements++
		for col := 0; col < dim; col++ {
			for rowi := 0; rowi < dim; rowi++ {
				want := row.Cols[col][rowi].c()
				got := c32(total.Data[rowi][col])
				if cmplx.Abs(got-want) > tol {
					ctx["entry"] = fmt.Sprintf("U[%d][%d] = %v, reference %v", rowi, col, got, want)
					r.Violate(sig("wrong-unitary"), fmt.Sprintf("%d-qubit circuit %s: compiled matrices multiply to U[%d][%d] = %v, the circuit's unitary has %v", row.N, desc, rowi, col, got, want), ctx)
					return nil
				}
			}
		}
		// software simulation maps every basis state to the unitary's column
		sim.Mtx = mats
		sim.Inputs = nil
		for col := 0; col < dim; col++ {
			v := make([]bmmatrix.Complex32, dim)
			v[col] = bmmatrix.Complex32{Real: 1}
			sim.Inputs = append(sim.Inputs, bmqsim.StateArray{Vector: v})
		}
		if err := sim.RunSoftwareSimulation(); err != nil {
			r.Violate(sig("simulation-error"), fmt.Sprintf("RunSoftwareSimulation fails on %s: %v", desc, err), ctx)
			return nil
		}
		for col := 0; col < dim; col++ {
			simulations++
			for rowi := 0; rowi < dim; rowi++ {
				want := row.Cols[col][rowi].c()
				got := c32(sim.Outputs[col].Vector[rowi])
				if cmplx.Abs(got-want) > tol {
					r.Violate(sig("wrong-simulation"), fmt.Sprintf("software simulation of %s on basis state %d gives amplitude[%d] = %v, expected %v", desc, col, rowi, got, want), ctx)
					return nil
				}
			}
		}
		r.Distinct(fmt.Sprintf("%d|%s", row.N, desc))
		if programs%97 == 1 {
			r.Sample(map[string]interface{}{"qubits": row.N, "circuit": lines, "matrices_emitted": len(mats)})
		}
		return nil
	})
	if err != nil {
		r.Inconclusive("rows: %v", err)
		return
	}
	r.Set("programs", programs)
	r.Set("disagreements_checked", disagreements)
	r.Set("matrices_checked_unitary", matrices)
	r.Set("basis_state_simulations", simulations)
	r.Set("evaluations", programs)
}
