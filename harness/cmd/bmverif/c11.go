package main

// C11 — saving and reloading a machine loses nothing.
//
// Persistence is a stuttering step of the model (BMTopology!SaveLoad, BMPersist!SaveLoad).
//  1. Every state of the BMTopology graph explored by TLC is built as a real Bondmachine, saved
//     with Jsoner/json.Marshal, reloaded with json.Unmarshal/Dejsoner; the reloaded object's
//     projection is logged as a SaveLoad event and TLC validates the log against BMTopologyAbs
//     (the abstract state must not change, the reloaded machine must be well formed).
//  2. Every machine descriptor of BMPersist (all static opcodes, one member of each dynamic opcode
//     family, every shared-object kind, threaded processors, WordSize overrides) is built, saved
//     and reloaded: save(load(save)) == save byte-wise; a reflection-driven comparison of every
//     field of the original and the reloaded structs; equality of the generated Verilog; equality
//     of a simulation digest.

import (
	"encoding/json"
	"fmt"
	"os"
	"path/filepath"
	"reflect"
	"sort"
	"strconv"
	"strings"
	"time"

	"github.com/BondMachineHQ/BondMachine/pkg/bondmachine"
	"github.com/BondMachineHQ/BondMachine/pkg/procbuilder"

	"verif/harness/bmgen"
	"verif/harness/evid"
	"verif/harness/tlaval"
	"verif/harness/tlc"
)

func init() { register("C11", "model_checking", runC11) }

type persistDom struct {
	Ops      []string `json:"ops"`
	Threaded int      `json:"threaded"`
	WsExtra  int      `json:"wsextra"`
}

type persistMachine struct {
	Dom   persistDom `json:"dom"`
	NProc int        `json:"nproc"`
	Sos   []string   `json:"sos"`
	Att   [][]int    `json:"att"`
	Fresh bool       `json:"fresh"`
	// the order in which processors are connected to the shared objects (empty: object by object)
	Conn []struct {
		P int `json:"p"`
		S int `json:"s"`
	} `json:"conn"`
}

var freshCounter int

// freshName renames a dynamically named opcode to a member of the same family that this process
// has (very probably) never created: the loading process of the model's fresh case.
func freshName(n string) string {
	freshCounter++
	k := freshCounter
	letters := func(k int) string {
		s := ""
		for {
			s += string(rune('a' + k%26))
			k /= 26
			if k == 0 {
				return s
			}
		}
	}
	switch {
	case strings.HasPrefix(n, "rsets"):
		return "rsets" + strconv.Itoa(8+k)
	case strings.HasSuffix(n, "st"): // push4st pull4st calla4st callo4st ret4st: the stack name is free
		return strings.TrimSuffix(n, "st") + "sv" + letters(k)
	}
	return ""
}

func registryHas(n string) bool {
	for _, op := range procbuilder.Allopcodes {
		if op.Op_get_name() == n {
			return true
		}
	}
	return false
}

// prefixPair returns two members of n's family, both new to the process, the second a proper prefix
// of the first (rsets2057 / rsets205, push4svqx / push4svq).
func prefixPair(n string) (long, short string) {
	freshCounter++
	k := freshCounter
	switch {
	case strings.HasPrefix(n, "rsets"):
		short = "rsets" + strconv.Itoa(200+k)
		return short + "7", short
	case strings.HasSuffix(n, "st"):
		short = strings.TrimSuffix(n, "st") + "sw" + string(rune('a'+k%26)) + string(rune('a'+(k/26)%26))
		return short + "x", short
	}
	return "", ""
}

// loadPrefixPair loads two files one after the other in this process: the dynamic opcode names of the
// second are proper prefixes of names the first one registered.
func loadPrefixPair(r *evid.Run, saved []byte, d persistMachine, ctx map[string]interface{}) bool {
	t1, t2 := string(saved), string(saved)
	pairs := map[string][2]string{}
	for _, n := range d.Dom.Ops {
		if l, s := prefixPair(n); l != "" && !registryHas(l) && !registryHas(s) {
			pairs[n] = [2]string{l, s}
			t1 = strings.ReplaceAll(t1, `"`+n+`"`, `"`+l+`"`)
			t2 = strings.ReplaceAll(t2, `"`+n+`"`, `"`+s+`"`)
		}
	}
	if len(pairs) == 0 {
		return false
	}
	for step, text := range []string{t1, t2} {
		bj := new(bondmachine.Bondmachine_json)
		if err := json.Unmarshal([]byte(text), bj); err != nil {
			r.Inconclusive("prefix-pair file does not parse: %v", err)
			return false
		}
		var re *bondmachine.Bondmachine
		var perr error
		func() {
			defer func() {
				if e := recover(); e != nil {
					perr = fmt.Errorf("panic: %v", e)
				}
			}()
			re = bj.Dejsoner()
			re.Init()
		}()
		ctx["file"], ctx["names"] = text, pairs
		if perr != nil {
			r.Violate("fresh-load-error", fmt.Sprintf("loading file %d of a pair whose opcode names are prefixes of each other fails: %v", step+1, perr), ctx)
			return true
		}
		for di, dom := range re.Domains {
			for oi, op := range dom.Op {
				want := bj.Domains[di].Op[oi]
				if op == nil || op.Op_get_name() != want {
					r.Violate("fresh-load-drops-opcode", fmt.Sprintf("opcode %s of the file (a proper prefix of an opcode name loaded just before) is missing or wrong in the loaded machine", want), ctx)
					return true
				}
			}
		}
	}
	return true
}

// loadFresh plays the fresh loading process: the saved file mentions dynamic opcode names that the
// registry of this process does not contain yet.
func loadFresh(r *evid.Run, saved []byte, d persistMachine, ctx map[string]interface{}) (checked bool) {
	text := string(saved)
	renamed := map[string]string{}
	for _, n := range d.Dom.Ops {
		if f := freshName(n); f != "" && !registryHas(f) {
			renamed[n] = f
			text = strings.ReplaceAll(text, `"`+n+`"`, `"`+f+`"`)
		}
	}
	if len(renamed) == 0 {
		return false
	}
	ctx["file"] = text
	bj := new(bondmachine.Bondmachine_json)
	if err := json.Unmarshal([]byte(text), bj); err != nil {
		r.Inconclusive("fresh file does not parse: %v", err)
		return false
	}
	var re *bondmachine.Bondmachine
	var perr error
	func() {
		defer func() {
			if e := recover(); e != nil {
				perr = fmt.Errorf("panic: %v", e)
			}
		}()
		re = bj.Dejsoner()
		re.Init()
	}()
	if perr != nil {
		r.Violate("fresh-load-error", fmt.Sprintf("loading a file whose dynamic opcodes %v are new to the process fails: %v", renamed, perr), ctx)
		return true
	}
	for di, dom := range re.Domains {
		if len(dom.Op) != len(bj.Domains[di].Op) {
			r.Violate("fresh-load-drops-opcode", fmt.Sprintf("domain %d of the file has %d opcodes, the loaded machine %d", di, len(bj.Domains[di].Op), len(dom.Op)), ctx)
			return true
		}
		for oi, op := range dom.Op {
			want := bj.Domains[di].Op[oi]
			if op == nil {
				r.Violate("fresh-load-drops-opcode", fmt.Sprintf("opcode %s of the file (new to the loading process) is a nil entry in the loaded machine", want), ctx)
				return true
			}
			if op.Op_get_name() != want {
				r.Violate("fresh-load-wrong-opcode", fmt.Sprintf("opcode %s of the file is loaded as %s", want, op.Op_get_name()), ctx)
				return true
			}
		}
	}
	for _, f := range renamed {
		if !registryHas(f) {
			r.Violate("fresh-load-not-registered", fmt.Sprintf("opcode %s is not in the registry after loading", f), ctx)
			return true
		}
	}
	var saved2 []byte
	func() {
		defer func() {
			if e := recover(); e != nil {
				perr = fmt.Errorf("panic: %v", e)
			}
		}()
		saved2, _ = json.Marshal(re.Jsoner())
	}()
	if perr != nil || string(saved2) != text {
		ctx["second"] = string(saved2)
		r.Violate("fresh-resave-differs", fmt.Sprintf("a file loaded by a fresh process and saved again differs (%v)", perr), ctx)
	}
	return true
}

// saveLoad is the real persistence round trip.
func saveLoad(bm *bondmachine.Bondmachine) (reloaded *bondmachine.Bondmachine, saved []byte, err error) {
	defer func() {
		if e := recover(); e != nil {
			err = fmt.Errorf("panic: %v", e)
		}
	}()
	saved, err = json.Marshal(bm.Jsoner())
	if err != nil {
		return nil, nil, err
	}
	bj := new(bondmachine.Bondmachine_json)
	if err = json.Unmarshal(saved, bj); err != nil {
		return nil, saved, err
	}
	reloaded = bj.Dejsoner()
	return reloaded, saved, nil
}

// deepDiff compares two values field by field (driven by reflection so that a field added to a
// struct later is compared too). nil and empty slices/maps are equal; interface values are
// compared by dynamic type and, for opcodes and shared objects, by name.
func deepDiff(path string, a, b reflect.Value) string {
	if !a.IsValid() || !b.IsValid() {
		if a.IsValid() != b.IsValid() {
			return path + ": one side is missing"
		}
		return ""
	}
	if a.Type() != b.Type() {
		return fmt.Sprintf("%s: type %s vs %s", path, a.Type(), b.Type())
	}
	switch a.Kind() {
	case reflect.Ptr:
		if a.IsNil() || b.IsNil() {
			if a.IsNil() != b.IsNil() {
				return path + ": nil vs non-nil"
			}
			return ""
		}
		return deepDiff(path, a.Elem(), b.Elem())
	case reflect.Interface:
		if a.IsNil() || b.IsNil() {
			if a.IsNil() != b.IsNil() {
				return path + ": nil vs non-nil interface value"
			}
			return ""
		}
		if op, ok := a.Interface().(procbuilder.Opcode); ok {
			ob := b.Interface().(procbuilder.Opcode)
			if op.Op_get_name() != ob.Op_get_name() || reflect.TypeOf(op) != reflect.TypeOf(ob) {
				return fmt.Sprintf("%s: opcode %s (%T) vs %s (%T)", path, op.Op_get_name(), op, ob.Op_get_name(), ob)
			}
			return ""
		}
		if so, ok := a.Interface().(bondmachine.Shared_instance); ok {
			sb := b.Interface().(bondmachine.Shared_instance)
			if so.String() != sb.String() || reflect.TypeOf(so) != reflect.TypeOf(sb) {
				return fmt.Sprintf("%s: shared object %s (%T) vs %s (%T)", path, so.String(), so, sb.String(), sb)
			}
			return ""
		}
		return deepDiff(path, a.Elem(), b.Elem())
	case reflect.Struct:
		for i := 0; i < a.NumField(); i++ {
			f := a.Type().Field(i)
			if f.PkgPath != "" { // unexported
				continue
			}
			if d := deepDiff(path+"."+f.Name, a.Field(i), b.Field(i)); d != "" {
				return d
			}
		}
		return ""
	case reflect.Slice, reflect.Array:
		if a.Len() != b.Len() {
			return fmt.Sprintf("%s: length %d vs %d", path, a.Len(), b.Len())
		}
		for i := 0; i < a.Len(); i++ {
			if d := deepDiff(fmt.Sprintf("%s[%d]", path, i), a.Index(i), b.Index(i)); d != "" {
				return d
			}
		}
		return ""
	case reflect.Map:
		if a.Len() != b.Len() {
			return fmt.Sprintf("%s: map size %d vs %d", path, a.Len(), b.Len())
		}
		for _, k := range a.MapKeys() {
			if d := deepDiff(fmt.Sprintf("%s[%v]", path, k), a.MapIndex(k), b.MapIndex(k)); d != "" {
				return d
			}
		}
		return ""
	case reflect.Func, reflect.Chan:
		return ""
	default:
		if !reflect.DeepEqual(a.Interface(), b.Interface()) {
			return fmt.Sprintf("%s: %v vs %v", path, a.Interface(), b.Interface())
		}
		return ""
	}
}

// buildPersistMachine builds the real Bondmachine a BMPersist descriptor stands for.
func buildPersistMachine(d persistMachine) (*bondmachine.Bondmachine, bool, error) {
	m := new(procbuilder.Machine)
	a := &m.Arch
	a.Rsize = 8
	a.Modes = []string{"ha"}
	a.R, a.N, a.M, a.L, a.O = 2, 1, 1, 2, 3
	for _, n := range d.Dom.Ops {
		procbuilder.EventuallyCreateInstruction(n)
	}
	names := append([]string{}, d.Dom.Ops...)
	sort.Strings(names)
	for _, n := range names {
		found := false
		for _, op := range procbuilder.Allopcodes {
			if op.Op_get_name() == n {
				a.Op = append(a.Op, op)
				found = true
				break
			}
		}
		if !found {
			return nil, false, fmt.Errorf("opcode %s is not in the registry", n)
		}
	}
	a.Threaded = d.Dom.Threaded
	has := map[string]bool{}
	for _, n := range names {
		has[n] = true
	}
	// a small runnable program when the opcodes allow it, otherwise plain words
	var lines []string
	for _, cand := range []struct{ op, line string }{{"rset", "rset r1 3"}, {"inc", "inc r0"}, {"add", "add r0 r1"}, {"cpy", "cpy r2 r0"}, {"r2o", "r2o r0 o0"}, {"nop", "nop"}} {
		if has[cand.op] {
			lines = append(lines, cand.line)
		}
	}
	runnable := false
	if has["j"] && len(lines) > 0 {
		lines = append(lines, "j 0")
		runnable = true
	}
	if len(lines) > 0 {
		p, err := a.Assembler([]byte(strings.Join(lines, "\n") + "\n"))
		if err != nil {
			return nil, false, fmt.Errorf("assembler: %v", err)
		}
		m.Program = p
	}
	if d.Dom.WsExtra > 0 {
		a.WordSize = uint8(a.Max_word() + d.Dom.WsExtra)
		if len(lines) > 0 {
			p, err := a.Assembler([]byte(strings.Join(lines, "\n") + "\n"))
			if err != nil {
				return nil, false, fmt.Errorf("assembler: %v", err)
			}
			m.Program = p
		}
	}
	if len(m.Program.Slocs) == 0 {
		w := strings.Repeat("0", a.Max_word())
		m.Program = procbuilder.Program{Slocs: []string{w, w}}
	}
	// (more data words than program lines in the machines whose program is two words)
	m.Data = procbuilder.Data{Vars: []string{"00000001", "00000010", "00000100", "00001000", "00010000"}}
	bm := newBM(8)
	bm.Domains = append(bm.Domains, m)
	bm.Add_input()
	bm.Add_output()
	for i := 0; i < d.NProc; i++ {
		bm.Add_processor(0)
	}
	bm.Add_bond([]string{"p0i0", "i0"})
	bm.Add_bond([]string{"o0", "p0o0"})
	if d.NProc > 1 {
		bm.Add_bond([]string{"p1i0", "p0o0"})
	}
	if len(d.Sos) > 0 {
		bm.Add_shared_objects(d.Sos)
		if len(bm.Shared_objects) != len(d.Sos) {
			return nil, false, fmt.Errorf("shared objects %v were not all instantiated (%d)", d.Sos, len(bm.Shared_objects))
		}
		if len(d.Conn) > 0 {
			for _, c := range d.Conn {
				bm.Connect_processor_shared_object([]string{strconv.Itoa(c.P), strconv.Itoa(c.S)})
			}
		} else {
			for si, procs := range d.Att {
				for _, p := range procs {
					bm.Connect_processor_shared_object([]string{strconv.Itoa(p), strconv.Itoa(si)})
				}
			}
		}
	}
	return bm, runnable && len(d.Sos) == 0, nil
}

func verilogText(bm *bondmachine.Bondmachine) (string, error) {
	files, order, err := bmgen.VerilogFiles(bm, new(bondmachine.Config), "iverilog")
	if err != nil {
		return "", err
	}
	var sb strings.Builder
	for _, n := range order {
		sb.WriteString("// ---- " + n + "\n" + files[n])
	}
	return sb.String(), nil
}

func simDigest(bm *bondmachine.Bondmachine, ticks int) (d string, err error) {
	defer func() {
		if e := recover(); e != nil {
			err = fmt.Errorf("panic: %v", e)
		}
	}()
	vm, err := startVM(bm, nil)
	if err != nil {
		return "", err
	}
	defer vm.Stop()
	var all []string
	err = tickLoop(vm, ticks, func(t int, dg string) { all = append(all, dg) })
	return strings.Join(all, ""), err
}

func runC11(r *evid.Run) {
	scratch, err := os.MkdirTemp("", "bmverif-c11-")
	if err != nil {
		r.Inconclusive("mktemp: %v", err)
		return
	}
	defer os.RemoveAll(scratch)
	var states, transitions int64

	// ---- 1. SaveLoad on every state of the topology model -------------------------------------------
	cfgs := []string{"MCTopology_a.cfg", "MCTopology_b.cfg"}
	if r.Thorough() {
		cfgs = append(cfgs, "MCTopology_d.cfg")
	}
	tracePath := filepath.Join(scratch, "trace.ndjson")
	tf, _ := os.Create(tracePath)
	enc := json.NewEncoder(tf)
	nEvents := 0
	lineOf := map[int]topoEvent{}
	segStart := map[int]int{}
	var topoStates int64
	for i, cfg := range cfgs {
		res, err := tlc.Run(tlc.Options{SpecDir: specDir, Module: "MCTopology", Cfg: cfg, Workers: 8, DumpDot: true, KeepDir: true,
			Scratch: filepath.Join(scratch, "mc"+strconv.Itoa(i)), Timeout: 40 * time.Minute})
		if err != nil {
			r.Inconclusive("tlc: %v", err)
			return
		}
		if !res.OK() {
			r.Inconclusive("TLC did not accept BMTopology under %s", cfg)
			return
		}
		states += res.Distinct
		transitions += res.Generated
		g, err := tlc.ParseDot(res.DotPath)
		os.RemoveAll(res.Dir)
		if err != nil {
			r.Inconclusive("dot: %v", err)
			return
		}
		ids := make([]string, 0, len(g.Nodes))
		for id := range g.Nodes {
			ids = append(ids, id)
		}
		sort.Strings(ids)
		for _, id := range ids {
			st := g.Nodes[id]
			bm := bmFromSpecState(st)
			seg := nEvents + 1
			ev := topoEvent{Ev: "set", Post: readTopo(bm)}
			enc.Encode(ev)
			nEvents++
			lineOf[nEvents], segStart[nEvents] = ev, seg
			re, saved, err := saveLoad(bm)
			if err != nil {
				r.Violate("saveload-error", fmt.Sprintf("save/load fails: %v", err), map[string]interface{}{"state": tlaval.ToJSONable(tlaval.Rec(st))})
				continue
			}
			re.Init()
			ev2 := topoEvent{Ev: "SaveLoad", Post: readTopo(re)}
			enc.Encode(ev2)
			nEvents++
			lineOf[nEvents], segStart[nEvents] = ev2, seg
			topoStates++
			saved2, _ := json.Marshal(re.Jsoner())
			if string(saved) != string(saved2) {
				r.Violate("resave-differs:topology", "save(load(save(bm))) differs from save(bm)", map[string]interface{}{"first": string(saved), "second": string(saved2)})
			}
			r.Distinct("topo|" + string(saved))
		}
	}
	tf.Close()
	validateTopoTrace(r, tracePath, nEvents, lineOf, segStart, topoStates)

	// ---- 2. the machine catalogue ---------------------------------------------------------------------
	rowPath, toolRowPath := filepath.Join(scratch, "rows.ndjson"), filepath.Join(scratch, "toolrows.ndjson")
	pres, err := tlc.Run(tlc.Options{SpecDir: specDir, Module: "BMPersist", Cfg: "BMPersist.cfg", Workers: 4, Timeout: 10 * time.Minute, Env: map[string]string{"ROWS": rowPath, "TOOLROWS": toolRowPath}})
	if err != nil || !pres.OK() {
		r.Inconclusive("tlc BMPersist: %v", err)
		return
	}
	states += pres.Distinct
	transitions += pres.Generated
	var machines, simulated, verilogCompared, freshLoads int64
	type againItem struct {
		bm    *bondmachine.Bondmachine
		label string
		d     persistMachine
		saved string
	}
	var again []againItem
	err = readNDJSON(rowPath, func(b []byte) error {
		var d persistMachine
		if err := json.Unmarshal(b, &d); err != nil {
			return err
		}
		bm, runnable, err := buildPersistMachine(d)
		if err != nil {
			r.Inconclusive("cannot build catalogue machine %v: %v", d, err)
			return nil
		}
		ctx := map[string]interface{}{"machine": d}
		if d.Fresh {
			saved, err := json.Marshal(bm.Jsoner())
			if err != nil {
				r.Inconclusive("save: %v", err)
				return nil
			}
			if loadFresh(r, saved, d, ctx) {
				freshLoads++
			}
			if loadPrefixPair(r, saved, d, ctx) {
				freshLoads++
			}
			return nil
		}
		machines++
		label := fmt.Sprintf("ops=%d threaded=%d ws+%d sos=%v", len(d.Dom.Ops), d.Dom.Threaded, d.Dom.WsExtra, d.Sos)
		if len(d.Conn) > 0 {
			label += fmt.Sprintf(" connected in the order %v", d.Conn)
		}
		re, saved, err := saveLoad(bm)
		if err != nil {
			r.Violate("saveload-error", fmt.Sprintf("save/load of a machine (%s) fails: %v", label, err), ctx)
			return nil
		}
		re.Init()
		saved2, perr := func() (b []byte, err error) {
			defer func() {
				if e := recover(); e != nil {
					err = fmt.Errorf("panic: %v", e)
				}
			}()
			return json.Marshal(re.Jsoner())
		}()
		if perr != nil {
			ctx["first"] = string(saved)
			r.Violate("resave-fails", fmt.Sprintf("the reloaded machine cannot be saved again (%s): %v", label, perr), ctx)
			return nil
		}
		if string(saved) != string(saved2) {
			ctx["first"], ctx["second"] = string(saved), string(saved2)
			r.Violate("resave-differs", fmt.Sprintf("save(load(save(bm))) differs from save(bm) for a machine with %s", label), ctx)
			return nil
		}
		if diff := deepDiff("bm", reflect.ValueOf(bm), reflect.ValueOf(re)); diff != "" {
			ctx["difference"] = diff
			field := diff
			if i := strings.Index(field, ":"); i > 0 {
				field = field[:i]
			}
			field = strings.Map(func(c rune) rune {
				if c >= '0' && c <= '9' {
					return -1
				}
				return c
			}, field)
			r.Violate("reload-differs:"+field, fmt.Sprintf("the reloaded machine differs from the original (%s): %s", label, diff), ctx)
			return nil
		}
		// the fxps opcodes read external HDL sources from /tmp/fxpcode at generation time and abort the
		// process when they are missing: machines that use them are not rendered
		noHDL := false
		for _, n := range d.Dom.Ops {
			if strings.Contains(n, "fxps") {
				noHDL = true
			}
		}
		var v1, v2 string
		var e1, e2 error = fmt.Errorf("not rendered"), fmt.Errorf("not rendered")
		if !noHDL {
			v1, e1 = verilogText(bm)
			v2, e2 = verilogText(re)
		}
		if (e1 == nil) != (e2 == nil) || v1 != v2 {
			ctx["error_original"], ctx["error_reloaded"] = fmt.Sprint(e1), fmt.Sprint(e2)
			r.Violate("verilog-differs", fmt.Sprintf("the reloaded machine generates different Verilog (%s)", label), ctx)
			return nil
		}
		if e1 == nil {
			verilogCompared++
		}
		if runnable {
			d1, e1 := simDigest(bm, 40)
			d2, e2 := simDigest(re, 40)
			if (e1 == nil) != (e2 == nil) || d1 != d2 {
				r.Violate("simulation-differs", fmt.Sprintf("the reloaded machine simulates differently (%s): %v / %v", label, e1, e2), ctx)
				return nil
			}
			simulated++
		}
		if len(dynNamesOf(d.Dom.Ops)) > 0 {
			again = append(again, againItem{bm, label, d, string(saved)})
		}
		r.Distinct("cat|" + string(saved))
		if machines%29 == 1 {
			r.Sample(map[string]interface{}{"machine": d, "saved_bytes": len(saved)})
		}
		return nil
	})
	if err != nil {
		r.Inconclusive("rows: %v", err)
		return
	}
	// the machines with dynamically named opcodes once more, now that the registry holds the names of the
	// whole catalogue (twins that differ in the case of one letter among them)
	var reloadedLate int64
	for _, it := range again {
		re, _, err := saveLoad(it.bm)
		ctx := map[string]interface{}{"machine": it.d}
		if err != nil {
			r.Violate("saveload-error", fmt.Sprintf("save/load of a machine (%s) fails once the registry has grown: %v", it.label, err), ctx)
			continue
		}
		re.Init()
		reloadedLate++
		// (the original object has been through Verilog generation by now, which leaves marks on it: the
		// saved forms are compared)
		resaved, perr := func() (b []byte, err error) {
			defer func() {
				if e := recover(); e != nil {
					err = fmt.Errorf("panic: %v", e)
				}
			}()
			return json.Marshal(re.Jsoner())
		}()
		if perr != nil || string(resaved) != it.saved {
			ctx["saved_first"], ctx["saved_after_late_reload"] = it.saved, string(resaved)
			r.Violate("reload-differs:after-registry-grew", fmt.Sprintf("the machine reloaded after the opcode registry has grown is saved differently from the original (%s) %v", it.label, perr), ctx)
		}
	}
	r.Set("catalogue_reloads_after_registry_growth", reloadedLate)
	// ---- 3. the load -> save path of the command line tool --------------------------------------------
	toolBin, err := buildTool(scratch, "bondmachine")
	if err != nil {
		r.Inconclusive("cannot build cmd/bondmachine: %v", err)
		return
	}
	var toolRuns int64
	err = readNDJSON(toolRowPath, func(b []byte) error {
		var row struct {
			RSize   int    `json:"rsize"`
			Request string `json:"request"`
		}
		if err := json.Unmarshal(b, &row); err != nil {
			return err
		}
		bm := newBM(row.RSize)
		for i, prog := range []string{"i2r r0 i0\ninc r0\nr2o r0 o0\nj 0\n", "i2r r1 i0\nr2o r1 o0\nj 0\n"} {
			m, err := mkMachine(row.RSize, 2, 1, 1, 0, []string{"i2r", "inc", "r2o", "j"}, prog)
			if err != nil {
				r.Inconclusive("tool machine %d: %v", i, err)
				return nil
			}
			addProc(bm, m)
		}
		bm.Add_input()
		bm.Add_output()
		bm.Add_bond([]string{"p0i0", "i0"})
		bm.Add_bond([]string{"p1i0", "p0o0"})
		bm.Add_bond([]string{"o0", "p1o0"})
		before, err := json.Marshal(bm.Jsoner())
		if err != nil {
			r.Inconclusive("save: %v", err)
			return nil
		}
		dir := filepath.Join(scratch, "tool")
		os.MkdirAll(dir, 0o755)
		file := filepath.Join(dir, "bm.json")
		os.WriteFile(file, before, 0o644)
		out, terr := runTool(dir, nil, 60*time.Second, toolBin, "-bondmachine-file", "bm.json", row.Request)
		ctx := map[string]interface{}{"register_size": row.RSize, "request": row.Request, "tool_output": tailStr(out, 300)}
		if terr != nil {
			r.Violate("tool-fails:"+row.Request, fmt.Sprintf("bondmachine %s fails on a %d-bit machine file: %v", row.Request, row.RSize, terr), ctx)
			return nil
		}
		toolRuns++
		after, _ := os.ReadFile(file)
		bj := new(bondmachine.Bondmachine_json)
		if err := json.Unmarshal(after, bj); err != nil {
			r.Violate("tool-file-unreadable", fmt.Sprintf("the file bondmachine %s wrote back cannot be read: %v", row.Request, err), ctx)
			return nil
		}
		re := bj.Dejsoner()
		if diff := deepDiff("bm", reflect.ValueOf(bm), reflect.ValueOf(re)); diff != "" {
			ctx["difference"] = diff
			r.Violate("tool-changes-machine:"+strings.SplitN(diff, ":", 2)[0], fmt.Sprintf("bondmachine %s on a %d-bit machine file: the file written back holds a different machine: %s", row.Request, row.RSize, diff), ctx)
			return nil
		}
		v1, e1 := verilogText(bm)
		v2, e2 := verilogText(re)
		if (e1 == nil) != (e2 == nil) || v1 != v2 {
			r.Violate("tool-changes-verilog", fmt.Sprintf("bondmachine %s on a %d-bit machine file: the machine written back generates different Verilog", row.Request, row.RSize), ctx)
		}
		r.Distinct(fmt.Sprintf("tool|%d|%s", row.RSize, row.Request))
		return nil
	})
	if err != nil {
		r.Inconclusive("tool rows: %v", err)
		return
	}
	r.Set("tool_load_save_runs", toolRuns)
	r.Set("states", states)
	r.Set("transitions", transitions)
	r.Set("topology_states_saved_and_reloaded", topoStates)
	r.Set("catalogue_machines", machines)
	r.Set("catalogue_verilog_compared", verilogCompared)
	r.Set("catalogue_simulated", simulated)
	r.Set("catalogue_fresh_process_loads", freshLoads)
	r.Set("evaluations", topoStates+machines+freshLoads)
}

// dynNamesOf returns the opcode names of a list that are created on demand (not in the static table).
func dynNamesOf(ops []string) []string {
	var out []string
	for _, n := range ops {
		for _, pre := range []string{"addfps", "addfxps", "calla", "callo", "divfps", "multfps", "multfxps", "pull", "push", "ret", "rsets"} {
			if strings.HasPrefix(n, pre) && n != "ret" {
				out = append(out, n)
				break
			}
		}
	}
	return out
}
