package main

// C04 — a bond delivers every value exactly once, in order, to every consumer.
//
// Specs: BMBond (property level, operator Judge), BMBondSim (Go simulator as coded),
// BMBondHdl (generated Verilog as coded), BMBondTrace (judges real executions).
//
//  1. TLC explores the implementation-level models exhaustively (fan-out 1..3, all I/O-vs-padding
//     program shapes): with the two known defective situations avoided no tick may break the
//     bond; with them allowed every violation must have one of the two known root causes.
//  2. TLC behaviours (counterexamples for the known findings, -simulate runs of both modes) are
//     turned into real programs and executed on the real bondmachine.VM (and on the real
//     generated Verilog through the interpreter); per-tick state is compared with the model
//     (lock-step, informational).
//  3. Seeded random programs/fan-outs/delays beyond the model bounds run on the real artefacts.
//  4. Verdict: every recorded real execution is validated by TLC against BMBond.

import (
	"encoding/json"
	"fmt"
	"math/rand"
	"os"
	"path/filepath"
	"sort"
	"strconv"
	"strings"
	"time"

	"github.com/BondMachineHQ/BondMachine/pkg/bondmachine"
	"github.com/BondMachineHQ/BondMachine/pkg/simbox"

	"verif/harness/bmgen"
	"verif/harness/evid"
	"verif/harness/tlaval"
	"verif/harness/tlc"
	"verif/harness/vlog"
)

func init() { register("C04", "model_checking", runC04) }

const (
	causeF1 = "i2rw-fired-with-own-recv-high"
	causeF2 = "r2owa-retired-in-issue-tick-on-stale-recv"
	// not the recorded defect: a consumer's recv stayed high for more than two ticks after valid had
	// fallen (the pinned deferred drop lowers it in the tick after)
	causeStuck = "consumer-recv-left-high-after-valid-fell"
)

// bondProg is a straight-line program per processor over the alphabet SEND/RECV/PAD.
type bondProg struct {
	Prod []string   `json:"prod"`
	Cons [][]string `json:"cons"`
	// optional fixed per-opcode delays (simulator only)
	Delays map[string]int `json:"delays,omitempty"`
}

type bondCR struct {
	C int    `json:"c"`
	V uint64 `json:"v"`
}

// bondTick is what one tick / clock of a real artefact did, in BMBond's vocabulary, plus the
// implementation-level lines used for lock-step comparison and root-cause classification.
type bondTick struct {
	Ev  string   `json:"ev"`
	K   int      `json:"k,omitempty"`
	Iss []uint64 `json:"iss"`
	Crs []bondCR `json:"crs"`
	Pr  bool     `json:"pr"`
	// implementation state after the tick (not read by the trace spec)
	PValid bool       `json:"-"`
	POut   uint64     `json:"-"`
	CRecv  []bool     `json:"-"`
	CDef   []bool     `json:"-"`
	CCap   [][]uint64 `json:"-"`
	Waitsm bool       `json:"-"`
	Cause  string     `json:"-"` // root-cause predicate evaluated on the real pre-state
}

func opsProgram(ops []string, send bool) string {
	var sb strings.Builder
	n := 0
	for _, o := range ops {
		switch o {
		case "SEND":
			n++
			fmt.Fprintf(&sb, "r2owa r%d o0\n", n)
		case "RECV":
			fmt.Fprintf(&sb, "i2rw r%d i0\n", n)
			n++
		case "SICV": // the other handshaked input instruction: completes a transfer without keeping the value
			sb.WriteString("sicv3 r15 i0\n")
		default:
			sb.WriteString("nop\n")
		}
	}
	return sb.String()
}

// buildBondMachine builds the real machine: processor 0 is the producer, 1..K the consumers,
// p0o0 bonded to every pKi0.
func buildBondMachine(p bondProg) (*bondmachine.Bondmachine, error) {
	bm := newBM(8)
	pm, err := mkMachine(8, 4, 0, 1, 0, []string{"nop", "r2owa", "i2rw"}, opsProgram(p.Prod, true))
	if err != nil {
		return nil, fmt.Errorf("producer: %v", err)
	}
	addProc(bm, pm)
	for i, c := range p.Cons {
		ops := []string{"nop", "r2owa", "i2rw"}
		for _, o := range c {
			if o == "SICV" {
				ops = []string{"nop", "r2owa", "i2rw", "sicv3"}
			}
		}
		cm, err := mkMachine(8, 4, 1, 0, 0, ops, opsProgram(c, false))
		if err != nil {
			return nil, fmt.Errorf("consumer %d: %v", i, err)
		}
		addProc(bm, cm)
	}
	for i := range p.Cons {
		bm.Add_bond([]string{"p" + strconv.Itoa(i+1) + "i0", "p0o0"})
	}
	return bm, nil
}

// runBondSim executes the programs on the real simulator for nticks ticks and returns one
// bondTick per tick (preceded by a reset record).
func runBondSim(p bondProg, nticks int) ([]bondTick, error) {
	bm, err := buildBondMachine(p)
	if err != nil {
		return nil, err
	}
	var delays *simbox.SimDelays
	if len(p.Delays) > 0 {
		delays = onePoint(p.Delays)
	}
	vm, err := startVM(bm, delays)
	if err != nil {
		return nil, err
	}
	K := len(p.Cons)
	prod := vm.Processors[0]
	for i := 1; i < len(prod.Registers); i++ {
		prod.Registers[i] = uint8(i)
	}
	out := []bondTick{{Ev: "reset", K: K, Iss: []uint64{}, Crs: []bondCR{}}}
	started := map[uint64]bool{}
	caps := make([][]uint64, K)
	recvIdx := func(ops []string, pc uint64) int { // index among RECVs of the instruction at pc
		n := 0
		for i := uint64(0); i < pc; i++ {
			if ops[i] == "RECV" {
				n++
			}
		}
		return n
	}
	stuck := make([]int, K) // ticks a consumer's recv has been high while the producer's valid is low
	for t := 0; t < nticks; t++ {
		bt := bondTick{Ev: "tick", Iss: []uint64{}, Crs: []bondCR{}}
		ppc := prod.Pc
		pAtSend := ppc < uint64(len(p.Prod)) && p.Prod[ppc] == "SEND"
		pExec := pAtSend && prod.DelayCounter == 0
		issuedNow := false
		if pExec && !started[ppc] {
			started[ppc] = true
			issuedNow = true
			// the value the instruction is about to put on the bond
			n := 0
			for i := uint64(0); i <= ppc; i++ {
				if p.Prod[i] == "SEND" {
					n++
				}
			}
			bt.Iss = append(bt.Iss, u64(prod.Registers[n]))
		}
		cpc := make([]uint64, K)
		crecvBefore := make([]bool, K)
		for c := 0; c < K; c++ {
			cpc[c] = vm.Processors[c+1].Pc
			crecvBefore[c] = vm.Processors[c+1].InputsRecv[0]
		}
		if _, err := vm.Step(nil); err != nil {
			return out, fmt.Errorf("tick %d: %v", t, err)
		}
		if pAtSend && prod.Pc == ppc+1 {
			bt.Pr = true
		}
		f1 := false
		for c := 0; c < K; c++ {
			cv := vm.Processors[c+1]
			ops := p.Cons[c]
			if cpc[c] < uint64(len(ops)) && (ops[cpc[c]] == "RECV" || ops[cpc[c]] == "SICV") && cv.Pc == cpc[c]+1 {
				v := u64(cv.Registers[recvIdx(ops, cpc[c])])
				if ops[cpc[c]] == "SICV" {
					v = u64(cv.Inputs[0]) // the value on the input when the transfer completed
				}
				bt.Crs = append(bt.Crs, bondCR{C: c + 1, V: v})
				caps[c] = append(caps[c], v)
				if crecvBefore[c] {
					f1 = true
				}
			}
		}
		wasStuck := false
		for c := 0; c < K; c++ {
			if stuck[c] > 2 {
				wasStuck = true
			}
			if vm.Processors[c+1].InputsRecv[0] && !prod.OutputsValid[0] {
				stuck[c]++
			} else {
				stuck[c] = 0
			}
		}
		switch {
		case f1:
			bt.Cause = causeF1
		case issuedNow && bt.Pr && wasStuck:
			bt.Cause = causeStuck
		case issuedNow && bt.Pr:
			bt.Cause = causeF2
		default:
			bt.Cause = "other"
		}
		bt.PValid = prod.OutputsValid[0]
		bt.POut = u64(prod.Outputs[0])
		for c := 0; c < K; c++ {
			cv := vm.Processors[c+1]
			bt.CRecv = append(bt.CRecv, cv.InputsRecv[0])
			bt.CDef = append(bt.CDef, len(cv.DeferredInstructions) > 0)
			bt.CCap = append(bt.CCap, append([]uint64{}, caps[c]...))
		}
		out = append(out, bt)
	}
	return out, nil
}

// ---- generated-hardware back-end ---------------------------------------------------------------

func opsProgramHdl(ops []string) string {
	var sb strings.Builder
	sb.WriteString(opsProgram(ops, true))
	fmt.Fprintf(&sb, "j %d\n", len(ops)) // end of program: jump to itself
	return sb.String()
}

func buildBondMachineHdl(p bondProg) (*bondmachine.Bondmachine, error) {
	bm := newBM(8)
	ops := []string{"nop", "r2owa", "i2rw", "j"}
	pm, err := mkMachine(8, 3, 0, 1, 0, ops, opsProgramHdl(p.Prod))
	if err != nil {
		return nil, fmt.Errorf("producer: %v", err)
	}
	addProc(bm, pm)
	for i, c := range p.Cons {
		cm, err := mkMachine(8, 3, 1, 0, 0, ops, opsProgramHdl(c))
		if err != nil {
			return nil, fmt.Errorf("consumer %d: %v", i, err)
		}
		addProc(bm, cm)
	}
	for i := range p.Cons {
		bm.Add_bond([]string{"p" + strconv.Itoa(i+1) + "i0", "p0o0"})
	}
	return bm, nil
}

// elaborateBM renders the real Verilog file set of bm and loads it in the interpreter.
func elaborateBM(bm *bondmachine.Bondmachine) (*vlog.Sim, map[string]string, error) {
	files, order, err := bmgen.VerilogFiles(bm, new(bondmachine.Config), "iverilog")
	if err != nil {
		return nil, nil, err
	}
	var srcs []string
	for _, n := range order {
		srcs = append(srcs, files[n])
	}
	d, err := vlog.Parse(srcs...)
	if err != nil {
		return nil, files, fmt.Errorf("generated Verilog does not parse: %v", err)
	}
	sim, err := vlog.Elaborate(d, "bondmachine")
	if err != nil {
		return nil, files, fmt.Errorf("generated Verilog does not elaborate: %v", err)
	}
	return sim, files, nil
}

func procPath(i int) string { return fmt.Sprintf("a%d_inst.p%d_instance.", i, i) }

// runBondHdl executes the programs on the real generated Verilog for nclk clocks.
func runBondHdl(p bondProg, nclk int) ([]bondTick, error) {
	bm, err := buildBondMachineHdl(p)
	if err != nil {
		return nil, err
	}
	sim, _, err := elaborateBM(bm)
	if err != nil {
		return nil, err
	}
	K := len(p.Cons)
	sim.Set("reset", 1)
	if err := sim.Step("clk"); err != nil {
		return nil, err
	}
	sim.Set("reset", 0)
	pp := procPath(0)
	for i := 1; i < 8; i++ {
		if err := sim.Set(pp+"_r"+strconv.Itoa(i), uint64(i)); err != nil {
			return nil, err
		}
	}
	if err := sim.Settle(); err != nil {
		return nil, err
	}
	get := func(n string) uint64 { v, _ := sim.Get(n); return v }
	out := []bondTick{{Ev: "reset", K: K, Iss: []uint64{}, Crs: []bondCR{}}}
	started := map[uint64]bool{}
	caps := make([][]uint64, K)
	recvIdx := func(ops []string, pc uint64) int {
		n := 0
		for i := uint64(0); i < pc; i++ {
			if ops[i] == "RECV" {
				n++
			}
		}
		return n
	}
	for t := 0; t < nclk; t++ {
		bt := bondTick{Ev: "tick", Iss: []uint64{}, Crs: []bondCR{}}
		ppc := get(pp + "_pc")
		pAtSend := ppc < uint64(len(p.Prod)) && p.Prod[ppc] == "SEND"
		if pAtSend && !started[ppc] {
			started[ppc] = true
			n := 0
			for i := uint64(0); i <= ppc; i++ {
				if p.Prod[i] == "SEND" {
					n++
				}
			}
			bt.Iss = append(bt.Iss, get(pp+"_r"+strconv.Itoa(n)))
		}
		cpc := make([]uint64, K)
		crecvBefore := make([]bool, K)
		for c := 0; c < K; c++ {
			cpc[c] = get(procPath(c+1) + "_pc")
			crecvBefore[c] = get(procPath(c+1)+"i0_recv") == 1
		}
		if err := sim.Step("clk"); err != nil {
			return out, fmt.Errorf("clock %d: %v", t, err)
		}
		if pAtSend && get(pp+"_pc") == ppc+1 {
			bt.Pr = true
		}
		f1 := false
		for c := 0; c < K; c++ {
			cp := procPath(c + 1)
			ops := p.Cons[c]
			if cpc[c] < uint64(len(ops)) && ops[cpc[c]] == "RECV" && get(cp+"_pc") == cpc[c]+1 {
				v, known := sim.Get(cp + "_r" + strconv.Itoa(recvIdx(ops, cpc[c])))
				if !known {
					v = 1 << 40 // an unknown (X) value was captured: never equal to a sent value
				}
				bt.Crs = append(bt.Crs, bondCR{C: c + 1, V: v})
				caps[c] = append(caps[c], v)
				if crecvBefore[c] {
					f1 = true
				}
			}
		}
		if f1 {
			bt.Cause = causeF1
		} else {
			bt.Cause = "other"
		}
		bt.PValid = get(pp+"o0_val") == 1
		bt.POut = get(pp + "_auxo0")
		bt.Waitsm = get(pp+"waitsm") == 1
		for c := 0; c < K; c++ {
			bt.CRecv = append(bt.CRecv, get(procPath(c+1)+"i0_recv") == 1)
			bt.CCap = append(bt.CCap, append([]uint64{}, caps[c]...))
		}
		out = append(out, bt)
	}
	return out, nil
}

// lockstepHdl compares the real hardware's per-clock registers with the model behaviour.
func lockstepHdl(states []tlc.State, ticks []bondTick) (mismatch string) {
	for i := 1; i < len(states) && i < len(ticks); i++ {
		st := states[i].Vars
		bt := ticks[i]
		if tlaval.Bool(st["oval"]) != bt.PValid {
			return fmt.Sprintf("clock %d: o0_val model=%v real=%v", i, st["oval"], bt.PValid)
		}
		if tlaval.Bool(st["waitsm"]) != bt.Waitsm {
			return fmt.Sprintf("clock %d: waitsm model=%v real=%v", i, st["waitsm"], bt.Waitsm)
		}
		if tlaval.Bool(st["oval"]) && uint64(tlaval.Int(st["auxo"])) != bt.POut {
			return fmt.Sprintf("clock %d: _auxo0 model=%v real=%v", i, st["auxo"], bt.POut)
		}
		for c, v := range tlaval.AsSeq(st["crecv"]) {
			if tlaval.Bool(v) != bt.CRecv[c] {
				return fmt.Sprintf("clock %d: i0_recv[%d] model=%v real=%v", i, c+1, v, bt.CRecv[c])
			}
		}
		for c, v := range tlaval.AsSeq(st["ccap"]) {
			if fmt.Sprint(u64Seq(v)) != fmt.Sprint(bt.CCap[c]) {
				return fmt.Sprintf("clock %d: captured[%d] model=%v real=%v", i, c+1, u64Seq(v), bt.CCap[c])
			}
		}
	}
	return ""
}

// progFromBehaviour extracts the straight-line programs a BMBondSim/BMBondHdl behaviour chose.
func progFromBehaviour(states []tlc.State) bondProg {
	var p bondProg
	if len(states) == 0 {
		return p
	}
	k := len(tlaval.AsSeq(states[0].Vars["cinstr"]))
	p.Cons = make([][]string, k)
	halted := make([]bool, k+1)
	for _, st := range states[1:] {
		pl := tlaval.AsRec(st.Vars["plast"])
		if tlaval.Bool(pl["first"]) && !halted[0] {
			op := tlaval.Str(pl["op"])
			if op == "HALT" {
				halted[0] = true
			} else if op != "NONE" {
				p.Prod = append(p.Prod, op)
			}
		}
		for c, cl := range tlaval.AsSeq(st.Vars["clast"]) {
			r := tlaval.AsRec(cl)
			if tlaval.Bool(r["first"]) && !halted[c+1] {
				op := tlaval.Str(r["op"])
				if op == "HALT" {
					halted[c+1] = true
				} else if op != "NONE" {
					p.Cons[c] = append(p.Cons[c], op)
				}
			}
		}
	}
	if len(p.Prod) == 0 {
		p.Prod = []string{"PAD"}
	}
	for c := range p.Cons {
		if len(p.Cons[c]) == 0 {
			p.Cons[c] = []string{"PAD"}
		}
	}
	return p
}

func u64Seq(v tlaval.Value) []uint64 {
	out := []uint64{}
	for _, e := range tlaval.AsSeq(v) {
		out = append(out, uint64(tlaval.Int(e)))
	}
	return out
}

// lockstepSim compares the real simulator's per-tick lines with the model behaviour.
func lockstepSim(states []tlc.State, ticks []bondTick) (mismatch string) {
	for i := 1; i < len(states) && i < len(ticks); i++ {
		st := states[i].Vars
		bt := ticks[i] // ticks[0] is the reset record
		if tlaval.Bool(st["pvalid"]) != bt.PValid {
			return fmt.Sprintf("tick %d: pvalid model=%v real=%v", i, st["pvalid"], bt.PValid)
		}
		if uint64(tlaval.Int(st["pout"])) != bt.POut {
			return fmt.Sprintf("tick %d: pout model=%v real=%v", i, st["pout"], bt.POut)
		}
		for c, v := range tlaval.AsSeq(st["crecv"]) {
			if tlaval.Bool(v) != bt.CRecv[c] {
				return fmt.Sprintf("tick %d: crecv[%d] model=%v real=%v", i, c+1, v, bt.CRecv[c])
			}
		}
		for c, v := range tlaval.AsSeq(st["cdef"]) {
			if tlaval.Bool(v) != bt.CDef[c] {
				return fmt.Sprintf("tick %d: cdef[%d] model=%v real=%v", i, c+1, v, bt.CDef[c])
			}
		}
		for c, v := range tlaval.AsSeq(st["ccap"]) {
			if fmt.Sprint(u64Seq(v)) != fmt.Sprint(bt.CCap[c]) {
				return fmt.Sprintf("tick %d: ccap[%d] model=%v real=%v", i, c+1, u64Seq(v), bt.CCap[c])
			}
		}
	}
	return ""
}

type bondCase struct {
	Backend string   `json:"backend"`
	Source  string   `json:"source"`
	Prog    bondProg `json:"prog"`
	Ticks   int      `json:"ticks"`
	first   int      // first trace line of this case
	last    int
	causes  []string // cause per tick (index = tick number starting at 1)
}

func bondCfg(k, maxSend, maxPad int, avoid bool, invs ...string) string {
	var sb strings.Builder
	fmt.Fprintf(&sb, "SPECIFICATION Spec\nCONSTANTS\n NCons = %d\n MaxSend = %d\n MaxRecv = %d\n MaxPad = %d\n AvoidKnown = %v\nVIEW view\nCHECK_DEADLOCK FALSE\n",
		k, maxSend, maxSend, maxPad, strings.ToUpper(fmt.Sprint(avoid)))
	for _, i := range invs {
		fmt.Fprintf(&sb, "INVARIANT %s\n", i)
	}
	return sb.String()
}

func runC04(r *evid.Run) {
	scratch, err := os.MkdirTemp("", "bmverif-c04-")
	if err != nil {
		r.Inconclusive("mktemp: %v", err)
		return
	}
	defer os.RemoveAll(scratch)
	rng := rand.New(rand.NewSource(r.Seed))

	var cases []*bondCase
	tracePath := filepath.Join(scratch, "trace.ndjson")
	tf, _ := os.Create(tracePath)
	enc := json.NewEncoder(tf)
	nLines := 0
	record := func(bc *bondCase, ticks []bondTick) {
		bc.first = nLines + 1
		for _, t := range ticks {
			enc.Encode(t)
			nLines++
			bc.causes = append(bc.causes, t.Cause)
		}
		bc.last = nLines
		cases = append(cases, bc)
	}
	var lockMismatch int64
	var firstMismatch interface{}
	var states, generated int64

	type backend struct {
		name     string
		module   string
		run      func(bondProg, int) ([]bondTick, error)
		lockstep func([]tlc.State, []bondTick) string
		knownInv []string // invariants whose counterexamples are the known findings
		maxSend  int      // distinct registers available for sent values
		delays   bool
	}
	backends := []backend{
		{"sim", "BMBondSim", runBondSim, lockstepSim, []string{"NoF1", "NoF2"}, 10, true},
		{"hdl", "BMBondHdl", runBondHdl, lockstepHdl, []string{"NoF1", "NoStuck"}, 7, false},
	}
	if be := os.Getenv("VERIF_C04_BACKEND"); be != "" {
		var sel []backend
		for _, b := range backends {
			if b.name == be {
				sel = append(sel, b)
			}
		}
		backends = sel
	}
	hangs := map[string]int64{}
	for _, be := range backends {
		be := be
		runBehaviour := func(source string, beh []tlc.State) bool {
			if len(beh) < 2 {
				return true
			}
			p := progFromBehaviour(beh)
			nt := len(beh) - 1 + 8
			ticks, err := be.run(p, nt)
			if err != nil {
				r.Inconclusive("real %s back-end failed on %v: %v", be.name, p, err)
				return false
			}
			if mm := be.lockstep(beh, ticks); mm != "" {
				lockMismatch++
				if firstMismatch == nil {
					firstMismatch = map[string]interface{}{"backend": be.name, "source": source, "prog": p, "mismatch": mm}
				}
			}
			record(&bondCase{Backend: be.name, Source: source, Prog: p, Ticks: nt}, ticks)
			r.Distinct(be.name + "|" + fmt.Sprint(p))
			return true
		}
		type mc struct {
			k, send, pad int
			avoid        bool
			inv          []string
		}
		clean := []string{"NoViolation", "AtMostOneAhead", "NoEarlyProducer"}
		known := []string{"OnlyKnownCauses", "AtMostOneAhead"}
		exh := []mc{{1, 3, 2, true, clean}, {2, 3, 2, true, clean}, {3, 3, 2, true, clean},
			{1, 3, 2, false, known}, {2, 3, 2, false, known}, {3, 3, 2, false, known}}
		if r.Thorough() {
			exh = append(exh, mc{2, 6, 4, true, clean}, mc{3, 5, 3, true, clean}, mc{4, 3, 2, true, clean}, mc{3, 5, 3, false, known})
		}
		for _, m := range exh {
			res, err := tlc.Run(tlc.Options{SpecDir: specDir, Module: be.module, CfgText: bondCfg(m.k, m.send, m.pad, m.avoid, m.inv...), Workers: 8, Timeout: 20 * time.Minute})
			if err != nil {
				r.Inconclusive("tlc: %v", err)
				return
			}
			states += res.Distinct
			generated += res.Generated
			if res.Violation == "invariant" {
				// a candidate: the model (as coded) admits a violation with an unknown cause, or one while
				// avoiding the known situations.  It only counts if the real artefact reproduces it.
				runBehaviour(fmt.Sprintf("counterexample:%s:k=%d", res.ViolationName, m.k), res.Trace)
				r.Set("model_candidate_"+be.name, fmt.Sprintf("%s k=%d avoid=%v violates %s", be.module, m.k, m.avoid, res.ViolationName))
				continue
			}
			if !res.OK() {
				r.Inconclusive("TLC failed on %s k=%d: %s %s", be.module, m.k, res.Violation, res.Error)
				return
			}
		}
		// counterexamples for the known situations (expected to exist in the as-coded model)
		for _, inv := range be.knownInv {
			for k := 1; k <= 2; k++ {
				res, err := tlc.Run(tlc.Options{SpecDir: specDir, Module: be.module, CfgText: bondCfg(k, 3, 2, false, inv), Workers: 4, Timeout: 10 * time.Minute})
				if err != nil {
					r.Inconclusive("tlc: %v", err)
					return
				}
				states += res.Distinct
				generated += res.Generated
				if res.Violation == "invariant" {
					if inv == "NoStuck" {
						// the predicted hardware hang: replay and observe that no register changes any more
						p := progFromBehaviour(res.Trace)
						ticks, err := be.run(p, len(res.Trace)+40)
						if err == nil && len(ticks) > 12 {
							last := ticks[len(ticks)-1]
							prev := ticks[len(ticks)-10]
							if last.PValid && prev.PValid && !last.Waitsm && fmt.Sprint(last.CCap) == fmt.Sprint(prev.CCap) {
								hangs[fmt.Sprint(p)]++
							}
						}
						continue
					}
					runBehaviour(fmt.Sprintf("counterexample:%s:k=%d", inv, k), res.Trace)
				}
			}
		}
		// random behaviours of the model, both modes
		nSim := r.Pick(150, 2500)
		if be.name == "hdl" {
			nSim = r.Pick(40, 600)
		}
		for _, avoid := range []bool{true, false} {
			for k := 1; k <= 3; k++ {
				dir := filepath.Join(scratch, fmt.Sprintf("sim_%s_%v_%d", be.name, avoid, k))
				os.MkdirAll(dir, 0o755)
				ms := 6
				if ms > be.maxSend {
					ms = be.maxSend
				}
				cfg := strings.Replace(bondCfg(k, ms, 3, avoid), "VIEW view\n", "", 1)
				_, err := tlc.Run(tlc.Options{SpecDir: specDir, Module: be.module, CfgText: cfg, Workers: 1, Timeout: 10 * time.Minute,
					Args: []string{"-simulate", fmt.Sprintf("file=%s/b,num=%d", dir, nSim), "-depth", "40", "-seed", strconv.FormatInt(r.Seed*7+int64(k), 10)}})
				if err != nil {
					r.Inconclusive("tlc simulate: %v", err)
					return
				}
				files, _ := filepath.Glob(filepath.Join(dir, "b_*"))
				sort.Strings(files)
				for _, f := range files {
					beh, err := tlc.ParseSimFile(f)
					if err != nil {
						r.Inconclusive("parse %s: %v", f, err)
						return
					}
					if !runBehaviour(fmt.Sprintf("simulate:avoid=%v:k=%d", avoid, k), beh) {
						return
					}
				}
				os.RemoveAll(dir)
			}
		}
		// random programs beyond the model bounds (more sends, fan-out up to 4, fixed opcode delays)
		nRand := r.Pick(200, 4000)
		if be.name == "hdl" {
			nRand = r.Pick(60, 800)
		}
		for i := 0; i < nRand; i++ {
			k := 1 + rng.Intn(4)
			var p bondProg
			nsend := 1 + rng.Intn(be.maxSend)
			gen := func(io string, n int, padMax int) []string {
				var ops []string
				for j := 0; j < n; j++ {
					for q := rng.Intn(padMax + 1); q > 0; q-- {
						ops = append(ops, "PAD")
					}
					ops = append(ops, io)
				}
				for q := rng.Intn(padMax + 1); q > 0; q-- {
					ops = append(ops, "PAD")
				}
				return ops
			}
			padMax := rng.Intn(5)
			p.Prod = gen("SEND", nsend, padMax)
			for c := 0; c < k; c++ {
				n := nsend
				if rng.Intn(4) == 0 {
					n = rng.Intn(nsend + 1)
				}
				ops := gen("RECV", n, rng.Intn(6))
				if len(ops) == 0 {
					ops = []string{"PAD"}
				}
				p.Cons = append(p.Cons, ops)
			}
			if be.name == "sim" && i%3 == 0 {
				// consumers that take some of the values with sicv3
				for c := range p.Cons {
					for j, o := range p.Cons[c] {
						if o == "RECV" && rng.Intn(2) == 0 {
							p.Cons[c][j] = "SICV"
						}
					}
				}
			}
			if be.delays && rng.Intn(3) == 0 {
				p.Delays = map[string]int{}
				for _, op := range []string{"nop", "r2owa", "i2rw"} {
					if rng.Intn(2) == 0 {
						p.Delays[op] = rng.Intn(4)
					}
				}
			}
			nt := 40 + 12*nsend*(padMax+2)
			ticks, err := be.run(p, nt)
			if err != nil {
				r.Inconclusive("real %s back-end failed on %v: %v", be.name, p, err)
				return
			}
			record(&bondCase{Backend: be.name, Source: "random", Prog: p, Ticks: nt}, ticks)
			r.Distinct(be.name + "|" + fmt.Sprint(p))
		}
	}
	r.Set("hdl_hang_reproduced", hangs)
	if os.Getenv("VERIF_C04_BACKEND") == "" {
		if err := singleShotLogs(record); err != nil {
			r.Inconclusive("single-shot environment: %v", err)
			return
		}
	}
	tf.Close()

	r.Set("states", states)
	r.Set("transitions", generated)
	r.Set("lockstep_mismatches", lockMismatch)
	if firstMismatch != nil {
		r.Set("first_lockstep_mismatch", firstMismatch)
	}
	r.Set("cases", int64(len(cases)))
	r.Set("trace_events", int64(nLines))
	for i, c := range cases {
		if i%(len(cases)/5+1) == 0 {
			r.Sample(map[string]interface{}{"backend": c.Backend, "source": c.Source, "prog": c.Prog, "ticks": c.Ticks})
		}
	}

	// ---------------- verdict: TLC validates every real execution against BMBond --------------
	vres, err := tlc.Run(tlc.Options{SpecDir: specDir, Module: "BMBondTrace", Cfg: "BMBondTrace.cfg", Workers: 1,
		Env: map[string]string{"TRACE": tracePath}, Timeout: 30 * time.Minute})
	if err != nil {
		r.Inconclusive("tlc trace validation: %v", err)
		return
	}
	rejects := reReject.FindAllStringSubmatch(vres.Stdout, -1)
	rejByCause := map[string]int64{}
	for _, m := range rejects {
		line, _ := strconv.Atoi(m[1])
		var bc *bondCase
		for _, c := range cases {
			if line >= c.first && line <= c.last {
				bc = c
				break
			}
		}
		if bc == nil {
			r.Inconclusive("reject at unknown line %d", line)
			continue
		}
		tick := line - bc.first // reset record is tick 0
		cause := bc.causes[line-bc.first]
		sig := bc.Backend + ":" + m[2] + ":" + cause
		rejByCause[sig]++
		r.Violate(sig, fmt.Sprintf("%s back-end: tick %d of a real execution breaks the bond (%s); root cause predicate: %s; programs %v", bc.Backend, tick, m[2], cause, bc.Prog),
			map[string]interface{}{"case": bc, "tick": tick, "reason": m[2], "cause": cause})
	}
	r.Set("rejected_executions", rejByCause)
	if vres.Violation != "" || !strings.Contains(vres.Stdout, "No error has been found") {
		r.Inconclusive("trace validation did not complete (%s %s): %s", vres.Violation, vres.ViolationName, tailStr(vres.Stdout, 1500))
		return
	}
	r.Set("traces_validated_against_impl", int64(len(cases)))
	r.Set("evaluations", int64(len(cases)))

	// ---- bonds inside whole machines (BMFabric): every external stream is the reference's ----------------------
	// A bond that delivers every value exactly once and in order makes every external output deliver the
	// closed-form stream of BMFabric (checked by TLC under every schedule, see C02).  Here each back-end is
	// compared with the reference on its own; a divergence is attributed to a recorded finding only when
	// that finding's root event was observed during the run on that back-end.
	var fabMachines, fabAgree int64
	for i, topo := range []string{"chain2", "fanin", "fanout", "fanout2", "merge", "sum", "threein", "twoout"} {
		fs, tr, ok := genFabrics(r, scratch, topo, 120, r.Pick(10, 40), r.Seed*53+int64(i))
		if !ok {
			return
		}
		_ = tr
		for _, f := range fs {
			bm, err := buildFabric(f)
			if err != nil {
				r.Inconclusive("cannot build %s: %v", f.Topo, err)
				return
			}
			run := runFabric(f, bm, nil)
			fabMachines++
			class := f.Topo + ":" + f.EnvMode
			if f.SimDelay != "none" {
				class += ":sim-delay-" + strings.SplitN(f.SimDelay, ":", 2)[0]
			}
			ctx := map[string]interface{}{"machine": f, "reference": f.Outs}
			diverges := func(got [][]uint64) string {
				for o := 0; o < f.Nout; o++ {
					for i, v := range f.Outs[o] {
						if o >= len(got) || i >= len(got[o]) {
							return fmt.Sprintf("output o%d delivers %d values, the network delivers at least %d", o, len(got[o]), len(f.Outs[o]))
						}
						if got[o][i] != v {
							return fmt.Sprintf("value %d on output o%d is %d, every bond delivering each value once and in order gives %d", i, o, got[o][i], v)
						}
					}
				}
				return ""
			}
			okBoth := true
			if run.SimErr != nil {
				r.Violate("sim:fabric:cannot-run:"+class, fmt.Sprintf("the simulator cannot run a machine (%s): %v", class, run.SimErr), ctx)
				okBoth = false
			} else if d := diverges(run.Sim.Outs); d != "" {
				ctx["simulator"] = run.Sim.Outs
				switch {
				case run.SimRefire:
					r.Violate("sim:dup:"+causeF1, "simulator, machine "+class+": "+d, ctx)
				case run.SimStale:
					r.Violate("sim:loss:"+causeF2, "simulator, machine "+class+": "+d, ctx)
				default:
					r.Violate("sim:fabric:"+class, "simulator, machine "+class+" (none of the recorded root events occurred): "+d, ctx)
				}
				okBoth = false
			}
			if run.HdlErr != nil {
				r.Violate("hdl:fabric:cannot-run:"+class, fmt.Sprintf("the generated Verilog of a machine (%s) cannot be executed: %v", class, run.HdlErr), ctx)
				okBoth = false
			} else if d := diverges(run.Hdl.Outs); d != "" {
				ctx["generated_verilog"] = run.Hdl.Outs
				if run.HdlRefire {
					r.Violate("hdl:dup:"+causeF1, "generated Verilog, machine "+class+": "+d, ctx)
				} else {
					r.Violate("hdl:fabric:"+class, "generated Verilog, machine "+class+" (the recorded root event did not occur): "+d, ctx)
				}
				okBoth = false
			}
			if okBoth {
				fabAgree++
			}
		}
	}
	r.Set("whole_machines_compared_with_the_reference_streams", fabMachines)
	r.Set("whole_machines_delivering_the_reference_streams", fabAgree)
}
