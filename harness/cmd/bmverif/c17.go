package main

// C17 — finished simulations leave no workers behind.
//
//  1. TLC checks the lifecycle model BMSimLife: as coded (no exit path) Released/Bounded are
//     violated after the first finished call — a candidate; with an exit path they hold.
//  2. A child process runs series of n real single-shot simulations (SinglePipelineSimulate,
//     Fitness_default, sequential and concurrent) and assemblies, sampling the goroutine profile
//     after each batch; TLC validates the samples against the bound (BMSimLifeTrace).

import (
	"bytes"
	"context"
	"encoding/json"
	"fmt"
	"os"
	"os/exec"
	"path/filepath"
	"runtime"
	"strconv"
	"strings"
	"sync"
	"time"

	"github.com/BondMachineHQ/BondMachine/pkg/bmnumbers"
	"github.com/BondMachineHQ/BondMachine/pkg/bondmachine"
	"github.com/BondMachineHQ/BondMachine/pkg/procbuilder"
	"github.com/BondMachineHQ/BondMachine/pkg/simbox"

	"verif/harness/bmgen"
	"verif/harness/evid"
	"verif/harness/tlc"
)

func init() { register("C17", "model_checking", runC17) }

type lifeEvent struct {
	Ev      string         `json:"ev"`
	Kind    string         `json:"kind,omitempty"`
	G0      int            `json:"g0"`
	Bound   int            `json:"bound"`
	N       int            `json:"n"`
	G       int            `json:"g"`
	ByEntry map[string]int `json:"by_entry,omitempty"`
}

// goroutineProfile groups the live goroutines by the function they were created in.
func goroutineProfile() (int, map[string]int) {
	buf := make([]byte, 1<<22)
	n := runtime.Stack(buf, true)
	by := map[string]int{}
	total := 0
	for _, g := range strings.Split(string(buf[:n]), "\n\n") {
		if !strings.HasPrefix(g, "goroutine ") {
			continue
		}
		total++
		entry := "main"
		if i := strings.LastIndex(g, "created by "); i >= 0 {
			entry = strings.Fields(g[i+len("created by "):])[0]
		}
		by[entry]++
	}
	return total, by
}

func settle() {
	for i := 0; i < 5; i++ {
		runtime.Gosched()
		runtime.GC()
		time.Sleep(2 * time.Millisecond)
	}
}

const lifeBasm = `%section code .romtext
        entry _start
_start:
        clr     r0
loop:
        inc     r0
        r2o     r0,o0
        j       loop
%endsection
%meta cpdef	cpu	romcode: code, ramsize:8
%meta ioatt     testio cp: cpu, index:0, type:output
%meta ioatt     testio cp: bm, index:0, type:output
%meta bmdef	global registersize:8
`

// lifeVideoMachine: processor 0 runs `nop ; r2owa r0 o0`, processor 1 runs `nop ; r2v r0 5`: the
// video write and the handshaked output that ends the single-shot simulation happen in the same tick.
const lifeVideoMachine = `{"Rsize":8,"Domains":[` +
	`{"Modes":["ha"],"Rsize":8,"WordSize":0,"R":1,"N":0,"M":1,"L":0,"O":5,"Shared_constraints":"","Op":["j","nop","r2owa"],"Slocs":["01000","10000"],"Vars":[],"Threaded":0},` +
	`{"Modes":["ha"],"Rsize":8,"WordSize":0,"R":1,"N":0,"M":0,"L":0,"O":5,"Shared_constraints":"","Op":["j","nop","r2v"],"Slocs":["01000000000","10000000101"],"Vars":[],"Threaded":0}],` +
	`"Processors":[0,1],"Inputs":0,"Outputs":1,"Internal_inputs":[{"Map_to":1,"Res_id":0,"Ext_id":0}],"Internal_outputs":[{"Map_to":3,"Res_id":0,"Ext_id":0}],` +
	`"Links":[0],"Shared_objects":[],"Shared_links":[[],[]]}`

func c17Child(outPath string) int {
	f, err := os.Create(outPath)
	if err != nil {
		return 2
	}
	defer f.Close()
	enc := json.NewEncoder(f)
	counts := []int{1, 5, 25}
	if os.Getenv("VERIF_TIER") == "thorough" {
		counts = []int{1, 5, 25, 100, 400}
	}
	const bound = 3
	mk := func() *bondmachine.Bondmachine {
		ms := schedMachines()
		bm, err := ms[0].build() // producer -> consumer -> external output, 2 processors
		if err != nil {
			panic(err)
		}
		return bm
	}
	series := func(kind string, call func(), concurrent int) {
		settle()
		g0, _ := goroutineProfile()
		enc.Encode(lifeEvent{Ev: "series", Kind: kind, G0: g0, Bound: bound})
		done := 0
		for _, target := range counts {
			for done < target {
				k := concurrent
				if done+k > target {
					k = target - done
				}
				var wg sync.WaitGroup
				for i := 0; i < k; i++ {
					wg.Add(1)
					go func() { defer wg.Done(); call() }()
				}
				wg.Wait()
				done += k
			}
			settle()
			g, by := goroutineProfile()
			enc.Encode(lifeEvent{Ev: "sample", N: done, G: g, ByEntry: by})
		}
	}
	series("SinglePipelineSimulate", func() {
		bm := mk()
		if _, err := bm.SinglePipelineSimulate("unsigned", []string{}, nil); err != nil {
			panic(err)
		}
	}, 1)
	series("SinglePipelineSimulate-concurrent", func() {
		bm := mk()
		if _, err := bm.SinglePipelineSimulate("unsigned", []string{}, nil); err != nil {
			panic(err)
		}
	}, 4)
	series("Fitness_default", func() {
		bm := mk()
		in, exp := new(simbox.Simbox), new(simbox.Simbox)
		if _, err := bm.Fitness_default(in, exp, 20); err != nil {
			panic(err)
		}
	}, 1)
	// a call that is rejected during set-up (an input record the machine cannot take) must not
	// leave workers behind either; mixed with good calls as a batch tool would see them
	bad := 0
	series("SinglePipelineSimulate-rejected-input", func() {
		bm := mk()
		bad++
		in := []string{}
		switch bad % 3 {
		case 0:
			in = []string{"1", "2", "3"} // more values than the machine has inputs
		case 1:
			in = []string{"n/a"} // not a number
		}
		bm.SinglePipelineSimulate("unsigned", in, nil)
	}, 1)
	// a write to the video text memory (r2v, handed to the emulator dispatcher) in the very tick that
	// ends the simulation: nothing of it may survive the call.  Losing interleavings are rare, so the
	// series is long
	{
		saved := counts
		counts = []int{50, 400, 1500}
		if os.Getenv("VERIF_TIER") == "thorough" {
			counts = []int{50, 400, 1500, 6000}
		}
		series("SinglePipelineSimulate-video-write-in-the-last-tick", func() {
			bm, err := loadMachine([]byte(lifeVideoMachine))
			if err != nil {
				panic(err)
			}
			if _, err := bm.SinglePipelineSimulate("unsigned", []string{}, nil); err != nil {
				panic(err)
			}
		}, 1)
		counts = saved
	}
	series("basm-assembly", func() {
		if _, _, err := bmgen.AssembleBasm(lifeBasm); err != nil {
			panic(err)
		}
	}, 1)
	// retained simulator state: the process-wide registries must not grow with the number of
	// finished simulations (measured after a warm-up call that may legitimately register a type)
	dual := func() *bondmachine.Bondmachine {
		bm := newBM(8)
		p, err := mkMachine(8, 2, 0, 2, 0, []string{"inc", "r2o", "r2owa", "j"}, "inc r0\nr2o r0 o0\ninc r0\nr2owa r0 o1\nj 0\n")
		if err != nil {
			panic(err)
		}
		addProc(bm, p)
		bm.Add_output()
		bm.Add_output()
		bm.Add_bond([]string{"o0", "p0o0"})
		bm.Add_bond([]string{"o1", "p0o1"})
		return bm
	}
	// a simulation that runs to its end and then cannot format its outputs (a data type that cannot be
	// exported, or one that does not exist) fails, and must release what it started like any other
	convBad := 0
	series("SinglePipelineSimulate-output-conversion-fails", func() {
		convBad++
		ty := []string{"signed", "float", "unsigned"}[convBad%3]
		if _, err := dual().SinglePipelineSimulate(ty, []string{}, nil); (err == nil) != (ty == "unsigned") {
			panic(fmt.Sprintf("SinglePipelineSimulate(%s): unexpected result %v", ty, err))
		}
	}, 1)
	regSize := func() int { return len(bmnumbers.AllTypes) + len(bmnumbers.AllMatchers) + len(procbuilder.Allopcodes) }
	// input literals in every spelling the number parser accepts: a finished simulation may register a
	// type the first time it sees one, never again for the same type
	withInput := func() *bondmachine.Bondmachine {
		bm := newBM(16)
		p, err := mkMachine(16, 1, 1, 1, 0, []string{"i2r", "r2owa", "j"}, "i2r r0 i0\nr2owa r0 o0\nj 0\n")
		if err != nil {
			panic(err)
		}
		addProc(bm, p)
		bm.Add_input()
		bm.Add_output()
		bm.Add_bond([]string{"i0", "p0i0"})
		bm.Add_bond([]string{"o0", "p0o0"})
		return bm
	}
	for _, lit := range []string{"0fp<16.4>1.5", "0fp<16.04>1.5", "0fp<016.4>2.5", "0x1f", "0b101", "12"} {
		if _, err := withInput().SinglePipelineSimulate("unsigned", []string{lit}, nil); err != nil {
			fmt.Fprintf(os.Stderr, "SinglePipelineSimulate(input %s): %v\n", lit, err)
			return 2
		}
		g0 := regSize()
		enc.Encode(lifeEvent{Ev: "series", Kind: "retained-registries:input-literal:" + lit, G0: g0, Bound: 0})
		done := 0
		for _, target := range counts {
			for done < target {
				if _, err := withInput().SinglePipelineSimulate("unsigned", []string{lit}, nil); err != nil {
					panic(err)
				}
				done++
			}
			enc.Encode(lifeEvent{Ev: "sample", N: done, G: regSize(), ByEntry: map[string]int{"bmnumbers.AllTypes": len(bmnumbers.AllTypes), "bmnumbers.AllMatchers": len(bmnumbers.AllMatchers), "procbuilder.Allopcodes": len(procbuilder.Allopcodes)}})
		}
	}
	for _, ty := range []string{"fps8f2", "unsigned", "fxps8f3", "fps8f4"} {
		if _, err := dual().SinglePipelineSimulate(ty, []string{}, nil); err != nil {
			fmt.Fprintf(os.Stderr, "SinglePipelineSimulate(%s): %v\n", ty, err)
			return 2
		}
		g0 := regSize()
		enc.Encode(lifeEvent{Ev: "series", Kind: "retained-registries:" + ty, G0: g0, Bound: 0})
		done := 0
		for _, target := range counts {
			for done < target {
				if _, err := dual().SinglePipelineSimulate(ty, []string{}, nil); err != nil {
					panic(err)
				}
				done++
			}
			enc.Encode(lifeEvent{Ev: "sample", N: done, G: regSize(), ByEntry: map[string]int{"bmnumbers.AllTypes": len(bmnumbers.AllTypes), "bmnumbers.AllMatchers": len(bmnumbers.AllMatchers), "procbuilder.Allopcodes": len(procbuilder.Allopcodes)}})
		}
	}
	// retained state in the caller's objects: the simulation boxes handed to Fitness_default are
	// arguments; a tuner reuses them for every evaluation, so they must not grow with the calls
	{
		in, exp := new(simbox.Simbox), new(simbox.Simbox)
		for _, rule := range []string{"absolute:10:set:o0:3", "absolute:12:set:o1:4"} {
			if err := exp.Add(rule); err != nil {
				fmt.Fprintf(os.Stderr, "simbox rule %s: %v\n", rule, err)
				return 2
			}
		}
		size := func() int { return len(in.Rules) + len(exp.Rules) }
		if _, err := dual().Fitness_default(in, exp, 20); err != nil {
			fmt.Fprintf(os.Stderr, "Fitness_default: %v\n", err)
			return 2
		}
		enc.Encode(lifeEvent{Ev: "series", Kind: "retained-arguments:Fitness_default", G0: size(), Bound: 0})
		done := 0
		for _, target := range counts {
			for done < target {
				if _, err := dual().Fitness_default(in, exp, 20); err != nil {
					panic(err)
				}
				done++
			}
			enc.Encode(lifeEvent{Ev: "sample", N: done, G: size(), ByEntry: map[string]int{"input box rules": len(in.Rules), "expectation box rules": len(exp.Rules)}})
		}
	}
	return 0
}

func runC17(r *evid.Run) {
	scratch, err := os.MkdirTemp("", "bmverif-c17-")
	if err != nil {
		r.Inconclusive("mktemp: %v", err)
		return
	}
	defer os.RemoveAll(scratch)
	var states, transitions int64
	for _, hasExit := range []bool{true, false} {
		cfg := fmt.Sprintf("SPECIFICATION Spec\nCONSTANTS\n NCalls = %d\n NP = 2\n HasExit = %s\nINVARIANT Released\nINVARIANT Bounded\nCHECK_DEADLOCK FALSE\n",
			r.Pick(3, 4), strings.ToUpper(fmt.Sprint(hasExit)))
		res, err := tlc.Run(tlc.Options{SpecDir: specDir, Module: "BMSimLife", CfgText: cfg, Workers: 4, Timeout: 10 * time.Minute})
		if err != nil {
			r.Inconclusive("tlc: %v", err)
			return
		}
		states += res.Distinct
		transitions += res.Generated
		if hasExit && !res.OK() {
			r.Inconclusive("TLC rejects the lifecycle model with an exit path: %s %s", res.Violation, res.ViolationName)
			return
		}
		if !hasExit && res.Violation == "invariant" {
			r.Set("model_candidate", "as coded (no exit path for Processor_execute / EmuDriverDispatcher) BMSimLife violates "+res.ViolationName+" after the first finished call")
		}
	}
	r.Set("states", states)
	r.Set("transitions", transitions)

	self, _ := os.Executable()
	out := filepath.Join(scratch, "life.ndjson")
	cctx, ccancel := context.WithTimeout(context.Background(), 20*time.Minute)
	defer ccancel()
	cmd := exec.CommandContext(cctx, self, "C17-child", "quick", out)
	cmd.Env = append(os.Environ(), "VERIF_TIER="+r.Tier)
	var stderr bytes.Buffer
	cmd.Stderr = &stderr
	cmd.Stdout = &stderr
	if err := cmd.Run(); err != nil {
		r.Inconclusive("child failed: %v %s", err, tailStr(stderr.String(), 800))
		return
	}
	// the fine tuner (cmd/simfinetune) evaluates its fitness function - a pool of workers running one
	// single-shot simulation per record - once per individual and generation: the goroutine count the
	// command reports after every evaluation (hook, build tag verif) joins the same trace
	if err := simfinetuneSeries(scratch, out); err != nil {
		r.Inconclusive("cmd/simfinetune: %v", err)
		return
	}
	var evs []lifeEvent
	if err := readNDJSON(out, func(b []byte) error {
		var e lifeEvent
		if err := json.Unmarshal(b, &e); err != nil {
			return err
		}
		evs = append(evs, e)
		return nil
	}); err != nil {
		r.Inconclusive("child output: %v", err)
		return
	}
	vres, err := tlc.Run(tlc.Options{SpecDir: specDir, Module: "BMSimLifeTrace", Cfg: "BMSimLifeTrace.cfg", Workers: 1,
		Env: map[string]string{"TRACE": out}, Timeout: 10 * time.Minute})
	if err != nil {
		r.Inconclusive("tlc trace validation: %v", err)
		return
	}
	var series int64
	for i, e := range evs {
		if e.Ev == "series" {
			series++
			r.Distinct(e.Kind)
			r.Sample(map[string]interface{}{"series": e.Kind, "goroutines_before": e.G0, "samples": evs[i+1 : minInt(len(evs), i+1+3)]})
		} else {
			r.Distinct(fmt.Sprintf("%d|%d", i, e.N))
		}
	}
	for _, m := range reReject.FindAllStringSubmatch(vres.Stdout, -1) {
		line, _ := strconv.Atoi(m[1])
		start := line - 1
		for start > 0 && evs[start].Ev != "series" {
			start--
		}
		kind := evs[start].Kind
		e := evs[line-1]
		r.Violate("leak:"+kind, fmt.Sprintf("after %d calls of %s the count is %d, it was %d before the first call: growth is not bounded by a constant (breakdown: %v)", e.N, kind, e.G, evs[start].G0, e.ByEntry),
			map[string]interface{}{"series": kind, "before": evs[start], "sample": e})
	}
	if vres.Violation != "" || !strings.Contains(vres.Stdout, "No error has been found") {
		r.Inconclusive("trace validation did not complete (%s %s): %s", vres.Violation, vres.ViolationName, tailStr(vres.Stdout, 1200))
		return
	}
	r.Set("traces_validated_against_impl", series)
	r.Set("evaluations", int64(len(evs)))
}

const simfinetuneMachine = `%meta bmdef global registersize:32
%section code .romtext iomode:sync
	entry _start
_start:
	mov r0, i0
	inc r1
	inc r1
	mov o0, r0
	mov o1, r1
	j _start
%endsection
%meta cpdef cpu romcode: code, execmode: ha
%meta ioatt in0 cp: cpu, index:0, type:input
%meta ioatt in0 cp: bm, index:0, type:input
%meta ioatt out0 cp: cpu, index:0, type:output
%meta ioatt out0 cp: bm, index:0, type:output
%meta ioatt out1 cp: cpu, index:1, type:output
%meta ioatt out1 cp: bm, index:1, type:output
`

// simfinetuneSeries runs the real fine tuner (a few generations of a small population over four records)
// with a pool of three workers and with the default pool, and appends what its hook reported to the trace.
func simfinetuneSeries(scratch, tracePath string) error {
	bin, err := buildTool(scratch, "simfinetune")
	if err != nil {
		return err
	}
	dir := filepath.Join(scratch, "sft")
	os.MkdirAll(dir, 0o755)
	os.WriteFile(filepath.Join(dir, "m.basm"), []byte(simfinetuneMachine), 0o644)
	if _, err := basmCLI(scratch, dir, nil, "m.basm"); err != nil {
		return err
	}
	os.WriteFile(filepath.Join(dir, "in.csv"), []byte("0f1.5\n0f2.5\n0f0.25\n0f3.0\n"), 0o644)
	os.WriteFile(filepath.Join(dir, "out.csv"), []byte("1.5,9\n2.5,9\n0.25,10\n3.0,9\n"), 0o644)
	os.WriteFile(filepath.Join(dir, "g.json"), []byte(`{"Debug":false,"PopulationSize":6,"Generations":3,"MutationRate":0.1,"CrossoverRate":0.7,"ElitismCount":1,"MinDelay":1,"MaxDelay":4,"DistributionSize":3}`), 0o644)
	f, err := os.OpenFile(tracePath, os.O_APPEND|os.O_WRONLY, 0o644)
	if err != nil {
		return err
	}
	defer f.Close()
	enc := json.NewEncoder(f)
	for _, workers := range []int{3, 0} {
		log := filepath.Join(dir, fmt.Sprintf("hook%d.log", workers))
		os.Remove(log)
		out, err := runTool(dir, []string{"BM_VERIF_LOG=" + log}, 5*time.Minute, bin, "-bondmachine-file", "bm.json", "-inputs-file", "in.csv", "-outputs-file", "out.csv",
			"-genetic-config-file", "g.json", "-workers", strconv.Itoa(workers), "-delays-output-file", "d.json")
		if err != nil {
			return fmt.Errorf("simfinetune -workers %d: %v: %s", workers, err, tailStr(out, 300))
		}
		b, err := os.ReadFile(log)
		if err != nil {
			return fmt.Errorf("simfinetune -workers %d wrote no hook log: %v", workers, err)
		}
		var counts []int
		for _, ln := range strings.Split(strings.TrimSpace(string(b)), "\n") {
			var n, g int
			if _, err := fmt.Sscanf(ln, "fitness %d goroutines %d", &n, &g); err == nil {
				counts = append(counts, g)
			}
		}
		if len(counts) < 10 {
			return fmt.Errorf("simfinetune -workers %d: only %d fitness evaluations reported", workers, len(counts))
		}
		// (the count before the first evaluation is that of an idle command: the main goroutine)
		enc.Encode(lifeEvent{Ev: "series", Kind: fmt.Sprintf("simfinetune-fitness-evaluations:workers=%d", workers), G0: 1, Bound: 3})
		for _, n := range []int{1, 5, len(counts)} {
			enc.Encode(lifeEvent{Ev: "sample", N: n, G: counts[n-1], ByEntry: map[string]int{"goroutines reported by the command": counts[n-1]}})
		}
	}
	return nil
}
