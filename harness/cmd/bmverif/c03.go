package main

// C03 — instruction encoding is a lossless, fixed-width, range-checked code.
//
// TLC checks the encoding theorems (FixedWidth, Lossless, RangeCheck) of BMIsa over the bounded
// domain of BMIsaEnc and writes the table of expected results; every row is replayed on the
// real Arch.Assembler / Machine.Disassembler.  The verdict is phrased on the real results only:
// accepted => exactly Max_word bits, disassembly gives the same instruction, re-assembly gives
// the same word; an operand that does not fit must be rejected.  The spec's expected word is a
// lock-step comparison (informational).

import (
	"bufio"
	"encoding/json"
	"fmt"
	"os"
	"path/filepath"
	"strconv"
	"strings"
	"time"

	"github.com/BondMachineHQ/BondMachine/pkg/procbuilder"

	"verif/harness/evid"
	"verif/harness/tlc"
)

func init() { register("C03", "model_checking", runC03) }

type isaArch struct {
	Ops     []string `json:"ops"`
	Rsize   int      `json:"rsize"`
	R       int      `json:"R"`
	N       int      `json:"N"`
	M       int      `json:"M"`
	L       int      `json:"L"`
	O       int      `json:"O"`
	Opbits  int      `json:"opbits"`
	Mw      int      `json:"mw"`
	Ws      int      `json:"ws"`
	Natural int      `json:"natural"`
	Mode    string   `json:"mode"`
}

type isaProgLine struct {
	K  string `json:"k"`
	Op string `json:"op"`
	Xs []int  `json:"xs"`
}

type isaProg struct {
	Ai    int           `json:"ai"`
	Lines []isaProgLine `json:"lines"`
	Image [][]int       `json:"image"`
}

type isaRow struct {
	Ai   int    `json:"ai"`
	Op   string `json:"op"`
	Xs   []int  `json:"xs"`
	Ok   bool   `json:"ok"`
	Word []int  `json:"word"`
}

var isaFmt = map[string][]string{}

func init() {
	add := func(f []string, ops string) {
		for _, o := range strings.Fields(ops) {
			isaFmt[o] = f
		}
	}
	// rendering only: which prefix each operand takes in assembly text (mirrors BMIsa!Fmt)
	add([]string{}, "clc cset dpc hlt je nop r2s s2r")
	add([]string{"reg"}, "addi chw cil cilc cir cirn clr dec expf inc incc jcmpria jcmprio jri jria jrio")
	add([]string{"reg", "reg"}, "adc add addf addf16 addp and chc cmpr cmprlt cpy div divf divf16 divp mod mulc mult multf multf16 multp nand nor not or r2mri ro2rri m2rri rsc sbc sub xnor xor")
	add([]string{"reg", "in"}, "i2r i2rw sic sicv3")
	add([]string{"in"}, "cmpv")
	add([]string{"reg", "in", "in"}, "sicv2")
	add([]string{"reg", "out"}, "r2o r2owa r2owaa")
	add([]string{"loc"}, "j jcmpl jcmpo jo saj ja jcmpa")
	add([]string{"rom"}, "jc")
	add([]string{"reg", "rom"}, "jgt0f jz ro2r")
	add([]string{"reg", "ram"}, "m2r r2m")
	add([]string{"reg", "imm"}, "rset")
}

func renderInstr(op string, xs []int) string {
	parts := []string{op}
	for i, k := range isaFmt[op] {
		switch k {
		case "reg":
			parts = append(parts, fmt.Sprintf("r%d", xs[i]))
		case "in":
			parts = append(parts, fmt.Sprintf("i%d", xs[i]))
		case "out":
			parts = append(parts, fmt.Sprintf("o%d", xs[i]))
		default:
			parts = append(parts, fmt.Sprintf("%d", xs[i]))
		}
	}
	return strings.Join(parts, " ")
}

func realArch(a *isaArch) (*procbuilder.Machine, error) {
	m := new(procbuilder.Machine)
	ar := &m.Arch
	ar.Rsize = uint8(a.Rsize)
	ar.Modes = []string{a.Mode}
	ar.R, ar.N, ar.M, ar.L, ar.O = uint8(a.R), uint8(a.N), uint8(a.M), uint8(a.L), uint8(a.O)
	ar.WordSize = uint8(a.Ws)
	byName := map[string]procbuilder.Opcode{}
	for _, op := range procbuilder.Allopcodes {
		byName[op.Op_get_name()] = op
	}
	for _, n := range a.Ops {
		op, ok := byName[n]
		if !ok {
			return nil, fmt.Errorf("opcode %s not in Allopcodes", n)
		}
		ar.Op = append(ar.Op, op)
	}
	return m, nil
}

func asmOne(m *procbuilder.Machine, line string) (word string, err error) {
	defer func() {
		if e := recover(); e != nil {
			err = fmt.Errorf("panic: %v", e)
		}
	}()
	p, e := m.Arch.Assembler([]byte(line + "\n"))
	if e != nil {
		return "", e
	}
	if len(p.Slocs) != 1 {
		return "", fmt.Errorf("assembler returned %d words for one line", len(p.Slocs))
	}
	return p.Slocs[0], nil
}

func disasmOne(m *procbuilder.Machine, word string) (text string, err error) {
	defer func() {
		if e := recover(); e != nil {
			err = fmt.Errorf("panic: %v", e)
		}
	}()
	mm := *m
	mm.Program = procbuilder.Program{Slocs: []string{word}}
	t, e := mm.Disassembler()
	if e != nil {
		return "", e
	}
	return strings.Join(strings.Fields(t), " "), nil
}

func readNDJSON(path string, each func([]byte) error) error {
	f, err := os.Open(path)
	if err != nil {
		return err
	}
	defer f.Close()
	sc := bufio.NewScanner(f)
	sc.Buffer(make([]byte, 1<<20), 1<<26)
	for sc.Scan() {
		if len(strings.TrimSpace(sc.Text())) == 0 {
			continue
		}
		if err := each(sc.Bytes()); err != nil {
			return err
		}
	}
	return sc.Err()
}

func runC03(r *evid.Run) {
	scratch, err := os.MkdirTemp("", "bmverif-c03-")
	if err != nil {
		r.Inconclusive("mktemp: %v", err)
		return
	}
	defer os.RemoveAll(scratch)
	cfg := "BMIsaEnc_quick.cfg"
	if r.Thorough() {
		cfg = "BMIsaEnc_thorough.cfg"
	}
	archPath, rowPath, progPath := filepath.Join(scratch, "archs.ndjson"), filepath.Join(scratch, "rows.ndjson"), filepath.Join(scratch, "progs.ndjson")
	res, err := tlc.Run(tlc.Options{SpecDir: specDir, Module: "BMIsaEnc", Cfg: cfg, Workers: 8, Timeout: 40 * time.Minute,
		Env: map[string]string{"ARCHS": archPath, "ROWS": rowPath, "PROGS": progPath}})
	if err != nil {
		r.Inconclusive("tlc: %v", err)
		return
	}
	if !res.OK() {
		r.Inconclusive("TLC did not accept the encoding theorems of BMIsa (%s %s): the specification is inconsistent; no verdict about the code\n%s", res.Violation, res.ViolationName, res.Error)
		return
	}
	r.Set("states", res.Distinct)
	r.Set("transitions", res.Generated)
	r.Set("model_cfg", cfg)

	var archs []*isaArch
	if err := readNDJSON(archPath, func(b []byte) error {
		a := new(isaArch)
		if err := json.Unmarshal(b, a); err != nil {
			return err
		}
		archs = append(archs, a)
		return nil
	}); err != nil {
		r.Inconclusive("archs: %v", err)
		return
	}
	machines := make([]*procbuilder.Machine, len(archs))
	var lock int64
	var firstLock interface{}
	lockKinds := map[string]int{}
	noteLock := func(v interface{}) {
		lock++
		if m, ok := v.(map[string]interface{}); ok {
			k := fmt.Sprint(m["kind"])
			if l, ok := m["line"].(string); ok {
				k += ":" + strings.Fields(l)[0]
			}
			lockKinds[k]++
		}
		if firstLock == nil {
			firstLock = v
		}
	}
	for i, a := range archs {
		m, err := realArch(a)
		if err != nil {
			r.Inconclusive("arch %d: %v", i, err)
			return
		}
		machines[i] = m
		if mw := m.Arch.Max_word(); mw != a.Mw {
			noteLock(map[string]interface{}{"kind": "max_word", "arch": a, "real": mw})
		}
	}
	var rows, accepted, rejected, misfitRows int64
	opsSeen := map[string]int{}
	err = readNDJSON(rowPath, func(b []byte) error {
		var row isaRow
		if err := json.Unmarshal(b, &row); err != nil {
			return err
		}
		rows++
		a := archs[row.Ai-1]
		m := machines[row.Ai-1]
		line := renderInstr(row.Op, row.Xs)
		opsSeen[row.Op]++
		ctx := func() map[string]interface{} {
			return map[string]interface{}{"arch": a, "line": line, "spec_ok": row.Ok}
		}
		word, aerr := asmOne(m, line)
		if aerr != nil {
			rejected++
			if strings.HasPrefix(aerr.Error(), "panic") {
				r.Violate("panic:"+row.Op, fmt.Sprintf("Arch.Assembler panics on %q: %v", line, aerr), ctx())
			} else if row.Ok {
				noteLock(map[string]interface{}{"kind": "rejected-fit", "arch": a, "line": line, "err": aerr.Error()})
			}
			return nil
		}
		accepted++
		r.Distinct(row.Op + "|" + fmt.Sprint(a.R, a.N, a.M, a.L, a.O, a.Rsize, a.Opbits, a.Ws, a.Mode) + "|" + fmt.Sprint(row.Xs))
		mw := m.Arch.Max_word()
		if !row.Ok {
			misfitRows++
			// which field does not fit
			kind := "?"
			for i, k := range isaFmt[row.Op] {
				loc := a.O
				if a.Mode == "vn" || (a.Mode == "hy" && a.L > a.O) {
					loc = a.L
				}
				lim := map[string]int{"reg": 1 << a.R, "in": a.N, "out": a.M, "rom": 1 << a.O, "ram": 1 << a.L, "imm": 1 << a.Rsize, "loc": 1 << loc}[k]
				if row.Xs[i] >= lim {
					kind = k
					break
				}
			}
			c := ctx()
			c["word"] = word
			c["max_word"] = mw
			r.Violate("accepted-misfit:"+kind, fmt.Sprintf("the assembler accepted %q although the %s operand does not fit (arch R=%d N=%d M=%d L=%d O=%d Rsize=%d); word %s has %d bits, Max_word is %d", line, kind, a.R, a.N, a.M, a.L, a.O, a.Rsize, word, len(word), mw), c)
			return nil
		}
		if len(word) != mw {
			c := ctx()
			c["word"] = word
			r.Violate("width:"+row.Op, fmt.Sprintf("%q assembles to %d bits, Max_word is %d", line, len(word), mw), c)
			return nil
		}
		dis, derr := disasmOne(m, word)
		if derr != nil {
			r.Violate("disasm-error:"+row.Op, fmt.Sprintf("word %s of %q cannot be disassembled: %v", word, line, derr), ctx())
			return nil
		}
		if dis != line {
			c := ctx()
			c["disassembly"] = dis
			r.Violate("roundtrip-disasm:"+row.Op, fmt.Sprintf("%q assembles to %s which disassembles to %q", line, word, dis), c)
			return nil
		}
		w2, aerr2 := asmOne(m, dis)
		if aerr2 != nil || w2 != word {
			c := ctx()
			c["word"], c["reassembled"] = word, w2
			r.Violate("roundtrip-asm:"+row.Op, fmt.Sprintf("asm(disasm(%s)) = %s (%v)", word, w2, aerr2), c)
			return nil
		}
		exp := make([]byte, len(row.Word))
		for i, bit := range row.Word {
			exp[i] = byte('0' + bit)
		}
		if string(exp) != word {
			noteLock(map[string]interface{}{"kind": "word", "arch": a, "line": line, "spec": string(exp), "real": word})
		}
		if accepted%4001 == 1 {
			r.Sample(map[string]interface{}{"arch": a, "line": line, "word": word, "disassembly": dis})
		}
		return nil
	})
	if err != nil {
		r.Inconclusive("rows: %v", err)
		return
	}
	// ---- whole programs: comment and blank lines produce no ROM word ---------------------------
	var progs int64
	err = readNDJSON(progPath, func(b []byte) error {
		var pr isaProg
		if err := json.Unmarshal(b, &pr); err != nil {
			return err
		}
		if len(pr.Image) == 0 {
			return nil
		}
		a, m := archs[pr.Ai-1], machines[pr.Ai-1]
		var src strings.Builder
		nc := 0
		for _, l := range pr.Lines {
			switch l.K {
			case "comment":
				nc++
				fmt.Fprintf(&src, "# comment %d\n", nc)
			case "blank":
				src.WriteString("\n")
			default:
				src.WriteString(renderInstr(l.Op, l.Xs) + "\n")
			}
		}
		progs++
		var got []string
		func() {
			defer func() {
				if e := recover(); e != nil {
					got = []string{fmt.Sprintf("panic: %v", e)}
				}
			}()
			p, e := m.Arch.Assembler([]byte(src.String()))
			if e != nil {
				got = []string{"error: " + e.Error()}
				return
			}
			got = p.Slocs
		}()
		var want []string
		for _, w := range pr.Image {
			want = append(want, bitsStr(w))
		}
		ctx := map[string]interface{}{"arch": a, "source": src.String(), "image": got, "expected_image": want}
		mw := m.Arch.Max_word()
		bad := len(got) != len(want)
		for _, w := range got {
			if len(w) != mw {
				bad = true
			}
		}
		if bad {
			r.Violate("program-image", fmt.Sprintf("a %d-instruction source with comment/blank lines assembles to %d ROM words %q (Max_word %d)", len(want), len(got), got, mw), ctx)
			return nil
		}
		if fmt.Sprint(got) != fmt.Sprint(want) {
			noteLock(map[string]interface{}{"kind": "program-image", "arch": a, "source": src.String(), "real": got, "spec": want})
		}
		r.Distinct("prog|" + src.String() + fmt.Sprint(a.R, a.N, a.M, a.L, a.O, a.Rsize, a.Mode))
		return nil
	})
	if err != nil {
		r.Inconclusive("progs: %v", err)
		return
	}
	// ---- immediates beyond TLC's integers --------------------------------------------------------------
	// BMIsa!Encode lays an immediate out as ToBits(v, rsize); TLC cannot evaluate it for rsize >= 32, so
	// for 32- and 64-bit registers the same law is applied here to boundary values: the word is the
	// 16-bit architecture's word with the immediate field replaced by the binary expansion of v.
	var wide int64
	for _, rs := range []int{32, 33, 48, 64} {
		m, err := mkMachine(rs, 2, 0, 0, 0, []string{"j", "nop", "rset"}, "nop\n")
		if err != nil {
			r.Inconclusive("cannot build a %d-bit architecture: %v", rs, err)
			break
		}
		opb := m.Opcodes_bits()
		for _, v := range []uint64{0, 1, 1<<31 - 1, 1 << 31, 1<<31 + 5, 1<<32 - 1, 3212836864, 1 << 32, 1<<47 + 3, 1<<63 + 1, 1<<64 - 1} {
			if rs < 64 && v >= 1<<uint(rs) {
				continue
			}
			wide++
			line := fmt.Sprintf("rset r1 %d", v)
			c := map[string]interface{}{"rsize": rs, "line": line}
			word, aerr := asmOne(m, line)
			if aerr != nil {
				r.Violate("wide-immediate:rejected", fmt.Sprintf("%q is rejected on a %d-bit architecture: %v", line, rs, aerr), c)
				continue
			}
			want := strconv.FormatUint(v, 2)
			for len(want) < rs {
				want = "0" + want
			}
			if len(word) != m.Max_word() || len(word) < opb+2+rs || word[opb+2:opb+2+rs] != want {
				c["word"] = word
				r.Violate("wide-immediate:encoding", fmt.Sprintf("%q assembles to %s on a %d-bit architecture: the immediate field is not the binary expansion of the value", line, word, rs), c)
				continue
			}
			dis, derr := disasmOne(m, word)
			if derr != nil || dis != line {
				c["word"], c["disassembly"] = word, dis
				class := fmt.Sprintf("rsize%d", rs)
				if v >= 1<<63 {
					class += ":bit63-set"
				}
				r.Violate("wide-immediate:roundtrip:"+class, fmt.Sprintf("%q assembles to %s which disassembles to %q (%v) on a %d-bit architecture", line, word, dis, derr, rs), c)
			}
		}
	}
	r.Set("wide_immediates_replayed", wide)
	r.Set("programs_replayed", progs)
	r.Set("rows_replayed", rows)
	r.Set("traces_validated_against_impl", rows)
	r.Set("accepted", accepted)
	r.Set("rejected", rejected)
	r.Set("misfit_rows_accepted", misfitRows)
	r.Set("architectures", int64(len(archs)))
	r.Set("opcodes_exercised", int64(len(opsSeen)))
	r.Set("lockstep_mismatches", lock)
	r.Set("lockstep_kinds", lockKinds)
	if firstLock != nil {
		r.Set("first_lockstep_mismatch", firstLock)
	}
	r.Set("evaluations", rows)
	r.Set("exhaustive", lock == 0)
	if accepted == 0 {
		r.Inconclusive("no row was accepted by the real assembler: the check is vacuous")
	}
}
