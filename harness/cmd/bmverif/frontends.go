package main

// The generator front-ends (neuralbond, bmqsim) and the assembler as command-line tools, built
// from the working tree: used by C16 (emitted machines are judged) and C07 (repeated runs are
// compared byte-wise).

import (
	"bytes"
	"context"
	"encoding/json"
	"fmt"
	"os"
	"os/exec"
	"path/filepath"
	"strings"
	"sync"
	"time"

	"github.com/BondMachineHQ/BondMachine/pkg/bondmachine"
)

var (
	toolMu    sync.Mutex
	toolPaths = map[string]string{}
)

// buildTool builds ./cmd/<name> of the repository into dir (once per process).
func buildTool(dir, name string) (string, error) {
	toolMu.Lock()
	defer toolMu.Unlock()
	if p, ok := toolPaths[name]; ok {
		return p, nil
	}
	bin := filepath.Join(dir, "tool-"+name)
	cmd := exec.Command("go", "build", "-tags", "verif", "-o", bin, "./cmd/"+name)
	cmd.Dir = repoDir()
	if out, err := cmd.CombinedOutput(); err != nil {
		return "", fmt.Errorf("go build ./cmd/%s: %v\n%s", name, err, tailStr(string(out), 800))
	}
	toolPaths[name] = bin
	return bin, nil
}

func runTool(dir string, env []string, deadline time.Duration, bin string, args ...string) (string, error) {
	ctx, cancel := context.WithTimeout(context.Background(), deadline)
	defer cancel()
	cmd := exec.CommandContext(ctx, bin, args...)
	cmd.Dir = dir
	cmd.Env = append(os.Environ(), env...)
	var buf bytes.Buffer
	cmd.Stdout, cmd.Stderr = &buf, &buf
	err := cmd.Run()
	if ctx.Err() == context.DeadlineExceeded {
		return buf.String(), fmt.Errorf("timeout after %v", deadline)
	}
	return buf.String(), err
}

type netLayer struct {
	T string `json:"t"`
	N int    `json:"n"`
}

type netRow struct {
	Ni     int        `json:"ni"`
	Layers []netLayer `json:"layers"`
	Nin    int        `json:"nin"`
	Nout   int        `json:"nout"`
}

func (n netRow) String() string {
	var parts []string
	for _, l := range n.Layers {
		parts = append(parts, fmt.Sprintf("%s*%d", l.T, l.N))
	}
	return fmt.Sprintf("%d inputs -> %s", n.Ni, strings.Join(parts, " -> "))
}

// netJSON writes a FrontendShapes network as neuralbond's input file.
func netJSON(n netRow) []byte {
	type node struct {
		Layer int
		Pos   int
		Type  string
		Bias  float64
	}
	type weight struct {
		Layer        int
		PosCurrLayer int
		PosPrevLayer int
		Value        float64
	}
	var nodes []node
	var weights []weight
	for i := 0; i < n.Ni; i++ {
		nodes = append(nodes, node{0, i, "input", 0})
	}
	prev := n.Ni
	for li, l := range n.Layers {
		for p := 0; p < l.N; p++ {
			nodes = append(nodes, node{li + 1, p, l.T, 0.125 * float64(1+p+li)})
			for q := 0; q < prev; q++ {
				weights = append(weights, weight{li + 1, p, q, 0.25*float64(1+(li+p+2*q)%5) - 0.5})
			}
		}
		prev = l.N
	}
	last := len(n.Layers) + 1
	for p := 0; p < prev; p++ {
		nodes = append(nodes, node{last, p, "output", 0})
		weights = append(weights, weight{last, p, p, 0})
	}
	b, _ := json.MarshalIndent(map[string]interface{}{"Nodes": nodes, "Weights": weights}, "", " ")
	return b
}

type circRow struct {
	N     int `json:"n"`
	Gates []struct {
		G  string `json:"g"`
		Qs []int  `json:"qs"`
	} `json:"gates"`
}

// circText writes a FrontendShapes circuit as bmqsim's input file.
func circText(c circRow) string {
	var qs []string
	for q := 0; q < c.N; q++ {
		qs = append(qs, fmt.Sprintf("q%d", q))
	}
	var sb strings.Builder
	sb.WriteString("%block code1 .sequential\n\tqbits\t" + strings.Join(qs, ", ") + "\n\tzero\t" + strings.Join(qs, ", ") + "\n")
	for _, g := range c.Gates {
		var a []string
		for _, q := range g.Qs {
			a = append(a, fmt.Sprintf("q%d", q))
		}
		sb.WriteString("\t" + g.G + "\t" + strings.Join(a, ", ") + "\n")
	}
	sb.WriteString("%endblock\n\n%meta bmdef global main:code1\n")
	return sb.String()
}

// neuralbondToBasm runs the real neuralbond on a network file and returns the .basm text it writes.
func neuralbondToBasm(tools, dir string, net []byte, env []string, extra ...string) (string, error) {
	bin, err := buildTool(tools, "neuralbond")
	if err != nil {
		return "", err
	}
	os.MkdirAll(dir, 0o755)
	os.Remove(filepath.Join(dir, "out.basm"))
	os.WriteFile(filepath.Join(dir, "net.json"), net, 0o644)
	os.WriteFile(filepath.Join(dir, "cfg.json"), []byte(`{"Params":{"expprec":"2"}}`), 0o644)
	out, err := runTool(dir, env, 60*time.Second, bin, append([]string{"-net-file", "net.json", "-config-file", "cfg.json", "-neuron-lib-path", filepath.Join(repoDir(), "library", "neurons")},
		append([]string{"-save-basm", "out.basm", "-register-size", "32"}, extra...)...)...)
	if err != nil {
		return "", fmt.Errorf("neuralbond: %v: %s", err, tailStr(out, 400))
	}
	b, err := os.ReadFile(filepath.Join(dir, "out.basm"))
	return string(b), err
}

// bmqsimToBasm runs the real bmqsim on a circuit file and returns the .basm text it writes.
func bmqsimToBasm(tools, dir, circ string, env []string) (string, error) {
	bin, err := buildTool(tools, "bmqsim")
	if err != nil {
		return "", err
	}
	os.MkdirAll(dir, 0o755)
	os.Remove(filepath.Join(dir, "q.basm"))
	os.WriteFile(filepath.Join(dir, "c.bmq"), []byte(circ), 0o644)
	out, err := runTool(dir, env, 60*time.Second, bin, "-build-matrix-seq-hardcoded", "-hw-flavor", "seq_hardcoded_real", "-save-basm", "q.basm", "c.bmq")
	if err != nil {
		return "", fmt.Errorf("bmqsim: %v: %s", err, tailStr(out, 400))
	}
	b, err := os.ReadFile(filepath.Join(dir, "q.basm"))
	return string(b), err
}

// basmCLI assembles files with the real basm command and returns the machine file it writes.
func basmCLI(tools, dir string, env []string, files ...string) ([]byte, error) {
	bin, err := buildTool(tools, "basm")
	if err != nil {
		return nil, err
	}
	os.Remove(filepath.Join(dir, "bm.json"))
	os.Remove(filepath.Join(dir, "requirements.json"))
	// (the requirement tree is dumped too: it is the input of the hardware optimisations)
	args := append([]string{"-chooser-min-word-size", "-chooser-force-same-name", "-dump-requirements", "requirements.json", "-o", "bm.json"}, files...)
	out, err := runTool(dir, env, 120*time.Second, bin, args...)
	if err != nil {
		return nil, fmt.Errorf("basm: %v: %s", err, tailStr(out, 400))
	}
	b, err := os.ReadFile(filepath.Join(dir, "bm.json"))
	if err != nil {
		return nil, fmt.Errorf("basm wrote no machine: %s", tailStr(out, 400))
	}
	return b, nil
}

func neuronLibFiles() []string {
	files, _ := filepath.Glob(filepath.Join(repoDir(), "library", "neurons", "rom-*.basm"))
	return files
}

func loadMachine(b []byte) (bm *bondmachine.Bondmachine, err error) {
	defer func() {
		if e := recover(); e != nil {
			err = fmt.Errorf("panic: %v", e)
		}
	}()
	bj := new(bondmachine.Bondmachine_json)
	if err := json.Unmarshal(b, bj); err != nil {
		return nil, err
	}
	bm = bj.Dejsoner()
	bm.Init()
	return bm, nil
}
