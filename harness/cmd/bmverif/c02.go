package main

// C02 — a whole BondMachine behaves the same in generated HDL as in simulation.
//
// BMFabric is the reference: a network of processes joined by handshaked bonds computes, on every
// external output, a stream that does not depend on the schedule (TLC checks the closed-form
// streams under every interleaving and every environment stall).  TLC -simulate draws topologies
// (chains, fan-out of an external input, of a processor output, two outputs, mergers), phase shifts,
// domain sharing and environment timings; each is built as a real Bondmachine through the API, run
// on the real simulator inside a handshaking environment and on the real generated top-level
// Verilog inside the same environment, and the streams delivered on every external output are
// compared: HDL against simulator (the property), both against the specification.

import (
	"fmt"
	"os"
	"path/filepath"
	"sort"
	"strconv"
	"strings"
	"time"

	"github.com/BondMachineHQ/BondMachine/pkg/bondmachine"
	"github.com/BondMachineHQ/BondMachine/pkg/procbuilder"

	"verif/harness/evid"
	"verif/harness/tlaval"
	"verif/harness/tlc"
)

func init() { register("C02", "model_checking", runC02) }

type fabStep struct {
	Op   string
	A, B int
}

type fabEnd struct {
	Ext  bool
	P, X int
}

type fabBond struct{ Src, Dst fabEnd }

type fabMachine struct {
	Topo    string
	Progs   [][]fabStep
	Pads    []int
	Bonds   []fabBond
	Nin     int
	Nout    int
	Shared  bool
	EnvMode string
	Outs    [][]uint64 // expected stream on every external output
}

func fabProgramText(steps []fabStep, pad int) string {
	var sb strings.Builder
	for i := 0; i < pad; i++ {
		sb.WriteString("nop\n")
	}
	for _, s := range steps {
		switch s.Op {
		case "RECV":
			fmt.Fprintf(&sb, "i2rw r%d i%d\n", s.B, s.A)
		case "SEND":
			fmt.Fprintf(&sb, "r2owa r%d o%d\n", s.A, s.B)
		case "INC":
			fmt.Fprintf(&sb, "inc r%d\n", s.A)
		case "ADD":
			fmt.Fprintf(&sb, "add r%d r%d\n", s.A, s.B)
		case "NOP":
			sb.WriteString("nop\n")
		}
	}
	sb.WriteString("j 0\n")
	return sb.String()
}

// buildFabric builds the real Bondmachine of a BMFabric machine through the API.
func buildFabric(f fabMachine) (*bondmachine.Bondmachine, error) {
	bm := newBM(8)
	ops := []string{"add", "i2rw", "inc", "j", "nop", "r2owa"}
	domOf := map[string]int{}
	for p, steps := range f.Progs {
		nin, nout := 0, 0
		for _, s := range steps {
			if s.Op == "RECV" && s.A+1 > nin {
				nin = s.A + 1
			}
			if s.Op == "SEND" && s.B+1 > nout {
				nout = s.B + 1
			}
		}
		text := fabProgramText(steps, f.Pads[p])
		if d, ok := domOf[text]; ok && f.Shared {
			bm.Add_processor(d)
			continue
		}
		m, err := mkMachine(8, 1, nin, nout, 0, ops, text)
		if err != nil {
			return nil, fmt.Errorf("processor %d: %v", p, err)
		}
		bm.Domains = append(bm.Domains, m)
		domOf[text] = len(bm.Domains) - 1
		bm.Add_processor(len(bm.Domains) - 1)
	}
	for i := 0; i < f.Nin; i++ {
		bm.Add_input()
	}
	for i := 0; i < f.Nout; i++ {
		bm.Add_output()
	}
	name := func(e fabEnd, source bool) string {
		switch {
		case e.Ext && source:
			return "i" + strconv.Itoa(e.X)
		case e.Ext:
			return "o" + strconv.Itoa(e.X)
		case source:
			return fmt.Sprintf("p%do%d", e.P-1, e.X)
		}
		return fmt.Sprintf("p%di%d", e.P-1, e.X)
	}
	bonds := append([]fabBond{}, f.Bonds...)
	sort.Slice(bonds, func(i, j int) bool { return fmt.Sprint(bonds[i]) < fmt.Sprint(bonds[j]) })
	for _, b := range bonds {
		before := fmt.Sprint(bm.Links)
		bm.Add_bond([]string{name(b.Dst, false), name(b.Src, true)})
		if fmt.Sprint(bm.Links) == before {
			return nil, fmt.Errorf("bond %s -> %s was not created", name(b.Src, true), name(b.Dst, false))
		}
	}
	return bm, nil
}

func parseEnd(v tlaval.Value) fabEnd {
	r := tlaval.AsRec(v)
	return fabEnd{Ext: tlaval.Str(r["k"]) == "ext", P: int(tlaval.Int(r["p"])), X: int(tlaval.Int(r["x"]))}
}

// fabCatalogue mirrors BMFabric!Topos (programs and bonds are read from the specification's state
// through the exported constant below, so the two cannot drift).
func genFabrics(r *evid.Run, scratch string, budget, n int, seed int64) (out []fabMachine, transitions int64, ok bool) {
	dir := filepath.Join(scratch, fmt.Sprintf("f_%d", seed))
	os.MkdirAll(dir, 0o755)
	cfg := fmt.Sprintf("SPECIFICATION Spec\nCONSTANTS\n Budget = %d\n Mod = 256\nINVARIANT TypeOK\nINVARIANT Streams\nINVARIANT ExportTopo\nCHECK_DEADLOCK FALSE\n", budget)
	res, err := tlc.Run(tlc.Options{SpecDir: specDir, Module: "BMFabric", CfgText: cfg, Workers: 1, Timeout: 20 * time.Minute,
		Args: []string{"-simulate", fmt.Sprintf("file=%s/b,num=%d", dir, n), "-depth", strconv.Itoa(budget + 2), "-seed", strconv.FormatInt(seed, 10)}})
	if err != nil {
		r.Inconclusive("tlc simulate BMFabric: %v", err)
		return nil, 0, false
	}
	if res.Violation != "" {
		r.Inconclusive("TLC rejects BMFabric: %s %s", res.Violation, res.ViolationName)
		return nil, 0, false
	}
	files, _ := filepath.Glob(filepath.Join(dir, "b_*"))
	sort.Strings(files)
	for _, f := range files {
		beh, err := tlc.ParseSimFile(f)
		if err != nil || len(beh) == 0 {
			r.Inconclusive("parse %s: %v", f, err)
			return nil, 0, false
		}
		last := beh[len(beh)-1].Vars
		m := fabMachine{Topo: tlaval.Str(last["topo"]), Shared: tlaval.Bool(last["shared"]), EnvMode: tlaval.Str(last["envmode"])}
		t := tlaval.AsRec(last["tview"])
		m.Nin, m.Nout = int(tlaval.Int(t["nin"])), int(tlaval.Int(t["nout"]))
		for _, pv := range tlaval.AsSeq(t["progs"]) {
			var steps []fabStep
			for _, sv := range tlaval.AsSeq(pv) {
				sr := tlaval.AsRec(sv)
				steps = append(steps, fabStep{tlaval.Str(sr["op"]), int(tlaval.Int(sr["a"])), int(tlaval.Int(sr["b"]))})
			}
			m.Progs = append(m.Progs, steps)
		}
		bset, isSet := t["bonds"].(tlaval.Set)
		if !isSet {
			r.Inconclusive("bonds of %s are not a set: %T", m.Topo, t["bonds"])
			return nil, 0, false
		}
		for _, bv := range bset {
			br := tlaval.AsRec(bv)
			m.Bonds = append(m.Bonds, fabBond{parseEnd(br["src"]), parseEnd(br["dst"])})
		}
		for _, pv := range tlaval.AsSeq(last["pads"]) {
			m.Pads = append(m.Pads, int(tlaval.Int(pv)))
		}
		m.Outs = make([][]uint64, m.Nout)
		for _, kv := range tlaval.AsFun(last["outs"]) {
			k := int(tlaval.Int(kv.K))
			if k < m.Nout {
				for _, x := range tlaval.AsSeq(kv.V) {
					m.Outs[k] = append(m.Outs[k], uint64(tlaval.Int(x)))
				}
			}
		}
		out = append(out, m)
		transitions += int64(len(beh))
	}
	os.RemoveAll(dir)
	return out, transitions, true
}

func runC02(r *evid.Run) {
	scratch, err := os.MkdirTemp("", "bmverif-c02-")
	if err != nil {
		r.Inconclusive("mktemp: %v", err)
		return
	}
	defer os.RemoveAll(scratch)
	var states, transitions int64
	// the reference is schedule independent: every interleaving, every environment stall
	cfg := fmt.Sprintf("SPECIFICATION AnySpec\nCONSTANTS\n Budget = %d\n Mod = 256\nINVARIANT TypeOK\nINVARIANT Streams\nCHECK_DEADLOCK FALSE\n", r.Pick(10, 14))
	res, err := tlc.Run(tlc.Options{SpecDir: specDir, Module: "BMFabric", CfgText: cfg, Workers: 12, Timeout: 40 * time.Minute})
	if err != nil {
		r.Inconclusive("tlc BMFabric: %v", err)
		return
	}
	if !res.OK() {
		r.Inconclusive("TLC rejects BMFabric under arbitrary schedules (%s %s): the reference is not schedule independent", res.Violation, res.ViolationName)
		return
	}
	states += res.Distinct
	transitions += res.Generated
	fabs, tr, ok := genFabrics(r, scratch, 80, r.Pick(60, 600), r.Seed*43+1)
	if !ok {
		return
	}
	transitions += tr
	states += int64(len(fabs))
	input := func(port, k int) uint64 { return uint64(10*(port+1)+1+k) % 256 }
	var machines, agree, values int64
	perTopo := map[string]int64{}
	for _, f := range fabs {
		ctx := map[string]interface{}{"machine": f}
		bm, err := buildFabric(f)
		if err != nil {
			r.Inconclusive("cannot build %s: %v", f.Topo, err)
			return
		}
		hold, ack := 0, 0
		switch f.EnvMode {
		case "holds-valid":
			hold = 3
		case "slow-ack":
			ack = 2
		}
		want := 0
		for _, o := range f.Outs {
			if len(o) > want {
				want = len(o)
			}
		}
		machines++
		sres, serr := runEnvTimed(bm, input, 60*want+400, want, hold, ack)
		var hres envResult
		sim, _, herr := elaborateBM(bm)
		if herr == nil {
			hres, herr = runEnvHdl(sim, f.Nin, f.Nout, input, 120*want+800, want, hold, ack)
		}
		class := f.Topo + ":" + f.EnvMode
		if f.Shared {
			class += ":shared-domain"
		}
		if serr != nil || herr != nil {
			ctx["simulator_error"], ctx["hdl_error"] = fmt.Sprint(serr), fmt.Sprint(herr)
			r.Violate("cannot-run:"+class, fmt.Sprintf("a machine (%s) cannot be executed: simulator %v, generated Verilog %v", class, serr, herr), ctx)
			continue
		}
		ctx["reference"], ctx["simulator"], ctx["generated_verilog"] = f.Outs, sres.Outs, hres.Outs
		bad := ""
		for o := 0; o < f.Nout && bad == ""; o++ {
			s, h, ref := sres.Outs[o], hres.Outs[o], f.Outs[o]
			for i := 0; i < len(ref); i++ {
				switch {
				case i >= len(s) && i >= len(h):
					bad = fmt.Sprintf("both-differ-from-reference|output o%d delivers %d values in the simulator and %d in the generated Verilog, the network delivers at least %d", o, len(s), len(h), len(ref))
				case i >= len(s):
					bad = fmt.Sprintf("streams-differ:simulator-stalls|output o%d delivers %d values in the simulator, %d in the generated Verilog", o, len(s), len(h))
				case i >= len(h):
					bad = fmt.Sprintf("streams-differ:hdl-stalls|output o%d delivers %d values in the generated Verilog, %d in the simulator", o, len(h), len(s))
				case s[i] != h[i]:
					who := "both"
					if s[i] == ref[i] {
						who = "hdl-deviates"
					} else if h[i] == ref[i] {
						who = "simulator-deviates"
					}
					bad = fmt.Sprintf("streams-differ:%s|value %d on output o%d is %d in the simulator and %d in the generated Verilog (reference %d)", who, i, o, s[i], h[i], ref[i])
				case s[i] != ref[i]:
					bad = fmt.Sprintf("both-differ-from-reference|value %d on output o%d is %d in the simulator and in the generated Verilog, the network delivers %d", i, o, s[i], ref[i])
				}
				if bad != "" {
					break
				}
				values++
			}
		}
		if bad != "" {
			parts := strings.SplitN(bad, "|", 2)
			r.Violate(parts[0]+":"+class, fmt.Sprintf("machine %s: %s", class, parts[1]), ctx)
			continue
		}
		agree++
		perTopo[f.Topo]++
		r.Distinct(fmt.Sprintf("%s|%v|%v|%s", f.Topo, f.Pads, f.Shared, f.EnvMode))
		if machines%17 == 1 {
			r.Sample(map[string]interface{}{"topology": f.Topo, "pads": f.Pads, "shared": f.Shared, "env": f.EnvMode, "streams": f.Outs})
		}
	}
	r.Set("states", states)
	r.Set("transitions", transitions)
	r.Set("machines", machines)
	r.Set("machines_agreeing_three_ways", agree)
	r.Set("stream_values_compared", values)
	for t, c := range perTopo {
		r.Set("agreeing:"+t, c)
	}
	r.Set("evaluations", machines)
	_ = procbuilder.Allopcodes
}
