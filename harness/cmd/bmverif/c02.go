package main

// C02 — a whole BondMachine behaves the same in generated HDL as in simulation.
//
// BMFabric is the reference: a network of processes joined by handshaked bonds computes, on every
// external output, a stream that does not depend on the schedule (TLC checks the closed-form
// streams under every interleaving and every environment stall).  TLC -simulate draws topologies
// (chains, fan-out of an external input, of a processor output, two outputs, mergers), phase shifts,
// domain sharing and environment timings; each is built as a real Bondmachine through the API, run
// on the real simulator inside a handshaking environment and on the real generated top-level
// Verilog inside the same environment, and the streams delivered on every external output are
// compared: HDL against simulator (the property), both against the specification.

import (
	"encoding/json"
	"fmt"
	"os"
	"path/filepath"
	"sort"
	"strconv"
	"strings"
	"time"

	"github.com/BondMachineHQ/BondMachine/pkg/bondmachine"
	"github.com/BondMachineHQ/BondMachine/pkg/procbuilder"
	"github.com/BondMachineHQ/BondMachine/pkg/simbox"

	"verif/harness/evid"
	"verif/harness/tlaval"
	"verif/harness/tlc"
	"verif/harness/vlog"
)

func init() { register("C02", "model_checking", runC02) }

type fabStep struct {
	Op   string
	A, B int
}

type fabEnd struct {
	Ext  bool
	P, X int
}

type fabBond struct{ Src, Dst fabEnd }

type fabMachine struct {
	Topo     string
	Progs    [][]fabStep
	Pads     []int
	BPad     int
	Bonds    []fabBond
	Nin      int
	Nout     int
	Shared   bool
	EnvMode  string
	SimDelay string     // "none" or "<opcode>:<ticks>": a per-opcode delay of the simulator
	Outs     [][]uint64 // expected stream on every external output
}

func fabProgramText(steps []fabStep, pad int) string {
	var sb strings.Builder
	for i := 0; i < pad; i++ {
		sb.WriteString("nop\n")
	}
	for _, s := range steps {
		switch s.Op {
		case "RECV":
			fmt.Fprintf(&sb, "i2rw r%d i%d\n", s.B, s.A)
		case "SEND":
			fmt.Fprintf(&sb, "r2owa r%d o%d\n", s.A, s.B)
		case "INC":
			fmt.Fprintf(&sb, "inc r%d\n", s.A)
		case "ADD":
			fmt.Fprintf(&sb, "add r%d r%d\n", s.A, s.B)
		case "NOP":
			sb.WriteString("nop\n")
		}
	}
	sb.WriteString("j 0\n")
	return sb.String()
}

// buildFabric builds the real Bondmachine of a BMFabric machine through the API.
func buildFabric(f fabMachine) (*bondmachine.Bondmachine, error) {
	bm := newBM(8)
	ops := []string{"add", "i2rw", "inc", "j", "nop", "r2owa"}
	domOf := map[string]int{}
	for p, steps := range f.Progs {
		nin, nout := 0, 0
		for _, s := range steps {
			if s.Op == "RECV" && s.A+1 > nin {
				nin = s.A + 1
			}
			if s.Op == "SEND" && s.B+1 > nout {
				nout = s.B + 1
			}
		}
		text := fabProgramText(steps, f.Pads[p]+f.BPad)
		if d, ok := domOf[text]; ok && f.Shared {
			bm.Add_processor(d)
			continue
		}
		m, err := mkMachine(8, 1, nin, nout, 0, ops, text)
		if err != nil {
			return nil, fmt.Errorf("processor %d: %v", p, err)
		}
		bm.Domains = append(bm.Domains, m)
		domOf[text] = len(bm.Domains) - 1
		bm.Add_processor(len(bm.Domains) - 1)
	}
	for i := 0; i < f.Nin; i++ {
		bm.Add_input()
	}
	for i := 0; i < f.Nout; i++ {
		bm.Add_output()
	}
	name := func(e fabEnd, source bool) string {
		switch {
		case e.Ext && source:
			return "i" + strconv.Itoa(e.X)
		case e.Ext:
			return "o" + strconv.Itoa(e.X)
		case source:
			return fmt.Sprintf("p%do%d", e.P-1, e.X)
		}
		return fmt.Sprintf("p%di%d", e.P-1, e.X)
	}
	bonds := append([]fabBond{}, f.Bonds...)
	sort.Slice(bonds, func(i, j int) bool { return fmt.Sprint(bonds[i]) < fmt.Sprint(bonds[j]) })
	for _, b := range bonds {
		before := fmt.Sprint(bm.Links)
		bm.Add_bond([]string{name(b.Dst, false), name(b.Src, true)})
		if fmt.Sprint(bm.Links) == before {
			return nil, fmt.Errorf("bond %s -> %s was not created", name(b.Src, true), name(b.Dst, false))
		}
	}
	return bm, nil
}

func parseEnd(v tlaval.Value) fabEnd {
	r := tlaval.AsRec(v)
	return fabEnd{Ext: tlaval.Str(r["k"]) == "ext", P: int(tlaval.Int(r["p"])), X: int(tlaval.Int(r["x"]))}
}

// fabCatalogue mirrors BMFabric!Topos (programs and bonds are read from the specification's state
// through the exported constant below, so the two cannot drift).
func genFabrics(r *evid.Run, scratch string, topo string, budget, n int, seed int64) (out []fabMachine, transitions int64, ok bool) {
	dir := filepath.Join(scratch, fmt.Sprintf("f_%s_%d", topo, seed))
	os.MkdirAll(dir, 0o755)
	cfg := fmt.Sprintf("SPECIFICATION Spec\nCONSTANTS\n Budget = %d\n Mod = 256\n BasePads = {0, 4}\n OnlyTopos = {%s}\nINVARIANT TypeOK\nINVARIANT Streams\nINVARIANT ExportTopo\nCHECK_DEADLOCK FALSE\n", budget, strconv.Quote(topo))
	res, err := tlc.Run(tlc.Options{SpecDir: specDir, Module: "BMFabric", CfgText: cfg, Workers: 1, Timeout: 20 * time.Minute,
		Args: []string{"-simulate", fmt.Sprintf("file=%s/b,num=%d", dir, n), "-depth", strconv.Itoa(budget + 2), "-seed", strconv.FormatInt(seed, 10)}})
	if err != nil {
		r.Inconclusive("tlc simulate BMFabric: %v", err)
		return nil, 0, false
	}
	if res.Violation != "" {
		r.Inconclusive("TLC rejects BMFabric: %s %s", res.Violation, res.ViolationName)
		return nil, 0, false
	}
	files, _ := filepath.Glob(filepath.Join(dir, "b_*"))
	sort.Strings(files)
	for _, f := range files {
		beh, err := tlc.ParseSimFile(f)
		if err != nil || len(beh) == 0 {
			r.Inconclusive("parse %s: %v", f, err)
			return nil, 0, false
		}
		last := beh[len(beh)-1].Vars
		m := fabMachine{BPad: int(tlaval.Int(last["bpad"])), Topo: tlaval.Str(last["topo"]), Shared: tlaval.Bool(last["shared"]), EnvMode: tlaval.Str(last["envmode"]), SimDelay: tlaval.Str(last["simdelay"])}
		t := tlaval.AsRec(last["tview"])
		m.Nin, m.Nout = int(tlaval.Int(t["nin"])), int(tlaval.Int(t["nout"]))
		for _, pv := range tlaval.AsSeq(t["progs"]) {
			var steps []fabStep
			for _, sv := range tlaval.AsSeq(pv) {
				sr := tlaval.AsRec(sv)
				steps = append(steps, fabStep{tlaval.Str(sr["op"]), int(tlaval.Int(sr["a"])), int(tlaval.Int(sr["b"]))})
			}
			m.Progs = append(m.Progs, steps)
		}
		bset, isSet := t["bonds"].(tlaval.Set)
		if !isSet {
			r.Inconclusive("bonds of %s are not a set: %T", m.Topo, t["bonds"])
			return nil, 0, false
		}
		for _, bv := range bset {
			br := tlaval.AsRec(bv)
			m.Bonds = append(m.Bonds, fabBond{parseEnd(br["src"]), parseEnd(br["dst"])})
		}
		for _, pv := range tlaval.AsSeq(last["pads"]) {
			m.Pads = append(m.Pads, int(tlaval.Int(pv)))
		}
		m.Outs = make([][]uint64, m.Nout)
		for _, kv := range tlaval.AsFun(last["outs"]) {
			k := int(tlaval.Int(kv.K))
			if k < m.Nout {
				for _, x := range tlaval.AsSeq(kv.V) {
					m.Outs[k] = append(m.Outs[k], uint64(tlaval.Int(x)))
				}
			}
		}
		out = append(out, m)
		transitions += int64(len(beh))
	}
	os.RemoveAll(dir)
	return out, transitions, true
}

func runC02(r *evid.Run) {
	scratch, err := os.MkdirTemp("", "bmverif-c02-")
	if err != nil {
		r.Inconclusive("mktemp: %v", err)
		return
	}
	defer os.RemoveAll(scratch)
	var states, transitions int64
	// the reference is schedule independent: every interleaving, every environment stall
	cfg := fmt.Sprintf("SPECIFICATION AnySpec\nCONSTANTS\n Budget = %d\n Mod = 256\n BasePads = {0}\n OnlyTopos = {\"chain2\", \"chain3\", \"fanin\", \"fanout\", \"fanout2\", \"twoout\", \"split2\", \"merge\", \"sum\", \"threeout\", \"threein\"}\nINVARIANT TypeOK\nINVARIANT Streams\nCHECK_DEADLOCK FALSE\n", r.Pick(10, 14))
	res, err := tlc.Run(tlc.Options{SpecDir: specDir, Module: "BMFabric", CfgText: cfg, Workers: 12, Timeout: 40 * time.Minute})
	if err != nil {
		r.Inconclusive("tlc BMFabric: %v", err)
		return
	}
	if !res.OK() {
		r.Inconclusive("TLC rejects BMFabric under arbitrary schedules (%s %s): the reference is not schedule independent", res.Violation, res.ViolationName)
		return
	}
	states += res.Distinct
	transitions += res.Generated
	var fabs []fabMachine
	for i, topo := range []string{"chain2", "chain3", "fanin", "fanout", "fanout2", "twoout", "split2", "merge", "sum", "threeout", "threein"} {
		if only := os.Getenv("VERIF_C02_TOPO"); only != "" && only != topo { // (development aid)
			continue
		}
		fs, tr, ok := genFabrics(r, scratch, topo, 120, r.Pick(9, 60), r.Seed*43+int64(i))
		if !ok {
			return
		}
		fabs = append(fabs, fs...)
		transitions += tr
	}
	states += int64(len(fabs))
	// the generated top level of every machine is also read back as a netlist and validated by TLC
	// against the machine's bonds (BMTopologyTrace, event "Netlist")
	nlPath := filepath.Join(scratch, "netlist.ndjson")
	nlFile, _ := os.Create(nlPath)
	nlEnc := json.NewEncoder(nlFile)
	type nlOrigin struct {
		what string
		topo *topoState
		nl   netlist
		text string
	}
	var nlOrigins []nlOrigin // one per pair of lines
	logNetlist := func(what string, bm *bondmachine.Bondmachine, d *vlog.Design, text string) {
		nl := netlistOf(d, bm)
		topo := readTopo(bm)
		nlEnc.Encode(map[string]interface{}{"ev": "set", "post": topo})
		nlEnc.Encode(map[string]interface{}{"ev": "Netlist", "post": nl})
		nlOrigins = append(nlOrigins, nlOrigin{what, topo, nl, text})
	}
	var machines, agree, values, bothDeviate int64
	perEnv := map[string]int64{}
	bothDeviateExample := ""
	perTopo := map[string]int64{}
	for _, f := range fabs {
		ctx := map[string]interface{}{"machine": f}
		bm, err := buildFabric(f)
		if err != nil {
			r.Inconclusive("cannot build %s: %v", f.Topo, err)
			return
		}
		machines++
		run := runFabric(f, bm, func(d *vlog.Design, top string) { logNetlist("machine "+f.Topo, bm, d, top) })
		sres, hres, serr, herr := run.Sim, run.Hdl, run.SimErr, run.HdlErr
		simRefire, hdlRefire := run.SimRefire, run.HdlRefire
		class := f.Topo + ":" + f.EnvMode
		if f.Shared {
			class += ":shared-domain"
		}
		if f.SimDelay != "none" {
			class += ":sim-delay-" + strings.SplitN(f.SimDelay, ":", 2)[0]
		}
		if serr != nil || herr != nil {
			ctx["simulator_error"], ctx["hdl_error"] = fmt.Sprint(serr), fmt.Sprint(herr)
			r.Violate("cannot-run:"+class, fmt.Sprintf("a machine (%s) cannot be executed: simulator %v, generated Verilog %v", class, serr, herr), ctx)
			continue
		}
		ctx["reference"], ctx["simulator"], ctx["generated_verilog"] = f.Outs, sres.Outs, hres.Outs
		// the property: on every external output the generated Verilog and the simulator deliver the
		// same stream (compared over what both delivered; one of them delivering fewer values than the
		// network produces while the other goes on is a stall of that side)
		bad, refNote := "", ""
		var bads []string
		for o := 0; o < f.Nout; o++ {
			bad = ""
			s, h, ref := sres.Outs[o], hres.Outs[o], f.Outs[o]
			at := func(x []uint64, i int) uint64 {
				if i < len(x) {
					return x[i]
				}
				return 1<<63 + 1 // beyond the explored horizon of the reference
			}
			for i := 0; i < len(s) && i < len(h) && bad == ""; i++ {
				switch {
				case s[i] == h[i]:
					if i < len(ref) && s[i] != ref[i] && refNote == "" {
						refNote = fmt.Sprintf("value %d on output o%d is %d in the simulator and in the generated Verilog, the network delivers %d", i, o, s[i], ref[i])
					}
					values++
				case i > 0 && s[i] == s[i-1] && h[i] == at(ref, i):
					// the recorded handshake defect of C04 (a consumer takes a value again while valid is
					// still high): the stream repeats its previous value
					bad = fmt.Sprintf("streams-differ:simulator-duplicates-a-value|value %d on output o%d repeats the previous value %d in the simulator; the generated Verilog and the reference deliver %d", i, o, s[i], h[i])
				case i > 0 && h[i] == h[i-1] && s[i] == at(ref, i):
					bad = fmt.Sprintf("streams-differ:hdl-duplicates-a-value|value %d on output o%d repeats the previous value %d in the generated Verilog; the simulator and the reference deliver %d", i, o, h[i], s[i])
				default:
					who := "both"
					if s[i] == at(ref, i) {
						who = "hdl-deviates"
					} else if h[i] == at(ref, i) {
						who = "simulator-deviates"
					}
					bad = fmt.Sprintf("streams-differ:%s|value %d on output o%d is %d in the simulator and %d in the generated Verilog (reference %d)", who, i, o, s[i], h[i], at(ref, i))
				}
			}
			if bad == "" && len(s) < len(ref) && len(h) >= len(ref) {
				bad = fmt.Sprintf("streams-differ:simulator-stalls|output o%d delivers %d values in the simulator, %d in the generated Verilog", o, len(s), len(h))
			}
			if bad == "" && len(h) < len(ref) && len(s) >= len(ref) {
				bad = fmt.Sprintf("streams-differ:hdl-stalls|output o%d delivers %d values in the generated Verilog, %d in the simulator", o, len(h), len(s))
			}
			if bad == "" && len(s) < len(ref) && len(h) < len(ref) && refNote == "" {
				refNote = fmt.Sprintf("output o%d delivers %d values in the simulator and %d in the generated Verilog, the network delivers at least %d", o, len(s), len(h), len(ref))
			}
			if bad != "" {
				bads = append(bads, bad)
			}
		}
		// a repeated value is the symptom of the recorded handshake defect; any other kind of divergence
		// on any output is reported in preference to it
		bad = ""
		for _, b := range bads {
			if bad == "" || (strings.Contains(bad, "duplicates-a-value") && !strings.Contains(b, "duplicates-a-value")) {
				bad = b
			}
		}
		if bad != "" {
			parts := strings.SplitN(bad, "|", 2)
			sig := parts[0] + ":" + class
			ctx["i2rw_completed_with_own_received_high"] = map[string]bool{"simulator": simRefire, "generated_verilog": hdlRefire}
			ctx["hdl_output_valid_held_after_received"] = run.HdlValidHeld
			ctx["simulator_output_valid_held_after_received"] = run.SimValidHeld
			switch {
			case run.SimValidHeld:
				sig = "streams-differ:simulator-holds-valid-after-received:" + class
			case run.HdlValidHeld:
				// not the recorded defect: the producer did not withdraw valid when the pinned r2owa does
				sig = "streams-differ:hdl-holds-valid-after-received:" + class
			case simRefire && !hdlRefire:
				sig = "streams-differ:i2rw-refired-in-the-simulator-only"
			case hdlRefire && !simRefire:
				sig = "streams-differ:i2rw-refired-in-the-hardware-only"
			case hdlRefire && simRefire:
				sig = "streams-differ:i2rw-refired-in-both-at-different-times"
			}
			r.Violate(sig, fmt.Sprintf("machine %s: %s", class, parts[1]), ctx)
			continue
		}
		if refNote != "" {
			// both back-ends agree with each other and not with the timing-independent reference: not a
			// violation of C02 (which compares the two back-ends); it is the handshake defect that C04
			// records (KF-C04-1 / KF-C04-3), counted here
			bothDeviate++
			if bothDeviateExample == "" {
				bothDeviateExample = fmt.Sprintf("%s: %s", class, refNote)
			}
		}
		agree++
		perTopo[f.Topo]++
		perEnv[f.EnvMode]++
		r.Distinct(fmt.Sprintf("%s|%v|%v|%s", f.Topo, f.Pads, f.Shared, f.EnvMode))
		if machines%17 == 1 {
			r.Sample(map[string]interface{}{"topology": f.Topo, "pads": f.Pads, "shared": f.Shared, "env": f.EnvMode, "streams": f.Outs})
		}
	}
	// every bond graph of the bounded topology model, rendered as a top level
	for i, cfgName := range []string{"MCTopology_a.cfg", "MCTopology_b.cfg"} {
		tres, err := tlc.Run(tlc.Options{SpecDir: specDir, Module: "MCTopology", Cfg: cfgName, Workers: 8, DumpDot: true, KeepDir: true,
			Scratch: filepath.Join(scratch, "mc"+strconv.Itoa(i)), Timeout: 40 * time.Minute})
		if err != nil || !tres.OK() {
			r.Inconclusive("tlc MCTopology %s: %v", cfgName, err)
			return
		}
		states += tres.Distinct
		transitions += tres.Generated
		g, err := tlc.ParseDot(tres.DotPath)
		os.RemoveAll(tres.Dir)
		if err != nil {
			r.Inconclusive("dot: %v", err)
			return
		}
		ids := make([]string, 0, len(g.Nodes))
		for id := range g.Nodes {
			ids = append(ids, id)
		}
		sort.Strings(ids)
		for _, id := range ids {
			bm := bmFromSpecState(g.Nodes[id])
			top, gerr := func() (t string, err error) {
				defer func() {
					if e := recover(); e != nil {
						err = fmt.Errorf("panic: %v", e)
					}
				}()
				return bm.Write_verilog_main(new(bondmachine.Config), "bondmachine", "iverilog"), nil
			}()
			if gerr != nil {
				r.Violate("netlist:cannot-render", fmt.Sprintf("Write_verilog_main fails on a well-formed bond graph: %v", gerr), map[string]interface{}{"machine": readTopo(bm)})
				continue
			}
			d, perr := vlog.Parse(top)
			if perr != nil {
				r.Violate("netlist:does-not-parse", fmt.Sprintf("the generated top level does not parse: %v", perr), map[string]interface{}{"machine": readTopo(bm), "verilog": top})
				continue
			}
			logNetlist("bond graph of the topology model", bm, d, top)
		}
	}
	nlFile.Close()
	nres, err := tlc.Run(tlc.Options{SpecDir: specDir, Module: "BMTopologyTrace", Cfg: "BMTopologyTrace.cfg", Workers: 1, Env: map[string]string{"TRACE": nlPath}, Timeout: 40 * time.Minute})
	if err != nil {
		r.Inconclusive("tlc BMTopologyTrace (netlists): %v", err)
		return
	}
	nrej := reReject.FindAllStringSubmatch(nres.Stdout, -1)
	for _, m := range nrej {
		line, _ := strconv.Atoi(m[1])
		o := nlOrigins[(line-1)/2]
		r.Violate(m[2], fmt.Sprintf("the generated top level of a %s does not wire the machine's bonds: %s", o.what, m[2]),
			map[string]interface{}{"machine": o.topo, "netlist": o.nl, "verilog": o.text})
	}
	if nres.Violation != "" || !strings.Contains(nres.Stdout, "No error has been found") {
		if len(nrej) == 0 {
			r.Inconclusive("netlist validation did not complete (%s %s): %s", nres.Violation, nres.ViolationName, tailStr(nres.Stdout, 1200))
			return
		}
	}
	states += nres.Distinct
	r.Set("netlists_validated_against_bonds", int64(len(nlOrigins)))
	r.Set("traces_validated_against_impl", int64(len(nlOrigins)))
	r.Set("states", states)
	r.Set("transitions", transitions)
	r.Set("machines", machines)
	r.Set("machines_with_hdl_and_simulator_agreeing", agree)
	r.Set("stream_values_compared", values)
	r.Set("machines_where_both_back_ends_deviate_from_the_reference_alike", bothDeviate)
	if bothDeviateExample != "" {
		r.Set("example_of_both_deviating_alike", bothDeviateExample)
	}
	for t, c := range perTopo {
		r.Set("agreeing:"+t, c)
	}
	for e, c := range perEnv {
		r.Set("agreeing-under-environment:"+e, c)
	}
	r.Set("evaluations", machines)
	_ = procbuilder.Allopcodes
}

// ---- the generated top level read back as a netlist ------------------------------------------------

type netlist struct {
	Bonds   [][2]string `json:"bonds"`  // <<source, sink>> joined by the data wiring
	VBonds  [][2]string `json:"vbonds"` // ... by the valid wiring
	RBonds  [][2]string `json:"rbonds"` // source whose received line is the conjunction containing the sink's received line
	Problem string      `json:"problem"`
}

// netlistOf parses the generated top-level module and reads its wiring back as bonds between
// named endpoints.  Processor K is instance aK_inst of module aK whose ports are, by the
// generator's convention, clk, reset, then (data, valid, received) for every input and then for
// every output; when the design defines aK the convention is checked against its port list.
func netlistOf(d *vlog.Design, bm *bondmachine.Bondmachine) netlist {
	nl := netlist{Bonds: [][2]string{}, VBonds: [][2]string{}, RBonds: [][2]string{}}
	fail := func(f string, a ...interface{}) netlist {
		if nl.Problem == "" {
			nl.Problem = fmt.Sprintf(f, a...)
		}
		return nl
	}
	assign := map[string]string{}
	for _, a := range d.Assigns("bondmachine") {
		if _, dup := assign[a.LHS]; dup {
			return fail("net %s has two continuous drivers", a.LHS)
		}
		assign[a.LHS] = strings.TrimSpace(a.RHS)
	}
	// which net carries the data / valid of every source, which net every sink drives with its received
	srcOfNet := map[string]string{} // data net -> source name
	validOfNet := map[string]string{}
	sinkOfRecvNet := map[string]string{} // received net -> sink name
	recvNetOfSource := map[string]string{}
	for i := 0; i < bm.Inputs; i++ {
		n := "i" + strconv.Itoa(i)
		srcOfNet[n], validOfNet[n+"_valid"], recvNetOfSource[n] = n, n, n+"_received"
	}
	for i := 0; i < bm.Outputs; i++ {
		sinkOfRecvNet["o"+strconv.Itoa(i)+"_received"] = "o" + strconv.Itoa(i)
	}
	type pin struct{ data, valid, recv string }
	inPins := map[string]pin{} // sink pXiY -> actual nets
	insts := d.Instances("bondmachine")
	seen := map[int]bool{}
	for _, in := range insts {
		if !strings.HasPrefix(in.Module, "a") || !strings.HasSuffix(in.Name, "_inst") {
			continue
		}
		k, err := strconv.Atoi(strings.TrimPrefix(in.Module, "a"))
		if err != nil || k >= len(bm.Processors) {
			return fail("unexpected instance %s of %s", in.Name, in.Module)
		}
		seen[k] = true
		dom := bm.Domains[bm.Processors[k]]
		n, m := int(dom.N), int(dom.M)
		if len(in.Conns) != 2+3*n+3*m {
			return fail("instance %s has %d connections, a processor with %d inputs and %d outputs has %d ports", in.Name, len(in.Conns), n, m, 2+3*n+3*m)
		}
		if d.HasModule(in.Module) {
			ports := d.Ports(in.Module)
			var want []string
			want = append(want, ports[0].Name, ports[1].Name)
			for j := 0; j < n; j++ {
				want = append(want, fmt.Sprintf("i%d", j), fmt.Sprintf("i%d_valid", j), fmt.Sprintf("i%d_received", j))
			}
			for j := 0; j < m; j++ {
				want = append(want, fmt.Sprintf("o%d", j), fmt.Sprintf("o%d_valid", j), fmt.Sprintf("o%d_received", j))
			}
			for i, p := range ports {
				if i < len(want) && p.Name != want[i] {
					return fail("port %d of module %s is %s, the instantiation assumes %s", i, in.Module, p.Name, want[i])
				}
			}
		}
		for j := 0; j < n; j++ {
			c := in.Conns[2+3*j:]
			sink := fmt.Sprintf("p%di%d", k, j)
			inPins[sink] = pin{c[0].Expr, c[1].Expr, c[2].Expr}
			sinkOfRecvNet[c[2].Expr] = sink
		}
		for j := 0; j < m; j++ {
			c := in.Conns[2+3*n+3*j:]
			src := fmt.Sprintf("p%do%d", k, j)
			srcOfNet[c[0].Expr], validOfNet[c[1].Expr], recvNetOfSource[src] = src, src, c[2].Expr
		}
	}
	for k := range bm.Processors {
		if !seen[k] {
			return fail("processor %d is not instantiated", k)
		}
	}
	resolve := func(net string, table map[string]string) string {
		for i := 0; i < 4; i++ {
			if s, ok := table[net]; ok {
				return s
			}
			next, ok := assign[net]
			if !ok {
				return ""
			}
			net = next
		}
		return ""
	}
	for sink, p := range inPins {
		if p.data == "" && p.valid == "" {
			continue
		}
		if s := resolve(p.data, srcOfNet); s != "" {
			nl.Bonds = append(nl.Bonds, [2]string{s, sink})
		}
		if s := resolve(p.valid, validOfNet); s != "" {
			nl.VBonds = append(nl.VBonds, [2]string{s, sink})
		}
	}
	for i := 0; i < bm.Outputs; i++ {
		o := "o" + strconv.Itoa(i)
		if rhs, ok := assign[o]; ok {
			if s := resolve(rhs, srcOfNet); s != "" {
				nl.Bonds = append(nl.Bonds, [2]string{s, o})
			}
		}
		if rhs, ok := assign[o+"_valid"]; ok {
			if s := resolve(rhs, validOfNet); s != "" {
				nl.VBonds = append(nl.VBonds, [2]string{s, o})
			}
		}
	}
	for src, net := range recvNetOfSource {
		rhs, ok := assign[net]
		if !ok {
			continue // nothing is and-ed into this source's received line
		}
		for _, term := range strings.Split(rhs, "&") {
			term = strings.Trim(term, " \t()")
			if term == "" || term == "1'b0" || term == "1'b1" {
				continue
			}
			sink, ok := sinkOfRecvNet[term]
			if !ok {
				return fail("the received line of %s contains %s, which is not the received line of a sink", src, term)
			}
			nl.RBonds = append(nl.RBonds, [2]string{src, sink})
		}
	}
	for _, b := range [][][2]string{nl.Bonds, nl.VBonds, nl.RBonds} {
		sort.Slice(b, func(i, j int) bool { return fmt.Sprint(b[i]) < fmt.Sprint(b[j]) })
	}
	return nl
}

// fabricRun is what the two back-ends did with one BMFabric machine.
type fabricRun struct {
	Sim, Hdl       envResult
	SimErr, HdlErr error
	// the root events of the recorded handshake defects (C04), observed during the run:
	SimRefire, HdlRefire bool // an i2rw completed while the processor's own received line was still high
	SimStale             bool // an r2owa completed in the tick it was issued (against a stale received line)
	// a processor output of the generated hardware kept valid high for more than three clocks while its
	// received line was high (the pinned r2owa lowers it in the clock after the instruction is over)
	HdlValidHeld bool
	// the same in the simulator (the pinned r2owa lowers valid in the tick in which it sees received)
	SimValidHeld bool
}

func fabricInput(port, k int) uint64 { return uint64(10*(port+1)+1+k) % 256 }

// runFabric executes a BMFabric machine on the real simulator and on the real generated Verilog, each
// inside the handshaking environment of the machine's environment mode, and observes the root events.
func runFabric(f fabMachine, bm *bondmachine.Bondmachine, netlist func(d *vlog.Design, top string)) (out fabricRun) {
	input := fabricInput
	hold, ack := 0, 0
	switch f.EnvMode {
	case "holds-valid":
		hold = 3
	case "slow-ack":
		ack = 2
	case "stalls-outputs":
		ack = 30
		envAckOddOnly = true
		defer func() { envAckOddOnly = false }()
	case "serial":
		envSerial = true
		defer func() { envSerial = false }()
	}
	want := 0
	for _, o := range f.Outs {
		if len(o) > want {
			want = len(o)
		}
	}
	var delays *simbox.SimDelays
	if parts := strings.SplitN(f.SimDelay, ":", 2); len(parts) == 2 {
		d, _ := strconv.Atoi(parts[1])
		delays = onePoint(map[string]int{parts[0]: d})
	}
	instr := make([][]fabStep, len(f.Progs)) // the instruction at every program counter value
	for p, steps := range f.Progs {
		for k := 0; k < f.Pads[p]+f.BPad; k++ {
			instr[p] = append(instr[p], fabStep{Op: "NOP"})
		}
		instr[p] = append(instr[p], steps...)
	}
	at := func(p int, pc uint64, op string) int {
		if int(pc) < len(instr[p]) && instr[p][pc].Op == op {
			if op == "RECV" {
				return instr[p][pc].A
			}
			return instr[p][pc].B
		}
		return -1
	}
	prePc := make([]uint64, len(f.Progs))
	preHigh := make([]bool, len(f.Progs))
	sendSince := make([]int, len(f.Progs)) // ticks the processor has been at its current SEND
	simHeld := map[[2]int]int{}
	envSimTick = func(vm *bondmachine.VM, pre bool) {
		for p := range f.Progs {
			pv := vm.Processors[p]
			if !pre {
				for o := range pv.OutputsValid {
					if o < len(pv.OutputsRecv) && pv.OutputsValid[o] && pv.OutputsRecv[o] {
						simHeld[[2]int{p, o}]++
						if simHeld[[2]int{p, o}] > 3 {
							out.SimValidHeld = true
						}
					} else {
						simHeld[[2]int{p, o}] = 0
					}
				}
			}
			if pre {
				prePc[p], preHigh[p] = pv.Pc, false
				if in := at(p, pv.Pc, "RECV"); in >= 0 && in < len(pv.InputsRecv) {
					preHigh[p] = pv.InputsRecv[in]
				}
				if at(p, pv.Pc, "SEND") >= 0 && pv.DelayCounter == 0 {
					sendSince[p]++
				}
			} else {
				if preHigh[p] && pv.Pc != prePc[p] {
					out.SimRefire = true
				}
				if pv.Pc != prePc[p] {
					if at(p, prePc[p], "SEND") >= 0 && sendSince[p] == 1 {
						out.SimStale = true
					}
					sendSince[p] = 0
				}
			}
		}
	}
	envSimDelays = delays
	out.Sim, out.SimErr = runEnvTimed(bm, input, 120*want+600, want, hold, ack)
	envSimDelays, envSimTick = nil, nil
	sim, files, herr := elaborateBM(bm)
	out.HdlErr = herr
	if herr != nil {
		return out
	}
	if netlist != nil {
		srcs := []string{files["bondmachine.v"]}
		for n, t := range files {
			if strings.HasPrefix(n, "arch_") {
				srcs = append(srcs, t)
			}
		}
		if d, perr := vlog.Parse(srcs...); perr == nil {
			netlist(d, files["bondmachine.v"])
		}
	}
	hPc := make([]uint64, len(f.Progs))
	hHigh := make([]bool, len(f.Progs))
	hdlPreClockHook = func(s *vlog.Sim) {
		for p := range f.Progs {
			pc, _ := s.Get(procPath(p) + "_pc")
			hPc[p], hHigh[p] = pc, false
			if in := at(p, pc, "RECV"); in >= 0 {
				v, _ := s.Get(procPath(p) + "i" + strconv.Itoa(in) + "_recv")
				hHigh[p] = v == 1
			}
		}
	}
	held := map[string]int{}
	hdlClockHook = func(s *vlog.Sim) {
		for p := range f.Progs {
			if pc, _ := s.Get(procPath(p) + "_pc"); hHigh[p] && pc != hPc[p] {
				out.HdlRefire = true
			}
			for o := 0; o < 3; o++ {
				name := procPath(p) + "o" + strconv.Itoa(o)
				v, ok1 := s.Get(name + "_val")
				rc, ok2 := s.Get(name + "_received")
				if ok1 && ok2 && v == 1 && rc == 1 {
					held[name]++
					if held[name] > 3 {
						out.HdlValidHeld = true
					}
				} else {
					held[name] = 0
				}
			}
		}
	}
	out.Hdl, out.HdlErr = runEnvHdl(sim, f.Nin, f.Nout, input, 120*want+800, want, hold, ack)
	hdlPreClockHook, hdlClockHook = nil, nil
	return out
}
