package main

// C10 — editing a machine's topology never corrupts the bonds it does not touch.
//
// 1. TLC explores BMTopology (index-array model, transcribed from bondmachine.go) exhaustively
//    for small bounds, checking WellFormed and the refinement to BMTopologyAbs.
// 2. The complete state graph is dumped; EVERY transition is replayed on a real
//    bondmachine.Bondmachine (state set through the public fields, edit through the public
//    method).  Raw fields are compared with the spec's post-state (lock-step, informational).
// 3. Long seeded random histories from the empty machine with larger bounds.
// 4. Everything the real object did is validated by TLC against BMTopologyAbs (names only):
//    that is the verdict.

import (
	"encoding/json"
	"fmt"
	"math/rand"
	"os"
	"path/filepath"
	"regexp"
	"sort"
	"strconv"
	"strings"
	"sync"
	"time"

	"github.com/BondMachineHQ/BondMachine/pkg/bondmachine"
	"github.com/BondMachineHQ/BondMachine/pkg/procbuilder"

	"verif/harness/evid"
	"verif/harness/tlaval"
	"verif/harness/tlc"
)

func init() { register("C10", "model_checking", runC10) }

type topoDom struct {
	N int `json:"n"`
	M int `json:"m"`
}

type topoState struct {
	Nin   int         `json:"nin"`
	Nout  int         `json:"nout"`
	Procs []int       `json:"procs"`
	Doms  []topoDom   `json:"doms"`
	Iin   []string    `json:"iin"`
	Ion   []string    `json:"ion"`
	Links []int       `json:"links"`
	Bonds [][2]string `json:"bonds"`
	// raw triples, for lock-step only
	II [][3]int `json:"-"`
	IO [][3]int `json:"-"`
}

type topoEvent struct {
	Ev    string                 `json:"ev"`
	K     *int                   `json:"k,omitempty"`
	D     *int                   `json:"d,omitempty"`
	E0    *string                `json:"e0,omitempty"`
	E1    *string                `json:"e1,omitempty"`
	Bid   *int                   `json:"bid,omitempty"`
	Dname *string                `json:"dname,omitempty"`
	Ks    []int                  `json:"ks,omitempty"`
	Post  *topoState             `json:"post"`
	Extra map[string]interface{} `json:"extra,omitempty"`
}

func newTopoBM(doms []topoDom) *bondmachine.Bondmachine {
	bm := new(bondmachine.Bondmachine)
	bm.Rsize = 8
	bm.Init()
	for _, d := range doms {
		m := new(procbuilder.Machine)
		m.Rsize = 8
		m.N = uint8(d.N)
		m.M = uint8(d.M)
		m.R = 1
		m.Modes = []string{"ha"}
		bm.Domains = append(bm.Domains, m)
	}
	return bm
}

func readTopo(bm *bondmachine.Bondmachine) *topoState {
	s := &topoState{Nin: bm.Inputs, Nout: bm.Outputs, Procs: []int{}, Doms: []topoDom{}, Iin: []string{}, Ion: []string{}, Links: []int{}, Bonds: [][2]string{}}
	s.Procs = append(s.Procs, bm.Processors...)
	for _, d := range bm.Domains {
		s.Doms = append(s.Doms, topoDom{int(d.N), int(d.M)})
	}
	s.Iin = append(s.Iin, bm.List_internal_inputs()...)
	s.Ion = append(s.Ion, bm.List_internal_outputs()...)
	s.Links = append(s.Links, bm.Links...)
	lb := bm.List_bonds()
	keys := make([]int, 0, len(lb))
	for k := range lb {
		keys = append(keys, k)
	}
	sort.Ints(keys)
	for _, k := range keys {
		parts := strings.SplitN(lb[k], ",", 2)
		if len(parts) == 2 {
			s.Bonds = append(s.Bonds, [2]string{parts[0], parts[1]})
		} else {
			s.Bonds = append(s.Bonds, [2]string{lb[k], ""})
		}
	}
	for _, b := range bm.Internal_inputs {
		s.II = append(s.II, [3]int{int(b.Map_to), b.Res_id, b.Ext_id})
	}
	for _, b := range bm.Internal_outputs {
		s.IO = append(s.IO, [3]int{int(b.Map_to), b.Res_id, b.Ext_id})
	}
	return s
}

func bondSeq(v tlaval.Value) [][3]int {
	out := [][3]int{}
	for _, e := range tlaval.AsSeq(v) {
		r := tlaval.AsRec(e)
		out = append(out, [3]int{tlaval.Int(r["mt"]), tlaval.Int(r["res"]), tlaval.Int(r["ext"])})
	}
	return out
}

func intSeq(v tlaval.Value) []int {
	out := []int{}
	for _, e := range tlaval.AsSeq(v) {
		out = append(out, tlaval.Int(e))
	}
	return out
}

// bmFromSpecState builds a real Bondmachine whose public fields equal the spec state.
func bmFromSpecState(st map[string]tlaval.Value) *bondmachine.Bondmachine {
	doms := []topoDom{}
	for _, e := range tlaval.AsSeq(st["doms"]) {
		r := tlaval.AsRec(e)
		doms = append(doms, topoDom{tlaval.Int(r["n"]), tlaval.Int(r["m"])})
	}
	bm := newTopoBM(doms)
	bm.Inputs = tlaval.Int(st["nin"])
	bm.Outputs = tlaval.Int(st["nout"])
	bm.Processors = intSeq(st["procs"])
	for range bm.Processors {
		bm.Shared_links = append(bm.Shared_links, []int{})
	}
	for _, b := range bondSeq(st["ii"]) {
		bm.Internal_inputs = append(bm.Internal_inputs, bondmachine.Bond{Map_to: uint8(b[0]), Res_id: b[1], Ext_id: b[2]})
	}
	for _, b := range bondSeq(st["io"]) {
		bm.Internal_outputs = append(bm.Internal_outputs, bondmachine.Bond{Map_to: uint8(b[0]), Res_id: b[1], Ext_id: b[2]})
	}
	bm.Links = intSeq(st["links"])
	return bm
}

func rawEqual(s *topoState, st map[string]tlaval.Value) bool {
	if s.Nin != tlaval.Int(st["nin"]) || s.Nout != tlaval.Int(st["nout"]) {
		return false
	}
	if fmt.Sprint(s.Procs) != fmt.Sprint(intSeq(st["procs"])) || fmt.Sprint(s.Links) != fmt.Sprint(intSeq(st["links"])) {
		return false
	}
	if fmt.Sprint(s.II) != fmt.Sprint(bondSeq(st["ii"])) || fmt.Sprint(s.IO) != fmt.Sprint(bondSeq(st["io"])) {
		return false
	}
	if len(s.Doms) != len(tlaval.AsSeq(st["doms"])) {
		return false
	}
	return true
}

// applyTopoEdit performs one edit on the real object and returns the event (without Post).
// A panic inside the real method is reported through the returned error.
func applyTopoEdit(bm *bondmachine.Bondmachine, name string, args []interface{}) (ev topoEvent, err error) {
	defer func() {
		if e := recover(); e != nil {
			err = fmt.Errorf("panic in %s%v: %v", name, args, e)
		}
	}()
	ev.Ev = name
	ip := func(i int) *int { return &i }
	sp := func(s string) *string { return &s }
	switch name {
	case "AddInput":
		bm.Add_input()
	case "AddOutput":
		bm.Add_output()
	case "DelInput":
		k := args[0].(int)
		ev.K = ip(k)
		bm.Del_input(k)
	case "DelOutput":
		k := args[0].(int)
		ev.K = ip(k)
		bm.Del_output(k)
	case "AddProcessor":
		d := args[0].(int)
		ev.D = ip(d)
		bm.Add_processor(d)
	case "AddBond":
		e0, e1 := args[0].(string), args[1].(string)
		ev.E0, ev.E1 = sp(e0), sp(e1)
		bm.Add_bond([]string{e0, e1})
	case "AttachBC":
		e0, e1 := args[0].(string), args[1].(string)
		ev.E0, ev.E1 = sp(e0), sp(e1)
		bm.Attach_benchmark_core([]string{e0, e1})
	case "DelBond":
		bid := args[0].(int)
		ev.Bid = ip(bid)
		dn := ""
		if ins := bm.List_internal_inputs(); bid >= 0 && bid < len(ins) && bid < len(bm.Links) {
			dn = ins[bid]
		}
		ev.Dname = sp(dn)
		bm.Del_bond(bid)
	default:
		return ev, fmt.Errorf("unknown edit %s", name)
	}
	return ev, nil
}

func goArgs(vs []tlaval.Value) []interface{} {
	out := make([]interface{}, len(vs))
	for i, v := range vs {
		switch x := v.(type) {
		case int64:
			out[i] = int(x)
		case string:
			out[i] = x
		default:
			out[i] = x
		}
	}
	return out
}

var reReject = regexp.MustCompile(`<<\s*"REJECT",\s*(\d+),\s*"([^"]*)"\s*>>`)

func runC10(r *evid.Run) {
	scratch, err := os.MkdirTemp("", "bmverif-c10-")
	if err != nil {
		r.Inconclusive("mktemp: %v", err)
		return
	}
	defer os.RemoveAll(scratch)

	// ---- 1. exhaustive TLC on the implementation-level model + refinement ------------------
	cfgs := []string{"MCTopology_a.cfg", "MCTopology_b.cfg"}
	if r.Thorough() {
		cfgs = append(cfgs, "MCTopology_d.cfg") // (_c, two processors, does not finish within the time limit: about 5 M transitions after 15 min)
	}
	type mcOut struct {
		res *tlc.Result
		err error
	}
	outs := make([]mcOut, len(cfgs))
	var wg sync.WaitGroup
	for i, cfg := range cfgs {
		wg.Add(1)
		go func(i int, cfg string) {
			defer wg.Done()
			res, err := tlc.Run(tlc.Options{SpecDir: specDir, Module: "MCTopology", Cfg: cfg, Workers: 16 / len(cfgs), DumpDot: true,
				Scratch: filepath.Join(scratch, "mc"+strconv.Itoa(i)), KeepDir: true, Timeout: 40 * time.Minute})
			outs[i] = mcOut{res, err}
		}(i, cfg)
	}
	wg.Wait()
	g := &tlc.Graph{Nodes: map[string]map[string]tlaval.Value{}}
	var states, generated int64
	for i, o := range outs {
		if o.err != nil {
			r.Inconclusive("tlc %s: %v", cfgs[i], o.err)
			return
		}
		if !o.res.OK() {
			r.Inconclusive("TLC did not accept BMTopology under %s (%s %s): the model itself is inconsistent; no verdict about the code\n%s", cfgs[i], o.res.Violation, o.res.ViolationName, o.res.Error)
			return
		}
		gi, err := tlc.ParseDot(o.res.DotPath)
		if err != nil {
			r.Inconclusive("dot: %v", err)
			return
		}
		pfx := strconv.Itoa(i) + ":"
		for id, n := range gi.Nodes {
			g.Nodes[pfx+id] = n
		}
		for _, e := range gi.Edges {
			g.Edges = append(g.Edges, tlc.Edge{From: pfx + e.From, To: pfx + e.To, Action: e.Action})
		}
		states += o.res.Distinct
		generated += o.res.Generated
		os.RemoveAll(o.res.Dir)
	}
	r.Set("states", states)
	r.Set("tlc_generated", generated)
	r.Set("model_cfgs", cfgs)
	r.Set("transitions", int64(len(g.Edges)))

	// ---- 2. replay every transition on the real object ---------------------------------------
	tracePath := filepath.Join(scratch, "trace.ndjson")
	tf, _ := os.Create(tracePath)
	enc := json.NewEncoder(tf)
	nEvents := 0
	lineOf := map[int]topoEvent{} // trace line (1-based) -> event, for reports
	segStart := map[int]int{}
	emit := func(ev topoEvent, seg int) {
		enc.Encode(ev)
		nEvents++
		lineOf[nEvents] = ev
		segStart[nEvents] = seg
	}
	var lockMismatch int64
	var firstMismatch interface{}
	replayed := int64(0)
	actionsSeen := map[string]int{}
	for _, e := range g.Edges {
		name, targs, err := tlc.ActionArgs(e.Action)
		if err != nil {
			r.Inconclusive("action label %q: %v", e.Action, err)
			return
		}
		pre := g.Nodes[e.From]
		post := g.Nodes[e.To]
		if pre == nil || post == nil {
			r.Inconclusive("graph edge without node")
			return
		}
		bm := bmFromSpecState(pre)
		seg := nEvents + 1
		emit(topoEvent{Ev: "set", Post: readTopo(bm)}, seg)
		ev, err := applyTopoEdit(bm, name, goArgs(targs))
		if err != nil {
			r.Violate("panic:"+name, fmt.Sprintf("%v on state %s", err, tlaval.String(tlaval.Rec(pre))), map[string]interface{}{"pre": tlaval.ToJSONable(tlaval.Rec(pre)), "action": e.Action})
			continue
		}
		ev.Post = readTopo(bm)
		emit(ev, seg)
		replayed++
		actionsSeen[name]++
		if !rawEqual(ev.Post, post) {
			lockMismatch++
			if firstMismatch == nil {
				firstMismatch = map[string]interface{}{"action": e.Action, "pre": tlaval.ToJSONable(tlaval.Rec(pre)), "spec_post": tlaval.ToJSONable(tlaval.Rec(post)), "real_post": ev.Post, "real_ii": ev.Post.II, "real_io": ev.Post.IO}
			}
		}
		key := e.Action + "|" + strings.Join(ev.Post.Iin, ",") + "|" + fmt.Sprint(ev.Post.Links)
		r.Distinct(key)
		if replayed%997 == 1 {
			r.Sample(map[string]interface{}{"kind": "transition", "action": e.Action, "pre_links": intSeq(pre["links"]), "pre_internal_inputs": readTopo(bmFromSpecState(pre)).Iin, "post": ev.Post})
		}
	}
	r.Set("transitions_replayed", replayed)
	r.Set("lockstep_mismatches", lockMismatch)
	r.Set("actions_replayed", actionsSeen)
	if firstMismatch != nil {
		r.Set("first_lockstep_mismatch", firstMismatch)
	}
	r.Set("exhaustive", lockMismatch == 0)

	// ---- 3. random long histories from the empty machine ------------------------------------
	rng := rand.New(rand.NewSource(r.Seed))
	nHist := r.Pick(150, 3000)
	depth := r.Pick(40, 80)
	histories := int64(0)
	for h := 0; h < nHist; h++ {
		cat := []topoDom{{1, 1}, {2, 1}, {0, 2}, {1, 2}, {3, 1}}
		cat = cat[:1+rng.Intn(len(cat))]
		bm := newTopoBM(cat)
		seg := nEvents + 1
		emit(topoEvent{Ev: "set", Post: readTopo(bm)}, seg)
		maxIn, maxOut, maxProc := 1+rng.Intn(4), 1+rng.Intn(4), 1+rng.Intn(4)
		for k := 0; k < depth; k++ {
			names := append(append([]string{}, bm.List_internal_inputs()...), bm.List_internal_outputs()...)
			names = append(names, "zz")
			pick := func() string { return names[rng.Intn(len(names))] }
			var name string
			var args []interface{}
			switch c := rng.Intn(20); {
			case c < 2:
				if bm.Inputs >= maxIn {
					continue
				}
				name = "AddInput"
			case c < 4:
				if bm.Outputs >= maxOut {
					continue
				}
				name = "AddOutput"
			case c < 6:
				name, args = "DelInput", []interface{}{rng.Intn(bm.Inputs + 1)}
			case c < 8:
				name, args = "DelOutput", []interface{}{rng.Intn(bm.Outputs + 1)}
			case c < 10:
				if len(bm.Processors) >= maxProc {
					continue
				}
				name, args = "AddProcessor", []interface{}{rng.Intn(len(bm.Domains) + 1)}
			case c < 16:
				// mostly a valid (sink, source) pair in either order
				ins, outs := bm.List_internal_inputs(), bm.List_internal_outputs()
				if len(ins) > 0 && len(outs) > 0 && rng.Intn(5) > 0 {
					a, b := ins[rng.Intn(len(ins))], outs[rng.Intn(len(outs))]
					if rng.Intn(2) == 0 {
						a, b = b, a
					}
					name, args = "AddBond", []interface{}{a, b}
				} else {
					name, args = "AddBond", []interface{}{pick(), pick()}
				}
			case c < 18:
				name, args = "DelBond", []interface{}{rng.Intn(len(bm.Links) + 1)}
			default:
				if len(bm.Processors) >= maxProc || bm.Outputs >= maxOut {
					continue
				}
				outs := bm.List_internal_outputs()
				if len(outs) > 0 && rng.Intn(4) > 0 {
					name, args = "AttachBC", []interface{}{outs[rng.Intn(len(outs))], outs[rng.Intn(len(outs))]}
				} else {
					name, args = "AttachBC", []interface{}{pick(), pick()}
				}
			}
			ev, err := applyTopoEdit(bm, name, args)
			if err != nil {
				r.Violate("panic:"+name, err.Error(), map[string]interface{}{"history_seed": r.Seed, "history": h, "step": k})
				break
			}
			ev.Post = readTopo(bm)
			emit(ev, seg)
			actionsSeen[name]++
			r.Distinct(name + "|" + strings.Join(ev.Post.Iin, ",") + "|" + fmt.Sprint(ev.Post.Links))
		}
		histories++
	}
	// ---- 3b. the command line: lists of external inputs / outputs deleted in one call ---------------
	cliRuns, ok := c10CommandLine(r, scratch, emit, &nEvents)
	if !ok {
		return
	}
	r.Set("command_line_list_deletions", cliRuns)
	tf.Close()
	r.Set("random_histories", histories)
	r.Set("trace_events", int64(nEvents))

	// ---- 4. the verdict: TLC validates everything the real object did against BMTopologyAbs --
	validateTopoTrace(r, tracePath, nEvents, lineOf, segStart, replayed+histories)
}

func validateTopoTrace(r *evid.Run, tracePath string, nEvents int, lineOf map[int]topoEvent, segStart map[int]int, nTraces int64) {
	vres, err := tlc.Run(tlc.Options{SpecDir: specDir, Module: "BMTopologyTrace", Cfg: "BMTopologyTrace.cfg", Workers: 1,
		Env: map[string]string{"TRACE": tracePath}, Timeout: 30 * time.Minute})
	if err != nil {
		r.Inconclusive("tlc trace validation: %v", err)
		return
	}
	rejects := reReject.FindAllStringSubmatch(vres.Stdout, -1)
	for _, m := range rejects {
		line, _ := strconv.Atoi(m[1])
		ev := lineOf[line]
		seg := segStart[line]
		var segment []topoEvent
		for i := seg; i <= line; i++ {
			segment = append(segment, lineOf[i])
		}
		sig := ev.Ev + ":" + m[2]
		r.Violate(sig, fmt.Sprintf("after %s the real Bondmachine disagrees with the named-bond model: %s (trace line %d)", ev.Ev, m[2], line), segment)
	}
	if vres.Violation != "" || !strings.Contains(vres.Stdout, "No error has been found") {
		if len(rejects) == 0 {
			r.Inconclusive("trace validation did not complete (%s %s): %s", vres.Violation, vres.ViolationName, tailStr(vres.Stdout, 1200))
		}
		return
	}
	r.Set("traces_validated_against_impl", nTraces)
	r.Set("trace_validation_states", vres.Distinct)
	r.Set("rejected_events", int64(len(rejects)))
}

func tailStr(s string, n int) string {
	if len(s) > n {
		return s[len(s)-n:]
	}
	return s
}

// c10CommandLine saves a machine with three external inputs and three external outputs bonded to a
// processor, runs the real `bondmachine -del-outputs <list>` / `-del-inputs <list>` on the file for
// lists in every order (with repetitions and ids that do not exist), reloads the file and logs the
// result for BMTopologyTrace (events CliDelOutputs / CliDelInputs).
func c10CommandLine(r *evid.Run, scratch string, emit func(topoEvent, int), nEvents *int) (int64, bool) {
	bin, err := buildTool(scratch, "bondmachine")
	if err != nil {
		r.Inconclusive("%v", err)
		return 0, false
	}
	lists := [][]int{{0}, {2}, {0, 1}, {1, 0}, {0, 2}, {2, 0}, {1, 2}, {2, 1}, {0, 1, 2}, {2, 1, 0}, {1, 2, 0}, {2, 0, 1}, {1, 1}, {2, 0, 2}, {5, 0}, {0, 5, 1}}
	var runs int64
	for _, side := range []string{"outputs", "inputs"} {
		for _, ks := range lists {
			bm := newTopoBM([]topoDom{{3, 3}})
			bm.Add_processor(0)
			for i := 0; i < 3; i++ {
				bm.Add_input()
				bm.Add_output()
			}
			// i0 -> p0i1, i1 -> p0i2, i2 -> o1 ; p0o0 -> o2, p0o2 -> o0 : every port has its own partner
			for _, b := range [][]string{{"p0i1", "i0"}, {"p0i2", "i1"}, {"o1", "i2"}, {"o2", "p0o0"}, {"o0", "p0o2"}} {
				bm.Add_bond(b)
			}
			seg := *nEvents + 1
			emit(topoEvent{Ev: "set", Post: readTopo(bm)}, seg)
			dir := filepath.Join(scratch, "cli")
			os.MkdirAll(dir, 0o755)
			file := filepath.Join(dir, "bm.json")
			b, _ := json.Marshal(bm.Jsoner())
			os.WriteFile(file, b, 0o644)
			var parts []string
			for _, k := range ks {
				parts = append(parts, strconv.Itoa(k))
			}
			out, err := runTool(dir, nil, 60*time.Second, bin, "-bondmachine-file", "bm.json", "-del-"+side, strings.Join(parts, ","))
			if err != nil {
				r.Violate("command-line:del-"+side+":fails", fmt.Sprintf("bondmachine -del-%s %s fails: %v %s", side, strings.Join(parts, ","), err, tailStr(out, 300)), nil)
				continue
			}
			nb, err := os.ReadFile(file)
			if err != nil {
				r.Inconclusive("cannot read back %s: %v", file, err)
				return runs, false
			}
			re, err := loadMachine(nb)
			if err != nil {
				r.Violate("command-line:del-"+side+":unloadable", fmt.Sprintf("the file written by bondmachine -del-%s %s cannot be loaded: %v", side, strings.Join(parts, ","), err), nil)
				continue
			}
			name := "CliDelOutputs"
			if side == "inputs" {
				name = "CliDelInputs"
			}
			emit(topoEvent{Ev: name, Ks: ks, Post: readTopo(re)}, seg)
			runs++
		}
	}
	return runs, true
}
