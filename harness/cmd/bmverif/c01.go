package main

import (
	"encoding/json"
	"fmt"
	"io"
	"log"
	"os"
	"path/filepath"
	"sort"
	"strconv"
	"strings"
	"time"

	"github.com/BondMachineHQ/BondMachine/pkg/basm"
	"github.com/BondMachineHQ/BondMachine/pkg/bmconfig"
	"github.com/BondMachineHQ/BondMachine/pkg/bmreqs"
	"github.com/BondMachineHQ/BondMachine/pkg/bondmachine"
	"github.com/BondMachineHQ/BondMachine/pkg/procbuilder"

	"verif/harness/bmgen"
	"verif/harness/evid"
	"verif/harness/tlaval"
	"verif/harness/tlc"
	"verif/harness/vlog"
)

// C01 — generated processor HDL executes programs exactly as the ISA simulator does.
//
// BMProcSem is the instruction-set semantics of one processor.  TLC -simulate builds programs over
// an architecture and an opcode set and executes them in the specification: the execution steps of
// a behaviour are the expected retire trace.  The harness assembles each program with the real
// assembler, runs it on the real simulator (tick by tick) and on the real generated Verilog (clock
// by clock, in the Verilog interpreter) and compares the architectural state — program counter,
// register file, RAM, output ports — after every retired instruction, all three ways.

func init() { register("C01", "model_checking", runC01) }

type procLine struct {
	Op   string
	A, B int
}

func (l procLine) asm() string {
	switch l.Op {
	case "nop":
		return "nop"
	case "clr", "inc", "dec", "cil", "cir":
		return fmt.Sprintf("%s r%d", l.Op, l.A)
	case "rset":
		return fmt.Sprintf("rset r%d %d", l.A, uint64(l.B))
	case "j":
		return fmt.Sprintf("j %d", l.A)
	case "jz":
		return fmt.Sprintf("jz r%d %d", l.A, l.B)
	case "i2r":
		return fmt.Sprintf("i2r r%d i%d", l.A, l.B)
	case "r2o":
		return fmt.Sprintf("r2o r%d o%d", l.A, l.B)
	case "r2m", "m2r":
		return fmt.Sprintf("%s r%d %d", l.Op, l.A, l.B)
	case "ro2rri":
		return fmt.Sprintf("ro2rri r%d r%d", l.A, l.B)
	}
	return fmt.Sprintf("%s r%d r%d", l.Op, l.A, l.B)
}

type procProg struct {
	Arch   procArch
	Lines  []procLine
	Inputs []uint64
	Trace  []archState // expected state after every retired instruction (the program counter moved)
	Via    []int       // index of the line whose execution produced Trace[i]
}

func (p procProg) text() string {
	var sb strings.Builder
	for _, l := range p.Lines {
		sb.WriteString(l.asm() + "\n")
	}
	return sb.String()
}

func fnVals(v tlaval.Value, n int) []uint64 {
	out := make([]uint64, n)
	for _, kv := range tlaval.AsFun(v) {
		i := int(tlaval.Int(kv.K))
		if i >= 0 && i < n {
			out[i] = uint64(tlaval.Int(kv.V))
		}
	}
	return out
}

// procArch is the architecture of the single processor under test.
type procArch struct {
	RSize, R, N, M, L int
	ND                int // ROM data words after the program
	Ops               []string
}

// archState is the architectural state of a processor at a retire point.
type archState struct {
	Pc   uint64
	Regs []uint64
	Mem  []uint64
	Outs []uint64
}

func (s archState) String() string {
	return fmt.Sprintf("pc=%d regs=%v mem=%v outs=%v", s.Pc, s.Regs, s.Mem, s.Outs)
}

func (s archState) equal(o archState) bool { return s.String() == o.String() }

// buildProcBM builds a real Bondmachine with one processor of the architecture running prog, all its
// inputs bonded to external inputs and all its outputs to external outputs.
func buildProcBM(a procArch, prog string) (*bondmachine.Bondmachine, error) {
	m, err := mkMachine(a.RSize, a.R, a.N, a.M, a.L, a.Ops, prog)
	if err != nil {
		return nil, err
	}
	if a.ND > 0 {
		// the ROM holds the program followed by the data words DataVal(k) of BMProcSem; the program is
		// assembled again with an address field wide enough for both
		lines := strings.Count(strings.TrimSpace(prog), "\n") + 1
		m.Arch.O = uint8(romBits(lines + a.ND))
		p, err := m.Arch.Assembler([]byte(prog))
		if err != nil {
			return nil, err
		}
		m.Program = p
		for k := 0; k < a.ND; k++ {
			v := 37*uint64(k+1) + 11 // below 2^8 for the three words used
			w := strconv.FormatUint(v, 2)
			for len(w) < m.Arch.Max_word() {
				w = "0" + w
			}
			m.Data.Vars = append(m.Data.Vars, w)
		}
	}
	bm := newBM(a.RSize)
	addProc(bm, m)
	for i := 0; i < a.N; i++ {
		bm.Add_input()
		bm.Add_bond([]string{"p0i" + strconv.Itoa(i), "i" + strconv.Itoa(i)})
	}
	for i := 0; i < a.M; i++ {
		bm.Add_output()
		bm.Add_bond([]string{"o" + strconv.Itoa(i), "p0o" + strconv.Itoa(i)})
	}
	return bm, nil
}

// simTrace runs the real simulator and records the architectural state after every tick in which the
// program counter moved (a retired instruction), up to nRetire states.
func simTrace(a procArch, prog string, inputs []uint64, nRetire, maxTicks int) (trace []archState, err error) {
	defer func() {
		if e := recover(); e != nil {
			err = fmt.Errorf("simulator panic: %v", e)
		}
	}()
	bm, err := buildProcBM(a, prog)
	if err != nil {
		return nil, err
	}
	vm, err := startVM(bm, nil)
	if err != nil {
		return nil, err
	}
	defer vm.Stop()
	for i, v := range inputs {
		vm.Inputs_regs[i] = regVal(a.RSize, v)
	}
	p := vm.Processors[0]
	read := func() archState {
		s := archState{Pc: p.Pc}
		for _, r := range p.Registers {
			s.Regs = append(s.Regs, u64(r))
		}
		if a.L > 0 {
			for _, m := range p.Memory {
				s.Mem = append(s.Mem, u64(m))
			}
		}
		for _, o := range p.Outputs {
			s.Outs = append(s.Outs, u64(o))
		}
		return s
	}
	for t := 0; t < maxTicks && len(trace) < nRetire; t++ {
		before := p.Pc
		if _, err := vm.Step(nil); err != nil {
			return trace, err
		}
		if p.Pc != before {
			trace = append(trace, read())
		}
	}
	return trace, nil
}

// hdlTrace runs the generated Verilog of the same machine clock by clock and records the
// architectural state after every clock in which _pc moved.
func hdlTrace(a procArch, prog string, inputs []uint64, nRetire, maxClocks int, conf func(*bondmachine.Bondmachine) (*vlog.Sim, error)) (trace []archState, err error) {
	bm, err := buildProcBM(a, prog)
	if err != nil {
		return nil, err
	}
	var sim *vlog.Sim
	if conf != nil {
		sim, err = conf(bm)
	} else {
		sim, _, err = elaborateBM(bm)
	}
	if err != nil {
		return nil, err
	}
	for i, v := range inputs {
		sim.Set("i"+strconv.Itoa(i), v)
	}
	sim.Set("reset", 1)
	if err := sim.Step("clk"); err != nil {
		return nil, err
	}
	sim.Set("reset", 0)
	if err := sim.Settle(); err != nil {
		return nil, err
	}
	pp := procPath(0)
	ramName := "a0_inst.p0ram_instance.mem"
	for _, n := range sim.Names() {
		if strings.HasPrefix(n, "a0_inst.") && strings.Contains(n, "ram") {
			if _, isMem := sim.IsMem(n); isMem {
				ramName = n
			}
		}
	}
	if err := powerUpZero(sim); err != nil {
		return nil, err
	}
	get := func(n string) uint64 {
		v, known := sim.Get(n)
		if !known {
			return 1<<63 + 0xbad // unknown (X)
		}
		return v
	}
	read := func() archState {
		s := archState{Pc: get(pp + "_pc")}
		for r := 0; r < 1<<uint(a.R); r++ {
			s.Regs = append(s.Regs, get(pp+"_r"+strconv.Itoa(r)))
		}
		if a.L > 0 {
			for m := 0; m < 1<<uint(a.L); m++ {
				v, known := sim.GetMem(ramName, m)
				if !known {
					v = 0
				}
				s.Mem = append(s.Mem, v)
			}
		}
		for o := 0; o < a.M; o++ {
			s.Outs = append(s.Outs, get(pp+"_auxo"+strconv.Itoa(o)))
		}
		return s
	}
	for t := 0; t < maxClocks && len(trace) < nRetire; t++ {
		before := get(pp + "_pc")
		if err := sim.Step("clk"); err != nil {
			return trace, fmt.Errorf("clock %d: %v", t, err)
		}
		if get(pp+"_pc") != before {
			trace = append(trace, read())
		}
	}
	return trace, nil
}

// powerUpZero gives every register and memory cell that the reset leaves unknown the value zero:
// the power-up state of the FPGA targets (and the initial state of the simulator).  Without it
// Verilog's X values make `if (flag == 0)` take its else branch.
func powerUpZero(sim *vlog.Sim) error {
	for _, n := range sim.Names() {
		if sim.Kind(n) != "reg" {
			continue
		}
		if lo, hi, isMem := sim.MemRange(n); isMem {
			for i := lo; i <= hi; i++ {
				if _, known := sim.GetMem(n, i); !known {
					sim.SetMem(n, i, 0)
				}
			}
			continue
		}
		if _, known := sim.Get(n); !known {
			sim.Set(n, 0)
		}
	}
	return sim.Settle()
}

var c01AllOps = []string{"ro2rri", "nop", "clr", "inc", "dec", "cil", "cir", "cpy", "add", "sub", "mult", "and", "or", "xor", "nand", "nor", "xnor", "not", "rset", "j", "jz", "i2r", "r2o", "r2m", "m2r"}

// genProcPrograms runs TLC -simulate on BMProcSem for one architecture and opcode set.
func genProcPrograms(r *evid.Run, scratch string, a procArch, len0, budget, inputSeed, n int, seed int64) (progs []procProg, transitions int64, ok bool) {
	dir := filepath.Join(scratch, fmt.Sprintf("p_%d_%d_%d_%d_%d_%d", a.RSize, a.R, a.N, a.M, a.L, seed))
	os.MkdirAll(dir, 0o755)
	var q []string
	for _, o := range a.Ops {
		q = append(q, strconv.Quote(o))
	}
	n1, m1 := a.N, a.M
	if n1 == 0 {
		n1 = 1 // the specification's port sets are never empty; port opcodes are then not in OpSet
	}
	if m1 == 0 {
		m1 = 1
	}
	cfg := fmt.Sprintf("SPECIFICATION Spec\nCONSTANTS\n RSize = %d\n R = %d\n N = %d\n M = %d\n L = %d\n ND = %d\n Len0 = %d\n Budget = %d\n OpSet = {%s}\n InputSeed = %d\nINVARIANT TypeOK\nCHECK_DEADLOCK FALSE\n",
		a.RSize, a.R, n1, m1, a.L, a.ND, len0, budget, strings.Join(q, ", "), inputSeed)
	res, err := tlc.Run(tlc.Options{SpecDir: specDir, Module: "BMProcSem", CfgText: cfg, Workers: 1, Timeout: 20 * time.Minute,
		Args: []string{"-simulate", fmt.Sprintf("file=%s/b,num=%d", dir, n), "-depth", strconv.Itoa(len0 + budget + 3), "-seed", strconv.FormatInt(seed, 10)}})
	if err != nil {
		r.Inconclusive("tlc simulate BMProcSem: %v", err)
		return nil, 0, false
	}
	if res.Violation != "" {
		r.Inconclusive("TLC rejects BMProcSem: %s %s", res.Violation, res.ViolationName)
		return nil, 0, false
	}
	mod := uint64(1) << uint(a.RSize)
	var inputs []uint64
	for k := 1; k <= a.N; k++ {
		inputs = append(inputs, (uint64(inputSeed)*uint64(k)+3)%mod)
	}
	files, _ := filepath.Glob(filepath.Join(dir, "b_*"))
	sort.Strings(files)
	for _, f := range files {
		beh, err := tlc.ParseSimFile(f)
		if err != nil || len(beh) == 0 {
			r.Inconclusive("parse %s: %v", f, err)
			return nil, 0, false
		}
		last := beh[len(beh)-1].Vars
		p := procProg{Arch: a, Inputs: inputs}
		for _, lv := range tlaval.AsSeq(last["prog"]) {
			rec := tlaval.AsRec(lv)
			p.Lines = append(p.Lines, procLine{tlaval.Str(rec["op"]), int(tlaval.Int(rec["a"])), int(tlaval.Int(rec["b"]))})
		}
		if len(p.Lines) != len0 {
			continue
		}
		prevPc := -1
		for _, st := range beh {
			if tlaval.Str(st.Vars["phase"]) != "run" {
				continue
			}
			if tlaval.Bool(st.Vars["havoc"]) {
				break // a ROM read outside the data words: the specification stops here
			}
			pc := int(tlaval.Int(st.Vars["pc"]))
			if prevPc >= 0 && pc != prevPc {
				s := archState{Pc: uint64(pc), Regs: fnVals(st.Vars["regs"], 1<<uint(a.R))}
				if a.L > 0 {
					s.Mem = fnVals(st.Vars["mem"], 1<<uint(a.L))
				}
				if a.M > 0 {
					s.Outs = fnVals(st.Vars["outs"], a.M)
				}
				p.Trace = append(p.Trace, s)
				p.Via = append(p.Via, prevPc)
			}
			prevPc = pc
		}
		progs = append(progs, p)
		transitions += int64(len(beh))
	}
	os.RemoveAll(dir)
	return progs, transitions, true
}

// firstDiff returns the index of the first retired state in which two traces differ (-1: the
// shorter is a prefix of the longer; short reports that one trace ended early).
func firstDiff(a, b []archState) (idx int, short bool) {
	for i := 0; i < len(a) && i < len(b); i++ {
		if !a[i].equal(b[i]) {
			return i, false
		}
	}
	if len(a) != len(b) {
		if len(a) < len(b) {
			return len(a), true
		}
		return len(b), true
	}
	return -1, false
}

func runC01(r *evid.Run) {
	scratch, err := os.MkdirTemp("", "bmverif-c01-")
	if err != nil {
		r.Inconclusive("mktemp: %v", err)
		return
	}
	defer os.RemoveAll(scratch)
	var progs []procProg
	var transitions int64
	add := func(a procArch, len0, budget, n int, seed int64) bool {
		ps, tr, ok := genProcPrograms(r, scratch, a, len0, budget, 77, n, seed)
		progs = append(progs, ps...)
		transitions += tr
		return ok
	}
	// The co-implemented set.  Outside it: sub, r2m (the simulator's Simulate is a stub that only
	// advances the program counter: the simulator has no subtraction and no RAM writes) and m2r
	// (recorded finding: the simulator's m2r loads the address as an immediate and never retires).
	co := []string{}
	for _, op := range c01AllOps {
		if op != "sub" && op != "r2m" && op != "m2r" {
			co = append(co, op)
		}
	}
	// one opcode at a time on top of a base that can load, move and show values
	base := []string{"rset", "j", "r2o", "cpy", "inc"}
	for i, op := range append(append([]string{}, co...), "m2r", "r2m") {
		a := procArch{RSize: 8, R: 2, N: 1, M: 2, L: 0, Ops: append(append([]string{}, base...), op)}
		if op == "m2r" {
			a.L = 2 // a processor that reads its RAM and never writes it
		}
		if op == "r2m" {
			a.L = 2
			a.Ops = append(a.Ops, "m2r")
		}
		if op != "i2r" {
			a.N = 0
		}
		if op == "ro2rri" {
			a.ND = 3
		}
		a.Ops = uniqueSorted(a.Ops)
		if !add(a, 8, 24, r.Pick(8, 60), r.Seed*31+int64(i)) {
			return
		}
	}
	// every co-implemented opcode together, over architectures that differ in every field width
	for i, a := range []procArch{
		{RSize: 8, R: 2, N: 2, M: 2, L: 0}, {RSize: 16, R: 1, N: 1, M: 1, L: 0}, {RSize: 8, R: 3, N: 3, M: 3, L: 0},
		{RSize: 16, R: 2, N: 2, M: 4, L: 0}, {RSize: 8, R: 1, N: 1, M: 2, L: 0}, {RSize: 8, R: 2, N: 4, M: 2, L: 0}, {RSize: 16, R: 2, N: 3, M: 1, L: 0}} {
		a.Ops = uniqueSorted(co)
		a.ND = 3
		if !add(a, 12, 40, r.Pick(12, 120), r.Seed*37+int64(i)) {
			return
		}
	}
	// processors with ports that no instruction of theirs drives or reads (a port a front-end declared
	// and the program never uses): one input and one output, two outputs, inputs only
	for i, a := range []procArch{{RSize: 8, R: 2, N: 1, M: 1, L: 0}, {RSize: 8, R: 2, N: 0, M: 2, L: 0}, {RSize: 16, R: 2, N: 2, M: 0, L: 0}} {
		a.Ops = uniqueSorted([]string{"rset", "j", "cpy", "inc", "add", "dec"})
		if !add(a, 8, 24, r.Pick(4, 30), r.Seed*47+int64(i)) {
			return
		}
	}
	// register sizes beyond TLC's integers: the programs of the 16-bit specification are run on
	// 32- and 64-bit processors, where the two back-ends are compared with each other only
	nSpec := len(progs)
	for i, rs := range []int{32, 64} {
		a := procArch{RSize: 16, R: 2, N: 2, M: 2, L: 0, ND: 3, Ops: uniqueSorted(co)}
		ps, tr, ok := genProcPrograms(r, scratch, a, 12, 40, 77, r.Pick(10, 80), r.Seed*41+int64(i))
		if !ok {
			return
		}
		transitions += tr
		for _, p := range ps {
			p.Arch.RSize = rs
			// every other immediate gets the top bit of the wide register set (not in programs that read
			// the ROM through a register: a pointer stays a data address)
			lines := append([]procLine{}, p.Lines...)
			pointers := false
			for _, l := range lines {
				pointers = pointers || l.Op == "ro2rri"
			}
			for li := range lines {
				if !pointers && lines[li].Op == "rset" && li%2 == 0 && lines[li].B < 1<<16 {
					lines[li].B = int(uint64(lines[li].B) | 1<<uint(rs-1))
				}
			}
			p.Lines = lines
			progs = append(progs, p)
		}
	}
	r.Set("states", int64(len(progs)))
	r.Set("transitions", transitions)
	var compared, retired, agree int64
	perOp := map[string]int64{}
	jobs := make([]simJob, len(progs))
	for i, p := range progs {
		jobs[i] = simJob{p.Arch, p.text(), p.Inputs, len(p.Trace)}
	}
	simResults, err := simTraces(scratch, jobs)
	if err != nil {
		r.Inconclusive("cannot run the simulator children: %v", err)
		return
	}
	for pi, p := range progs {
		text := p.text()
		want := len(p.Trace)
		withSpec := pi < nSpec
		ctx := map[string]interface{}{"architecture": p.Arch, "program": strings.Split(strings.TrimSpace(text), "\n"), "inputs": p.Inputs}
		st := simResults[pi].Trace
		var serr error
		if simResults[pi].Err != "" {
			serr = fmt.Errorf("%s", simResults[pi].Err)
		}
		ht, herr := hdlTrace(p.Arch, text, p.Inputs, want, 12*want+60, nil)
		if serr != nil && herr != nil && strings.Contains(serr.Error(), "error processing") {
			r.Inconclusive("the assembler rejects a program of the specification: %v\n%s", serr, text)
			return
		}
		compared++
		opAt := func(i int) string {
			if i < len(p.Via) {
				return p.Lines[p.Via[i]].Op
			}
			return "end"
		}
		describe := func(i int) string {
			get := func(t []archState) string {
				if i < len(t) {
					return t[i].String()
				}
				return "(no further retired instruction)"
			}
			line := "?"
			if i < len(p.Via) {
				line = fmt.Sprintf("line %d `%s`", p.Via[i], p.Lines[p.Via[i]].asm())
			}
			spec := get(p.Trace)
			if !withSpec {
				spec = "(register size beyond the specification)"
			}
			return fmt.Sprintf("retired instruction %d (%s): specification %s | simulator %s | generated Verilog %s", i, line, spec, get(st), get(ht))
		}
		if serr != nil || herr != nil {
			ctx["simulator_error"], ctx["hdl_error"] = fmt.Sprint(serr), fmt.Sprint(herr)
			who := "simulator"
			if herr != nil {
				who = "hdl"
			}
			var special []string
			for _, o := range p.Arch.Ops {
				if o != "rset" && o != "j" && o != "r2o" && o != "cpy" && o != "inc" {
					special = append(special, o)
				}
			}
			if len(p.Arch.Ops) > 8 {
				special = []string{"mixed"}
			}
			usesPorts := false
			for _, o := range p.Arch.Ops {
				usesPorts = usesPorts || o == "r2o" || o == "i2r"
			}
			if !usesPorts && p.Arch.N+p.Arch.M > 0 {
				special = []string{"ports-no-instruction-uses"}
			}
			r.Violate("cannot-run:"+who+":"+strings.Join(special, "+"), fmt.Sprintf("a program over %v cannot be executed by the %s: %v %v", p.Arch.Ops, who, serr, herr), ctx)
			continue
		}
		// the property: the two back-ends agree at every retire point
		if i, _ := firstDiff(st, ht); i >= 0 {
			si, _ := firstDiff(p.Trace, st)
			hi, _ := firstDiff(p.Trace, ht)
			who := "both"
			if !withSpec {
				si, hi = -2, -2
				who = "no-reference"
			}
			switch {
			case si == i && (hi < 0 || hi > i):
				who = "simulator-deviates"
			case hi == i && (si < 0 || si > i):
				who = "hdl-deviates"
			}
			ctx["divergence"] = describe(i)
			if (opAt(i) == "m2r" || opAt(i) == "r2m") && who == "simulator-deviates" {
				r.Violate("sim-hdl-differ:ram:simulator-has-no-ram", "the generated Verilog and the simulator disagree on a RAM access at "+describe(i), ctx)
				continue
			}
			r.Violate(fmt.Sprintf("sim-hdl-differ:%s:%s:rsize%d", opAt(i), who, p.Arch.RSize), "the generated Verilog and the simulator disagree at "+describe(i), ctx)
			continue
		}
		if i, _ := firstDiff(p.Trace, st); withSpec && i >= 0 {
			ctx["divergence"] = describe(i)
			r.Violate(fmt.Sprintf("both-differ-from-isa:%s:rsize%d", opAt(i), p.Arch.RSize), "the simulator and the generated Verilog agree with each other but not with the instruction-set semantics at "+describe(i), ctx)
			continue
		}
		agree++
		retired += int64(want)
		for _, l := range p.Lines {
			perOp[l.Op]++
		}
		r.Distinct(fmt.Sprintf("%v|%s", p.Arch, text))
		if compared%23 == 1 {
			r.Sample(map[string]interface{}{"architecture": p.Arch, "program": text, "retired": want})
		}
	}
	// ---- hardware optimisations derived from the program never change the behaviour ------------------------
	optProgs, optAgree := c01Optimisations(r, scratch)
	if optProgs < 0 {
		return
	}
	r.Set("programs_rendered_with_and_without_hw_optimisations", optProgs)
	r.Set("optimised_hardware_agreeing_clock_by_clock", optAgree)
	r.Set("programs", int64(len(progs)))
	r.Set("programs_agreeing_three_ways", agree)
	r.Set("retired_instructions_compared", retired)
	for op, c := range perOp {
		r.Set("agreeing_programs_using:"+op, c)
	}
	r.Set("evaluations", compared)
}

func uniqueSorted(xs []string) []string {
	m := map[string]bool{}
	for _, x := range xs {
		m[x] = true
	}
	out := make([]string, 0, len(m))
	for x := range m {
		out = append(out, x)
	}
	sort.Strings(out)
	return out
}

// c01Optimisations renders BasmSem programs (assembled by the real assembler, whose requirement
// tree drives the optimisations) with no hardware optimisation and with onlydestregs / onlysrcregs,
// runs every rendering in the handshaking environment and compares, clock by clock, the program
// counter and the registers of the optimised hardware with the plain one, and the output streams
// with the specification's.
func c01Optimisations(r *evid.Run, scratch string) (n, agree int64) {
	progs, _, ok := genBasmPrograms(r, scratch, 8, 8, 40, 1, false, false, false, r.Pick(90, 500), r.Seed*47+5)
	if !ok {
		return -1, 0
	}
	input := func(port, k int) uint64 { return uint64(k+1) % 256 }
	for _, p := range progs {
		src, outMap, wired := basmText(p)
		if !wired {
			continue
		}
		bm, bi, err := func() (bm *bondmachine.Bondmachine, bi *basm.BasmInstance, err error) {
			defer func() {
				if e := recover(); e != nil {
					err = fmt.Errorf("panic: %v", e)
				}
			}()
			so, lo := os.Stdout, log.Writer()
			if dn, e := os.OpenFile(os.DevNull, os.O_WRONLY, 0); e == nil {
				os.Stdout = dn
				defer func() { os.Stdout = so; dn.Close() }()
			}
			log.SetOutput(io.Discard)
			defer log.SetOutput(lo)
			return bmgen.AssembleBasmOpts(src, bmconfig.ChooserMinWordSize, bmconfig.ChooserForceSameName)
		}()
		if err != nil {
			continue // C05 judges
		}
		reqs := bi.DumpRequirements()
		rg, _ := bmreqs.Import(&reqs)
		n++
		want := 0
		exp := make([][]uint64, len(outMap))
		for _, o := range p.Outs {
			for k, port := range outMap {
				if port == int(o[0]) {
					exp[k] = append(exp[k], o[1])
					if len(exp[k]) > want {
						want = len(exp[k])
					}
				}
			}
		}
		type rendering struct {
			name  string
			flags procbuilder.HwOptimizations
		}
		var plain []string
		var plainOuts [][]uint64
		okAll := true
		for _, rd := range []rendering{{"plain", 0}, {"onlydestregs", procbuilder.HwOptimizations(procbuilder.OnlyDestRegs)},
			{"onlysrcregs", procbuilder.HwOptimizations(procbuilder.OnlySrcRegs)}, {"onlydestregs+onlysrcregs", procbuilder.HwOptimizations(procbuilder.OnlyDestRegs | procbuilder.OnlySrcRegs)}} {
			conf := new(bondmachine.Config)
			conf.ReqRoot = rg
			conf.HwOptimizations = rd.flags
			ctx := map[string]interface{}{"source": src, "optimisations": rd.name}
			files, order, err := bmgen.VerilogFiles(bm, conf, "iverilog")
			if err != nil {
				r.Violate("hw-optimisation:cannot-render:"+rd.name, fmt.Sprintf("Verilog generation with %s fails: %v", rd.name, err), ctx)
				okAll = false
				break
			}
			var srcs []string
			for _, fn := range order {
				srcs = append(srcs, files[fn])
			}
			d, err := vlog.Parse(srcs...)
			var sim *vlog.Sim
			if err == nil {
				sim, err = vlog.Elaborate(d, "bondmachine")
			}
			if err != nil {
				r.Violate("hw-optimisation:invalid-verilog:"+rd.name, fmt.Sprintf("the Verilog generated with %s does not elaborate: %v", rd.name, err), ctx)
				okAll = false
				break
			}
			var trace []string
			pp := procPath(0)
			hdlClockHook = func(s *vlog.Sim) {
				line := ""
				for _, nme := range []string{"_pc", "_r0", "_r1", "_r2", "_r3"} {
					if s.Has(pp + nme) {
						v, known := s.Get(pp + nme)
						line += fmt.Sprintf("%s=%d/%v ", nme, v, known)
					}
				}
				trace = append(trace, line)
			}
			res, err := runEnvHdl(sim, bm.Inputs, bm.Outputs, input, 30*p.Steps+200, want, 0, 0)
			hdlClockHook = nil
			if err != nil {
				r.Violate("hw-optimisation:cannot-run:"+rd.name, fmt.Sprintf("the Verilog generated with %s cannot be executed: %v", rd.name, err), ctx)
				okAll = false
				break
			}
			if rd.name == "plain" {
				plain, plainOuts = trace, res.Outs
				// the plain hardware delivers the specification's streams (C05 checks the simulator)
				for k := range outMap {
					for i, v := range exp[k] {
						if k >= len(res.Outs) || i >= len(res.Outs[k]) || res.Outs[k][i] != v {
							ctx["expected"], ctx["generated_verilog"] = exp, res.Outs
							if len(p.AscOuts) > 0 && p.Entry != 0 {
								// the recorded C05 deviation (entry directive ignored) is the assembler's, not the hardware's
								okAll = false
								break
							}
							r.Violate("hw:streams-differ-from-source", fmt.Sprintf("the generated hardware of an assembled program delivers %v, the source sends %v", res.Outs, exp), ctx)
							okAll = false
							break
						}
					}
					if !okAll {
						break
					}
				}
				if !okAll {
					break
				}
				continue
			}
			for i := 0; i < len(plain) && i < len(trace); i++ {
				if plain[i] != trace[i] {
					ctx["clock"], ctx["plain"], ctx["optimised"] = i, plain[i], trace[i]
					r.Violate("hw-optimisation:behaviour-changes:"+rd.name, fmt.Sprintf("with %s the hardware differs from the plain hardware at clock %d: %s instead of %s", rd.name, i, trace[i], plain[i]), ctx)
					okAll = false
					break
				}
			}
			if okAll && fmt.Sprint(res.Outs) != fmt.Sprint(plainOuts) {
				ctx["plain"], ctx["optimised"] = plainOuts, res.Outs
				r.Violate("hw-optimisation:streams-change:"+rd.name, fmt.Sprintf("with %s the output streams are %v instead of %v", rd.name, res.Outs, plainOuts), ctx)
				okAll = false
			}
			if !okAll {
				break
			}
		}
		if okAll {
			agree++
		}
	}
	return n, agree
}

// ---- the simulator runs in child processes: a panic in one of its worker goroutines kills the
// process, and a simulator that crashes on a program is a verdict, not a harness failure ----------

type simJob struct {
	Arch   procArch `json:"arch"`
	Text   string   `json:"text"`
	Inputs []uint64 `json:"inputs"`
	Want   int      `json:"want"`
}

type simJobResult struct {
	Idx   int         `json:"idx"`
	Trace []archState `json:"trace"`
	Err   string      `json:"err"`
}

// c01Child: `bmverif C01-child <jobs.json> <from> <out.ndjson>` runs the simulator on jobs[from:].
func c01Child(jobsPath, fromS, outPath string) int {
	b, err := os.ReadFile(jobsPath)
	if err != nil {
		return 2
	}
	var jobs []simJob
	if json.Unmarshal(b, &jobs) != nil {
		return 2
	}
	from, _ := strconv.Atoi(fromS)
	f, err := os.OpenFile(outPath, os.O_APPEND|os.O_CREATE|os.O_WRONLY, 0o644)
	if err != nil {
		return 2
	}
	defer f.Close()
	enc := json.NewEncoder(f)
	for i := from; i < len(jobs); i++ {
		j := jobs[i]
		tr, err := simTrace(j.Arch, j.Text, j.Inputs, j.Want, 6*j.Want+40)
		res := simJobResult{Idx: i, Trace: tr}
		if err != nil {
			res.Err = err.Error()
		}
		enc.Encode(res)
		f.Sync()
	}
	return 0
}

// simTraces runs every job in child processes and returns, per job, the trace or the error; a job
// on which the child died is reported as a crash with the tail of the child's output.
func simTraces(scratch string, jobs []simJob) ([]simJobResult, error) {
	self, err := os.Executable()
	if err != nil {
		return nil, err
	}
	jb, _ := json.Marshal(jobs)
	jobsPath := filepath.Join(scratch, "simjobs.json")
	outPath := filepath.Join(scratch, "simout.ndjson")
	os.WriteFile(jobsPath, jb, 0o644)
	os.Remove(outPath)
	results := make([]simJobResult, len(jobs))
	done := 0
	for done < len(jobs) {
		out, _ := runTool(scratch, nil, 20*time.Minute, self, "C01-child", jobsPath, strconv.Itoa(done), outPath)
		got := 0
		readNDJSON(outPath, func(b []byte) error {
			var r simJobResult
			if json.Unmarshal(b, &r) == nil && r.Idx < len(results) {
				results[r.Idx] = r
				if r.Idx+1 > got {
					got = r.Idx + 1
				}
			}
			return nil
		})
		if got >= len(jobs) {
			break
		}
		if got < done {
			got = done
		}
		// the child died while it was running job `got`
		msg := "the simulator process died"
		if i := strings.Index(out, "panic:"); i >= 0 {
			msg = firstLine(out[i:])
		}
		results[got] = simJobResult{Idx: got, Err: "CRASH: " + msg}
		done = got + 1
	}
	return results, nil
}
