// bmverif: one binary, one subcommand per property. See /verif/DESIGN.md.
package main

import (
	"fmt"
	"os"
	"path/filepath"
	"strconv"

	"verif/harness/evid"
)

type checkFn func(r *evid.Run)

type checkDef struct {
	level string
	fn    checkFn
}

var checks = map[string]checkDef{}

func register(id, level string, fn checkFn) { checks[id] = checkDef{level, fn} }

var specDir = filepath.Join(evid.VerifDir, "spec")

func main() {
	if len(os.Args) < 3 {
		fmt.Fprintln(os.Stderr, "usage: bmverif <property> quick|thorough | bmverif <property> --replay <path>")
		os.Exit(2)
	}
	id := os.Args[1]
	if id == "C09-child" && len(os.Args) >= 4 {
		os.Exit(c09Child(os.Args[3]))
	}
	if id == "basm-run" && len(os.Args) >= 3 {
		os.Exit(basmRunCmd(os.Args[2]))
	}
	if id == "frag-run" && len(os.Args) >= 5 { // development aid: settle a fragment-graph source on two input values
		a, _ := strconv.ParseUint(os.Args[3], 10, 64)
		b, _ := strconv.ParseUint(os.Args[4], 10, 64)
		src, _ := os.ReadFile(os.Args[2])
		outs, err := fragRun(string(src), 16, []uint64{a, b})
		fmt.Println(outs, err)
		os.Exit(0)
	}
	if id == "go-run" && len(os.Args) >= 3 { // development aid: compile a Go source with bondgo and simulate it
		os.Exit(goRunCmd(os.Args[2]))
	}
	if id == "C01-child" && len(os.Args) >= 5 {
		os.Exit(c01Child(os.Args[2], os.Args[3], os.Args[4]))
	}
	if id == "C07-child" && len(os.Args) >= 5 {
		os.Exit(c07Child(os.Args[2], os.Args[3], os.Args[4]))
	}
	if id == "C17-child" && len(os.Args) >= 4 {
		os.Exit(c17Child(os.Args[3]))
	}
	def, ok := checks[id]
	if !ok {
		fmt.Fprintf(os.Stderr, "unknown property %s\n", id)
		os.Exit(2)
	}
	tier := os.Args[2]
	if tier == "--replay" {
		if len(os.Args) < 4 {
			fmt.Fprintln(os.Stderr, "--replay needs a path")
			os.Exit(2)
		}
		os.Setenv("VERIF_REPLAY", os.Args[3])
		tier = "quick"
	}
	if tier != "quick" && tier != "thorough" {
		fmt.Fprintf(os.Stderr, "unknown tier %s\n", tier)
		os.Exit(2)
	}
	run := evid.NewRun(id, tier, def.level)
	code := 2
	func() {
		defer func() {
			if e := recover(); e != nil {
				run.Inconclusive("harness panic: %v", e)
				code = run.Finish()
				if code == 0 {
					code = 2
				}
				panic(e)
			}
		}()
		def.fn(run)
		code = run.Finish()
	}()
	os.Exit(code)
}
