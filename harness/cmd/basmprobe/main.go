// basmprobe: development helper — assemble a .basm file and print each processor's disassembly.
package main

import (
	"fmt"
	"os"

	"github.com/BondMachineHQ/BondMachine/pkg/bmconfig"
	"verif/harness/bmgen"
)

func main() {
	src, _ := os.ReadFile(os.Args[1])
	bm, _, err := bmgen.AssembleBasmOpts(string(src), bmconfig.ChooserMinWordSize, bmconfig.ChooserForceSameName)
	if err != nil {
		fmt.Println("ERROR:", err)
		os.Exit(1)
	}
	fmt.Println("inputs", bm.Inputs, "outputs", bm.Outputs, "procs", bm.Processors, "links", bm.Links)
	fmt.Println("ii", bm.List_internal_inputs(), "io", bm.List_internal_outputs())
	for i, d := range bm.Domains {
		dis, _ := d.Disassembler()
		fmt.Printf("-- domain %d R=%d N=%d M=%d L=%d O=%d rsize=%d ops=%d data=%q\n%s", i, d.R, d.N, d.M, d.L, d.O, d.Rsize, len(d.Op), d.Data.Vars, dis)
	}
}
